(* C01_VerifyE2E.v — the entry point ( *verifier).Verify (verifier/verifier.go), END TO END.

   theories/C01_Gen.v holds the GoLite translation of the body of verifier.Verify, regenerated
   from /repo by `vh-gen` on every run (targets: harness/cmd/vh-gen/targets_c01.go).  Three calls
   leave that body and are ORACLES, i.e. universally quantified functions in every statement
   below:
     gatp  = ( *OCIDocument).GetApplicableTrustPolicy      (C08 owns its body)
     ps    = ( *verifier).processSignature: takes the outcome Verify built, returns the outcome
             it left and its error                         (C02 owns its body)
     unm   = json.Unmarshal into an envelope.Payload       (encoding/json)
   Everything else Verify calls is translated too and is used through its own equivalence
   theorem (C01_GenProofs): GetVerificationLevel, content.Equal, verifyUserMetadata.

   Contents
     1. [Verify_is_spec]      the generated body = a flat decision list [Verify_spec], ALL inputs
     2. [Verify_panics_iff]   exactly when the generated body panics (is None)
     3. the abstract inputs of the C01 model DEFINED from the oracles' answers, and
        [Verify_nonskip_is_model] / [Verify_skip_is_model]: the result is [verify_oci]
     4. C01_oci / C01_success_iff / C01_error_sticks / skip, transported onto the generated body *)
From Coq Require Import List Bool String Ascii NArith ZArith Lia.
From NV Require Import Base Regex Generated GoLib C01_Model C01_Proofs C01_Gen C01_GenProofs.
Import ListNotations.
Local Open Scope string_scope.
Local Open Scope list_scope.

(* ---------- facts about the level the code computes, against the model's ---------- *)

(* reflect.DeepEqual(verificationLevel, trustpolicy.LevelSkip), as the translation spells it *)
Definition skip_test (p : ptr trustpolicy_VerificationLevel) : bool :=
  ptr_deep_eqb (fun a b : trustpolicy_VerificationLevel =>
                  String.eqb (VerificationLevel_Name a) (VerificationLevel_Name b)
                  && map_deep_eqb String.eqb String.eqb (VerificationLevel_Enforcement a) (VerificationLevel_Enforcement b))
               p trustpolicy_LevelSkip.

(* `verificationLevel, _ := trustPolicy.SignatureVerification.GetVerificationLevel()`: the error is dropped *)
Definition level_ptr (sv : trustpolicy_SignatureVerification) : ptr trustpolicy_VerificationLevel :=
  match gen_trustpolicy_SignatureVerification_GetVerificationLevel sv with
  | Some (p, _) => p
  | None => PNil
  end.

(* GetVerificationLevel never panics *)
Lemma GetVL_total sv : exists p e, gen_trustpolicy_SignatureVerification_GetVerificationLevel sv = Some (p, e).
Proof.
  pose proof (gen_GetVerificationLevel_equiv sv) as G.
  destruct (get_level (sv_lvl sv) (sv_ov sv)) as [l|].
  - destruct G as [p [G _]]. eauto.
  - destruct G as [x G]. eauto.
Qed.

Lemma map_entries_nil {V} (m : list (string * V)) : map_entries String.eqb m = [] -> m = [].
Proof. destruct m as [|[k v] m]; [reflexivity|discriminate]. Qed.

(* a legal statement: the code's test is the model's [is_skip] *)
Lemma skip_test_legal sv l :
  get_level (sv_lvl sv) (sv_ov sv) = Some l -> skip_test (level_ptr sv) = is_skip l.
Proof.
  intros Hl. destruct (is_skip l) eqn:S.
  - pose proof (proj1 (skip_iff_named _ _ _ Hl) S) as En.
    destruct (get_level_base _ _ _ Hl) as [base [_ [[Hov _]|[_ [Hns _]]]]]; [|contradiction].
    destruct sv as [lvl ov ts]. unfold sv_lvl, sv_ov in *.
    cbn [SignatureVerification_VerificationLevel SignatureVerification_Override] in *.
    apply map_entries_nil in Hov. subst lvl ov. reflexivity.
  - pose proof (gen_GetVerificationLevel_equiv sv) as G. rewrite Hl in G.
    destruct G as [p [G [[c [Hc [Hn _]]] _]]].
    unfold level_ptr. rewrite G. unfold skip_test, ptr_deep_eqb. rewrite Hc.
    cbn [ptr_val trustpolicy_LevelSkip trustpolicy_LevelSkip_v VerificationLevel_Name].
    assert (N : String.eqb (VerificationLevel_Name c) "skip" = false).
    { apply String.eqb_neq. intros E. rewrite Hn in E.
      apply (level_name_skip _ _ _ Hl) in E. apply (skip_iff_named _ _ _ Hl) in E. congruence. }
    rewrite N. reflexivity.
Qed.

(* an illegal statement (which a validated document cannot contain): the error is dropped, the
   level is nil, and nil is not LevelSkip: the code goes on as for a level other than skip *)
Lemma skip_test_illegal sv :
  get_level (sv_lvl sv) (sv_ov sv) = None -> level_ptr sv = PNil /\ skip_test (level_ptr sv) = false.
Proof.
  intros Hl. pose proof (gen_GetVerificationLevel_equiv sv) as G. rewrite Hl in G.
  destruct G as [x G]. unfold level_ptr. rewrite G. split; reflexivity.
Qed.

(* the code skips exactly for the statement named skip without override *)
Lemma skip_test_iff sv : skip_test (level_ptr sv) = true <-> sv_lvl sv = "skip" /\ sv_ov sv = [].
Proof.
  destruct (get_level (sv_lvl sv) (sv_ov sv)) as [l|] eqn:Hl.
  - rewrite (skip_test_legal _ _ Hl). rewrite (skip_iff_named _ _ _ Hl). split.
    + intros E. split; [exact E|].
      destruct (get_level_base _ _ _ Hl) as [base [_ [[Hov _]|[_ [Hns _]]]]]; [exact Hov|contradiction].
    + tauto.
  - destruct (skip_test_illegal _ Hl) as [_ F]. rewrite F. split; [discriminate|].
    intros [E1 E2]. rewrite E1, E2 in Hl. vm_compute in Hl. discriminate.
Qed.

Lemma level_ptr_skip sv : sv_lvl sv = "skip" -> sv_ov sv = [] -> level_ptr sv = trustpolicy_LevelSkip.
Proof.
  destruct sv as [lvl ov ts]. unfold sv_lvl, sv_ov.
  cbn [SignatureVerification_VerificationLevel SignatureVerification_Override].
  intros E1 E2. apply map_entries_nil in E2. subst. reflexivity.
Qed.

(* the model's skip level *)
Definition model_skip_level : string * amap :=
  ("skip", match find_level "skip" gen_levels with Some sk => sk | None => [] end).

(* len(m) > 0 is false: the loop of verifyUserMetadata has nothing to visit *)
Lemma md_empty_passes payload md :
  (map_len String.eqb md >? 0)%Z = false -> gen_verifier_verifyUserMetadata payload md = None.
Proof.
  intros H. unfold map_len in H.
  destruct (map_entries String.eqb md) as [|kv es] eqn:E.
  - pose proof (gen_verifyUserMetadata_equiv payload md) as M.
    destruct (gen_verifier_verifyUserMetadata payload md); [|reflexivity].
    destruct M as [M _]. unfold md_ok, md_of in M. rewrite E in M. discriminate.
  - rewrite Z.gtb_ltb in H. apply Z.ltb_ge in H. cbn [List.length] in H. lia.
Qed.

(* ====================================================================== *)
Section E2E.

Variables C PM : Type.
Local Notation outcome := (notation_go_VerificationOutcome C).
Local Notation verifier := (verifier_verifier C PM).
Local Notation gerr := GoLib.err.

(* the three oracles *)
Variable gatp : ptr trustpolicy_OCIDocument -> string -> ptr trustpolicy_OCITrustPolicy * option gerr.
Variable ps : ptr verifier -> list Z -> string -> string -> list string -> list string
              -> trustpolicy_SignatureVerification -> list (string * string) -> outcome -> outcome * option gerr.
Variable unm : list Z -> envelope_Payload -> envelope_Payload * option gerr.

(* THE generated function *)
Definition Verify : verifier -> v1_Descriptor -> list Z -> notation_go_VerifierVerifyOptions
                    -> option (ptr outcome * option gerr) :=
  gen_verifier_verifier_Verify C gatp PM ps unm.

Local Notation doc_of v := (verifier_ociTrustPolicyDoc C PM v).
Local Notation ref_of opts := (VerifierVerifyOptions_ArtifactReference opts).
Local Notation md_of_opts opts := (VerifierVerifyOptions_UserMetadata opts).
Local Notation sv_of pol := (OCITrustPolicy_SignatureVerification pol).
Local Notation err_of o := (VerificationOutcome_Error C o).
Local Notation content_of o := (VerificationOutcome_EnvelopeContent C o).
Local Notation set_err e o := (set_VerificationOutcome_Error C e o).

(* ---------- the pieces of one call ---------- *)

(* outcome := &notation.VerificationOutcome{RawSignature: signature, VerificationLevel: verificationLevel} *)
Definition out0 (sig : list Z) (p : ptr trustpolicy_VerificationLevel) : outcome :=
  mk_VerificationOutcome C sig PNil p [] None.

(* payload := &envelope.Payload{} *)
Definition zero_payload : envelope_Payload := mk_Payload (mk_Descriptor "" "" 0 [] [] [] PNil "").

(* what processSignature answers for the statement [pol]: the arguments are the statement's
   name, identities, stores and level statement, the caller's media type and plugin config,
   and the fresh outcome *)
Definition ps_answer (v : verifier) (sig : list Z) (opts : notation_go_VerifierVerifyOptions)
    (pol : trustpolicy_OCITrustPolicy) : outcome * option gerr :=
  ps (PNew v) sig (VerifierVerifyOptions_SignatureMediaType opts) (OCITrustPolicy_Name pol)
     (OCITrustPolicy_TrustedIdentities pol) (OCITrustPolicy_TrustStores pol) (sv_of pol)
     (VerifierVerifyOptions_PluginConfig opts) (out0 sig (level_ptr (sv_of pol))).

(* json.Unmarshal(outcome.EnvelopeContent.Payload.Content, payload); None = EnvelopeContent is nil *)
Definition decoded (o1 : outcome) : option (envelope_Payload * option gerr) :=
  match ptr_val (content_of o1) with
  | Some ec => Some (unm (Payload_Content (EnvelopeContent_Payload C ec)) zero_payload)
  | None => None
  end.

Definition mismatch_err : gerr := Err "errors" "content descriptor mismatch" [].

(* the two post-checks in the order of the code; [e0] = outcome.Error as processSignature left it.
   The metadata check comes LAST and only ever writes its own error: a mismatch recorded before
   it survives a passing metadata check *)
Definition post_error (p : envelope_Payload) (desc : v1_Descriptor) (md : list (string * string))
    (e0 : option gerr) : option gerr :=
  let e1 := if gen_content_Equal (Payload_TargetArtifact p) desc then e0 else Some mismatch_err in
  if (map_len String.eqb md >? 0)%Z
  then match gen_verifier_verifyUserMetadata p md with Some x => Some x | None => e1 end
  else e1.

(* ---------- 1. the generated body as a flat decision list ---------- *)
Definition Verify_spec (v : verifier) (desc : v1_Descriptor) (sig : list Z)
    (opts : notation_go_VerifierVerifyOptions) : option (ptr outcome * option gerr) :=
  if ptr_is_nil (doc_of v) then Some (PNil, Some (Err "errors" "ociTrustPolicyDoc is nil" [])) else
  let '(tp, e) := gatp (doc_of v) (ref_of opts) in
  if negb (is_none e) then Some (PNil, Some (Err "notation.NoApplicableTrustPolicyError" "%v" [])) else
  match ptr_val tp with
  | None => None                                   (* nil statement with a nil error: trustPolicy.SignatureVerification panics *)
  | Some pol =>
      let lp := level_ptr (sv_of pol) in
      if skip_test lp then Some (PNew (out0 sig lp), None) else
      let '(o1, e1) := ps_answer v sig opts pol in
      if negb (is_none e1) then Some (PNew (set_err e1 o1), e1) else
      match decoded o1 with
      | None => None                               (* outcome.EnvelopeContent is nil: .Payload panics *)
      | Some (p, e2) =>
          if negb (is_none e2) then Some (PNew (set_err e2 o1), e2) else
          let e3 := post_error p desc (md_of_opts opts) (err_of o1) in
          Some (PNew (set_err e3 o1), e3)
      end
  end.

Lemma set_err_same (o : outcome) : set_err (err_of o) o = o.
Proof. destruct o; reflexivity. Qed.

Theorem Verify_is_spec : forall v desc sig opts, Verify v desc sig opts = Verify_spec v desc sig opts.
Proof.
  intros v desc sig opts. unfold Verify, Verify_spec, gen_verifier_verifier_Verify. cbv zeta.
  destruct (ptr_is_nil (doc_of v)); [reflexivity|].
  destruct (gatp (doc_of v) (ref_of opts)) as [tp e].
  destruct (negb (is_none e)); [reflexivity|].
  destruct (ptr_val tp) as [pol|]; [|reflexivity].
  unfold level_ptr.
  destruct (GetVL_total (sv_of pol)) as [lp [le G]]. rewrite G.
  fold (skip_test lp). destruct (skip_test lp); [reflexivity|].
  unfold ps_answer, level_ptr, out0. rewrite G.
  match goal with |- context [ps ?a ?b ?c ?d ?e ?f ?g ?h ?i] => destruct (ps a b c d e f g h i) as [o1 e1] end.
  destruct (negb (is_none e1)); [reflexivity|].
  unfold decoded. fold zero_payload.
  destruct (ptr_val (content_of o1)) as [ec|]; [|reflexivity].
  destruct (unm (Payload_Content (EnvelopeContent_Payload C ec)) zero_payload) as [p e2].
  destruct (negb (is_none e2)); [reflexivity|].
  unfold post_error. fold mismatch_err.
  destruct (gen_content_Equal (Payload_TargetArtifact p) desc); cbn [negb];
    destruct (map_len String.eqb (md_of_opts opts) >? 0)%Z;
    try destruct (gen_verifier_verifyUserMetadata p (md_of_opts opts)) as [x|];
    cbn [negb is_none]; cbn [VerificationOutcome_Error set_VerificationOutcome_Error];
    rewrite ?set_err_same; try reflexivity.
  all: destruct o1; reflexivity.
Qed.

(* ---------- 2. exactly when the generated body panics ---------- *)

(* the statement that GetApplicableTrustPolicy selected *)
Definition Selected (v : verifier) (opts : notation_go_VerifierVerifyOptions) (pol : trustpolicy_OCITrustPolicy) : Prop :=
  ptr_is_nil (doc_of v) = false /\
  exists tp, gatp (doc_of v) (ref_of opts) = (tp, None) /\ ptr_val tp = Some pol.

Definition Panics (v : verifier) (sig : list Z) (opts : notation_go_VerifierVerifyOptions) : Prop :=
  ptr_is_nil (doc_of v) = false /\
  exists tp, gatp (doc_of v) (ref_of opts) = (tp, None) /\
    (ptr_val tp = None                                              (* a nil statement with a nil error *)
     \/ exists pol, ptr_val tp = Some pol /\ skip_test (level_ptr (sv_of pol)) = false
                    /\ snd (ps_answer v sig opts pol) = None       (* processSignature returns nil ... *)
                    /\ ptr_val (content_of (fst (ps_answer v sig opts pol))) = None).   (* ... and leaves EnvelopeContent nil *)

Theorem Verify_panics_iff : forall v desc sig opts, Verify v desc sig opts = None <-> Panics v sig opts.
Proof.
  intros v desc sig opts. rewrite Verify_is_spec. unfold Verify_spec, Panics.
  destruct (ptr_is_nil (doc_of v)); [split; [discriminate|intros [X _]; discriminate]|].
  destruct (gatp (doc_of v) (ref_of opts)) as [tp e] eqn:G.
  destruct e as [x|]; cbn [negb is_none].
  { split; [discriminate|]. intros [_ [tp' [X _]]]. discriminate. }
  destruct (ptr_val tp) as [pol|] eqn:T.
  2:{ split; [|reflexivity]. intros _. split; [reflexivity|]. exists tp. split; [reflexivity|]. left. exact T. }
  destruct (skip_test (level_ptr (sv_of pol))) eqn:S.
  { split; [discriminate|]. intros [_ [tp' [X [Y|[pol' [Y [Z _]]]]]]]; inversion X; subst tp'; congruence. }
  destruct (ps_answer v sig opts pol) as [o1 e1] eqn:A. cbn [fst snd].
  destruct e1 as [x1|]; cbn [negb is_none].
  { split; [discriminate|]. intros [_ [tp' [X [Y|[pol' [Y [_ [Z _]]]]]]]]; inversion X; subst tp'; [congruence|].
    rewrite T in Y. inversion Y; subst pol'. rewrite A in Z. discriminate. }
  unfold decoded. destruct (ptr_val (content_of o1)) as [ec|] eqn:Ec.
  - destruct (unm _ _) as [p e2]. split.
    + destruct (negb (is_none e2)); discriminate.
    + intros [_ [tp' [X [Y|[pol' [Y [_ [_ Z]]]]]]]]; inversion X; subst tp'; [congruence|].
      rewrite T in Y. inversion Y; subst pol'. rewrite A in Z. cbn [fst] in Z. congruence.
  - split; [|reflexivity]. intros _. split; [reflexivity|]. exists tp. split; [reflexivity|]. right.
    exists pol. rewrite A. cbn [fst snd]. repeat split; assumption.
Qed.

(* oracles that behave: a selection without error hands out a statement (C08: a new copy), and a
   processSignature that returns nil has set EnvelopeContent (C02: the integrity block sets it) *)
Definition WellBehaved (v : verifier) (sig : list Z) (opts : notation_go_VerifierVerifyOptions) : Prop :=
  (forall tp, gatp (doc_of v) (ref_of opts) = (tp, None) -> ptr_val tp <> None)
  /\ (forall pol, Selected v opts pol -> snd (ps_answer v sig opts pol) = None ->
                  ptr_val (content_of (fst (ps_answer v sig opts pol))) <> None).

Theorem Verify_never_panics : forall v desc sig opts, WellBehaved v sig opts -> Verify v desc sig opts <> None.
Proof.
  intros v desc sig opts [W1 W2] H. apply Verify_panics_iff in H.
  destruct H as [Hd [tp [G [T|[pol [T [_ [E N]]]]]]]].
  - exact (W1 tp G T).
  - apply (W2 pol); [split; [exact Hd|exists tp; split; assumption]|exact E|exact N].
Qed.

(* ---------- 3. the inputs of the C01 model, defined from the oracles' answers ---------- *)

(* [i_rest]: processSignature returned nil AND left outcome.Error nil (Verify returns
   outcome.Error at its end) *)
Definition rest_of (r : outcome * option gerr) : bool := is_none (snd r) && is_none (err_of (fst r)).

(* [e_decode]: the signed target of the payload json.Unmarshal produced *)
Definition decode_of (o1 : outcome) : option target :=
  match decoded o1 with
  | Some (p, None) => Some (signed_of p)
  | _ => None
  end.

(* [i_env]: the integrity facts [e0] (they live inside processSignature: see [Link]) with the
   decode defined above *)
Definition env_of (e0 : envfacts) (o1 : outcome) : envfacts :=
  mk_e (e_parse e0) (e_verify e0) (e_ctype e0) (decode_of o1) (e_hash e0).

Definition intact_facts : envfacts := mk_e true VOk media_type_payload_v1 None HNone.

(* the model input of the call: level and override of the selected statement, required metadata
   = the pairs `range opts.UserMetadata` visits, descriptor = the four fields of [desc] *)
Definition e2e_input (pol : trustpolicy_OCITrustPolicy) (e0 : envfacts) (rest touch : bool)
    (opts : notation_go_VerifierVerifyOptions) (desc : v1_Descriptor) (o1 : outcome) : input :=
  oci_input (sv_of pol) (env_of e0 o1) rest touch (md_of_opts opts) desc.

(* The model splits processSignature into the integrity block (facts [e0]) and the rest ([rest]).
   Seen from Verify there is one answer; ANY split that agrees with it will do: *)
Definition Link (e0 : envfacts) (rest : bool) (r : outcome * option gerr) : Prop :=
  (verify_integrity e0 = None /\ rest = true) <-> rest_of r = true.

(* ... and there always is one (so the theorems below are about EVERY oracle behaviour) *)
Lemma Link_canonical r : Link intact_facts (rest_of r) r.
Proof. unfold Link. cbn. tauto. Qed.

Lemma verify_integrity_env_of e0 o1 : verify_integrity (env_of e0 o1) = verify_integrity e0.
Proof. reflexivity. Qed.

(* the returned error [e] against the model's class [m]; [r] = processSignature's answer *)
Definition verdict_rel (r : outcome * option gerr) (e : option gerr) (m : C01_Model.err) : Prop :=
  match m with
  | ENone => e = None
  | EIntegrity _ | ERest => e <> None /\ (snd r <> None -> e = snd r)
  | EJson => exists p e2, decoded (fst r) = Some (p, e2) /\ e2 <> None /\ e = e2
  | EMismatch => e = Some mismatch_err
  | EMetadata => exists x, e = Some x /\ is_md_err x
  | _ => False
  end.

Lemma post_error_some p desc md x : post_error p desc md (Some x) <> None.
Proof.
  unfold post_error.
  destruct (gen_content_Equal _ _), (map_len String.eqb md >? 0)%Z;
    try destruct (gen_verifier_verifyUserMetadata p md); discriminate.
Qed.

Lemma post_error_none p desc md :
  post_error p desc md None
  = match gen_verifier_verifyUserMetadata p md with
    | Some x => Some x
    | None => if gen_content_Equal (Payload_TargetArtifact p) desc then None else Some mismatch_err
    end.
Proof.
  unfold post_error. destruct (map_len String.eqb md >? 0)%Z eqn:L; [reflexivity|].
  rewrite (md_empty_passes p md L). reflexivity.
Qed.

(* THE THEOREM (level other than skip): for the selected statement, whatever the oracles answer,
   the generated Verify either panics — exactly when processSignature returned nil with
   EnvelopeContent nil, where the model rejects — or returns processSignature's outcome with
   Error := the returned error, and that error has the class of the model [verify_oci] on the
   inputs defined above *)
Theorem Verify_nonskip_is_model : forall v desc sig opts pol l e0 rest touch,
  Selected v opts pol -> skip_test (level_ptr (sv_of pol)) = false -> is_skip l = false ->
  let r := ps_answer v sig opts pol in
  Link e0 rest r ->
  let m := o_err (verify_oci l (e2e_input pol e0 rest touch opts desc (fst r)) (target_of desc)) in
  match Verify v desc sig opts with
  | None => snd r = None /\ ptr_val (content_of (fst r)) = None /\ m <> ENone
  | Some (po, e) => po = PNew (set_err e (fst r)) /\ verdict_rel r e m
  end.
Proof.
  intros v desc sig opts pol l e0 rest touch [Hd [tp [G T]]] S Hs r L m.
  rewrite Verify_is_spec. unfold Verify_spec. rewrite Hd, G. cbn [negb is_none]. rewrite T, S.
  subst m. unfold verify_oci, prefix, e2e_input, oci_input. rewrite Hs.
  cbn [i_env i_rest i_md i_rest_touch]. rewrite verify_integrity_env_of.
  fold r. unfold Link, rest_of in L. destruct r as [o1 e1] eqn:R. cbn [fst snd] in L |- *.
  destruct e1 as [x1|]; cbn [negb is_none andb] in L |- *.
  { (* processSignature failed *)
    split; [reflexivity|].
    destruct (verify_integrity e0) as [k|]; [split; [discriminate|reflexivity]|].
    destruct rest; [exfalso; destruct L as [L _]; specialize (L (conj eq_refl eq_refl)); discriminate|].
    cbn [negb]. split; [discriminate|reflexivity]. }
  destruct (decoded o1) as [[p e2]|] eqn:D.
  2:{ (* EnvelopeContent nil *)
    split; [reflexivity|]. split.
    - unfold decoded in D. destruct (ptr_val (content_of o1)); [discriminate|reflexivity].
    - destruct (verify_integrity e0); [discriminate|]. destruct rest; cbn [negb]; [|discriminate].
      unfold env_of, decode_of. cbn [e_decode]. rewrite D. discriminate. }
  destruct (err_of o1) as [y|] eqn:Ey; cbn [is_none] in L.
  { (* processSignature returned nil but left outcome.Error set: the model's rest is false *)
    assert (M : exists k, (match verify_integrity e0 with
                           | Some k => inl (mk_o (EIntegrity k) (Some (EIntegrity k, 0%N)) (lookup_default "integrity" (snd l)) None false)
                           | None => if negb rest then inl (mk_o ERest (Some (ERest, 1%N)) (lookup_default "integrity" (snd l)) None touch)
                                     else match e_decode (env_of e0 o1) with
                                          | None => inl (mk_o EJson (Some (EJson, 1%N)) (lookup_default "integrity" (snd l)) None touch)
                                          | Some t => inr (lookup_default "integrity" (snd l), t) end
                           end : obs + (string * target)) = inl k /\ (o_err k = ERest \/ exists j, o_err k = EIntegrity j)).
    { destruct (verify_integrity e0) as [k|]; [eexists; split; [reflexivity|right; eexists; reflexivity]|].
      destruct rest; [exfalso; destruct L as [L _]; specialize (L (conj eq_refl eq_refl)); discriminate|].
      eexists; split; [reflexivity|left; reflexivity]. }
    destruct M as [k [M1 M2]]. rewrite M1.
    destruct e2 as [x2|]; cbn [negb is_none].
    - split; [reflexivity|]. destruct M2 as [M2|[j M2]]; rewrite M2; (split; [discriminate|intros X; now elim X]).
    - split; [reflexivity|].
      pose proof (post_error_some p desc (md_of_opts opts) y) as Q.
      destruct M2 as [M2|[j M2]]; rewrite M2; (split; [exact Q|intros X; now elim X]). }
  (* processSignature accepted and left outcome.Error nil *)
  destruct L as [_ L]. destruct (L eq_refl) as [Vi Hr]. rewrite Vi. subst rest. cbn [negb].
  unfold env_of, decode_of. cbn [e_decode]. rewrite D.
  destruct e2 as [x2|]; cbn [negb is_none].
  { split; [reflexivity|]. cbn [verdict_rel o_err fst snd]. exists p, (Some x2). split; [exact D|split; [discriminate|reflexivity]]. }
  split; [reflexivity|]. unfold finish. cbn [o_err].
  rewrite post_error_none. rewrite gen_verifyUserMetadata_check_md, gen_Equal_equiv.
  fold (signed_of p).
  destruct (gen_verifier_verifyUserMetadata p (md_of_opts opts)) as [x|] eqn:U.
  - exists x. split; [reflexivity|]. eapply md_err; exact U.
  - destruct (desc_equal (signed_of p) (target_of desc)); reflexivity.
Qed.

(* the level skip: nothing is called (the result mentions neither processSignature nor
   json.Unmarshal), the outcome carries the signature bytes and the level only, no envelope
   content, no result; this is the model's skip observation *)
Theorem Verify_skip_is_model : forall v desc sig opts pol l i,
  Selected v opts pol -> skip_test (level_ptr (sv_of pol)) = true -> is_skip l = true ->
  Verify v desc sig opts = Some (PNew (out0 sig (level_ptr (sv_of pol))), None)
  /\ verify_oci l i (target_of desc) = mk_o ENone (Some (ENone, 0%N)) "" None false.
Proof.
  intros v desc sig opts pol l i [Hd [tp [G T]]] S Hs. split.
  - rewrite Verify_is_spec. unfold Verify_spec. rewrite Hd, G. cbn [negb is_none]. rewrite T, S. reflexivity.
  - unfold verify_oci, prefix. rewrite Hs. reflexivity.
Qed.

(* ---------- 4. the C01 theorems on the generated entry point ---------- *)

(* what it takes for the post-checks to pass, in the code's own words *)
Definition PostChecksPass (o1 : outcome) (desc : v1_Descriptor) (md : list (string * string)) : Prop :=
  exists ec p,
    ptr_val (content_of o1) = Some ec
    /\ unm (Payload_Content (EnvelopeContent_Payload C ec)) zero_payload = (p, None)
    /\ Descriptor_Digest (Payload_TargetArtifact p) = Descriptor_Digest desc
    /\ Descriptor_Size (Payload_TargetArtifact p) = Descriptor_Size desc
    /\ Descriptor_MediaType (Payload_TargetArtifact p) = Descriptor_MediaType desc
    /\ (forall k x, map_get String.eqb k md = Some x ->
                    map_get String.eqb k (Descriptor_Annotations (Payload_TargetArtifact p)) = Some x).

(* C01_success_iff transported (through the model: Verify_nonskip_is_model + verify_oci_success).
   For the selected statement and a level other than skip, the generated Verify returns a nil
   error IF AND ONLY IF processSignature returned nil and left outcome.Error nil, the payload
   decodes, digest, size and media type of the signed target equal the presented descriptor's,
   and every required metadata pair is a signed annotation. *)
Theorem Verify_success_iff : forall v desc sig opts pol,
  Selected v opts pol -> skip_test (level_ptr (sv_of pol)) = false ->
  let r := ps_answer v sig opts pol in
  ((exists po, Verify v desc sig opts = Some (po, None))
   <-> snd r = None /\ err_of (fst r) = None /\ PostChecksPass (fst r) desc (md_of_opts opts)).
Proof.
  intros v desc sig opts pol Hsel S r.
  assert (Hl : is_skip ("strict", []) = false) by reflexivity.
  pose proof (Verify_nonskip_is_model v desc sig opts pol ("strict", []) intact_facts (rest_of r) false
                Hsel S Hl (Link_canonical r)) as M.
  cbv zeta in M. fold r in M.
  set (i := e2e_input pol intact_facts (rest_of r) false opts desc (fst r)) in *.
  pose proof (verify_oci_success ("strict", []) i (target_of desc) Hl) as V.
  assert (A : o_err (verify_oci ("strict", []) i (target_of desc)) = ENone
              <-> snd r = None /\ err_of (fst r) = None /\ PostChecksPass (fst r) desc (md_of_opts opts)).
  { rewrite V. subst i. unfold e2e_input, oci_input. cbn [i_env i_rest i_md Bound].
    unfold env_of, intact_facts. cbn [e_decode e_parse e_verify e_ctype]. unfold decode_of, decoded, PostChecksPass.
    split.
    - intros [_ [Hr [t [Ht [[B1 [B2 B3]] Hm]]]]].
      unfold rest_of in Hr. apply andb_true_iff in Hr. destruct Hr as [R1 R2].
      split; [destruct (snd r); [discriminate|reflexivity]|]. split; [destruct (err_of (fst r)); [discriminate|reflexivity]|].
      destruct (ptr_val (content_of (fst r))) as [ec|]; [|discriminate].
      destruct (unm _ _) as [p [x|]] eqn:U; [discriminate|]. inversion Ht; subst t.
      exists ec, p. split; [reflexivity|]. split; [exact U|].
      cbn [signed_of target_of t_dg t_sz t_mt] in B1, B2, B3. repeat split; try assumption.
      apply (proj1 (gen_verifyUserMetadata_nil_iff p (md_of_opts opts))).
      apply md_ok_iff in Hm. pose proof (gen_verifyUserMetadata_equiv p (md_of_opts opts)) as Q.
      destruct (gen_verifier_verifyUserMetadata p (md_of_opts opts)); [|reflexivity].
      destruct Q as [Q _]. fold (md_of (md_of_opts opts)) in Hm. congruence.
    - intros [R1 [R2 [ec [p [Ec [U [B1 [B2 [B3 Hm]]]]]]]]].
      split; [repeat split|]. split; [unfold rest_of; rewrite R1, R2; reflexivity|].
      rewrite Ec, U. exists (signed_of p). split; [reflexivity|]. split; [cbn; tauto|].
      apply md_ok_iff. apply (proj2 (gen_verifyUserMetadata_nil_iff p (md_of_opts opts))) in Hm.
      pose proof (gen_verifyUserMetadata_equiv p (md_of_opts opts)) as Q. rewrite Hm in Q. exact Q. }
  rewrite <- A. clear A V. split.
  - intros [po E]. rewrite E in M. destruct M as [_ M].
    destruct (o_err (verify_oci ("strict", []) i (target_of desc))) as [| | |k| | | | | |]; cbn [verdict_rel] in M.
    + reflexivity.
    + contradiction.
    + contradiction.
    + destruct M as [M _]. now elim M.
    + destruct M as [M _]. now elim M.
    + destruct M as [p' [e2 [_ [M1 M2]]]]. subst e2. now elim M1.
    + contradiction.
    + contradiction.
    + discriminate.
    + destruct M as [x [M _]]. discriminate.
  - intros E. rewrite E in M. destruct (Verify v desc sig opts) as [[po e]|].
    + destruct M as [_ M]. cbn in M. subst e. eexists; reflexivity.
    + destruct M as [_ [_ M]]. now elim M.
Qed.

(* C01_oci transported, for ALL inputs and ALL oracle behaviours: a nil error of the generated
   Verify means a statement was selected and either it is the statement named skip (no override;
   then nothing is verified and the outcome exposes no envelope content), or processSignature
   accepted the envelope and the signed target is the presented descriptor with every required
   metadata pair signed; the outcome returned is processSignature's, untouched *)
Theorem Verify_success_sound : forall v desc sig opts po,
  Verify v desc sig opts = Some (po, None) ->
  exists pol, Selected v opts pol /\
    ((sv_lvl (sv_of pol) = "skip" /\ sv_ov (sv_of pol) = [] /\ po = PNew (out0 sig trustpolicy_LevelSkip))
     \/ (~ (sv_lvl (sv_of pol) = "skip" /\ sv_ov (sv_of pol) = [])
         /\ snd (ps_answer v sig opts pol) = None
         /\ po = PNew (fst (ps_answer v sig opts pol))
         /\ err_of (fst (ps_answer v sig opts pol)) = None
         /\ PostChecksPass (fst (ps_answer v sig opts pol)) desc (md_of_opts opts))).
Proof.
  intros v desc sig opts po H.
  assert (Hsel : exists pol, Selected v opts pol).
  { rewrite Verify_is_spec in H. unfold Verify_spec, Selected in *.
    destruct (ptr_is_nil (doc_of v)); [discriminate|].
    destruct (gatp (doc_of v) (ref_of opts)) as [tp [x|]]; [discriminate|]. cbn [negb is_none] in H.
    destruct (ptr_val tp) as [pol|] eqn:T; [|discriminate].
    exists pol. split; [reflexivity|]. exists tp. split; [reflexivity|exact T]. }
  destruct Hsel as [pol Hsel]. exists pol. split; [exact Hsel|].
  destruct (skip_test (level_ptr (sv_of pol))) eqn:S.
  - left. pose proof (proj1 (skip_test_iff _) S) as [E1 E2]. split; [exact E1|]. split; [exact E2|].
    destruct (Verify_skip_is_model v desc sig opts pol model_skip_level
                (mk_in "" [] intact_facts true false [] (COCI (target_of desc))) Hsel S) as [V _].
    { vm_compute. reflexivity. }
    rewrite V in H. inversion H. rewrite (level_ptr_skip _ E1 E2). reflexivity.
  - right. destruct (proj1 (Verify_success_iff v desc sig opts pol Hsel S) (ex_intro _ po H)) as [R1 [R2 R3]].
    split; [intros E; apply skip_test_iff in E; congruence|].
    split; [exact R1|]. split; [|split; assumption].
    pose proof (Verify_nonskip_is_model v desc sig opts pol ("strict", []) intact_facts
                  (rest_of (ps_answer v sig opts pol)) false Hsel S eq_refl (Link_canonical _)) as M.
    cbv zeta in M. rewrite H in M. destruct M as [M _]. rewrite M.
    rewrite <- R2. rewrite set_err_same. reflexivity.
Qed.

(* C01_error_sticks transported: when both post-checks are reached, the error returned is the
   metadata error if a pair is missing, else the mismatch error if the descriptors differ, else
   nil — a descriptor mismatch is never overwritten by a passing metadata check; and the model
   computes the same class *)
Theorem Verify_error_sticks : forall v desc sig opts pol l touch ec p,
  Selected v opts pol -> skip_test (level_ptr (sv_of pol)) = false -> is_skip l = false ->
  let r := ps_answer v sig opts pol in
  snd r = None -> err_of (fst r) = None ->
  ptr_val (content_of (fst r)) = Some ec ->
  unm (Payload_Content (EnvelopeContent_Payload C ec)) zero_payload = (p, None) ->
  let e := match gen_verifier_verifyUserMetadata p (md_of_opts opts) with
           | Some x => Some x
           | None => if gen_content_Equal (Payload_TargetArtifact p) desc then None else Some mismatch_err
           end in
  Verify v desc sig opts = Some (PNew (set_err e (fst r)), e)
  /\ o_err (verify_oci l (e2e_input pol intact_facts true touch opts desc (fst r)) (target_of desc))
     = (if md_ok (signed_of p) (md_of (md_of_opts opts))
        then (if desc_equal (signed_of p) (target_of desc) then ENone else EMismatch) else EMetadata).
Proof.
  intros v desc sig opts pol l touch ec p [Hd [tp [G T]]] S Hs r R1 R2 Ec U e. split.
  - rewrite Verify_is_spec. unfold Verify_spec. rewrite Hd, G. cbn [negb is_none]. rewrite T, S.
    fold r. destruct r as [o1 e1]. cbn [fst snd] in *. subst e1. cbn [negb is_none].
    unfold decoded. rewrite Ec, U. cbn [negb is_none]. rewrite R2, post_error_none. reflexivity.
  - unfold verify_oci, prefix, e2e_input, oci_input. rewrite Hs. cbn [i_env i_rest i_md i_rest_touch negb].
    unfold env_of, decode_of, decoded. cbn [e_decode]. rewrite Ec, U.
    cbn [verify_integrity intact_facts e_parse e_verify e_ctype negb].
    replace (String.eqb media_type_payload_v1 media_type_payload_v1) with true by (symmetry; apply String.eqb_refl).
    unfold finish. cbn [o_err]. unfold check_md.
    destruct (md_of (md_of_opts opts)) eqn:E; [reflexivity|]. rewrite <- E.
    destruct (md_ok (signed_of p) (md_of (md_of_opts opts))); reflexivity.
Qed.

(* the two orders of the checks cannot be confused: descriptors differ, metadata passes => the
   mismatch error is what Verify returns *)
Corollary Verify_mismatch_not_overwritten : forall v desc sig opts pol ec p,
  Selected v opts pol -> skip_test (level_ptr (sv_of pol)) = false ->
  let r := ps_answer v sig opts pol in
  snd r = None -> err_of (fst r) = None ->
  ptr_val (content_of (fst r)) = Some ec ->
  unm (Payload_Content (EnvelopeContent_Payload C ec)) zero_payload = (p, None) ->
  gen_content_Equal (Payload_TargetArtifact p) desc = false ->
  gen_verifier_verifyUserMetadata p (md_of_opts opts) = None ->
  Verify v desc sig opts = Some (PNew (set_err (Some mismatch_err) (fst r)), Some mismatch_err).
Proof.
  intros v desc sig opts pol ec p Hsel S r R1 R2 Ec U Q M.
  destruct (Verify_error_sticks v desc sig opts pol ("strict", []) false ec p Hsel S eq_refl R1 R2 Ec U) as [V _].
  rewrite M, Q in V. exact V.
Qed.

(* skip verifies nothing (C01_skip_verifies_nothing transported): the statement named skip
   without override makes Verify return, for EVERY signature and descriptor, an outcome without
   envelope content and without results, and a nil error *)
Theorem Verify_skip_verifies_nothing : forall v desc sig opts pol,
  Selected v opts pol -> sv_lvl (sv_of pol) = "skip" -> sv_ov (sv_of pol) = [] ->
  Verify v desc sig opts = Some (PNew (mk_VerificationOutcome C sig PNil trustpolicy_LevelSkip [] None), None).
Proof.
  intros v desc sig opts pol Hsel E1 E2.
  assert (S : skip_test (level_ptr (sv_of pol)) = true) by (apply skip_test_iff; split; assumption).
  destruct (Verify_skip_is_model v desc sig opts pol model_skip_level
              (mk_in "" [] intact_facts true false [] (COCI (target_of desc))) Hsel S) as [V _].
  { vm_compute. reflexivity. }
  rewrite V, (level_ptr_skip _ E1 E2). reflexivity.
Qed.

(* the errors before a statement is selected (no model: C08 owns the selection) *)
Theorem Verify_no_statement : forall v desc sig opts,
  (ptr_is_nil (doc_of v) = true ->
   Verify v desc sig opts = Some (PNil, Some (Err "errors" "ociTrustPolicyDoc is nil" [])))
  /\ (ptr_is_nil (doc_of v) = false -> forall tp x, gatp (doc_of v) (ref_of opts) = (tp, Some x) ->
      Verify v desc sig opts = Some (PNil, Some (Err "notation.NoApplicableTrustPolicyError" "%v" []))).
Proof.
  intros v desc sig opts. rewrite Verify_is_spec. unfold Verify_spec. split.
  - intros H. rewrite H. reflexivity.
  - intros H tp x G. rewrite H, G. reflexivity.
Qed.

End E2E.

(* ====================================================================== *)
(* verifier.verifyIntegrity (verifier/verifier.go:717), the first block of processSignature:
   the model's integrity facts [envfacts] DEFINED from its two oracles
     parse    signature.ParseEnvelope(mediaType, bytes)
     everify  sigEnv.Verify(): (envelope content, error)
   and the translated envelope.ValidatePayloadContentType. *)
Section Integrity.
Variable SE : Type.
Variable parse : string -> list Z -> SE * option GoLib.err.
Variable C : Type.
Variable everify : ptr (signature_EnvelopeContent C) * option GoLib.err.

(* `switch err.(type)` over the three integrity error types of notation-core-go *)
Definition sig_error (e : option GoLib.err) : bool :=
  err_dyn_in ["*signature.SignatureEnvelopeNotFoundError"] e
  || err_dyn_in ["*signature.InvalidSignatureError"] e
  || err_dyn_in ["*signature.SignatureIntegrityError"] e.

Definition integrity_facts (mt : string) (sig : list Z) (decode : option target) : envfacts :=
  mk_e (is_none (snd (parse mt sig)))
       (match snd everify with None => VOk | Some _ => if sig_error (snd everify) then VSig else VOther end)
       (match ptr_val (fst everify) with
        | Some ec => Payload_ContentType (EnvelopeContent_Payload C ec)
        | None => ""
        end)
       decode HNone.

(* For every outcome with a level: the generated verifyIntegrity panics only when Envelope.Verify
   returns (nil, nil); otherwise it returns one result of type "integrity" carrying the action the
   level assigns to integrity, whose Error is nil EXACTLY WHEN the model's [verify_integrity] passes
   on the facts above, together with Envelope.Verify's content in that case and nil otherwise *)

Ltac fin :=
  repeat split; try reflexivity; try discriminate; try congruence;
  try (let H := fresh in intros H; first [discriminate H | reflexivity | now elim H | congruence]).

Theorem gen_verifyIntegrity_equiv : forall sig mt (o : notation_go_VerificationOutcome C) lvl decode,
  ptr_val (VerificationOutcome_VerificationLevel C o) = Some lvl ->
  let env := integrity_facts mt sig decode in
  match gen_verifier_verifyIntegrity SE parse C everify sig mt o with
  | None => snd (parse mt sig) = None /\ snd everify = None /\ ptr_val (fst everify) = None
  | Some (envp, irp) =>
      exists r, irp = PNew r /\ ValidationResult_Type r = "integrity"
                /\ ValidationResult_Action r = map_get_or String.eqb "" "integrity" (VerificationLevel_Enforcement lvl)
                /\ (ValidationResult_Error r = None <-> verify_integrity env = None)
                /\ (ValidationResult_Error r = None -> envp = fst everify /\ ptr_val envp <> None)
                /\ (ValidationResult_Error r <> None -> envp = PNil)
  end.
Proof.
  intros sig mt o lvl decode Hl env. subst env.
  unfold gen_verifier_verifyIntegrity, integrity_facts, verify_integrity. rewrite Hl. cbn [e_parse e_verify e_ctype].
  destruct (parse mt sig) as [se pe]. cbn [snd]. destruct pe as [x|]; cbn [negb is_none].
  { eexists. split; [reflexivity|]. cbn. fin. }
  destruct everify as [ec ve]. cbn [fst snd]. destruct ve as [x|]; cbn [negb is_none].
  { fold (sig_error (Some x)). destruct (sig_error (Some x)).
    - eexists. split; [reflexivity|]. cbn. fin.
    - eexists. split; [reflexivity|]. cbn. fin. }
  destruct (ptr_val ec) as [c|] eqn:Ec; [|repeat split; reflexivity].
  pose proof (gen_ValidatePayloadContentType_nil_iff (EnvelopeContent_Payload C c)) as V.
  destruct (gen_envelope_ValidatePayloadContentType (EnvelopeContent_Payload C c)) as [x|] eqn:G; cbn [negb is_none].
  - assert (N : String.eqb (Payload_ContentType (EnvelopeContent_Payload C c)) media_type_payload_v1 = false).
    { apply String.eqb_neq. intros E. apply V in E. discriminate. }
    rewrite N. eexists. split; [reflexivity|]. cbn. fin.
  - rewrite (proj1 V eq_refl), String.eqb_refl.
    eexists. split; [reflexivity|]. cbn. fin.
Qed.

End Integrity.
