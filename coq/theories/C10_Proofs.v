(* C10_Proofs.v — proofs about the model of notation.Verify (C10_Model.v).
   Main steps:
     page_loop_app / pages_concat : the callback run page by page = run once on
                                    the concatenated listing (paging is invisible)
     page_loop_spec               : closed form of the loop on a flat listing in
                                    terms of the first decisive signature
     model_closed                 : closed form of the whole model
   from which the statements of props/C10_Property.v follow. *)
From NV Require Import Base C10_Model.
Local Open Scope list_scope.

(* ---------- range / pairs ---------- *)

Lemma range_nil a : range a a = [].
Proof. unfold range. rewrite Nat.sub_diag. reflexivity. Qed.

Lemma range_cons a b : a < b -> range a b = a :: range (S a) b.
Proof.
  intros H. unfold range. replace (b - a) with (S (b - S a)) by lia. reflexivity.
Qed.

Lemma range_length a b : List.length (range a b) = b - a.
Proof. unfold range. apply seq_length. Qed.

Lemma range_0_length b : List.length (range 0 b) = b.
Proof. rewrite range_length. lia. Qed.

Lemma in_range a b x : In x (range a b) <-> a <= x < b.
Proof. unfold range. rewrite in_seq. lia. Qed.

Lemma pairs_nil a : pairs a a = [].
Proof. unfold pairs. rewrite range_nil. reflexivity. Qed.

Lemma pairs_cons a b : a < b -> pairs a b = EF a :: EV a :: pairs (S a) b.
Proof. intros H. unfold pairs. rewrite (range_cons a b H). reflexivity. Qed.

(* ---------- reflexivity of the boolean equalities ---------- *)

Lemma nat_list_eqb_refl (l : list nat) : list_eqb Nat.eqb l l = true.
Proof. induction l as [|x l IH]; cbn; [reflexivity|]. rewrite Nat.eqb_refl, IH. reflexivity. Qed.

Lemma ev_eqb_refl e : ev_eqb e e = true.
Proof. destruct e; cbn; try reflexivity; apply Nat.eqb_refl. Qed.

Lemma log_eqb_refl (l : list ev) : list_eqb ev_eqb l l = true.
Proof. induction l as [|x l IH]; cbn; [reflexivity|]. rewrite ev_eqb_refl, IH. reflexivity. Qed.

Lemma res_eqb_refl r : res_eqb r r = true.
Proof. destruct r; cbn; try reflexivity; try apply Nat.eqb_refl. apply nat_list_eqb_refl. Qed.

Lemma outs_eqb_refl o : outs_eqb o o = true.
Proof. destruct o; cbn; try reflexivity; apply Nat.eqb_refl. Qed.

Lemma failed_with_err r log : r <> ROk -> failed_with (err_obs r log) log = true.
Proof.
  intros H. unfold failed_with, is_ok, err_obs. cbn.
  rewrite log_eqb_refl. destruct r; try reflexivity. congruence.
Qed.

Lemma failed_as_err r log : r <> ROk -> failed_as r (err_obs r log) log = true.
Proof.
  intros H. unfold failed_as. rewrite (failed_with_err r log H).
  cbn. rewrite res_eqb_refl. reflexivity.
Qed.

(* ---------- the loop at the limit ---------- *)

Lemma page_loop_full max pos s l :
  (max <= Z.of_nat (s_n s))%Z -> page_loop max pos s l = (s, Stop EExceeded).
Proof.
  intros H. assert (E : (max <=? Z.of_nat (s_n s))%Z = true) by (apply Z.leb_le; exact H).
  destruct l as [|x r]; cbn [page_loop]; unfold after_loop; rewrite ?E; reflexivity.
Qed.

Lemma page_loop_cont max : forall l pos s s',
  page_loop max pos s l = (s', Cont) -> (Z.of_nat (s_n s') < max)%Z.
Proof.
  induction l as [|x r IH]; intros pos s s' H; cbn [page_loop] in H.
  - unfold after_loop in H. destruct (max <=? Z.of_nat (s_n s))%Z eqn:E; inversion H; subst.
    apply Z.leb_gt. exact E.
  - unfold after_loop in H. destruct (max <=? Z.of_nat (s_n s))%Z eqn:E; [discriminate|].
    destruct x; try discriminate. eapply IH. exact H.
Qed.

(* ---------- paging is invisible ---------- *)

Lemma page_loop_app max : forall p q pos s,
  (Z.of_nat (s_n s) < max)%Z ->
  page_loop max pos s (p ++ q) =
  match page_loop max pos s p with
  | (s', Cont) => page_loop max (pos + List.length p) s' q
  | r => r
  end.
Proof.
  induction p as [|x p IH]; intros q pos s H.
  - cbn [app page_loop List.length]. unfold after_loop.
    assert (E : (max <=? Z.of_nat (s_n s))%Z = false) by (apply Z.leb_gt; exact H).
    rewrite E, Nat.add_0_r. reflexivity.
  - cbn [app page_loop List.length].
    assert (E : (max <=? Z.of_nat (s_n s))%Z = false) by (apply Z.leb_gt; exact H).
    rewrite E. destruct x; try reflexivity.
    cbn [s_n s_failed s_ok s_log].
    match goal with |- page_loop max (S pos) ?t (p ++ q) = _ => set (s2 := t) end.
    destruct (Z.ltb_spec (Z.of_nat (s_n s2)) max) as [Hlt|Hge].
    + rewrite (IH q (S pos) s2 Hlt). replace (pos + S (List.length p)) with (S pos + List.length p) by lia.
      reflexivity.
    + rewrite !(page_loop_full max (S pos) s2 _ Hge). reflexivity.
Qed.

Lemma pages_concat max : forall pages pos s,
  (Z.of_nat (s_n s) < max)%Z ->
  pages_loop max pos s pages = page_loop max pos s (List.concat pages).
Proof.
  induction pages as [|p ps IH]; intros pos s H.
  - cbn. unfold after_loop.
    assert (E : (max <=? Z.of_nat (s_n s))%Z = false) by (apply Z.leb_gt; exact H).
    rewrite E. reflexivity.
  - cbn [pages_loop List.concat]. rewrite (page_loop_app max p (List.concat ps) pos s H).
    destruct (page_loop max pos s p) as [s' c] eqn:E. destruct c as [|e]; [|reflexivity].
    apply IH. eapply page_loop_cont. exact E.
Qed.

(* ---------- the first decisive signature ---------- *)

Lemma find_stop_ge : forall l p k x, find_stop l p = Some (k, x) -> p <= k.
Proof.
  induction l as [|y r IH]; intros p k x H; cbn in H; [discriminate|].
  destruct y; try (inversion H; subst; lia).
  apply IH in H. lia.
Qed.

Lemma find_stop_some : forall l p k x,
  find_stop l p = Some (k, x) <->
  p <= k /\ nth_error l (k - p) = Some x /\ x <> Bd /\
  forall j, j < k - p -> nth_error l j = Some Bd.
Proof.
  induction l as [|y r IH]; intros p k x.
  - cbn. split; [discriminate|]. intros (_ & H & _). destruct (k - p); discriminate.
  - destruct y.
    2:{ (* Bd *)
      cbn [find_stop]. rewrite IH. split.
      - intros (Hle & Hn & Hx & Hb). split; [lia|].
        replace (k - p) with (S (k - S p)) by lia. cbn [nth_error]. split; [exact Hn|]. split; [exact Hx|].
        intros j Hj. destruct j as [|j]; [reflexivity|]. cbn. apply Hb. lia.
      - intros (Hle & Hn & Hx & Hb).
        assert (Hlt : p < k).
        { destruct (Nat.eq_dec p k) as [->|]; [|lia]. rewrite Nat.sub_diag in Hn. cbn in Hn. congruence. }
        split; [lia|]. replace (k - p) with (S (k - S p)) in Hn, Hb by lia. cbn [nth_error] in Hn.
        split; [exact Hn|]. split; [exact Hx|]. intros j Hj. apply (Hb (S j)). lia. }
    all: cbn [find_stop]; split;
      [ intros H; inversion H; subst; rewrite Nat.sub_diag; cbn;
        split; [lia|]; split; [reflexivity|]; split; [discriminate|]; intros j Hj; lia
      | intros (Hle & Hn & Hx & Hb);
        destruct (k - p) as [|d] eqn:Ed;
        [ cbn in Hn; inversion Hn; subst; f_equal; f_equal; lia
        | specialize (Hb 0 ltac:(lia)); cbn in Hb; discriminate ] ].
Qed.

Lemma find_stop_none : forall l p,
  find_stop l p = None <-> forall j, j < List.length l -> nth_error l j = Some Bd.
Proof.
  induction l as [|y r IH]; intros p.
  - cbn. split; [intros _ j Hj; lia | reflexivity].
  - destruct y.
    2:{ cbn [find_stop List.length]. rewrite IH. split.
        - intros H j Hj. destruct j as [|j]; [reflexivity|]. cbn. apply H. lia.
        - intros H j Hj. apply (H (S j)). lia. }
    all: cbn [find_stop List.length]; split; [discriminate|];
      intros H; specialize (H 0 ltac:(lia)); cbn in H; discriminate.
Qed.

(* ---------- closed form of the loop on a flat listing ---------- *)

Definition full_result (max : Z) (pos : nat) (s : st) : st * cb :=
  let M := Z.to_nat max in
  (mk_st M (s_failed s ++ range pos M) (s_ok s) (s_log s ++ pairs pos M), Stop EExceeded).

Definition flat_result (max : Z) (pos : nat) (s : st) (l : list sigk) : st * cb :=
  match find_stop l pos with
  | Some (k, x) =>
      if (Z.of_nat k <? max)%Z then
        match x with
        | G => (mk_st (S k) (s_failed s ++ range pos k) (Some k) (s_log s ++ pairs pos (S k)), Stop EDone)
        | U => (mk_st (S k) (s_failed s ++ range pos k) (s_ok s) (s_log s ++ pairs pos k ++ [EF k]),
                Stop (EFetchE k))
        | _ => (mk_st (S k) (s_failed s ++ range pos k) (s_ok s) (s_log s ++ pairs pos (S k)),
                Stop (ENilOut k))
        end
      else full_result max pos s
  | None =>
      let e := pos + List.length l in
      if (max <=? Z.of_nat e)%Z then full_result max pos s
      else (mk_st e (s_failed s ++ range pos e) (s_ok s) (s_log s ++ pairs pos e), Cont)
  end.

(* one failing signature processed: the state the loop continues with *)
Definition step_bad (pos : nat) (s : st) : st :=
  mk_st (S pos) (s_failed s ++ [pos]) (s_ok s) ((s_log s ++ [EF pos]) ++ [EV pos]).

Lemma failed_shift f pos b : pos < b -> (f ++ [pos]) ++ range (S pos) b = f ++ range pos b.
Proof. intros H. rewrite (range_cons pos b H), <- app_assoc. reflexivity. Qed.

Lemma log_shift (lg : list ev) pos b t :
  pos < b -> (((lg ++ [EF pos]) ++ [EV pos]) ++ pairs (S pos) b ++ t) = lg ++ pairs pos b ++ t.
Proof. intros H. rewrite (pairs_cons pos b H), <- !app_assoc. reflexivity. Qed.

Lemma log_shift0 (lg : list ev) pos b :
  pos < b -> (((lg ++ [EF pos]) ++ [EV pos]) ++ pairs (S pos) b) = lg ++ pairs pos b.
Proof.
  intros H. pose proof (log_shift lg pos b [] H) as E. rewrite !app_nil_r in E. exact E.
Qed.

Lemma flat_result_bad max pos s r :
  (Z.of_nat (S pos) < max)%Z ->
  flat_result max (S pos) (step_bad pos s) r = flat_result max pos s (Bd :: r).
Proof.
  intros H. unfold flat_result. cbn [find_stop].
  assert (HM : S pos < Z.to_nat max) by lia.
  assert (Efull : full_result max (S pos) (step_bad pos s) = full_result max pos s).
  { unfold full_result, step_bad. cbn [s_failed s_ok s_log].
    rewrite failed_shift, log_shift0 by lia. reflexivity. }
  destruct (find_stop r (S pos)) as [[k x]|] eqn:E.
  - apply find_stop_ge in E.
    destruct (Z.of_nat k <? max)%Z; [|exact Efull].
    unfold step_bad; cbn [s_failed s_ok s_log].
    destruct x; rewrite ?failed_shift, ?log_shift0, ?log_shift by lia; try reflexivity.
    (* Bd cannot be decisive, but the closed form treats it like NO *)
  - cbn [List.length]. replace (pos + S (List.length r)) with (S pos + List.length r) by lia.
    destruct (max <=? Z.of_nat (S pos + List.length r))%Z; [exact Efull|].
    unfold step_bad; cbn [s_failed s_ok s_log].
    destruct (List.length r) as [|n].
    + rewrite Nat.add_0_r. rewrite range_nil, pairs_nil, !app_nil_r.
      rewrite (range_cons pos (S pos)), range_nil, (pairs_cons pos (S pos)), pairs_nil by lia.
      rewrite <- !app_assoc. reflexivity.
    + rewrite failed_shift, log_shift0 by lia. reflexivity.
Qed.

Lemma page_loop_spec max : forall l pos s,
  s_n s = pos -> (Z.of_nat pos < max)%Z ->
  page_loop max pos s l = flat_result max pos s l.
Proof.
  induction l as [|x r IH]; intros pos s Hn Hlt.
  - cbn [page_loop]. unfold after_loop, flat_result. cbn [find_stop List.length].
    rewrite Nat.add_0_r, Hn.
    assert (E : (max <=? Z.of_nat pos)%Z = false) by (apply Z.leb_gt; exact Hlt).
    rewrite E, range_nil, pairs_nil, !app_nil_r. destruct s; cbn in *; subst; reflexivity.
  - cbn [page_loop]. rewrite Hn.
    assert (E : (max <=? Z.of_nat pos)%Z = false) by (apply Z.leb_gt; exact Hlt).
    assert (E' : (Z.of_nat pos <? max)%Z = true) by (apply Z.ltb_lt; exact Hlt).
    rewrite E. cbn [s_n s_failed s_ok s_log].
    destruct x.
    + (* G *) unfold flat_result. cbn [find_stop]. rewrite E'.
      rewrite range_nil, app_nil_r, (pairs_cons pos (S pos)), pairs_nil, <- app_assoc by lia. reflexivity.
    + (* Bd *)
      change (mk_st (S pos) (s_failed s ++ [pos]) (s_ok s) ((s_log s ++ [EF pos]) ++ [EV pos]))
        with (step_bad pos s).
      destruct (Z.ltb_spec (Z.of_nat (S pos)) max) as [Hlt2|Hge].
      * rewrite (IH (S pos) (step_bad pos s) eq_refl Hlt2). apply flat_result_bad. exact Hlt2.
      * rewrite (page_loop_full max (S pos) (step_bad pos s) r) by (cbn; lia).
        assert (HM : Z.to_nat max = S pos) by lia.
        assert (Efull : full_result max pos s = (step_bad pos s, Stop EExceeded)).
        { unfold full_result, step_bad. rewrite HM.
          rewrite (range_cons pos (S pos)), range_nil, (pairs_cons pos (S pos)), pairs_nil by lia.
          rewrite <- !app_assoc. reflexivity. }
        unfold flat_result. cbn [find_stop].
        destruct (find_stop r (S pos)) as [[k y]|] eqn:Ef.
        -- apply find_stop_ge in Ef.
           assert (E2 : (Z.of_nat k <? max)%Z = false) by (apply Z.ltb_ge; lia).
           rewrite E2. symmetry. exact Efull.
        -- cbn [List.length].
           assert (E2 : (max <=? Z.of_nat (pos + S (List.length r)))%Z = true) by (apply Z.leb_le; lia).
           rewrite E2. symmetry. exact Efull.
    + (* U *) unfold flat_result. cbn [find_stop]. rewrite E'.
      rewrite range_nil, pairs_nil, app_nil_r. reflexivity.
    + (* NO *) unfold flat_result. cbn [find_stop]. rewrite E'.
      rewrite range_nil, app_nil_r, (pairs_cons pos (S pos)), pairs_nil, <- app_assoc by lia. reflexivity.
Qed.

(* ---------- closed form of the model ---------- *)

(* what Verify answers once the listing is reached; [head] = calls made so far,
   ListSignatures included *)
Definition listing_obs (i : input) (head : list ev) : obs :=
  let l := List.concat (i_pages i) in
  let n := List.length l in
  let max := i_max i in
  match find_stop l 0 with
  | Some (k, x) =>
      if (Z.of_nat k <? max)%Z then
        match x with
        | G => mk_obs ROk DResolved (OSig k) (head ++ pairs 0 (S k)) true
        | U => err_obs (RFetch k) (head ++ pairs 0 k ++ [EF k])
        | _ => err_obs (RNilOutcome k) (head ++ pairs 0 (S k))
        end
      else err_obs RExceeded (head ++ pairs 0 (Z.to_nat max))
  | None =>
      if (max <=? Z.of_nat n)%Z then err_obs RExceeded (head ++ pairs 0 (Z.to_nat max))
      else if i_lerr i then err_obs RListErr (head ++ pairs 0 n)
      else if Nat.eqb n 0 then err_obs RNoSignature (head ++ pairs 0 n)
      else err_obs (RAllFailed (range 0 n)) (head ++ pairs 0 n)
  end.

Lemma after_listing_closed i log :
  (0 < i_max i)%Z -> after_listing i log = listing_obs i (log ++ [EL]).
Proof.
  intros Hmax. unfold after_listing.
  set (s0 := mk_st 0 [] None (log ++ [EL])).
  rewrite (pages_concat (i_max i) (i_pages i) 0 s0) by (cbn; lia).
  rewrite (page_loop_spec (i_max i) (List.concat (i_pages i)) 0 s0 eq_refl) by lia.
  unfold flat_result, listing_obs, full_result. cbn [Nat.add].
  destruct (find_stop (List.concat (i_pages i)) 0) as [[k x]|] eqn:Ef.
  - destruct (Z.of_nat k <? i_max i)%Z eqn:Ek.
    + destruct x; cbn; reflexivity.
    + cbn. reflexivity.
  - destruct (i_max i <=? Z.of_nat (List.length (List.concat (i_pages i))))%Z eqn:El.
    + cbn. reflexivity.
    + cbn [s0 s_n s_failed s_ok s_log app]. destruct (i_lerr i); [reflexivity|].
      destruct (Nat.eqb (List.length (List.concat (i_pages i))) 0); reflexivity.
Qed.

Definition pre_of (i : input) : list ev :=
  match i_skip i with NoSkipper => [] | _ => [ES] end.

Definition reaches_listing (i : input) : Prop :=
  i_nilv i = false /\ i_nilr i = false /\ (0 < i_max i)%Z /\
  (i_skip i = NoSkipper \/ i_skip i = SkipNo) /\
  (i_ref i = RTag \/ i_ref i = RDigSame) /\ i_rerr i = false.

Lemma model_reaches i :
  reaches_listing i -> model i = listing_obs i (pre_of i ++ [ER; EL]).
Proof.
  intros (Hv & Hr & Hmax & Hs & Href & Hre). unfold model, pre_of.
  rewrite Hv, Hr. assert (E : (i_max i <=? 0)%Z = false) by (apply Z.leb_gt; exact Hmax). rewrite E.
  destruct Hs as [-> | ->]; unfold after_skip; rewrite Hre;
    destruct Href as [-> | ->]; rewrite (after_listing_closed i _ Hmax), <- app_assoc; reflexivity.
Qed.

(* ---------- the model meets the oracle ---------- *)

Lemma listing_ok_obs i head : listing_ok i head (listing_obs i head) = true.
Proof.
  unfold listing_ok, listing_obs.
  destruct (find_stop (List.concat (i_pages i)) 0) as [[k x]|] eqn:Ef.
  - destruct (Z.of_nat k <? i_max i)%Z.
    + destruct x.
      * unfold is_ok. cbn. rewrite Nat.eqb_refl, log_eqb_refl. reflexivity.
      * apply failed_with_err. discriminate.
      * apply failed_as_err. discriminate.
      * apply failed_with_err. discriminate.
    + apply failed_with_err. discriminate.
  - destruct (i_max i <=? Z.of_nat (List.length (List.concat (i_pages i))))%Z.
    + apply failed_with_err. discriminate.
    + destruct (i_lerr i).
      * rewrite andb_false_r. apply failed_with_err. discriminate.
      * destruct (Nat.eqb (List.length (List.concat (i_pages i))) 0) eqn:En.
        -- apply Nat.eqb_eq in En. rewrite En. cbn [andb negb]. rewrite pairs_nil, app_nil_r.
           apply failed_as_err. discriminate.
        -- cbn [andb]. apply failed_with_err. discriminate.
Qed.

Lemma model_spec_ok : forall i, wf i = true -> spec_ok i (model i) = true.
Proof.
  intros i _. unfold spec_ok, model.
  destruct (i_nilv i); [reflexivity|]. destruct (i_nilr i); [reflexivity|]. cbn [orb].
  destruct (i_max i <=? 0)%Z eqn:Emax; [reflexivity|].
  assert (Hmax : (0 < i_max i)%Z) by (apply Z.leb_gt; exact Emax).
  assert (Hargs : forall head, o_args (listing_obs i head) = true).
  { intros head. unfold listing_obs.
    destruct (find_stop (List.concat (i_pages i)) 0) as [[k x]|];
      repeat match goal with |- context [if ?c then _ else _] => destruct c end;
      try destruct x; reflexivity. }
  destruct (i_skip i); try reflexivity; unfold after_skip;
    destruct (i_ref i); try reflexivity; destruct (i_rerr i); try reflexivity;
    rewrite (after_listing_closed i _ Hmax), <- app_assoc; cbn [app];
    rewrite Hargs; apply listing_ok_obs.
Qed.

(* ---------- C10_flat: the paging is invisible ---------- *)

Definition with_pages (i : input) (pages : list (list sigk)) : input :=
  mk_input (i_nilv i) (i_nilr i) (i_max i) (i_skip i) (i_ref i) (i_rerr i) pages (i_lerr i).

Lemma model_pages i pages :
  List.concat pages = List.concat (i_pages i) -> model (with_pages i pages) = model i.
Proof.
  intros H. unfold model. cbn [with_pages i_nilv i_nilr i_max i_skip].
  destruct (i_nilv i); [reflexivity|]. destruct (i_nilr i); [reflexivity|].
  destruct (i_max i <=? 0)%Z eqn:Emax; [reflexivity|].
  assert (Hmax : (0 < i_max i)%Z) by (apply Z.leb_gt; exact Emax).
  assert (HL : forall log, after_listing (with_pages i pages) log = after_listing i log).
  { intros log. rewrite (after_listing_closed i log Hmax).
    rewrite (after_listing_closed (with_pages i pages) log Hmax).
    unfold listing_obs, with_pages. cbn [i_pages i_max i_lerr]. rewrite H. reflexivity. }
  unfold after_skip. cbn [with_pages i_ref i_rerr].
  destruct (i_skip i); try reflexivity; destruct (i_ref i); try reflexivity;
    destruct (i_rerr i); try reflexivity; apply HL.
Qed.

(* ====================================================================== *)
(* Statements of props/C10_Property.v                                      *)
(* ====================================================================== *)

(* the listing, whatever its paging *)
Definition listing (i : input) : list sigk := List.concat (i_pages i).

(* signature k verifies, is among the first [max], and every signature listed
   before it was fetched and failed verification *)
Definition first_good (l : list sigk) (max : Z) (k : nat) : Prop :=
  (Z.of_nat k < max)%Z /\ nth_error l k = Some G /\ forall j, j < k -> nth_error l j = Some Bd.

(* signature k is the first that is not a plain verification failure *)
Definition first_stop (l : list sigk) (k : nat) (x : sigk) : Prop :=
  nth_error l k = Some x /\ x <> Bd /\ forall j, j < k -> nth_error l j = Some Bd.

(* the arguments are there, the limit is positive, the verifier does not skip *)
Definition past_skip (i : input) : Prop :=
  i_nilv i = false /\ i_nilr i = false /\ (0 < i_max i)%Z /\
  (i_skip i = NoSkipper \/ i_skip i = SkipNo).

(* calls made up to and including ListSignatures when the listing is reached *)
Definition head_of (i : input) : list ev := pre_of i ++ [ER; EL].

(* positions fetched / verified, in call order *)
Definition fetches (log : list ev) : list nat :=
  flat_map (fun e => match e with EF k => [k] | _ => [] end) log.
Definition verifies (log : list ev) : list nat :=
  flat_map (fun e => match e with EV k => [k] | _ => [] end) log.
(* calls on the repository *)
Definition repo_calls (log : list ev) : list ev :=
  filter (fun e => match e with ES | EV _ => false | _ => true end) log.

Lemma find_stop0_some l k x : find_stop l 0 = Some (k, x) <-> first_stop l k x.
Proof.
  unfold first_stop. rewrite find_stop_some, Nat.sub_0_r. split.
  - intros (_ & H). exact H.
  - intros H. split; [lia | exact H].
Qed.

Lemma first_good_stop l max k : first_good l max k -> find_stop l 0 = Some (k, G).
Proof.
  intros (_ & Hn & Hb). apply find_stop0_some. split; [exact Hn|]. split; [discriminate | exact Hb].
Qed.

Lemma first_stop_lt l k x : first_stop l k x -> k < List.length l.
Proof. intros (Hn & _). apply nth_error_Some. congruence. Qed.

(* ---------- range / projections of the log ---------- *)

Lemma range_snoc k : range 0 (S k) = range 0 k ++ [k].
Proof. unfold range. rewrite !Nat.sub_0_r. rewrite seq_S. reflexivity. Qed.

Lemma fetches_app a b : fetches (a ++ b) = fetches a ++ fetches b.
Proof. unfold fetches. apply flat_map_app. Qed.

Lemma verifies_app a b : verifies (a ++ b) = verifies a ++ verifies b.
Proof. unfold verifies. apply flat_map_app. Qed.

Lemma fetches_pairs a b : fetches (pairs a b) = range a b.
Proof.
  unfold pairs. induction (range a b) as [|x l IH]; [reflexivity|].
  cbn [flat_map app]. change (fetches (EF x :: EV x :: ?t)) with (x :: fetches t). cbn.
  unfold fetches in *. cbn. rewrite IH. reflexivity.
Qed.

Lemma verifies_pairs a b : verifies (pairs a b) = range a b.
Proof.
  unfold pairs. induction (range a b) as [|x l IH]; [reflexivity|].
  unfold verifies in *. cbn. rewrite IH. reflexivity.
Qed.

Lemma fetches_head i : fetches (head_of i) = [] /\ verifies (head_of i) = [].
Proof. unfold head_of, pre_of. destruct (i_skip i); split; reflexivity. Qed.

Lemma pairs_length a b : List.length (pairs a b) = 2 * (b - a).
Proof.
  unfold pairs. rewrite <- (range_length a b).
  induction (range a b) as [|x l IH]; [reflexivity|]. cbn [flat_map app List.length]. rewrite IH. lia.
Qed.

(* ---------- which inputs reach the listing ---------- *)

Lemma model_head i : reaches_listing i -> model i = listing_obs i (head_of i).
Proof. exact (model_reaches i). Qed.

(* every other input ends before ListSignatures, with one of these observations *)
Lemma model_not_reaching i :
  reaches_listing i \/
  (model i = mk_obs ROk DZero OSkip [ES] true /\ i_nilv i = false /\ i_nilr i = false /\
   (0 < i_max i)%Z /\ i_skip i = SkipYes) \/
  (exists r log, model i = err_obs r log /\ r <> ROk /\
     (log = [] \/ log = [ES] \/ log = [ER] \/ log = [ES; ER])).
Proof.
  unfold model, reaches_listing.
  destruct (i_nilv i) eqn:Ev.
  { right; right. exists RNilVerifier, []. repeat split; [discriminate | auto]. }
  destruct (i_nilr i) eqn:Er.
  { right; right. exists RNilRepo, []. repeat split; [discriminate | auto]. }
  destruct (i_max i <=? 0)%Z eqn:Em.
  { right; right. exists RBadMax, []. repeat split; [discriminate | auto]. }
  assert (Hmax : (0 < i_max i)%Z) by (apply Z.leb_gt; exact Em).
  destruct (i_skip i) eqn:Es.
  2:{ right; right. exists RSkipErr, [ES]. repeat split; [discriminate | auto]. }
  2:{ right; left. repeat split; assumption. }
  all: unfold after_skip; destruct (i_ref i) eqn:Ef.
  all: try (right; right; eexists _, _; split; [reflexivity|]; split; [discriminate|]; cbn; auto; fail).
  all: destruct (i_rerr i) eqn:Ee.
  all: try (right; right; eexists _, _; split; [reflexivity|]; split; [discriminate|]; cbn; auto 6; fail).
  all: left; repeat split; auto.
Qed.

(* ---------- success ---------- *)

Lemma listing_obs_ok i head :
  o_res (listing_obs i head) = ROk ->
  exists k, first_good (listing i) (i_max i) k /\
            listing_obs i head = mk_obs ROk DResolved (OSig k) (head ++ pairs 0 (S k)) true.
Proof.
  unfold listing_obs, listing.
  destruct (find_stop (List.concat (i_pages i)) 0) as [[k x]|] eqn:Ef.
  - apply find_stop0_some in Ef. destruct Ef as (Hn & Hx & Hb).
    destruct (Z.of_nat k <? i_max i)%Z eqn:Ek; [|cbn; discriminate].
    apply Z.ltb_lt in Ek.
    destruct x; cbn; try discriminate. intros _. exists k. split; [|reflexivity].
    split; [exact Ek|]. split; assumption.
  - repeat match goal with |- context [if ?c then _ else _] => destruct c end; cbn; discriminate.
Qed.

Lemma listing_obs_good i head k :
  first_good (listing i) (i_max i) k ->
  listing_obs i head = mk_obs ROk DResolved (OSig k) (head ++ pairs 0 (S k)) true.
Proof.
  intros H. pose proof (first_good_stop _ _ _ H) as Ef. destruct H as (Hk & _).
  unfold listing_obs. unfold listing in Ef. rewrite Ef.
  apply Z.ltb_lt in Hk. rewrite Hk. reflexivity.
Qed.

(* C10_iff, on inputs that reach the listing *)
Lemma success_iff i k :
  reaches_listing i ->
  (o_res (model i) = ROk /\ o_outs (model i) = OSig k) <-> first_good (listing i) (i_max i) k.
Proof.
  intros Hr. rewrite (model_head i Hr). split.
  - intros (Hok & Ho). destruct (listing_obs_ok i _ Hok) as (k' & Hg & E).
    rewrite E in Ho. cbn in Ho. inversion Ho; subst. exact Hg.
  - intros Hg. rewrite (listing_obs_good i _ k Hg). split; reflexivity.
Qed.

(* what a success returns and which calls it made *)
Lemma success_returns i :
  o_res (model i) = ROk ->
  (i_skip i = SkipYes /\ model i = mk_obs ROk DZero OSkip [ES] true) \/
  (reaches_listing i /\ exists k, first_good (listing i) (i_max i) k /\
     model i = mk_obs ROk DResolved (OSig k) (head_of i ++ pairs 0 (S k)) true).
Proof.
  intros Hok. destruct (model_not_reaching i) as [Hr | [(E & _ & _ & _ & Hs) | (r & log & E & Hne & _)]].
  - right. split; [exact Hr|]. rewrite (model_head i Hr) in *.
    destruct (listing_obs_ok i _ Hok) as (k & Hg & E). exists k. split; assumption.
  - left. split; assumption.
  - rewrite E in Hok. cbn in Hok. congruence.
Qed.

(* the complete characterisation of success *)
Lemma ok_iff i :
  o_res (model i) = ROk <->
  i_nilv i = false /\ i_nilr i = false /\ (0 < i_max i)%Z /\
  (i_skip i = SkipYes \/
   (reaches_listing i /\ exists k, first_good (listing i) (i_max i) k)).
Proof.
  split.
  - intros Hok. destruct (success_returns i Hok) as [(Hs & E) | (Hr & k & Hg & E)].
    + destruct (model_not_reaching i) as [Hr | [(_ & Hv & Hre & Hm & _) | (r & log & E' & Hne & _)]].
      * destruct Hr as (_ & _ & _ & [H|H] & _); congruence.
      * repeat split; auto.
      * rewrite E' in Hok. cbn in Hok. congruence.
    + pose proof Hr as (Hv & Hre & Hm & _). repeat split; auto. right. split; [exact Hr|]. exists k. exact Hg.
  - intros (Hv & Hre & Hm & [Hs | (Hr & k & Hg)]).
    + unfold model. rewrite Hv, Hre, Hs.
      assert (E : (i_max i <=? 0)%Z = false) by (apply Z.leb_gt; exact Hm). rewrite E. reflexivity.
    + rewrite (model_head i Hr), (listing_obs_good i _ k Hg). reflexivity.
Qed.

(* the wording of the property: under the Verifier contract (a failing verifier
   returns an outcome: no signature of kind NO), success iff one of the first
   [max] listed signatures verifies and every signature listed before it could
   be fetched *)
Lemma success_iff_contract i :
  reaches_listing i -> ~ In NO (listing i) ->
  (o_res (model i) = ROk <->
   exists k, (Z.of_nat k < i_max i)%Z /\ nth_error (listing i) k = Some G /\
             forall j, j < k -> nth_error (listing i) j <> Some U).
Proof.
  intros Hr Hno. split.
  - intros Hok. rewrite (model_head i Hr) in Hok.
    destruct (listing_obs_ok i _ Hok) as (k & (Hk & Hn & Hb) & _).
    exists k. split; [exact Hk|]. split; [exact Hn|]. intros j Hj. rewrite (Hb j Hj). discriminate.
  - intros (k & Hk & Hn & Hu).
    rewrite (model_head i Hr).
    destruct (find_stop (listing i) 0) as [[k0 x]|] eqn:Ef.
    + apply find_stop0_some in Ef. destruct Ef as (Hn0 & Hx & Hb).
      assert (Hle : k0 <= k).
      { destruct (Nat.le_gt_cases k0 k) as [H|H]; [exact H|]. rewrite (Hb k H) in Hn. discriminate. }
      assert (Hg : x = G).
      { destruct (Nat.eq_dec k0 k) as [->|Hne]; [congruence|].
        destruct x; try reflexivity; try congruence.
        - exfalso. apply (Hu k0); [lia | exact Hn0].
        - exfalso. apply Hno. eapply nth_error_In. exact Hn0. }
      subst x. rewrite (listing_obs_good i _ k0); [reflexivity|].
      split; [lia|]. split; assumption.
    + exfalso. rewrite find_stop_none in Ef.
      assert (Hlt : k < List.length (listing i)) by (apply nth_error_Some; congruence).
      rewrite (Ef k Hlt) in Hn. discriminate.
Qed.

(* ---------- the calls ---------- *)

(* shape of the log of an input that reaches the listing: m signatures were
   fetched, in listing order, m <= max, m <= length of the listing; each was
   verified right after its fetch, except an unfetchable last one *)
Lemma log_shape i :
  reaches_listing i ->
  exists m, (Z.of_nat m <= i_max i)%Z /\ m <= List.length (listing i) /\
    (o_log (model i) = head_of i ++ pairs 0 m \/
     exists k, m = S k /\ nth_error (listing i) k = Some U /\ o_res (model i) = RFetch k /\
               o_log (model i) = head_of i ++ pairs 0 k ++ [EF k]).
Proof.
  intros Hr. rewrite (model_head i Hr). pose proof Hr as (_ & _ & Hmax & _).
  unfold listing_obs. fold (listing i).
  destruct (find_stop (listing i) 0) as [[k x]|] eqn:Ef.
  - apply find_stop0_some in Ef. pose proof (first_stop_lt _ _ _ Ef) as Hlen. destruct Ef as (Hn & Hx & Hb).
    destruct (Z.of_nat k <? i_max i)%Z eqn:Ek.
    + apply Z.ltb_lt in Ek. exists (S k). split; [lia|]. split; [lia|].
      destruct x; cbn; auto. right. exists k. auto.
    + apply Z.ltb_ge in Ek. exists (Z.to_nat (i_max i)). split; [lia|]. split; [lia|]. left. reflexivity.
  - destruct (i_max i <=? Z.of_nat (List.length (listing i)))%Z eqn:El.
    + apply Z.leb_le in El. exists (Z.to_nat (i_max i)). split; [lia|]. split; [lia|]. left. reflexivity.
    + apply Z.leb_gt in El. exists (List.length (listing i)). split; [lia|]. split; [lia|]. left.
      destruct (i_lerr i); [reflexivity|]. destruct (Nat.eqb (List.length (listing i)) 0); reflexivity.
Qed.

(* C10_calls, for every input: the fetches are positions 0 .. m-1 in order, at
   most max of them; the verifications are the same positions, except that an
   unfetchable last one is not verified *)
Lemma calls_bounded i :
  exists m, (Z.of_nat m <= Z.max 0 (i_max i))%Z /\ m <= List.length (listing i) /\
    fetches (o_log (model i)) = range 0 m /\
    (verifies (o_log (model i)) = range 0 m \/
     exists k, m = S k /\ nth_error (listing i) k = Some U /\ o_res (model i) = RFetch k /\
               verifies (o_log (model i)) = range 0 k).
Proof.
  destruct (model_not_reaching i) as [Hr | [(E & _) | (r & log & E & _ & Hl)]].
  - destruct (log_shape i Hr) as (m & Hm & Hlen & [E | (k & -> & Hn & Hres & E)]);
      destruct (fetches_head i) as (Hf & Hv).
    + exists m. split; [lia|]. split; [exact Hlen|]. rewrite E, fetches_app, verifies_app, Hf, Hv.
      rewrite fetches_pairs, verifies_pairs. auto.
    + exists (S k). split; [lia|]. split; [exact Hlen|].
      rewrite E, !fetches_app, !verifies_app, Hf, Hv, fetches_pairs, verifies_pairs, range_snoc.
      cbn [app]. split; [reflexivity|]. right. exists k. rewrite app_nil_r. auto.
  - exists 0. rewrite E. cbn. split; [lia|]. split; [lia|]. auto.
  - exists 0. rewrite E. cbn [err_obs o_log]. split; [lia|]. split; [lia|].
    destruct Hl as [-> | [-> | [-> | ->]]]; cbn; auto.
Qed.

(* on success: exactly signatures 0..k were fetched and verified, nothing after *)
Lemma calls_on_success i k :
  reaches_listing i -> first_good (listing i) (i_max i) k ->
  o_log (model i) = head_of i ++ pairs 0 (S k) /\
  fetches (o_log (model i)) = range 0 (S k) /\ verifies (o_log (model i)) = range 0 (S k) /\
  (Z.of_nat (List.length (fetches (o_log (model i)))) <= i_max i)%Z.
Proof.
  intros Hr Hg. rewrite (model_head i Hr), (listing_obs_good i _ k Hg). cbn [o_log].
  destruct (fetches_head i) as (Hf & Hv).
  rewrite fetches_app, verifies_app, Hf, Hv, fetches_pairs, verifies_pairs. cbn [app].
  repeat split; try reflexivity. rewrite range_0_length. destruct Hg as (Hk & _). lia.
Qed.

(* ---------- errors ---------- *)

(* an error returns the zero descriptor and no outcome *)
Lemma error_returns_nothing i :
  o_res (model i) <> ROk -> o_desc (model i) = DZero /\ o_outs (model i) = ONone.
Proof.
  intros Hne. destruct (model_not_reaching i) as [Hr | [(E & _) | (r & log & E & _)]].
  - rewrite (model_head i Hr) in *. revert Hne. unfold listing_obs.
    destruct (find_stop (List.concat (i_pages i)) 0) as [[k x]|];
      repeat match goal with |- context [if ?c then _ else _] => destruct c end;
      try destruct x; cbn; intros Hne; auto; congruence.
  - rewrite E in Hne. cbn in Hne. congruence.
  - rewrite E. cbn. auto.
Qed.

Lemma err_nil_args i :
  i_nilv i = true \/ i_nilr i = true ->
  o_res (model i) <> ROk /\ o_log (model i) = [] /\ o_desc (model i) = DZero /\ o_outs (model i) = ONone.
Proof.
  unfold model. intros [H | H]; rewrite H.
  - cbn. repeat split; discriminate.
  - destruct (i_nilv i); cbn; repeat split; discriminate.
Qed.

Lemma err_bad_max i :
  i_nilv i = false -> i_nilr i = false -> (i_max i <= 0)%Z -> model i = err_obs RBadMax [].
Proof.
  intros Hv Hr Hm. unfold model. rewrite Hv, Hr.
  assert (E : (i_max i <=? 0)%Z = true) by (apply Z.leb_le; exact Hm). rewrite E. reflexivity.
Qed.

Lemma model_past_skip i : past_skip i -> model i = after_skip i (pre_of i).
Proof.
  intros (Hv & Hr & Hm & Hs). unfold model, pre_of. rewrite Hv, Hr.
  assert (E : (i_max i <=? 0)%Z = false) by (apply Z.leb_gt; exact Hm). rewrite E.
  destruct Hs as [-> | ->]; reflexivity.
Qed.

Lemma err_no_ref i : past_skip i -> i_ref i = RNone -> model i = err_obs RNoRef (pre_of i).
Proof. intros Hp Hf. rewrite (model_past_skip i Hp). unfold after_skip. rewrite Hf. reflexivity. Qed.

Lemma err_bad_ref i : past_skip i -> i_ref i = RInvalid -> model i = err_obs RBadRef (pre_of i).
Proof. intros Hp Hf. rewrite (model_past_skip i Hp). unfold after_skip. rewrite Hf. reflexivity. Qed.

Lemma err_resolve i :
  past_skip i -> i_ref i <> RNone -> i_ref i <> RInvalid -> i_rerr i = true ->
  model i = err_obs RResolveErr (pre_of i ++ [ER]).
Proof.
  intros Hp H1 H2 He. rewrite (model_past_skip i Hp). unfold after_skip. rewrite He.
  destruct (i_ref i); try reflexivity; congruence.
Qed.

Lemma err_digest_mismatch i :
  past_skip i -> i_ref i = RDigDiff -> i_rerr i = false ->
  model i = err_obs RDigestMismatch (pre_of i ++ [ER]).
Proof.
  intros Hp Hf He. rewrite (model_past_skip i Hp). unfold after_skip. rewrite Hf, He. reflexivity.
Qed.

Lemma err_empty_listing i :
  reaches_listing i -> listing i = [] -> i_lerr i = false ->
  model i = err_obs RNoSignature (head_of i).
Proof.
  intros Hr Hl He. rewrite (model_head i Hr). pose proof Hr as (_ & _ & Hmax & _).
  unfold listing_obs. fold (listing i). rewrite Hl, He. cbn [find_stop List.length].
  assert (E : (i_max i <=? Z.of_nat 0)%Z = false) by (apply Z.leb_gt; cbn; lia). rewrite E.
  cbn [Nat.eqb]. rewrite pairs_nil, app_nil_r. reflexivity.
Qed.

Lemma err_list_error i :
  reaches_listing i -> listing i = [] -> i_lerr i = true ->
  model i = err_obs RListErr (head_of i).
Proof.
  intros Hr Hl He. rewrite (model_head i Hr). pose proof Hr as (_ & _ & Hmax & _).
  unfold listing_obs. fold (listing i). rewrite Hl, He. cbn [find_stop List.length].
  assert (E : (i_max i <=? Z.of_nat 0)%Z = false) by (apply Z.leb_gt; cbn; lia). rewrite E.
  cbn [Nat.eqb]. rewrite pairs_nil, app_nil_r. reflexivity.
Qed.

Lemma listing_obs_stop i head k x :
  first_stop (listing i) k x -> (Z.of_nat k < i_max i)%Z ->
  listing_obs i head =
  match x with
  | G => mk_obs ROk DResolved (OSig k) (head ++ pairs 0 (S k)) true
  | U => err_obs (RFetch k) (head ++ pairs 0 k ++ [EF k])
  | _ => err_obs (RNilOutcome k) (head ++ pairs 0 (S k))
  end.
Proof.
  intros Hs Hk. apply find_stop0_some in Hs. unfold listing_obs. unfold listing in Hs. rewrite Hs.
  apply Z.ltb_lt in Hk. rewrite Hk. reflexivity.
Qed.

(* a listed signature that cannot be fetched, reached within the limit *)
Lemma err_unfetchable i k :
  reaches_listing i -> first_stop (listing i) k U -> (Z.of_nat k < i_max i)%Z ->
  model i = err_obs (RFetch k) (head_of i ++ pairs 0 k ++ [EF k]).
Proof. intros Hr Hs Hk. rewrite (model_head i Hr). exact (listing_obs_stop i _ k U Hs Hk). Qed.

(* a verifier failing without an outcome *)
Lemma err_nil_outcome i k :
  reaches_listing i -> first_stop (listing i) k NO -> (Z.of_nat k < i_max i)%Z ->
  model i = err_obs (RNilOutcome k) (head_of i ++ pairs 0 (S k)).
Proof. intros Hr Hs Hk. rewrite (model_head i Hr). exact (listing_obs_stop i _ k NO Hs Hk). Qed.

(* the first max listed signatures all fail verification: the limit is exceeded *)
Lemma err_exceeded i :
  reaches_listing i ->
  (forall j, (Z.of_nat j < i_max i)%Z -> nth_error (listing i) j = Some Bd) ->
  model i = err_obs RExceeded (head_of i ++ pairs 0 (Z.to_nat (i_max i))).
Proof.
  intros Hr Hb. rewrite (model_head i Hr). pose proof Hr as (_ & _ & Hmax & _).
  unfold listing_obs. fold (listing i).
  destruct (find_stop (listing i) 0) as [[k x]|] eqn:Ef.
  - apply find_stop0_some in Ef. destruct Ef as (Hn & Hx & _).
    destruct (Z.of_nat k <? i_max i)%Z eqn:Ek; [|reflexivity].
    apply Z.ltb_lt in Ek. rewrite (Hb k Ek) in Hn. congruence.
  - destruct (i_max i <=? Z.of_nat (List.length (listing i)))%Z eqn:El; [reflexivity|].
    apply Z.leb_gt in El. specialize (Hb (List.length (listing i)) El).
    assert (nth_error (listing i) (List.length (listing i)) = None) by (apply nth_error_None; lia).
    congruence.
Qed.

(* fewer than max signatures, all failing verification *)
Lemma err_all_failed i :
  reaches_listing i -> listing i <> [] -> (Z.of_nat (List.length (listing i)) < i_max i)%Z ->
  (forall j, j < List.length (listing i) -> nth_error (listing i) j = Some Bd) -> i_lerr i = false ->
  model i = err_obs (RAllFailed (range 0 (List.length (listing i))))
                    (head_of i ++ pairs 0 (List.length (listing i))).
Proof.
  intros Hr Hne Hlt Hb He. rewrite (model_head i Hr).
  unfold listing_obs. fold (listing i).
  apply find_stop_none with (p := 0) in Hb. rewrite Hb, He.
  assert (E : (i_max i <=? Z.of_nat (List.length (listing i)))%Z = false) by (apply Z.leb_gt; exact Hlt).
  rewrite E. destruct (listing i); [congruence|]. reflexivity.
Qed.

(* ---------- skip ---------- *)

Lemma skip_nothing i :
  i_nilv i = false -> i_nilr i = false -> (0 < i_max i)%Z -> i_skip i = SkipYes ->
  model i = mk_obs ROk DZero OSkip [ES] true.
Proof.
  intros Hv Hr Hm Hs. unfold model. rewrite Hv, Hr, Hs.
  assert (E : (i_max i <=? 0)%Z = false) by (apply Z.leb_gt; exact Hm). rewrite E. reflexivity.
Qed.

Lemma skip_no_repo_calls i : i_skip i = SkipYes -> repo_calls (o_log (model i)) = [].
Proof.
  intros Hs. unfold model. destruct (i_nilv i); [reflexivity|]. destruct (i_nilr i); [reflexivity|].
  destruct (i_max i <=? 0)%Z; [reflexivity|]. rewrite Hs. reflexivity.
Qed.

Lemma skip_error i :
  i_nilv i = false -> i_nilr i = false -> (0 < i_max i)%Z -> i_skip i = SkipErr ->
  model i = err_obs RSkipErr [ES].
Proof.
  intros Hv Hr Hm Hs. unfold model. rewrite Hv, Hr, Hs.
  assert (E : (i_max i <=? 0)%Z = false) by (apply Z.leb_gt; exact Hm). rewrite E. reflexivity.
Qed.

(* ---------- C10_flat in the form run(pages) = run(one page) ---------- *)

Lemma model_flat i : model i = model (with_pages i [listing i]).
Proof.
  symmetry. apply model_pages. cbn. rewrite app_nil_r. reflexivity.
Qed.
