(* C10_Proofs.v — proofs about the model of notation.Verify (C10_Model.v).
   Main steps:
     page_loop_app / pages_concat : the callback run page by page = run once on
                                    the concatenated listing (paging is invisible)
     page_loop_spec               : closed form of the loop on a flat listing in
                                    terms of the first decisive signature
     model_closed                 : closed form of the whole model
   from which the statements of props/C10_Property.v follow. *)
From NV Require Import Base C10_Model.
Local Open Scope list_scope.

(* ---------- range / pairs ---------- *)

Lemma range_nil a : range a a = [].
Proof. unfold range. rewrite Nat.sub_diag. reflexivity. Qed.

Lemma range_cons a b : a < b -> range a b = a :: range (S a) b.
Proof.
  intros H. unfold range. replace (b - a) with (S (b - S a)) by lia. reflexivity.
Qed.

Lemma range_length a b : List.length (range a b) = b - a.
Proof. unfold range. apply seq_length. Qed.

Lemma range_0_length b : List.length (range 0 b) = b.
Proof. rewrite range_length. lia. Qed.

Lemma in_range a b x : In x (range a b) <-> a <= x < b.
Proof. unfold range. rewrite in_seq. lia. Qed.

Lemma pairs_nil a : pairs a a = [].
Proof. unfold pairs. rewrite range_nil. reflexivity. Qed.

Lemma pairs_cons a b : a < b -> pairs a b = EF a :: EV a :: pairs (S a) b.
Proof. intros H. unfold pairs. rewrite (range_cons a b H). reflexivity. Qed.

(* ---------- reflexivity of the boolean equalities ---------- *)

Lemma nat_list_eqb_refl (l : list nat) : list_eqb Nat.eqb l l = true.
Proof. induction l as [|x l IH]; cbn; [reflexivity|]. rewrite Nat.eqb_refl, IH. reflexivity. Qed.

Lemma ev_eqb_refl e : ev_eqb e e = true.
Proof. destruct e; cbn; try reflexivity; apply Nat.eqb_refl. Qed.

Lemma log_eqb_refl (l : list ev) : list_eqb ev_eqb l l = true.
Proof. induction l as [|x l IH]; cbn; [reflexivity|]. rewrite ev_eqb_refl, IH. reflexivity. Qed.

Lemma res_eqb_refl r : res_eqb r r = true.
Proof. destruct r; cbn; try reflexivity; try apply Nat.eqb_refl. apply nat_list_eqb_refl. Qed.

Lemma outs_eqb_refl o : outs_eqb o o = true.
Proof. destruct o; cbn; try reflexivity; apply Nat.eqb_refl. Qed.

Lemma failed_with_err r log : r <> ROk -> failed_with (err_obs r log) log = true.
Proof.
  intros H. unfold failed_with, is_ok, err_obs. cbn.
  rewrite log_eqb_refl. destruct r; try reflexivity. congruence.
Qed.

Lemma failed_as_err r log : r <> ROk -> failed_as r (err_obs r log) log = true.
Proof.
  intros H. unfold failed_as. rewrite (failed_with_err r log H).
  cbn. rewrite res_eqb_refl. reflexivity.
Qed.

(* ---------- the loop at the limit ---------- *)

Lemma page_loop_full max pos s l :
  (max <= Z.of_nat (s_n s))%Z -> page_loop max pos s l = (s, Stop EExceeded).
Proof.
  intros H. assert (E : (max <=? Z.of_nat (s_n s))%Z = true) by (apply Z.leb_le; exact H).
  destruct l as [|x r]; cbn [page_loop]; unfold after_loop; rewrite ?E; reflexivity.
Qed.

Lemma page_loop_cont max : forall l pos s s',
  page_loop max pos s l = (s', Cont) -> (Z.of_nat (s_n s') < max)%Z.
Proof.
  induction l as [|x r IH]; intros pos s s' H; cbn [page_loop] in H.
  - unfold after_loop in H. destruct (max <=? Z.of_nat (s_n s))%Z eqn:E; inversion H; subst.
    apply Z.leb_gt. exact E.
  - unfold after_loop in H. destruct (max <=? Z.of_nat (s_n s))%Z eqn:E; [discriminate|].
    destruct x; try discriminate. eapply IH. exact H.
Qed.

(* ---------- paging is invisible ---------- *)

Lemma page_loop_app max : forall p q pos s,
  (Z.of_nat (s_n s) < max)%Z ->
  page_loop max pos s (p ++ q) =
  match page_loop max pos s p with
  | (s', Cont) => page_loop max (pos + List.length p) s' q
  | r => r
  end.
Proof.
  induction p as [|x p IH]; intros q pos s H.
  - cbn [app page_loop List.length]. unfold after_loop.
    assert (E : (max <=? Z.of_nat (s_n s))%Z = false) by (apply Z.leb_gt; exact H).
    rewrite E, Nat.add_0_r. reflexivity.
  - cbn [app page_loop List.length].
    assert (E : (max <=? Z.of_nat (s_n s))%Z = false) by (apply Z.leb_gt; exact H).
    rewrite E. destruct x; try reflexivity.
    cbn [s_n s_failed s_ok s_log].
    match goal with |- page_loop max (S pos) ?t (p ++ q) = _ => set (s2 := t) end.
    destruct (Z.ltb_spec (Z.of_nat (s_n s2)) max) as [Hlt|Hge].
    + rewrite (IH q (S pos) s2 Hlt). replace (pos + S (List.length p)) with (S pos + List.length p) by lia.
      reflexivity.
    + rewrite !(page_loop_full max (S pos) s2 _ Hge). reflexivity.
Qed.

Lemma pages_concat max : forall pages pos s,
  (Z.of_nat (s_n s) < max)%Z ->
  pages_loop max pos s pages = page_loop max pos s (List.concat pages).
Proof.
  induction pages as [|p ps IH]; intros pos s H.
  - cbn. unfold after_loop.
    assert (E : (max <=? Z.of_nat (s_n s))%Z = false) by (apply Z.leb_gt; exact H).
    rewrite E. reflexivity.
  - cbn [pages_loop List.concat]. rewrite (page_loop_app max p (List.concat ps) pos s H).
    destruct (page_loop max pos s p) as [s' c] eqn:E. destruct c as [|e]; [|reflexivity].
    apply IH. eapply page_loop_cont. exact E.
Qed.

(* ---------- the first decisive signature ---------- *)

Lemma find_stop_ge : forall l p k x, find_stop l p = Some (k, x) -> p <= k.
Proof.
  induction l as [|y r IH]; intros p k x H; cbn in H; [discriminate|].
  destruct y; try (inversion H; subst; lia).
  apply IH in H. lia.
Qed.

Lemma find_stop_some : forall l p k x,
  find_stop l p = Some (k, x) <->
  p <= k /\ nth_error l (k - p) = Some x /\ x <> Bd /\
  forall j, j < k - p -> nth_error l j = Some Bd.
Proof.
  induction l as [|y r IH]; intros p k x.
  - cbn. split; [discriminate|]. intros (_ & H & _). destruct (k - p); discriminate.
  - destruct y.
    2:{ (* Bd *)
      cbn [find_stop]. rewrite IH. split.
      - intros (Hle & Hn & Hx & Hb). split; [lia|].
        replace (k - p) with (S (k - S p)) by lia. cbn [nth_error]. split; [exact Hn|]. split; [exact Hx|].
        intros j Hj. destruct j as [|j]; [reflexivity|]. cbn. apply Hb. lia.
      - intros (Hle & Hn & Hx & Hb).
        assert (Hlt : p < k).
        { destruct (Nat.eq_dec p k) as [->|]; [|lia]. rewrite Nat.sub_diag in Hn. cbn in Hn. congruence. }
        split; [lia|]. replace (k - p) with (S (k - S p)) in Hn, Hb by lia. cbn [nth_error] in Hn.
        split; [exact Hn|]. split; [exact Hx|]. intros j Hj. apply (Hb (S j)). lia. }
    all: cbn [find_stop]; split;
      [ intros H; inversion H; subst; rewrite Nat.sub_diag; cbn;
        split; [lia|]; split; [reflexivity|]; split; [discriminate|]; intros j Hj; lia
      | intros (Hle & Hn & Hx & Hb);
        destruct (k - p) as [|d] eqn:Ed;
        [ cbn in Hn; inversion Hn; subst; f_equal; f_equal; lia
        | specialize (Hb 0 ltac:(lia)); cbn in Hb; discriminate ] ].
Qed.

Lemma find_stop_none : forall l p,
  find_stop l p = None <-> forall j, j < List.length l -> nth_error l j = Some Bd.
Proof.
  induction l as [|y r IH]; intros p.
  - cbn. split; [intros _ j Hj; lia | reflexivity].
  - destruct y.
    2:{ cbn [find_stop List.length]. rewrite IH. split.
        - intros H j Hj. destruct j as [|j]; [reflexivity|]. cbn. apply H. lia.
        - intros H j Hj. apply (H (S j)). lia. }
    all: cbn [find_stop List.length]; split; [discriminate|];
      intros H; specialize (H 0 ltac:(lia)); cbn in H; discriminate.
Qed.

(* ---------- closed form of the loop on a flat listing ---------- *)

Definition full_result (max : Z) (pos : nat) (s : st) : st * cb :=
  let M := Z.to_nat max in
  (mk_st M (s_failed s ++ range pos M) (s_ok s) (s_log s ++ pairs pos M), Stop EExceeded).

Definition flat_result (max : Z) (pos : nat) (s : st) (l : list sigk) : st * cb :=
  match find_stop l pos with
  | Some (k, x) =>
      if (Z.of_nat k <? max)%Z then
        match x with
        | G => (mk_st (S k) (s_failed s ++ range pos k) (Some k) (s_log s ++ pairs pos (S k)), Stop EDone)
        | U => (mk_st (S k) (s_failed s ++ range pos k) (s_ok s) (s_log s ++ pairs pos k ++ [EF k]),
                Stop (EFetchE k))
        | _ => (mk_st (S k) (s_failed s ++ range pos k) (s_ok s) (s_log s ++ pairs pos (S k)),
                Stop (ENilOut k))
        end
      else full_result max pos s
  | None =>
      let e := pos + List.length l in
      if (max <=? Z.of_nat e)%Z then full_result max pos s
      else (mk_st e (s_failed s ++ range pos e) (s_ok s) (s_log s ++ pairs pos e), Cont)
  end.

(* one failing signature processed: the state the loop continues with *)
Definition step_bad (pos : nat) (s : st) : st :=
  mk_st (S pos) (s_failed s ++ [pos]) (s_ok s) ((s_log s ++ [EF pos]) ++ [EV pos]).

Lemma failed_shift f pos b : pos < b -> (f ++ [pos]) ++ range (S pos) b = f ++ range pos b.
Proof. intros H. rewrite (range_cons pos b H), <- app_assoc. reflexivity. Qed.

Lemma log_shift (lg : list ev) pos b t :
  pos < b -> (((lg ++ [EF pos]) ++ [EV pos]) ++ pairs (S pos) b ++ t) = lg ++ pairs pos b ++ t.
Proof. intros H. rewrite (pairs_cons pos b H), <- !app_assoc. reflexivity. Qed.

Lemma log_shift0 (lg : list ev) pos b :
  pos < b -> (((lg ++ [EF pos]) ++ [EV pos]) ++ pairs (S pos) b) = lg ++ pairs pos b.
Proof.
  intros H. pose proof (log_shift lg pos b [] H) as E. rewrite !app_nil_r in E. exact E.
Qed.

Lemma flat_result_bad max pos s r :
  (Z.of_nat (S pos) < max)%Z ->
  flat_result max (S pos) (step_bad pos s) r = flat_result max pos s (Bd :: r).
Proof.
  intros H. unfold flat_result. cbn [find_stop].
  assert (HM : S pos < Z.to_nat max) by lia.
  assert (Efull : full_result max (S pos) (step_bad pos s) = full_result max pos s).
  { unfold full_result, step_bad. cbn [s_failed s_ok s_log].
    rewrite failed_shift, log_shift0 by lia. reflexivity. }
  destruct (find_stop r (S pos)) as [[k x]|] eqn:E.
  - apply find_stop_ge in E.
    destruct (Z.of_nat k <? max)%Z; [|exact Efull].
    unfold step_bad; cbn [s_failed s_ok s_log].
    destruct x; rewrite ?failed_shift, ?log_shift0, ?log_shift by lia; try reflexivity.
    (* Bd cannot be decisive, but the closed form treats it like NO *)
  - cbn [List.length]. replace (pos + S (List.length r)) with (S pos + List.length r) by lia.
    destruct (max <=? Z.of_nat (S pos + List.length r))%Z; [exact Efull|].
    unfold step_bad; cbn [s_failed s_ok s_log].
    destruct (List.length r) as [|n].
    + rewrite Nat.add_0_r. rewrite range_nil, pairs_nil, !app_nil_r.
      rewrite (range_cons pos (S pos)), range_nil, (pairs_cons pos (S pos)), pairs_nil by lia.
      rewrite <- !app_assoc. reflexivity.
    + rewrite failed_shift, log_shift0 by lia. reflexivity.
Qed.

Lemma page_loop_spec max : forall l pos s,
  s_n s = pos -> (Z.of_nat pos < max)%Z ->
  page_loop max pos s l = flat_result max pos s l.
Proof.
  induction l as [|x r IH]; intros pos s Hn Hlt.
  - cbn [page_loop]. unfold after_loop, flat_result. cbn [find_stop List.length].
    rewrite Nat.add_0_r, Hn.
    assert (E : (max <=? Z.of_nat pos)%Z = false) by (apply Z.leb_gt; exact Hlt).
    rewrite E, range_nil, pairs_nil, !app_nil_r. destruct s; cbn in *; subst; reflexivity.
  - cbn [page_loop]. rewrite Hn.
    assert (E : (max <=? Z.of_nat pos)%Z = false) by (apply Z.leb_gt; exact Hlt).
    assert (E' : (Z.of_nat pos <? max)%Z = true) by (apply Z.ltb_lt; exact Hlt).
    rewrite E. cbn [s_n s_failed s_ok s_log].
    destruct x.
    + (* G *) unfold flat_result. cbn [find_stop]. rewrite E'.
      rewrite range_nil, app_nil_r, (pairs_cons pos (S pos)), pairs_nil, <- app_assoc by lia. reflexivity.
    + (* Bd *)
      change (mk_st (S pos) (s_failed s ++ [pos]) (s_ok s) ((s_log s ++ [EF pos]) ++ [EV pos]))
        with (step_bad pos s).
      destruct (Z.ltb_spec (Z.of_nat (S pos)) max) as [Hlt2|Hge].
      * rewrite (IH (S pos) (step_bad pos s) eq_refl Hlt2). apply flat_result_bad. exact Hlt2.
      * rewrite (page_loop_full max (S pos) (step_bad pos s) r) by (cbn; lia).
        assert (HM : Z.to_nat max = S pos) by lia.
        assert (Efull : full_result max pos s = (step_bad pos s, Stop EExceeded)).
        { unfold full_result, step_bad. rewrite HM.
          rewrite (range_cons pos (S pos)), range_nil, (pairs_cons pos (S pos)), pairs_nil by lia.
          rewrite <- !app_assoc. reflexivity. }
        unfold flat_result. cbn [find_stop].
        destruct (find_stop r (S pos)) as [[k y]|] eqn:Ef.
        -- apply find_stop_ge in Ef.
           assert (E2 : (Z.of_nat k <? max)%Z = false) by (apply Z.ltb_ge; lia).
           rewrite E2. symmetry. exact Efull.
        -- cbn [List.length].
           assert (E2 : (max <=? Z.of_nat (pos + S (List.length r)))%Z = true) by (apply Z.leb_le; lia).
           rewrite E2. symmetry. exact Efull.
    + (* U *) unfold flat_result. cbn [find_stop]. rewrite E'.
      rewrite range_nil, pairs_nil, app_nil_r. reflexivity.
    + (* NO *) unfold flat_result. cbn [find_stop]. rewrite E'.
      rewrite range_nil, app_nil_r, (pairs_cons pos (S pos)), pairs_nil, <- app_assoc by lia. reflexivity.
Qed.

(* ---------- closed form of the model ---------- *)

(* what Verify answers once the listing is reached; [head] = calls made so far,
   ListSignatures included *)
Definition listing_obs (i : input) (head : list ev) : obs :=
  let l := List.concat (i_pages i) in
  let n := List.length l in
  let max := i_max i in
  match find_stop l 0 with
  | Some (k, x) =>
      if (Z.of_nat k <? max)%Z then
        match x with
        | G => mk_obs ROk DResolved (OSig k) (head ++ pairs 0 (S k)) true
        | U => err_obs (RFetch k) (head ++ pairs 0 k ++ [EF k])
        | _ => err_obs (RNilOutcome k) (head ++ pairs 0 (S k))
        end
      else err_obs RExceeded (head ++ pairs 0 (Z.to_nat max))
  | None =>
      if (max <=? Z.of_nat n)%Z then err_obs RExceeded (head ++ pairs 0 (Z.to_nat max))
      else if i_lerr i then err_obs RListErr (head ++ pairs 0 n)
      else if Nat.eqb n 0 then err_obs RNoSignature (head ++ pairs 0 n)
      else err_obs (RAllFailed (range 0 n)) (head ++ pairs 0 n)
  end.

Lemma after_listing_closed i log :
  (0 < i_max i)%Z -> after_listing i log = listing_obs i (log ++ [EL]).
Proof.
  intros Hmax. unfold after_listing.
  set (s0 := mk_st 0 [] None (log ++ [EL])).
  rewrite (pages_concat (i_max i) (i_pages i) 0 s0) by (cbn; lia).
  rewrite (page_loop_spec (i_max i) (List.concat (i_pages i)) 0 s0 eq_refl) by lia.
  unfold flat_result, listing_obs, full_result. cbn [Nat.add].
  destruct (find_stop (List.concat (i_pages i)) 0) as [[k x]|] eqn:Ef.
  - destruct (Z.of_nat k <? i_max i)%Z eqn:Ek.
    + destruct x; cbn; reflexivity.
    + cbn. reflexivity.
  - destruct (i_max i <=? Z.of_nat (List.length (List.concat (i_pages i))))%Z eqn:El.
    + cbn. reflexivity.
    + cbn [s0 s_n s_failed s_ok s_log app]. destruct (i_lerr i); [reflexivity|].
      destruct (Nat.eqb (List.length (List.concat (i_pages i))) 0); reflexivity.
Qed.

Definition pre_of (i : input) : list ev :=
  match i_skip i with NoSkipper => [] | _ => [ES] end.

Definition reaches_listing (i : input) : Prop :=
  i_nilv i = false /\ i_nilr i = false /\ (0 < i_max i)%Z /\
  (i_skip i = NoSkipper \/ i_skip i = SkipNo) /\
  (i_ref i = RTag \/ i_ref i = RDigSame) /\ i_rerr i = false.

Lemma model_reaches i :
  reaches_listing i -> model i = listing_obs i (pre_of i ++ [ER; EL]).
Proof.
  intros (Hv & Hr & Hmax & Hs & Href & Hre). unfold model, pre_of.
  rewrite Hv, Hr. assert (E : (i_max i <=? 0)%Z = false) by (apply Z.leb_gt; exact Hmax). rewrite E.
  destruct Hs as [-> | ->]; unfold after_skip; rewrite Hre;
    destruct Href as [-> | ->]; rewrite (after_listing_closed i _ Hmax), <- app_assoc; reflexivity.
Qed.

(* ---------- the model meets the oracle ---------- *)

Lemma listing_ok_obs i head : listing_ok i head (listing_obs i head) = true.
Proof.
  unfold listing_ok, listing_obs.
  destruct (find_stop (List.concat (i_pages i)) 0) as [[k x]|] eqn:Ef.
  - destruct (Z.of_nat k <? i_max i)%Z.
    + destruct x.
      * unfold is_ok. cbn. rewrite Nat.eqb_refl, log_eqb_refl. reflexivity.
      * apply failed_with_err. discriminate.
      * apply failed_as_err. discriminate.
      * apply failed_with_err. discriminate.
    + apply failed_with_err. discriminate.
  - destruct (i_max i <=? Z.of_nat (List.length (List.concat (i_pages i))))%Z.
    + apply failed_with_err. discriminate.
    + destruct (i_lerr i).
      * rewrite andb_false_r. apply failed_with_err. discriminate.
      * destruct (Nat.eqb (List.length (List.concat (i_pages i))) 0) eqn:En.
        -- apply Nat.eqb_eq in En. rewrite En. cbn [andb negb]. rewrite pairs_nil, app_nil_r.
           apply failed_as_err. discriminate.
        -- cbn [andb]. apply failed_with_err. discriminate.
Qed.

Lemma model_spec_ok : forall i, wf i = true -> spec_ok i (model i) = true.
Proof.
  intros i _. unfold spec_ok, model.
  destruct (i_nilv i); [reflexivity|]. destruct (i_nilr i); [reflexivity|]. cbn [orb].
  destruct (i_max i <=? 0)%Z eqn:Emax; [reflexivity|].
  assert (Hmax : (0 < i_max i)%Z) by (apply Z.leb_gt; exact Emax).
  assert (Hargs : forall head, o_args (listing_obs i head) = true).
  { intros head. unfold listing_obs.
    destruct (find_stop (List.concat (i_pages i)) 0) as [[k x]|];
      repeat match goal with |- context [if ?c then _ else _] => destruct c end;
      try destruct x; reflexivity. }
  destruct (i_skip i); try reflexivity; unfold after_skip;
    destruct (i_ref i); try reflexivity; destruct (i_rerr i); try reflexivity;
    rewrite (after_listing_closed i _ Hmax), <- app_assoc; cbn [app];
    rewrite Hargs; apply listing_ok_obs.
Qed.

(* ---------- C10_flat: the paging is invisible ---------- *)

Definition with_pages (i : input) (pages : list (list sigk)) : input :=
  mk_input (i_nilv i) (i_nilr i) (i_max i) (i_skip i) (i_ref i) (i_rerr i) pages (i_lerr i).

Lemma model_pages i pages :
  List.concat pages = List.concat (i_pages i) -> model (with_pages i pages) = model i.
Proof.
  intros H. unfold model. cbn [with_pages i_nilv i_nilr i_max i_skip].
  destruct (i_nilv i); [reflexivity|]. destruct (i_nilr i); [reflexivity|].
  destruct (i_max i <=? 0)%Z eqn:Emax; [reflexivity|].
  assert (Hmax : (0 < i_max i)%Z) by (apply Z.leb_gt; exact Emax).
  assert (HL : forall log, after_listing (with_pages i pages) log = after_listing i log).
  { intros log. rewrite (after_listing_closed i log Hmax).
    rewrite (after_listing_closed (with_pages i pages) log Hmax).
    unfold listing_obs, with_pages. cbn [i_pages i_max i_lerr]. rewrite H. reflexivity. }
  unfold after_skip. cbn [with_pages i_ref i_rerr].
  destruct (i_skip i); try reflexivity; destruct (i_ref i); try reflexivity;
    destruct (i_rerr i); try reflexivity; apply HL.
Qed.
