(* C09_Compose.v — the "valid document" hypotheses of C08 and C03 follow from
   acceptance by the C09 model of OCIDocument.Validate / BlobDocument.Validate.

   C08_Model.valid_doc and the policy part of C03_Model.wf are boolean facts
   that C08 / C03 only CHECK on the documents their harnesses generate. Here a
   C09 document is translated field by field into the representations of C08
   and C03, and the facts are PROVED from [validate_oci d = EOk] /
   [validate_blob d = EOk]. *)
From NV Require Import Base Regex Generated C02_Levels C04_DN C09_Model C09_Spec C09_Proofs.
From NV Require C08_Model C03_Model.
Open Scope string_scope.
Open Scope list_scope.

(* ---------- translations ---------- *)

Definition to_c08_sv (sv : sigver) : C08_Model.sigver :=
  C08_Model.mk_sv (sv_level sv) (sv_override sv) (sv_ts sv).

(* an OCI statement has no globalPolicy member *)
Definition to_c08_oci_stmt (s : stmt) : C08_Model.stmt :=
  C08_Model.mk_stmt (s_name s) (s_scopes s) (to_c08_sv (s_sv s)) (s_stores s) (s_ids s) false.

(* a blob statement has no registryScopes member *)
Definition to_c08_blob_stmt (s : stmt) : C08_Model.stmt :=
  C08_Model.mk_stmt (s_name s) [] (to_c08_sv (s_sv s)) (s_stores s) (s_ids s) (s_global s).

Definition to_c08_oci (d : doc) : list C08_Model.stmt := map to_c08_oci_stmt (d_stmts d).
Definition to_c08_blob (d : doc) : list C08_Model.stmt := map to_c08_blob_stmt (d_stmts d).

(* C03 keeps, of signatureVerification, the action of authenticity in the
   yielded level and whether verifyTimestamp demands a countersignature for
   this chain ([expired]: a certificate of the chain has expired) *)
Definition c03_action (sv : sigver) : C03_Model.action :=
  match get_level (sv_level sv) (sv_override sv) with
  | inr (n, enf) =>
      if String.eqb n "skip" then C03_Model.SkipLevel
      else if String.eqb (lookup_default "authenticity" enf) "enforce" then C03_Model.Enforce
      else C03_Model.Log
  | inl _ => C03_Model.SkipLevel
  end.

Definition c03_ts (expired : bool) (sv : sigver) : bool :=
  if String.eqb (sv_ts sv) gen_option_after_cert_expiry then expired else true.

Definition to_c03_stmt (expired : bool) (s : stmt) : C03_Model.stmt :=
  C03_Model.mk_stmt (s_name s) (s_scopes s) (s_stores s) (c03_action (s_sv s)) (c03_ts expired (s_sv s)).

Definition to_c03 (expired : bool) (d : doc) : list C03_Model.stmt := map (to_c03_stmt expired) (d_stmts d).

(* the policy part of C03_Model.wf *)
Definition c03_policy_wf (p : list C03_Model.stmt) : bool :=
  forallb (fun s => forallb C03_Model.valid_store (C03_Model.st_stores s)) p
  && C03_Model.nodup_str (flat_map C03_Model.st_scopes p).

(* ---------- what acceptance gives, in boolean form ---------- *)

Lemma accepted_common : forall k d, validate k d = EOk ->
  has_dup (map s_name (d_stmts d)) = false /\ forallb stmt_ok_b (d_stmts d) = true.
Proof.
  intros k d H. apply validate_ok_b in H. unfold wellformed_b, doc_common_ok_b in H.
  rewrite !andb_true_iff, !negb_true_iff in H. tauto.
Qed.

Lemma accepted_oci : forall d, validate_oci d = EOk ->
  forallb stmt_scopes_ok_b (d_stmts d) = true /\ has_dup (flat_map s_scopes (d_stmts d)) = false.
Proof.
  intros d H. apply (validate_ok_b OCI) in H. unfold wellformed_b in H.
  rewrite !andb_true_iff, !negb_true_iff in H. tauto.
Qed.

Lemma accepted_blob : forall d, validate_blob d = EOk ->
  (List.length (filter s_global (d_stmts d)) <= 1)%nat.
Proof.
  intros d H. apply (validate_ok_b Blob) in H. unfold wellformed_b in H.
  rewrite !andb_true_iff, Nat.leb_le in H. tauto.
Qed.

Lemma forallb_map : forall {A B} (f : B -> bool) (g : A -> B) l,
  forallb f (map g l) = forallb (fun x => f (g x)) l.
Proof. intros A B f g l. induction l as [|a l IH]; cbn; [reflexivity | rewrite IH; reflexivity]. Qed.

(* ---------- C08 ---------- *)

Lemma nodupb_has_dup : forall l, C08_Model.nodupb l = negb (has_dup l).
Proof.
  induction l as [|x l IH]; cbn; [reflexivity|]. rewrite IH, negb_orb. reflexivity.
Qed.

Lemma c08_names_oci : forall ss, map C08_Model.s_name (map to_c08_oci_stmt ss) = map s_name ss.
Proof. intros ss. rewrite map_map. reflexivity. Qed.

Lemma c08_names_blob : forall ss, map C08_Model.s_name (map to_c08_blob_stmt ss) = map s_name ss.
Proof. intros ss. rewrite map_map. reflexivity. Qed.

Lemma c08_scopes_oci : forall ss,
  List.concat (map C08_Model.s_scopes (map to_c08_oci_stmt ss)) = flat_map s_scopes ss.
Proof. intros ss. rewrite map_map, flat_map_concat_map. reflexivity. Qed.

Lemma c08_scopes_blob : forall ss,
  List.concat (map C08_Model.s_scopes (map to_c08_blob_stmt ss)) = [].
Proof. induction ss as [|s r IH]; cbn; [reflexivity | exact IH]. Qed.

Lemma c08_globals_oci : forall ss, filter C08_Model.s_global (map to_c08_oci_stmt ss) = [].
Proof. induction ss as [|s r IH]; cbn; [reflexivity | exact IH]. Qed.

Lemma c08_globals_blob : forall ss,
  List.length (filter C08_Model.s_global (map to_c08_blob_stmt ss)) = List.length (filter s_global ss).
Proof.
  induction ss as [|s r IH]; cbn; [reflexivity|]. destruct (s_global s); cbn; rewrite IH; reflexivity.
Qed.

Lemma lone_wildcard_c08 : forall l, lone_wildcard_b l = true ->
  negb (mem_str C08_Model.wildcard l) || list_eqb String.eqb l [C08_Model.wildcard] = true.
Proof.
  intros l H. apply lone_wildcard_reflect in H. unfold LoneWildcard in H.
  change C08_Model.wildcard with wildcard.
  destruct (mem_str wildcard l) eqn:E; [|reflexivity].
  apply mem_str_In in E. rewrite (H E). reflexivity.
Qed.

Theorem c08_valid_from_oci : forall d, validate_oci d = EOk -> C08_Model.valid_doc (to_c08_oci d) = true.
Proof.
  intros d H. destruct (accepted_common OCI d H) as [Hn _]. destruct (accepted_oci d H) as [Hs Hd].
  unfold C08_Model.valid_doc, C08_Model.scopes_unique, C08_Model.names_unique, C08_Model.global_unique,
    C08_Model.wildcard_alone, to_c08_oci.
  rewrite c08_scopes_oci, c08_names_oci, c08_globals_oci, !nodupb_has_dup, Hn, Hd. cbn [negb andb].
  rewrite forallb_map. eapply forallb_impl; [|exact Hs].
  intros s Hok. cbn [to_c08_oci_stmt C08_Model.s_scopes]. apply lone_wildcard_c08.
  unfold stmt_scopes_ok_b in Hok. rewrite !andb_true_iff in Hok. tauto.
Qed.

Theorem c08_valid_from_blob : forall d, validate_blob d = EOk -> C08_Model.valid_doc (to_c08_blob d) = true.
Proof.
  intros d H. destruct (accepted_common Blob d H) as [Hn _]. pose proof (accepted_blob d H) as Hg.
  unfold C08_Model.valid_doc, C08_Model.scopes_unique, C08_Model.names_unique, C08_Model.global_unique,
    C08_Model.wildcard_alone, to_c08_blob.
  rewrite c08_scopes_blob, c08_names_blob, !nodupb_has_dup, Hn. cbn [C08_Model.nodupb has_dup negb andb].
  rewrite <- c08_globals_blob in Hg.
  assert (Hgu : match filter C08_Model.s_global (map to_c08_blob_stmt (d_stmts d)) with
                | [] | [_] => true | _ => false end = true).
  { destruct (filter C08_Model.s_global (map to_c08_blob_stmt (d_stmts d))) as [|a [|b l]];
      [reflexivity | reflexivity | cbn in Hg; lia]. }
  rewrite Hgu. cbn [andb]. rewrite forallb_map. apply forallb_forall. intros s _. reflexivity.
Qed.

(* ---------- C03 ---------- *)

Lemma contains_byte_in_bytes : forall c s, contains_byte c s = true -> In (N_of_ascii c) (bytes s).
Proof.
  intros c s. unfold bytes. induction s as [|a s IH]; cbn; [discriminate|].
  rewrite orb_true_iff. intros [H|H].
  - apply Ascii.eqb_eq in H. subst. left. reflexivity.
  - right. apply IH. exact H.
Qed.

Lemma store_ok_c03 : forall st, store_ok_b st = true -> C03_Model.valid_store st = true.
Proof.
  intros st H. apply store_ok_reflect in H. destruct H as [ty [nm [Ec [Hty Hs]]]].
  unfold C03_Model.valid_store. change C03_Model.colon with ":"%char. rewrite Ec.
  apply filename_safe_component in Hs. destruct Hs as [Hne [_ [_ Hb]]].
  rewrite !andb_true_iff. split; [split|].
  - cbn in Hty. unfold C03_Model.ty_ca, C03_Model.ty_sa, C03_Model.ty_tsa.
    destruct Hty as [E|[E|[E|[]]]]; subst ty; reflexivity.
  - apply negb_eqb_true. exact Hne.
  - apply negb_true_iff. destruct (contains_byte ":" nm) eqn:E; [|reflexivity].
    apply contains_byte_in_bytes in E. rewrite Forall_forall in Hb. specialize (Hb _ E).
    unfold fn_byte in Hb. cbn in Hb. lia.
Qed.

Lemma nodup_str_has_dup : forall l, C03_Model.nodup_str l = negb (has_dup l).
Proof.
  induction l as [|x l IH]; cbn; [reflexivity|]. rewrite IH, negb_orb. reflexivity.
Qed.

Lemma c03_scopes : forall e ss, flat_map C03_Model.st_scopes (map (to_c03_stmt e) ss) = flat_map s_scopes ss.
Proof. intros e ss. induction ss as [|s r IH]; cbn; [reflexivity | rewrite IH; reflexivity]. Qed.

Lemma stmt_ok_stores_c03 : forall s, stmt_ok_b s = true -> forallb C03_Model.valid_store (s_stores s) = true.
Proof.
  intros s H. unfold stmt_ok_b in H. rewrite !andb_true_iff in H. destruct H as [_ H].
  destruct (String.eqb (sv_level (s_sv s)) "skip").
  - apply andb_true_iff in H. destruct H as [H _]. apply is_empty_true in H. rewrite H. reflexivity.
  - rewrite !andb_true_iff in H. destruct H as [[[[_ H] _] _] _].
    eapply forallb_impl; [|exact H]. apply store_ok_c03.
Qed.

Theorem c03_policy_from_oci : forall e d, validate_oci d = EOk -> c03_policy_wf (to_c03 e d) = true.
Proof.
  intros e d H. destruct (accepted_common OCI d H) as [_ Hs]. destruct (accepted_oci d H) as [_ Hd].
  unfold c03_policy_wf, to_c03. rewrite c03_scopes, nodup_str_has_dup, Hd, andb_true_r.
  rewrite forallb_map. eapply forallb_impl; [|exact Hs].
  intros s Hok. cbn [to_c03_stmt C03_Model.st_stores]. apply stmt_ok_stores_c03. exact Hok.
Qed.

(* the whole input contract of C03, for the two schemes notation-core-go accepts *)
Theorem c03_wf_from_oci : forall e d sch repo fs chain token,
  validate_oci d = EOk -> sch <> C03_Model.SOther ->
  C03_Model.wf (C03_Model.mk_input sch (to_c03 e d) repo fs chain token) = true.
Proof.
  intros e d sch repo fs chain token H Hs. pose proof (c03_policy_from_oci e d H) as Hp.
  unfold c03_policy_wf in Hp. unfold C03_Model.wf. cbn [C03_Model.i_policy C03_Model.i_scheme].
  rewrite Hp. destruct sch; [reflexivity | reflexivity | contradiction].
Qed.
