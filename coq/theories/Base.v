(* Base.v — shared definitions of the notation-go models: byte strings, Go-map
   style association lists, and the generic case runner used by every
   correspondence file (cases_Cxx_k.v) the harness writes. Definitions only
   plus a few small lemmas; no axioms. *)
From Coq Require Export List Bool String Ascii NArith ZArith Lia.
Export ListNotations.
Open Scope string_scope.

(* ---------- byte strings ---------- *)

(* [B l] builds a string from byte codes; the harness prints every string that
   contains a byte outside 0x20..0x7e this way. *)
Definition B (l : list N) : string :=
  string_of_list_ascii (map ascii_of_N l).

Definition bytes (s : string) : list N :=
  map N_of_ascii (list_ascii_of_string s).

Definition str_eqb := String.eqb.

Fixpoint has_prefix (p s : string) : bool :=
  match p, s with
  | EmptyString, _ => true
  | String a p', String b s' => Ascii.eqb a b && has_prefix p' s'
  | _, _ => false
  end.

Fixpoint drop (n : nat) (s : string) : string :=
  match n, s with
  | O, _ => s
  | S n', String _ s' => drop n' s'
  | S _, EmptyString => EmptyString
  end.

(* strings.Cut(s, sep) for a one-byte separator *)
Fixpoint cut_byte (c : ascii) (s : string) : option (string * string) :=
  match s with
  | EmptyString => None
  | String a s' =>
      if Ascii.eqb a c then Some (EmptyString, s')
      else match cut_byte c s' with
           | Some (l, r) => Some (String a l, r)
           | None => None
           end
  end.

Fixpoint contains_byte (c : ascii) (s : string) : bool :=
  match s with
  | EmptyString => false
  | String a s' => Ascii.eqb a c || contains_byte c s'
  end.

(* ---------- association lists with Go map semantics ---------- *)

Definition amap := list (string * string).

Fixpoint lookup (k : string) (m : amap) : option string :=
  match m with
  | [] => None
  | (k', v) :: m' => if String.eqb k k' then Some v else lookup k m'
  end.

Definition lookup_default (k : string) (m : amap) : string :=
  match lookup k m with Some v => v | None => "" end.

Fixpoint remove_key (k : string) (m : amap) : amap :=
  match m with
  | [] => []
  | (k', v) :: m' => if String.eqb k k' then remove_key k m' else (k', v) :: remove_key k m'
  end.

Definition set_key (k v : string) (m : amap) : amap := (k, v) :: remove_key k m.

Definition mem_str (x : string) (l : list string) : bool := existsb (String.eqb x) l.

(* ---------- options / lists ---------- *)

Definition opt_eqb {A} (eqb : A -> A -> bool) (a b : option A) : bool :=
  match a, b with
  | Some x, Some y => eqb x y
  | None, None => true
  | _, _ => false
  end.

Fixpoint list_eqb {A} (eqb : A -> A -> bool) (a b : list A) : bool :=
  match a, b with
  | [], [] => true
  | x :: a', y :: b' => eqb x y && list_eqb eqb a' b'
  | _, _ => false
  end.

Lemma list_eqb_spec {A} (eqb : A -> A -> bool) :
  (forall x y, eqb x y = true <-> x = y) ->
  forall a b, list_eqb eqb a b = true <-> a = b.
Proof.
  intros H a. induction a as [|x a IH]; intros [|y b]; cbn; try (split; congruence).
  rewrite andb_true_iff, H, IH. split; [intros [-> ->]; reflexivity | intros E; inversion E; auto].
Qed.

(* ---------- the generic case runner ----------
   Every Cxx_Model.v defines a record of cases (input of the model + what the
   implementation was observed to do) and three functions:
     agree c = true  iff  the model's output on c's input equals the observation
     ok c    = true  iff  the observation satisfies the property oracle
     fp c            a footprint number (0 = none) naming a KNOWN finding class
   [run_cases] returns only the cases that need attention:
     code 1 = model and implementation disagree, 2 = the implementation's
     observation violates the property oracle, 3 = both. *)
Definition run_cases {C} (id : C -> N) (agree ok : C -> bool) (fp : C -> N)
           (cs : list C) : list (N * N * N) :=
  flat_map (fun c =>
    let code := ((if agree c then 0 else 1) + (if ok c then 0 else 2))%N in
    if (code =? 0)%N then [] else [(id c, code, fp c)]) cs.
