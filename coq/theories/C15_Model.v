(* C15_Model.v — model of the CRL file cache verifier/crl.FileCache.
   Definitions only. Mirrors verifier/crl/crl.go:
     FileCache.Get      (read file, json.Unmarshal, ParseRevocationList of base
                         and delta, checkExpiry of base then delta)
     FileCache.Set      (nil checks, fileCacheContent, json.Marshal, file.WriteFile)
     FileCache.fileName (hex (sha256 url))
     checkExpiry        (zero NextUpdate -> error, now.After(nextUpdate) -> miss)
   over a directory [fs : name -> file content | directory].

   Outside /repo, hence parameters of the model (Section variables; for the
   executable instance they are tables printed by the harness, which asks the
   dependency itself):
     sha    crypto/sha256.Sum256                    (url -> 32 bytes)
     dec    encoding/json.Unmarshal into the entry  (content -> (base, delta) | error)
     parse  crypto/x509.ParseRevocationList         (bytes -> (Raw, NextUpdate) | error;
                                                     Raw is the first DER element of the
                                                     input: the parser ignores what follows it)
   Modelled concretely: encoding/hex, the entry encoder (json.Marshal of
   fileCacheContent = fixed JSON text + standard base64), the control flow.   *)
From NV Require Import Base.
Open Scope string_scope.

(* ---------- association lists keyed by strings ---------- *)
Fixpoint alookup {V} (k : string) (m : list (string * V)) : option V :=
  match m with
  | [] => None
  | (k', v) :: m' => if String.eqb k k' then Some v else alookup k m'
  end.

Fixpoint adel {V} (k : string) (m : list (string * V)) : list (string * V) :=
  match m with
  | [] => []
  | (k', v) :: m' => if String.eqb k k' then adel k m' else (k', v) :: adel k m'
  end.

Definition aset {V} (k : string) (v : V) (m : list (string * V)) : list (string * V) :=
  (k, v) :: adel k m.

(* ---------- encoding/hex.EncodeToString ---------- *)
Definition hexdigit (n : N) : ascii :=
  ascii_of_N (if (n <? 10)%N then 48 + n else 87 + n).

Definition hex_byte (a : ascii) : string :=
  let n := N_of_ascii a in
  String (hexdigit (n / 16)) (String (hexdigit (n mod 16)) EmptyString).

Fixpoint hex (s : string) : string :=
  match s with
  | EmptyString => EmptyString
  | String a s' => hex_byte a ++ hex s'
  end.

Definition is_hexdigit (a : ascii) : bool :=
  let n := N_of_ascii a in
  ((48 <=? n) && (n <=? 57) || (97 <=? n) && (n <=? 102))%N.

(* ---------- encoding/base64.StdEncoding.EncodeToString ---------- *)
Definition b64char (n : N) : ascii :=
  ascii_of_N (if (n <? 26)%N then 65 + n
              else if (n <? 52)%N then 71 + n
              else if (n <? 62)%N then n - 4
              else if (n =? 62)%N then 43 else 47).

(* a group of six bits, most significant first *)
Definition sext (b5 b4 b3 b2 b1 b0 : bool) : ascii :=
  b64char (N_of_digits [b0; b1; b2; b3; b4; b5]).

Definition pad : ascii := "="%char.

Fixpoint b64enc (s : string) : string :=
  match s with
  | EmptyString => EmptyString
  | String (Ascii a0 a1 a2 a3 a4 a5 a6 a7) EmptyString =>
      String (sext a7 a6 a5 a4 a3 a2) (String (sext a1 a0 false false false false)
        (String pad (String pad EmptyString)))
  | String (Ascii a0 a1 a2 a3 a4 a5 a6 a7) (String (Ascii b0 b1 b2 b3 b4 b5 b6 b7) EmptyString) =>
      String (sext a7 a6 a5 a4 a3 a2) (String (sext a1 a0 b7 b6 b5 b4)
        (String (sext b3 b2 b1 b0 false false) (String pad EmptyString)))
  | String (Ascii a0 a1 a2 a3 a4 a5 a6 a7) (String (Ascii b0 b1 b2 b3 b4 b5 b6 b7)
      (String (Ascii c0 c1 c2 c3 c4 c5 c6 c7) r)) =>
      String (sext a7 a6 a5 a4 a3 a2) (String (sext a1 a0 b7 b6 b5 b4)
        (String (sext b3 b2 b1 b0 c7 c6) (String (sext c5 c4 c3 c2 c1 c0) (b64enc r))))
  end.

(* ---------- the entry: json.Marshal(fileCacheContent{BaseCRL, DeltaCRL}) ----------
   A Raw field is a byte string; "" stands for a nil slice (the only empty
   slice the harness produces): BaseCRL nil is printed as null, DeltaCRL of
   length 0 is omitted (omitempty). An empty but non-nil BaseCRL (printed as
   "" by json.Marshal) is told apart by the flag of OSet. *)
Definition jbytes (x : string) : string :=
  match x with
  | EmptyString => "null"
  | _ => """" ++ b64enc x ++ """"
  end.

(* the base: a nil Raw is printed as null, an empty but non-nil one (flag e) as "" *)
Definition jbase (e : bool) (x : string) : string :=
  match x with
  | EmptyString => if e then """""" else "null"
  | _ => jbytes x
  end.

Definition enc_json (e : bool) (b : string) (d : option string) : string :=
  "{""baseCRL"":" ++ jbase e b ++
  match d with
  | None | Some EmptyString => ""
  | Some x => ",""deltaCRL"":" ++ jbytes x
  end ++ "}".

(* what is left of a delta after omitempty *)
Definition norm (d : option string) : option string :=
  match d with
  | Some EmptyString => None
  | _ => d
  end.

(* ---------- types of the model ---------- *)

(* x509.ParseRevocationList on some bytes: error, or the Raw and the NextUpdate
   of the list (None = the zero time; otherwise milliseconds on the harness
   clock). Raw is the input itself when the input is exactly one DER element
   (always the case for the Raw of a list that came out of the parser). *)
Inductive crlfact := PErr | POk (raw : string) (nu : option Z).

Inductive res :=
| RHit (b : string) (d : option string)  (* Get: bundle; Raw of base, Raw of delta *)
| RMiss (k : N)       (* Get: ErrCacheMiss; 0 no file, 1 base expired, 2 delta expired *)
| RErr (k : N)        (* another error; Get: 1 read, 2 decode, 3 parse base, 4 parse delta,
                         5 base NextUpdate zero, 6 delta NextUpdate zero;
                         Set: 7 nil bundle, 8 nil base, 9 write failed *)
| ROk                 (* Set: nil error *)
| RNone.              (* operation of the environment *)

Inductive op :=
| OSet (u : string) (e : bool) (bd : option (option string * option string))
       (* e: the Raw of the base is empty but not nil (meaningful only when it is "") *)
       (* None = nil bundle; components = Raw of BaseCRL / DeltaCRL, None = nil pointer *)
| OGet (u : string) (t : Z)                (* t = time.Now() of the call *)
| OPut (u : string) (c : string)           (* environment: the file of u's key now holds c *)
| ODel (u : string)                        (* environment: the file of u's key is removed *)
| OMkdir (u : string).                     (* environment: a directory sits at u's key *)

Definition op_url (o : op) : string :=
  match o with OSet u _ _ | OGet u _ | OPut u _ | ODel u | OMkdir u => u end.

Definition urls (ops : list op) : list string := map op_url ops.

(* a directory entry: Some content = regular file, None = directory *)
Definition node := option string.
Definition fs := list (string * node).

Definition root : string := "a/cache".
Definition join (dir name : string) : string := dir ++ "/" ++ name.

(* ---------- the cache, over its external functions ---------- *)
Section Cache.
  Variable sha : string -> string.
  Variable enc : bool -> string -> option string -> string.
  Variable dec : string -> option (string * option string).
  Variable parse : string -> crlfact.

  (* FileCache.fileName *)
  Definition file_name (u : string) : string := hex (sha u).

  (* checkExpiry: Some r = returns with r, None = nil *)
  Definition check_expiry (t : Z) (nu : option Z) (kzero kexp : N) : option res :=
    match nu with
    | None => Some (RErr kzero)
    | Some n => if (t >? n)%Z then Some (RMiss kexp) else None
    end.

  (* Get after json.Unmarshal succeeded with (b, d) *)
  Definition get_entry (b : string) (d : option string) (t : Z) : res :=
    match parse b with
    | PErr => RErr 3
    | POk rb nb =>
        match d with
        | None =>
            match check_expiry t nb 5 1 with
            | Some r => r
            | None => RHit rb None
            end
        | Some dd =>
            match parse dd with
            | PErr => RErr 4
            | POk rd nd =>
                match check_expiry t nb 5 1 with
                | Some r => r
                | None =>
                    match check_expiry t nd 6 2 with
                    | Some r => r
                    | None => RHit rb (Some rd)
                    end
                end
            end
        end
    end.

  Definition get (f : fs) (u : string) (t : Z) : res :=
    match alookup (file_name u) f with
    | None => RMiss 0                       (* fs.ErrNotExist *)
    | Some None => RErr 1                   (* os.ReadFile of a directory *)
    | Some (Some c) =>
        match dec c with
        | None => RErr 2
        | Some (b, d) => get_entry b d t
        end
    end.

  (* Set: new directory, result, destination handed to file.WriteFile *)
  Definition set (f : fs) (u : string) (e : bool) (bd : option (option string * option string))
    : fs * res * list string :=
    match bd with
    | None => (f, RErr 7, [])
    | Some (None, _) => (f, RErr 8, [])
    | Some (Some b, d) =>
        let n := file_name u in
        match alookup n f with
        | Some None => (f, RErr 9, [n])     (* rename(2) onto a directory fails; temp removed *)
        | _ => (aset n (Some (enc e b d)) f, ROk, [n])
        end
    end.

  Definition step (f : fs) (o : op) : fs * res * list string :=
    match o with
    | OSet u e bd => set f u e bd
    | OGet u t => (f, get f u t, [])
    | OPut u c => (aset (file_name u) (Some c) f, RNone, [])
    | ODel u => (adel (file_name u) f, RNone, [])
    | OMkdir u => (aset (file_name u) None f, RNone, [])
    end.

  Fixpoint run_ops (f : fs) (ops : list op) : list res * list string * fs :=
    match ops with
    | [] => ([], [], f)
    | o :: ops' =>
        let '(f1, r, w) := step f o in
        let '(rs, ws, f2) := run_ops f1 ops' in
        (r :: rs, (w ++ ws)%list, f2)
    end.

  (* ---------- the specification: a map url -> slot ---------- *)
  Inductive slot :=
  | SEntry (b : string) (d : option string)   (* base and delta bytes held for the url *)
  | SGarbage                                  (* a file that is not an entry *)
  | SDir.

  Definition sstate := string -> option slot.
  Definition sempty : sstate := fun _ => None.
  Definition supd (u : string) (v : option slot) (s : sstate) : sstate :=
    fun x => if String.eqb x u then v else s x.

  Definition slot_of (r : option (string * option string)) : slot :=
    match r with
    | None => SGarbage
    | Some (b, d) => SEntry b d
    end.

  Definition spec_get (sl : option slot) (t : Z) : res :=
    match sl with
    | None => RMiss 0
    | Some SDir => RErr 1
    | Some SGarbage => RErr 2
    | Some (SEntry b d) => get_entry b d t
    end.

  Definition spec_step (s : sstate) (o : op) : sstate * res :=
    match o with
    | OSet u _ None => (s, RErr 7)
    | OSet u _ (Some (None, _)) => (s, RErr 8)
    | OSet u _ (Some (Some b, d)) =>
        match s u with
        | Some SDir => (s, RErr 9)
        | _ => (supd u (Some (SEntry b (norm d))) s, ROk)
        end
    | OGet u t => (s, spec_get (s u) t)
    | OPut u c => (supd u (Some (slot_of (dec c))) s, RNone)
    | ODel u => (supd u None s, RNone)
    | OMkdir u => (supd u (Some SDir) s, RNone)
    end.

  Fixpoint spec_run (s : sstate) (ops : list op) : list res * sstate :=
    match ops with
    | [] => ([], s)
    | o :: ops' =>
        let '(s1, r) := spec_step s o in
        let '(rs, s2) := spec_run s1 ops' in
        (r :: rs, s2)
    end.

  (* ---------- the boolean oracle, on observed results ---------- *)
  (* state of one CRL at time t: 0 does not parse, 1 NextUpdate zero,
     2 NextUpdate passed, 3 fresh; and the bytes a bundle carries for it *)
  Definition part_state (t : Z) (x : string) : N * string :=
    match parse x with
    | PErr => (0%N, "")
    | POk r None => (1%N, r)
    | POk r (Some nu) => (if (t >? nu)%Z then 2%N else 3%N, r)
    end.

  Definition opt_str_eqb (a b : option string) : bool := opt_eqb String.eqb a b.

  Definition is_err (r : res) : bool := match r with RErr _ => true | _ => false end.
  Definition is_miss (r : res) : bool := match r with RMiss _ => true | _ => false end.

  (* what a Get may answer when the url holds the entry (b, d): a bundle with
     exactly the bytes of both parts iff both are fresh; an error if a part
     does not parse; otherwise a miss only if a part has expired and an error
     only if a NextUpdate is zero *)
  Definition entry_ok (b : string) (d : option string) (t : Z) (r : res) : bool :=
    let '(pb, rb) := part_state t b in
    let '(pd, rd) := match d with
                     | None => (3%N, None)
                     | Some x => let '(p, r) := part_state t x in (p, Some r)
                     end in
    if ((pb =? 3) && (pd =? 3))%N then
      match r with
      | RHit b' d' => String.eqb b' rb && opt_str_eqb d' rd
      | _ => false
      end
    else if ((pb =? 0) || (pd =? 0))%N then is_err r
    else match r with
         | RMiss _ => ((pb =? 2) || (pd =? 2))%N
         | RErr _ => ((pb =? 1) || (pd =? 1))%N
         | _ => false
         end.

  Definition get_ok (sl : option slot) (t : Z) (r : res) : bool :=
    match sl with
    | None => is_miss r
    | Some SDir | Some SGarbage => is_err r
    | Some (SEntry b d) => entry_ok b d t r
    end.

  Fixpoint check (s : sstate) (ops : list op) (rs : list res) : option sstate :=
    match ops, rs with
    | [], [] => Some s
    | o :: ops', r :: rs' =>
        match o with
        | OGet u t => if get_ok (s u) t r then check s ops' rs' else None
        | OSet u _ (Some (Some b, d)) =>
            match s u with
            | Some SDir => if is_err r then check s ops' rs' else None
            | _ => match r with
                   | ROk => check (supd u (Some (SEntry b (norm d))) s) ops' rs'
                   | _ => None
                   end
            end
        | OSet u _ _ => if is_err r then check s ops' rs' else None
        | OPut u c =>
            match r with RNone => check (supd u (Some (slot_of (dec c))) s) ops' rs' | _ => None end
        | ODel u =>
            match r with RNone => check (supd u None s) ops' rs' | _ => None end
        | OMkdir u =>
            match r with RNone => check (supd u (Some SDir) s) ops' rs' | _ => None end
        end
    | _, _ => None
    end.

  Definition slot_eqb (a b : slot) : bool :=
    match a, b with
    | SEntry b1 d1, SEntry b2 d2 => String.eqb b1 b2 && opt_str_eqb d1 d2
    | SGarbage, SGarbage | SDir, SDir => true
    | _, _ => false
    end.

  (* the directory entry found at a url's key against the slot of the url *)
  Definition node_ok (n : option node) (sl : option slot) : bool :=
    match n, sl with
    | None, None => true
    | Some None, Some SDir => true
    | Some (Some c), Some sl' => slot_eqb (slot_of (dec c)) sl'
    | _, _ => false
    end.

  Definition files_ok (s : sstate) (us : list string) (f : fs) : bool :=
    forallb (fun u => node_ok (alookup (file_name u) f) (s u)) us
    && forallb (fun nv => existsb (fun u => String.eqb (fst nv) (file_name u)) us) f.

  Definition writes_of (o : op) : list string :=
    match o with
    | OSet u _ (Some (Some _, _)) => [join root (file_name u)]
    | _ => []
    end.

  Definition expected_writes (ops : list op) : list string := flat_map writes_of ops.
End Cache.

(* ---------- cases: the external functions are tables ---------- *)
Record input := mk_input {
  i_sha : list (string * string);                          (* url -> SHA-256 digest (the urls of the history) *)
  i_dec : list (string * option (string * option string)); (* file content -> decoded entry *)
  i_parse : list (string * crlfact);                       (* bytes -> ParseRevocationList *)
  i_ops : list op }.

Record obs := mk_obs {
  o_res : list res;                     (* one result per operation *)
  o_writes : list string;               (* destinations handed to file.WriteFile, in order *)
  o_files : list (string * node);       (* final listing of the root *)
  o_outside : list string;              (* paths outside the root created, changed or removed *)
  o_temps_ok : bool }.                  (* every temporary file was root/notation-<digits> *)

Definition tab_sha (i : input) (u : string) : string :=
  match alookup u (i_sha i) with Some x => x | None => "" end.
Definition tab_dec (i : input) (c : string) : option (string * option string) :=
  match alookup c (i_dec i) with Some r => r | None => None end.
Definition tab_parse (i : input) (x : string) : crlfact :=
  match alookup x (i_parse i) with Some r => r | None => PErr end.

Definition model (i : input) : obs :=
  let '(rs, ws, f) := run_ops (tab_sha i) enc_json (tab_dec i) (tab_parse i) [] (i_ops i) in
  mk_obs rs (map (join root) ws) f [] true.

(* ---------- the input contract ---------- *)
Fixpoint dedup (us : list string) : list string :=
  match us with
  | [] => []
  | u :: us' => let r := dedup us' in if mem_str u r then r else u :: r
  end.

Definition inj_b (sha : string -> string) (us : list string) : bool :=
  let ps := map (fun u => (u, sha u)) (dedup us) in
  forallb (fun p => forallb (fun q => if String.eqb (snd p) (snd q) then String.eqb (fst p) (fst q) else true) ps) ps.

Definition dec_res_eqb (a b : option (string * option string)) : bool :=
  opt_eqb (fun x y => String.eqb (fst x) (fst y) && opt_str_eqb (snd x) (snd y)) a b.

(* decoding what Set wrote gives back what was stored (checked on every Set of the history) *)
Definition roundtrip_b (dec : string -> option (string * option string)) (ops : list op) : bool :=
  forallb (fun o => match o with
                    | OSet _ e (Some (Some b, d)) => dec_res_eqb (dec (enc_json e b d)) (Some (b, norm d))
                    | _ => true
                    end) ops.

(* wf: SHA-256 has no collision among the urls of the history and gives 32
   bytes; encoding/json decodes what it encoded. *)
Definition wf (i : input) : bool :=
  inj_b (tab_sha i) (urls (i_ops i))
  && forallb (fun u => (String.length (tab_sha i u) =? 32)%nat) (dedup (urls (i_ops i)))
  && roundtrip_b (tab_dec i) (i_ops i).

(* ---------- the property oracle on what the implementation did ---------- *)
Definition spec_ok (i : input) (o : obs) : bool :=
  match check (tab_dec i) (tab_parse i) sempty (i_ops i) (o_res o) with
  | None => false
  | Some s => files_ok (tab_sha i) (tab_dec i) s (dedup (urls (i_ops i))) (o_files o)
  end
  && list_eqb String.eqb (o_writes o) (expected_writes (tab_sha i) (i_ops i))
  && match o_outside o with [] => true | _ => false end
  && o_temps_ok o.

(* ---------- vocabulary of the theorems (C15_Property.v) ---------- *)
Fixpoint all_chars (p : ascii -> bool) (s : string) : bool :=
  match s with
  | EmptyString => true
  | String a s' => p a && all_chars p s'
  end.

(* no two urls of the history collide under the hash *)
Definition inj_on (sha : string -> string) (us : list string) : Prop :=
  forall u v, In u us -> In v us -> sha u = sha v -> u = v.

(* the decoder gives back what the encoder was given, on every Set of the history *)
Definition rt_op (enc : bool -> string -> option string -> string)
           (dec : string -> option (string * option string)) (o : op) : Prop :=
  match o with
  | OSet _ e (Some (Some b, d)) => dec (enc e b d) = Some (b, norm d)
  | _ => True
  end.
Definition roundtrip_on enc dec (ops : list op) : Prop := Forall (rt_op enc dec) ops.

(* results of a history on the cache / on the map, from the empty directory / map *)
Definition impl_results sha enc dec parse (ops : list op) : list res :=
  fst (fst (run_ops sha enc dec parse [] ops)).
Definition impl_writes sha enc dec parse (ops : list op) : list string :=
  snd (fst (run_ops sha enc dec parse [] ops)).
Definition impl_files sha enc dec parse (ops : list op) : fs :=
  snd (run_ops sha enc dec parse [] ops).
Definition map_results dec parse (ops : list op) : list res := fst (spec_run dec parse sempty ops).
Definition map_after dec parse (ops : list op) : sstate := snd (spec_run dec parse sempty ops).

Definition on_url (u : string) (o : op) : bool := String.eqb (op_url o) u.

(* file content that is not a well-formed entry: it does not decode, or a part does not parse *)
Definition not_an_entry (dec : string -> option (string * option string))
           (parse : string -> crlfact) (c : string) : Prop :=
  dec c = None \/
  exists b d, dec c = Some (b, d) /\ (parse b = PErr \/ exists dd, d = Some dd /\ parse dd = PErr).

(* ---------- vocabulary added by the theorem audit (docs/audit/C15.md) ---------- *)

(* an operation that may change the file of its url: a Set that gets as far as
   file.WriteFile, or an operation of the environment.  A Get and a Set of a nil
   bundle / a bundle with a nil base touch nothing. *)
Definition touches (o : op) : bool :=
  match o with
  | OSet _ _ (Some (Some _, _)) | OPut _ _ | ODel _ | OMkdir _ => true
  | _ => false
  end.

(* an operation that may put something at the key of its url *)
Definition stores (o : op) : bool :=
  match o with
  | OSet _ _ (Some (Some _, _)) | OPut _ _ | OMkdir _ => true
  | _ => false
  end.

(* o leaves the file of u alone: it is on another url (however similar), or it is
   a Get, a Set of a nil bundle or a Set of a bundle without base *)
Definition idle_on (u : string) (o : op) : Prop := op_url o <> u \/ touches o = false.

(* operations of the API (store / read), none of the environment *)
Definition is_api (o : op) : bool :=
  match o with OSet _ _ _ | OGet _ _ => true | _ => false end.

(* the path opened by Get and handed to file.WriteFile by Set *)
Definition entry_path (sha : string -> string) (u : string) : string := join root (file_name sha u).

(* directory and last element of a path: split at the last '/' (None = no '/') *)
Fixpoint dir_base (s : string) : option string * string :=
  match s with
  | EmptyString => (None, EmptyString)
  | String a r =>
      match dir_base r with
      | (Some d, b) => (Some (String a d), b)
      | (None, b) => if Ascii.eqb a "/" then (Some EmptyString, b) else (None, String a b)
      end
  end.

(* ---------- a decoder of the canonical entry text (what Set writes) ----------
   encoding/json.Unmarshal stays an oracle of the model ([dec]); this decoder
   only shows that the text written by [enc_json] determines the stored bytes,
   i.e. that the hypothesis [roundtrip_on enc_json dec] can be met for every
   history at once (C15_roundtrip_satisfiable). *)
Definition unb64char (c : ascii) : option N :=
  let n := N_of_ascii c in
  if ((65 <=? n) && (n <=? 90))%N then Some (n - 65)%N
  else if ((97 <=? n) && (n <=? 122))%N then Some (n - 71)%N
  else if ((48 <=? n) && (n <=? 57))%N then Some (n + 4)%N
  else if (n =? 43)%N then Some 62%N
  else if (n =? 47)%N then Some 63%N
  else None.

Definition bit (n : N) (k : N) : bool := N.testbit n k.

Definition unsext (c : ascii) : option (bool * bool * bool * bool * bool * bool) :=
  match unb64char c with
  | Some n => Some (bit n 5, bit n 4, bit n 3, bit n 2, bit n 1, bit n 0)
  | None => None
  end.

Fixpoint b64dec (s : string) : option string :=
  match s with
  | EmptyString => Some EmptyString
  | String c1 (String c2 (String c3 (String c4 r))) =>
      match unsext c1, unsext c2 with
      | Some (a7, a6, a5, a4, a3, a2), Some (a1, a0, b7, b6, b5, b4) =>
          let A := Ascii a0 a1 a2 a3 a4 a5 a6 a7 in
          if Ascii.eqb c3 pad then
            if Ascii.eqb c4 pad && negb (b7 || b6 || b5 || b4) then
              match r with EmptyString => Some (String A EmptyString) | _ => None end
            else None
          else
            match unsext c3 with
            | Some (b3, b2, b1, b0, c7, c6) =>
                let Bb := Ascii b0 b1 b2 b3 b4 b5 b6 b7 in
                if Ascii.eqb c4 pad then
                  if negb (c7 || c6) then
                    match r with EmptyString => Some (String A (String Bb EmptyString)) | _ => None end
                  else None
                else
                  match unsext c4 with
                  | Some (c5, c4', c3', c2', c1', c0') =>
                      let C := Ascii c0' c1' c2' c3' c4' c5 c6 c7 in
                      match b64dec r with
                      | Some t => Some (String A (String Bb (String C t)))
                      | None => None
                      end
                  | None => None
                  end
            | None => None
            end
      | _, _ => None
      end
  | _ => None
  end.

(* strip a prefix *)
Fixpoint strip (p s : string) : option string :=
  match p, s with
  | EmptyString, _ => Some s
  | String a p', String b s' => if Ascii.eqb a b then strip p' s' else None
  | _, _ => None
  end.

(* a JSON value of the entry: null | "<base64>"; gives the bytes and the rest.
   The flag tells null from a string. *)
Definition dec_value (s : string) : option (bool * string * string) :=
  match strip "null" s with
  | Some r => Some (false, EmptyString, r)
  | None =>
      match strip """" s with
      | Some r =>
          match cut_byte """" r with
          | Some (t, r') => match b64dec t with Some x => Some (true, x, r') | None => None end
          | None => None
          end
      | None => None
      end
  end.

Definition dec_canon (c : string) : option (string * option string) :=
  match strip "{""baseCRL"":" c with
  | Some r =>
      match dec_value r with
      | Some (_, b, r1) =>
          match r1 with
          | "}" => Some (b, None)
          | _ =>
              match strip ",""deltaCRL"":" r1 with
              | Some r2 =>
                  match dec_value r2 with
                  | Some (true, d, "}") => Some (b, Some d)
                  | _ => None
                  end
              | None => None
              end
          end
      | None => None
      end
  | None => None
  end.

(* ---------- boolean equalities ---------- *)
Definition res_eqb (a b : res) : bool :=
  match a, b with
  | RHit b1 d1, RHit b2 d2 => String.eqb b1 b2 && opt_str_eqb d1 d2
  | RMiss k1, RMiss k2 | RErr k1, RErr k2 => (k1 =? k2)%N
  | ROk, ROk | RNone, RNone => true
  | _, _ => false
  end.

Definition node_eqb (a b : node) : bool := opt_str_eqb a b.

Definition files_eqb (a b : fs) : bool :=
  Nat.eqb (List.length a) (List.length b)
  && forallb (fun nv => opt_eqb node_eqb (alookup (fst nv) b) (Some (snd nv))) a.

Definition obs_eqb (a b : obs) : bool :=
  list_eqb res_eqb (o_res a) (o_res b)
  && list_eqb String.eqb (o_writes a) (o_writes b)
  && files_eqb (o_files a) (o_files b)
  && list_eqb String.eqb (o_outside a) (o_outside b)
  && Bool.eqb (o_temps_ok a) (o_temps_ok b).

(* every content / byte string the history can meet has its fact in the tables
   (a missing fact would silently read as "error"; this makes it a disagreement) *)
Definition has_key {V} (k : string) (m : list (string * V)) : bool :=
  match alookup k m with Some _ => true | None => false end.

Definition facts_cover (i : input) : bool :=
  forallb (fun o => match o with
                    | OPut _ c => has_key c (i_dec i)
                    | OSet _ e (Some (Some b, d)) =>
                        has_key (enc_json e b d) (i_dec i) && has_key b (i_parse i)
                        && match norm d with Some x => has_key x (i_parse i) | None => true end
                    | _ => true
                    end) (i_ops i)
  && forallb (fun e => match snd e with
                       | Some (b, d) => has_key b (i_parse i)
                                        && match d with Some x => has_key x (i_parse i) | None => true end
                       | None => true
                       end) (i_dec i)
  && forallb (fun u => has_key u (i_sha i)) (urls (i_ops i)).

(* ---------- cases ---------- *)
Record case := mk_case { c_id : N; c_in : input; c_obs : obs }.

(* the decoder of the canonical text (dec_canon, the witness of
   C15_hypotheses_satisfiable) against encoding/json: whenever it accepts a file
   content met in the history, json.Unmarshal accepted it with the same bytes *)
Definition codec_agrees (i : input) : bool :=
  forallb (fun e => match dec_canon (fst e) with
                    | Some x => dec_res_eqb (snd e) (Some x)
                    | None => true
                    end) (i_dec i).

Definition run (cs : list case) : list (N * N * N) :=
  run_cases c_id
    (fun c => facts_cover (c_in c) && codec_agrees (c_in c) && obs_eqb (model (c_in c)) (c_obs c))
    (fun c => negb (wf (c_in c)) || spec_ok (c_in c) (c_obs c))
    (fun _ => 0%N) cs.
