(* C19_GenProofs.v — the GoLite translations of theories/C19_Gen.v (regenerated
   from /repo and its dependencies by `vh-gen` on every run, docs/GOLITE.md)
   against the C19 model. Statements are repeated, with Print Assumptions, in
   props/C19_Generated.v.

   The model speaks of interned strings (numbers), the code of strings: every
   statement is made for ANY interning functions that are injective and send
   the few constants the model names to their numbers.

   What is translated: content.Equal, descriptor.FromOCI (the key of the
   predecessor graph), content.NewDescriptorFromBytes, oras.PushBytes,
   repositoryClient.uploadSignatureManifest, oras.ensureAnnotationCreated,
   maps.Copy. The store (oci.Store) is outside the subset: Push,
   pushNotationManifestConfig and PackManifest are oracles; the hypotheses
   push_agrees / cfg_agrees / pack_agrees say "at the state of the store at the
   moment of the call the oracle answers like the model of it". PushSignature
   itself is refused (type assertion, registry/repository.go:146); its remaining
   body - two calls and two error checks - is written out by hand as
   [code_PushSignature]. No axioms. *)
From Coq Require Import List Bool String Ascii NArith ZArith Lia.
From NV Require Import Base GoLib Generated C19_Model C19_Proofs C19_Audit C19_Gen.
Import ListNotations.
Local Open Scope string_scope.
Local Open Scope list_scope.

Definition zero_desc : v1_Descriptor := mk_Descriptor "" "" 0%Z [] [] [] PNil "".
Definition RFC3339 : string := "2006-01-02T15:04:05Z07:00".

(* ---------- interning ---------- *)
Lemma intern_eqb (f : string -> N) :
  (forall a b, f a = f b -> a = b) -> forall a b, N.eqb (f a) (f b) = String.eqb a b.
Proof.
  intros inj a b. destruct (String.eqb a b) eqn:E.
  - apply String.eqb_eq in E. subst. apply N.eqb_refl.
  - apply N.eqb_neq. intros H. apply inj in H. subst. rewrite String.eqb_refl in E. discriminate.
Qed.

Section Abs.
  Variables imt idg ik iv : string -> N.       (* media types, digests, annotation keys, annotation values *)
  Hypothesis imt_inj : forall a b, imt a = imt b -> a = b.
  Hypothesis idg_inj : forall a b, idg a = idg b -> a = b.
  Hypothesis ik_inj : forall a b, ik a = ik b -> a = b.

  Definition abs_desc (d : v1_Descriptor) : desc :=
    D (imt (Descriptor_MediaType d)) (idg (Descriptor_Digest d)) (Descriptor_Size d).
  Definition abs_ann (a : list (string * string)) : ann :=
    map (fun kv => (ik (fst kv), iv (snd kv))) a.

  (* ---------- content.Equal = desc_eqb; descriptor.FromOCI = the same three fields ---------- *)
  Theorem gen_Equal_equiv a b : gen_content_Equal a b = desc_eqb (abs_desc a) (abs_desc b).
  Proof.
    unfold gen_content_Equal, desc_eqb, abs_desc. cbn [d_sz d_dg d_mt].
    rewrite (intern_eqb imt imt_inj), (intern_eqb idg idg_inj).
    destruct (Z.eqb _ _), (String.eqb (Descriptor_Digest a) _), (String.eqb (Descriptor_MediaType a) _); reflexivity.
  Qed.

  Theorem gen_Equal_fields a b :
    gen_content_Equal a b = true <->
    Descriptor_Size a = Descriptor_Size b /\ Descriptor_Digest a = Descriptor_Digest b /\
    Descriptor_MediaType a = Descriptor_MediaType b.
  Proof.
    unfold gen_content_Equal. rewrite !andb_true_iff, Z.eqb_eq, !String.eqb_eq. tauto.
  Qed.

  Theorem gen_FromOCI_key a b :
    gen_descriptor_FromOCI a = gen_descriptor_FromOCI b <-> gen_content_Equal a b = true.
  Proof.
    rewrite gen_Equal_fields. unfold gen_descriptor_FromOCI. split.
    - intros H. injection H. tauto.
    - intros (H1 & H2 & H3). rewrite H1, H2, H3. reflexivity.
  Qed.

  (* the subject test of the model's [visit] and the graph key of [refers] are the code's *)
  Corollary gen_Equal_refers q ss :
    existsb (fun s => gen_content_Equal q s) ss = existsb (desc_eqb (abs_desc q)) (map abs_desc ss).
  Proof.
    induction ss as [|s ss IH]; [reflexivity|]. cbn [existsb map]. rewrite IH, gen_Equal_equiv. reflexivity.
  Qed.

  (* ---------- content.NewDescriptorFromBytes = blob_desc ---------- *)
  Theorem gen_NewDescriptorFromBytes_spec FromBytes mt b :
    gen_content_NewDescriptorFromBytes FromBytes mt b
    = mk_Descriptor (if String.eqb mt "" then "application/octet-stream" else mt)
                    (FromBytes b) (list_len b) [] [] [] PNil "".
  Proof. unfold gen_content_NewDescriptorFromBytes. destruct (String.eqb mt ""); reflexivity. Qed.

  Hypothesis imt_none : imt "" = MT_NONE.
  Hypothesis imt_octet : imt "application/octet-stream" = MT_OCTET.

  (* a push of the model that stands for the call PushSignature(mt, blob, subject, annotations) *)
  Definition push_of FromBytes (p : push) (mt : string) (blob : list Z) (subject : v1_Descriptor)
             (annotations : list (string * string)) : Prop :=
    p_mt p = imt mt /\ p_bdg p = idg (FromBytes blob) /\ c_sz (p_bc p) = list_len blob /\
    p_subj p = abs_desc subject /\ p_ann p = abs_ann annotations.

  Theorem gen_NewDescriptorFromBytes_equiv FromBytes mt b p :
    p_mt p = imt mt -> p_bdg p = idg (FromBytes b) -> c_sz (p_bc p) = list_len b ->
    abs_desc (gen_content_NewDescriptorFromBytes FromBytes mt b) = blob_desc p.
  Proof.
    intros Hm Hd Hs. rewrite gen_NewDescriptorFromBytes_spec. unfold abs_desc, blob_desc.
    cbn [Descriptor_MediaType Descriptor_Digest Descriptor_Size]. rewrite Hm, Hd, Hs, <- imt_none.
    rewrite (intern_eqb imt imt_inj). destruct (String.eqb mt ""); rewrite ?imt_octet; reflexivity.
  Qed.

  (* ---------- oras.PushBytes: the error of Push is returned as it is ---------- *)
  Theorem gen_PushBytes_spec FromBytes (R : Type) (NewReader : list Z -> R) Push (P : Type) (pusher : P) mt b :
    gen_v2_PushBytes FromBytes R NewReader Push P pusher mt b
    = let d := gen_content_NewDescriptorFromBytes FromBytes mt b in
      match Push d with None => (d, None) | Some e => (zero_desc, Some e) end.
  Proof. unfold gen_v2_PushBytes. cbv zeta. destruct (Push _); reflexivity. Qed.

  (* ---------- uploadSignatureManifest: the request handed to oras.PackManifest ---------- *)
  Definition upload_request (subject blobDesc : v1_Descriptor) (annotations : list (string * string))
             (configDesc : v1_Descriptor) : v2_PackManifestOptions :=
    mk_PackManifestOptions (PNew subject) [blobDesc] annotations (PNew configDesc) [].

  Theorem gen_uploadSignatureManifest_spec Pack (cfg : v1_Descriptor * option err) c subject blobDesc annotations :
    match snd cfg with
    | None => gen_registry_repositoryClient_uploadSignatureManifest Pack cfg c subject blobDesc annotations
              = Pack 2%Z "" (upload_request subject blobDesc annotations (fst cfg))
    | Some e => exists f, gen_registry_repositoryClient_uploadSignatureManifest Pack cfg c subject blobDesc annotations
              = (zero_desc, Some (Err "fmt" f [e]))
    end.
  Proof.
    unfold gen_registry_repositoryClient_uploadSignatureManifest. destruct cfg as [cd [e|]]; cbn.
    - eexists. reflexivity.
    - reflexivity.
  Qed.

  (* ---------- maps.Copy and oras.ensureAnnotationCreated ---------- *)
  Lemma Copy_loop_get k : forall l dst, map_unique String.eqb l = true ->
    map_get String.eqb k (gen_maps_Copy_map_string_string_map_string_string_string_string_loop1 l dst)
    = match map_get String.eqb k l with Some v => Some v | None => map_get String.eqb k dst end.
  Proof.
    induction l as [|[k1 v1] l IH]; intros dst Hu; [reflexivity|].
    cbn [gen_maps_Copy_map_string_string_map_string_string_string_string_loop1 fst snd map_unique map_get] in *.
    apply andb_true_iff in Hu. destruct Hu as [Hk Hu]. rewrite IH by exact Hu.
    rewrite (map_get_set String.eqb string_eqb_spec').
    destruct (String.eqb k k1) eqn:E; [|reflexivity].
    apply String.eqb_eq in E. subst k1.
    rewrite negb_true_iff, (existsb_key_get String.eqb) in Hk.
    destruct (map_get String.eqb k l); [discriminate|reflexivity].
  Qed.

  Theorem gen_Copy_get dst src k :
    map_get String.eqb k (gen_maps_Copy_map_string_string_map_string_string_string_string dst src)
    = match map_get String.eqb k src with Some v => Some v | None => map_get String.eqb k dst end.
  Proof.
    unfold gen_maps_Copy_map_string_string_map_string_string_string_string.
    rewrite Copy_loop_get by apply (map_entries_unique_keys String.eqb string_eqb_spec').
    rewrite (map_get_entries String.eqb string_eqb_spec'). reflexivity.
  Qed.

  (* all inputs: a supplied creation time is kept iff it parses, otherwise the call
     fails; without one the result is the input plus key -> the formatted clock *)
  Theorem gen_ensureAnnotationCreated_spec Now Parse UTC Format a key :
    let g := gen_v2_ensureAnnotationCreated Now Parse UTC Format a key in
    match map_get String.eqb key a with
    | Some t => if is_none (snd (Parse RFC3339 t)) then g = (a, None) else exists e, g = ([], Some e)
    | None => snd g = None /\
              forall k, map_get String.eqb k (fst g)
                        = if String.eqb k key then Some (Format (UTC Now) RFC3339) else map_get String.eqb k a
    end.
  Proof.
    cbv zeta. unfold gen_v2_ensureAnnotationCreated, map_get_ok, RFC3339.
    destruct (map_get String.eqb key a) as [t|] eqn:G.
    - destruct (Parse _ t) as [z [e|]]; cbn; [eexists; reflexivity|reflexivity].
    - cbn [fst snd]. split; [reflexivity|]. intros k.
      rewrite (map_get_set String.eqb string_eqb_spec'). destruct (String.eqb k key); [reflexivity|].
      rewrite gen_Copy_get. destruct (map_get String.eqb k a); reflexivity.
  Qed.

  (* lookups in the model's annotation lists *)
  Definition ann_get (k : N) (a : ann) : option N := option_map snd (find (fun kv => N.eqb (fst kv) k) a).

  Lemma ann_get_abs k a : ann_get (ik k) (abs_ann a) = option_map iv (map_get String.eqb k a).
  Proof.
    unfold ann_get. induction a as [|[k1 v1] a IH]; [reflexivity|].
    cbn [abs_ann map find fst snd map_get]. rewrite (intern_eqb ik ik_inj), String.eqb_sym.
    destruct (String.eqb k k1); [reflexivity|exact IH].
  Qed.

  Lemma has_key_abs k a : has_key (ik k) (abs_ann a) = is_some (map_get String.eqb k a).
  Proof.
    unfold has_key. induction a as [|[k1 v1] a IH]; [reflexivity|].
    cbn [abs_ann map existsb fst snd map_get]. rewrite (intern_eqb ik ik_inj), String.eqb_sym.
    destruct (String.eqb k k1); [reflexivity|exact IH].
  Qed.

  (* = the model's ensure_created, up to lookups, for the key the model calls K_CREATED *)
  Theorem gen_ensureAnnotationCreated_equiv Now Parse UTC Format a key :
    ik key = K_CREATED ->
    let g := gen_v2_ensureAnnotationCreated Now Parse UTC Format a key in
    let valid := match map_get String.eqb key a with Some t => is_none (snd (Parse RFC3339 t)) | None => true end in
    match ensure_created (abs_ann a) (iv (Format (UTC Now) RFC3339)) valid with
    | None => snd g <> None
    | Some a' => snd g = None /\ forall k, ann_get (ik k) a' = option_map iv (map_get String.eqb k (fst g))
    end.
  Proof.
    intros Hk. cbv zeta. pose proof (gen_ensureAnnotationCreated_spec Now Parse UTC Format a key) as S.
    cbv zeta in S. unfold ensure_created. rewrite <- Hk, has_key_abs.
    destruct (map_get String.eqb key a) as [t|]; cbn [is_some].
    - destruct (is_none (snd (Parse RFC3339 t))).
      + rewrite S. cbn [fst snd]. split; [reflexivity|]. intros k. apply ann_get_abs.
      + destruct S as [e S]. rewrite S. discriminate.
    - destruct S as [S1 S2]. split; [exact S1|]. intros k. rewrite S2.
      unfold ann_get. cbn [find fst snd]. rewrite (intern_eqb ik ik_inj), String.eqb_sym.
      destruct (String.eqb k key); [reflexivity|]. apply ann_get_abs.
  Qed.

  (* ---------- the model of oras.PackManifest (v1.1, config descriptor given) ----------
     packManifestV1_1 is outside the subset (pushManifest(manifest any, ..), json.Marshal):
     what it stores for a request is written here from its source, generalising the
     third step of the model's push_sig to any request. *)
  Record preq := PQ { q_subject : option desc; q_layers : list desc; q_ann : ann; q_config : option desc }.

  Definition abs_req (o : v2_PackManifestOptions) : preq :=
    PQ (option_map abs_desc (ptr_val (PackManifestOptions_Subject o)))
       (map abs_desc (PackManifestOptions_Layers o))
       (abs_ann (PackManifestOptions_ManifestAnnotations o))
       (option_map abs_desc (ptr_val (PackManifestOptions_ConfigDescriptor o))).

  (* result: store, error class (0 = success), manifest descriptor, annotations on it;
     class 9: a request this model does not cover (no config descriptor / no layer) *)
  Definition pack_model (st : state) (r : preq) (now : N) (valid : bool) (mdg : N) (msz : Z)
    : state * N * desc * ann :=
    match q_config r, q_layers r with
    | Some cfg, _ :: _ =>
        match ensure_created (q_ann r) now valid with
        | None => (st, 4%N, d0, [])
        | Some a' =>
            let md := D MT_IMAGE mdg msz in
            match push1 st md (C msz true true true (M (q_subject r) cfg (q_layers r) 0%N [] [] a')) with
            | (st3, POk) | (st3, PExists) => (st3, 0%N, md, a')
            | (st3, r3) => (st3, pres_code r3, d0, [])
            end
        end
    | _, _ => (st, 9%N, d0, [])
    end.

  (* the request of uploadSignatureManifest is the manifest the model pushes *)
  Theorem upload_request_is_model subject blobDesc annotations cd :
    abs_desc cd = cfg_desc ->
    abs_req (upload_request subject blobDesc annotations cd)
    = PQ (Some (abs_desc subject)) [abs_desc blobDesc] (abs_ann annotations) (Some cfg_desc).
  Proof. intros H. unfold abs_req, upload_request. cbn. rewrite H. reflexivity. Qed.

  (* the config step of push_sig *)
  Definition cfg_step (st1 : state) : state * pres :=
    match lookup_dg st1 DG_EMPTY with Some _ => (st1, POk) | None => push1 st1 cfg_desc cfg_content end.
  Definition cfg_code (r2 : pres) : N :=
    match r2 with PMismatch | PBadJSON => pres_code r2 | _ => 0%N end.

  Lemma push_sig_unfold st p :
    push_sig st p =
    match push1 st (blob_desc p) (p_bc p) with
    | (st1, POk) =>
        let st2 := fst (cfg_step st1) in
        let r2 := snd (cfg_step st1) in
        if N.eqb (cfg_code r2) 0 then
          let '(st3, code, md, a) :=
            pack_model st2 (PQ (Some (p_subj p)) [blob_desc p] (p_ann p) (Some cfg_desc))
                       (p_now p) (p_cvalid p) (p_mdg p) (p_msz p) in
          (st3, RPush code (if N.eqb code 0 then blob_desc p else d0) md a)
        else (st2, RPush (cfg_code r2) d0 d0 [])
    | (st1, r1) => (st1, RPush (pres_code r1) d0 d0 [])
    end.
  Proof.
    unfold push_sig, cfg_step, pack_model, man_desc, man_content. cbn [q_config q_layers q_ann q_subject].
    destruct (push1 st (blob_desc p) (p_bc p)) as [st1 [| | |]]; try reflexivity.
    destruct (lookup_dg st1 DG_EMPTY) as [e|].
    - cbn [fst snd cfg_code N.eqb].
      destruct (ensure_created (p_ann p) (p_now p) (p_cvalid p)) as [a'|]; [|reflexivity].
      destruct (push1 st1 _ _) as [st3 [| | |]]; reflexivity.
    - destruct (push1 st1 cfg_desc cfg_content) as [st2 [| | |]]; cbn [fst snd cfg_code pres_code N.eqb]; try reflexivity;
        (destruct (ensure_created (p_ann p) (p_now p) (p_cvalid p)) as [a'|]; [|reflexivity]);
        destruct (push1 st2 _ _) as [st3 [| | |]]; reflexivity.
  Qed.

  (* ---------- PushSignature ---------- *)
  (* registry/repository.go:144-158 without the type assertion of line 146 (the
     target is an OCI layout, not a registry.Repository): hand-written glue around
     the two translated halves *)
  Definition code_PushSignature FromBytes (R : Type) (NewReader : list Z -> R) Push (P : Type) Pack cfg
             (pusher : P) c mt blob subject annotations : v1_Descriptor * v1_Descriptor * option err :=
    let '(blobDesc, e) := gen_v2_PushBytes FromBytes R NewReader Push P pusher mt blob in
    if negb (is_none e) then (zero_desc, zero_desc, e)
    else let '(manifestDesc, e2) :=
           gen_registry_repositoryClient_uploadSignatureManifest Pack cfg c subject blobDesc annotations in
         if negb (is_none e2) then (zero_desc, zero_desc, e2) else (blobDesc, manifestDesc, None).

  (* error classes: any classification of error values that gives 0 to nil only and
     looks through a fmt wrapper of exactly one error *)
  Variable cls : option err -> N.
  Hypothesis cls_nil : forall e, cls e = 0%N <-> e = None.
  Hypothesis cls_wrap : forall f e0, cls (Some (Err "fmt" f [e0])) = cls (Some e0).

  Section Push.
    Variable FromBytes : list Z -> string.
    Variable R : Type.
    Variable NewReader : list Z -> R.
    Variable Push : v1_Descriptor -> option err.
    Variable P : Type.
    Variable Pack : Z -> string -> v2_PackManifestOptions -> v1_Descriptor * option err.
    Variable cfg : v1_Descriptor * option err.
    Variables (st : state) (p : push).

    (* the oracles answer like the model of them, each at the state its call finds *)
    Definition push_agrees : Prop :=
      forall d, abs_desc d = blob_desc p -> cls (Push d) = pres_code (snd (push1 st (blob_desc p) (p_bc p))).
    Definition st1 : state := fst (push1 st (blob_desc p) (p_bc p)).
    Definition cfg_agrees : Prop :=
      cls (snd cfg) = cfg_code (snd (cfg_step st1)) /\ (snd cfg = None -> abs_desc (fst cfg) = cfg_desc).
    Definition pack_agrees : Prop :=
      forall o, let r := Pack 2%Z "" o in
        let '(_, code, md, a) := pack_model (fst (cfg_step st1)) (abs_req o) (p_now p) (p_cvalid p) (p_mdg p) (p_msz p) in
        cls (snd r) = code /\
        (code = 0%N -> abs_desc (fst r) = md /\ abs_ann (Descriptor_Annotations (fst r)) = a).

    Theorem gen_PushSignature_matches_model (pusher : P) c mt blob subject annotations :
      push_of FromBytes p mt blob subject annotations ->
      push_agrees -> cfg_agrees -> pack_agrees ->
      let '(bd, md, e) := code_PushSignature FromBytes R NewReader Push P Pack cfg pusher c mt blob subject annotations in
      match snd (push_sig st p) with
      | RPush code bdm mdm am =>
          cls e = code /\
          (code = 0%N -> abs_desc bd = bdm /\ abs_desc md = mdm /\ abs_ann (Descriptor_Annotations md) = am)
      | _ => False
      end.
    Proof.
      intros (Hmt & Hdg & Hsz & Hsubj & Hann) HP HC HK.
      unfold code_PushSignature. rewrite gen_PushBytes_spec. cbv zeta.
      pose proof (gen_NewDescriptorFromBytes_equiv FromBytes mt blob p Hmt Hdg Hsz) as Hbd.
      specialize (HP _ Hbd). rewrite push_sig_unfold.
      unfold cfg_agrees, pack_agrees, st1 in *.
      destruct (push1 st (blob_desc p) (p_bc p)) as [s1 r1]. cbn [fst snd] in *.
      destruct (Push _) as [e|] eqn:EP.
      { (* the envelope was refused *)
        cbn [is_none negb].
        assert (Hne : pres_code r1 <> 0%N).
        { rewrite <- HP. intros H0. apply cls_nil in H0. discriminate. }
        destruct r1; [exfalso; apply Hne; reflexivity| | |]; cbn [snd];
          (split; [exact HP|]); intros H0; exfalso; apply Hne; exact H0. }
      assert (Hr1 : r1 = POk).
      { destruct r1; [reflexivity| | |]; exfalso;
          (assert (X : cls None = 0%N) by (apply cls_nil; reflexivity)); rewrite HP in X; discriminate. }
      subst r1. cbn [is_none negb]. cbv zeta.
      destruct HC as [HC1 HC2].
      pose proof (gen_uploadSignatureManifest_spec Pack cfg c subject
                    (gen_content_NewDescriptorFromBytes FromBytes mt blob) annotations) as HU.
      destruct (snd cfg) as [ec|] eqn:Ecfg.
      { (* the config push failed *)
        destruct HU as [f HU]. rewrite HU. cbn [is_none negb].
        assert (Hne : cfg_code (snd (cfg_step s1)) <> 0%N).
        { rewrite <- HC1. intros H0. apply cls_nil in H0. discriminate. }
        destruct (N.eqb (cfg_code (snd (cfg_step s1))) 0) eqn:E0; [apply N.eqb_eq in E0; contradiction|].
        cbn [snd]. rewrite cls_wrap. split; [exact HC1|]. intros H0. contradiction. }
      assert (E0 : cfg_code (snd (cfg_step s1)) = 0%N).
      { rewrite <- HC1. apply cls_nil. reflexivity. }
      rewrite E0. cbn [N.eqb]. rewrite HU. specialize (HC2 eq_refl).
      specialize (HK (upload_request subject (gen_content_NewDescriptorFromBytes FromBytes mt blob) annotations (fst cfg))).
      cbv zeta in HK. rewrite (upload_request_is_model _ _ _ _ HC2), Hbd, <- Hsubj, <- Hann in HK.
      destruct (pack_model _ _ _ _ _ _) as [[[s3 code] mdm] am].
      destruct (Pack _ _ _) as [md e2]. cbn [fst snd] in *. destruct HK as [HK1 HK2].
      destruct e2 as [e2|]; cbn [is_none negb snd].
      - split; [exact HK1|]. intros H0. exfalso. rewrite H0 in HK1. apply cls_nil in HK1. discriminate.
      - assert (Hc : code = 0%N) by (rewrite <- HK1; apply cls_nil; reflexivity).
        clear HK1. subst code. split; [apply cls_nil; reflexivity|]. intros _. cbn [N.eqb].
        destruct (HK2 eq_refl) as [A B]. auto.
    Qed.

    (* C19_push_succeeds_iff, transported onto the code: PushSignature returns a nil
       error exactly when the envelope digest is new, the envelope is not a
       non-parsing content under a manifest media type, and a supplied creation
       time is RFC 3339 *)
    Corollary gen_PushSignature_succeeds_iff (pusher : P) c mt blob subject annotations :
      push_of FromBytes p mt blob subject annotations ->
      push_agrees -> cfg_agrees -> pack_agrees ->
      (snd (code_PushSignature FromBytes R NewReader Push P Pack cfg pusher c mt blob subject annotations) = None <->
       (lookup_dg st (p_bdg p) = None /\ successors (d_mt (blob_desc p)) (p_bc p) <> None /\
        ensure_created (p_ann p) (p_now p) (p_cvalid p) <> None)).
    Proof.
      intros H1 H2 H3 H4.
      pose proof (gen_PushSignature_matches_model pusher c mt blob subject annotations H1 H2 H3 H4) as M.
      rewrite <- push_succeeds_iff.
      destruct (code_PushSignature _ _ _ _ _ _ _ _ _ _ _ _ _) as [[bd md] e]. cbn [snd].
      destruct (push_sig st p) as [s' r] eqn:E. cbn [snd] in M.
      destruct r as [code bdm mdm am| | |]; try contradiction. destruct M as [M1 M2].
      rewrite <- cls_nil, M1. split.
      - intros ->. eauto.
      - intros (s2 & b2 & m2 & a2 & H). inversion H. reflexivity.
    Qed.

    (* C19_push_outcome, success case: the descriptors and the annotations the code
       reports are the pushed ones (plus the creation time) *)
    Corollary gen_PushSignature_reports (pusher : P) c mt blob subject annotations :
      push_of FromBytes p mt blob subject annotations ->
      push_agrees -> cfg_agrees -> pack_agrees ->
      let '(bd, md, e) := code_PushSignature FromBytes R NewReader Push P Pack cfg pusher c mt blob subject annotations in
      e = None ->
      abs_desc bd = blob_desc p /\ abs_desc md = man_desc p /\
      ensure_created (p_ann p) (p_now p) (p_cvalid p) = Some (abs_ann (Descriptor_Annotations md)).
    Proof.
      intros H1 H2 H3 H4.
      pose proof (gen_PushSignature_matches_model pusher c mt blob subject annotations H1 H2 H3 H4) as M.
      destruct (code_PushSignature _ _ _ _ _ _ _ _ _ _ _ _ _) as [[bd md] e].
      destruct (push_sig st p) as [s' r] eqn:E. cbn [snd] in M.
      destruct r as [code bdm mdm am| | |]; try contradiction. destruct M as [M1 M2].
      intros ->. assert (Hc : code = 0%N) by (rewrite <- M1; apply cls_nil; reflexivity). clear M1. subst code.
      destruct (M2 eq_refl) as (A & B & C0). rewrite A, B, C0.
      destruct (push_outcome st p s' 0%N bdm mdm am E) as [(_ & X1 & X2 & X3 & _)|[(X & _)|[(X & _)|(X & _)]]];
        try discriminate. subst. auto.
    Qed.
  End Push.

  (* C19_push_listed_roundtrip on what the code returned: a PushSignature that
     returned a nil error on the store after ops1 (manifest digest fresh) is, after
     any further operations, in every successful listing of its subject - with the
     descriptor and the annotations the code reported - and its envelope is what
     FetchSignatureBlob (the model of it) returns for that descriptor *)
  Corollary gen_PushSignature_then_listed FromBytes (R : Type) (NewReader : list Z -> R) Push (P : Type) Pack cfg
            ops1 p ops2 (pusher : P) c mt blob subject annotations :
    let st := state_after ops1 in
    push_of FromBytes p mt blob subject annotations ->
    push_agrees Push st p -> cfg_agrees cfg st p -> pack_agrees Pack st p ->
    forallb wf_op (ops1 ++ OpPush p :: ops2) = true ->
    lookup_dg st (p_mdg p) = None -> p_mdg p <> p_bdg p -> p_mdg p <> DG_EMPTY ->
    let '(bd, md, e) := code_PushSignature FromBytes R NewReader Push P Pack cfg pusher c mt blob subject annotations in
    e = None ->
    let stF := state_after (ops1 ++ OpPush p :: ops2) in
    (forall its lg, list_sigs stF (abs_desc subject) = (LOk its, lg) ->
       In (I (abs_desc md) MT_NOTATION (abs_ann (Descriptor_Annotations md))) its) /\
    ((p_msz p <= capM)%Z -> (c_sz (p_bc p) <= capB)%Z ->
       fetch_sig stF (abs_desc md) = (FOk (idg (FromBytes blob)) (abs_desc bd), [d_dg (abs_desc md); idg (FromBytes blob)])).
  Proof.
    cbv zeta. intros H1 H2 H3 H4 Hwf Hfresh Hne1 Hne2.
    pose proof (gen_PushSignature_matches_model FromBytes R NewReader Push P Pack cfg (state_after ops1) p
                  pusher c mt blob subject annotations H1 H2 H3 H4) as M.
    destruct (code_PushSignature _ _ _ _ _ _ _ _ _ _ _ _ _) as [[bd md] e].
    destruct (push_sig (state_after ops1) p) as [s' r] eqn:E. cbn [snd] in M.
    destruct r as [code bdm mdm am| | |]; try contradiction. destruct M as [M1 M2].
    intros ->. assert (Hc : code = 0%N) by (rewrite <- M1; apply cls_nil; reflexivity). clear M1. subst code.
    destruct (M2 eq_refl) as (A & B & C0). rewrite A, B, C0.
    destruct H1 as (_ & Hdg & _ & Hsubj & _). rewrite <- Hsubj, <- Hdg.
    destruct (push_listed ops1 p ops2 s' bdm mdm am Hwf E Hfresh Hne1 Hne2) as (X1 & X2 & _ & _ & X5 & X6).
    split; [exact X5|]. intros L1 L2. rewrite (X6 L1 L2), X2. reflexivity.
  Qed.
End Abs.

(* ---------- the standing hypotheses can be met ----------
   interning functions as the theorems want them exist (injective, "" -> 0,
   application/octet-stream -> MT_OCTET, the creation-time key -> K_CREATED), and so
   does an error classification (nil -> 0 only, transparent for fmt wrappers) *)
Fixpoint enc (s : string) : N :=
  match s with EmptyString => 0%N | String c s' => (N_of_ascii c + 1 + 257 * enc s')%N end.

Lemma enc_inj : forall a b, enc a = enc b -> a = b.
Proof.
  induction a as [|c a IH]; destruct b as [|c' b]; cbn [enc]; intros H; try reflexivity; try lia.
  pose proof (N_ascii_bounded c) as B1. pose proof (N_ascii_bounded c') as B2.
  assert (N_of_ascii c = N_of_ascii c' /\ enc a = enc b) as [E1 E2] by lia.
  rewrite (IH b E2). f_equal. rewrite <- (ascii_N_embedding c), E1. apply ascii_N_embedding.
Qed.

Definition intern_at (s0 : string) (t : N) (s : string) : N :=
  if String.eqb s s0 then t else if N.eqb (enc s) t then enc s0 else enc s.

Lemma intern_at_inj s0 t : forall a b, intern_at s0 t a = intern_at s0 t b -> a = b.
Proof.
  intros a b. unfold intern_at.
  destruct (String.eqb a s0) eqn:Ea, (String.eqb b s0) eqn:Eb;
    rewrite ?String.eqb_eq, ?String.eqb_neq in *; try congruence.
  - destruct (N.eqb (enc b) t) eqn:E; rewrite ?N.eqb_eq, ?N.eqb_neq in *; intros H.
    + exfalso. apply Eb. apply enc_inj. congruence.
    + congruence.
  - destruct (N.eqb (enc a) t) eqn:E; rewrite ?N.eqb_eq, ?N.eqb_neq in *; intros H.
    + exfalso. apply Ea. apply enc_inj. congruence.
    + congruence.
  - destruct (N.eqb (enc a) t) eqn:E, (N.eqb (enc b) t) eqn:E'; rewrite ?N.eqb_eq, ?N.eqb_neq in *; intros H.
    + apply enc_inj. congruence.
    + exfalso. apply Eb. apply enc_inj. congruence.
    + exfalso. apply Ea. apply enc_inj. congruence.
    + apply enc_inj. exact H.
Qed.

Theorem hypotheses_satisfiable :
  (exists imt : string -> N, (forall a b, imt a = imt b -> a = b) /\ imt "" = MT_NONE /\
                             imt "application/octet-stream" = MT_OCTET) /\
  (exists ik : string -> N, (forall a b, ik a = ik b -> a = b) /\ ik "org.opencontainers.image.created" = K_CREATED) /\
  (exists cls : option err -> N, (forall e, cls e = 0%N <-> e = None) /\
                                 (forall f e0, cls (Some (Err "fmt" f [e0])) = cls (Some e0))).
Proof.
  split; [|split].
  - exists (intern_at "application/octet-stream" MT_OCTET). split; [apply intern_at_inj|]. split; vm_compute; reflexivity.
  - exists (intern_at "org.opencontainers.image.created" K_CREATED). split; [apply intern_at_inj|]. vm_compute; reflexivity.
  - exists (fun e => match e with None => 0%N | Some _ => 1%N end). split; [|reflexivity].
    intros [e|]; split; intros H; try reflexivity; discriminate.
Qed.
