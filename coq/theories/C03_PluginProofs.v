(* C03_PluginProofs.v — the clause of C03 over the extended observation (the authenticity result the
   outcome finally reports when the signature names a verification plugin). *)
From NV Require Import Base C03_Model C03_Proofs C03_Audit C03_PluginModel.

Lemma plugin_loop_origin e pg : forall todo cur,
  fst (plugin_loop e pg todo cur) = cur \/ fst (plugin_loop e pg todo cur) = FPluginIdentity.
Proof.
  induction todo as [|c r IH]; intros cur; [left; reflexivity|].
  destruct c; cbn [plugin_loop].
  - destruct (pg_ti_ok pg); [apply IH|]. destruct e; [right; reflexivity|].
    destruct (IH FPluginIdentity) as [H|H]; right; exact H.
  - destruct (pg_rev_ok pg); [apply IH|]. destruct (is_enforce (pg_rev_action pg)); [left; reflexivity|apply IH].
Qed.

Lemma lift_auth o f : xo_auth (lift o) = Some f -> exists a, f = FStore a /\ o_auth o = Some a.
Proof. unfold lift. cbn [xo_auth]. destruct (o_auth o) as [a|]; [|discriminate]. intros [= <-]. now exists a. Qed.

(* a plugin can only ADD an identity failure: whatever is finally reported is the result of the
   trust-store check, or the error written for the plugin's failing trusted-identity verdict *)
Theorem only_adds_failure : forall xi f, xo_auth (xmodel xi) = Some f ->
  f = FPluginIdentity \/ exists a, f = FStore a /\ o_auth (model (x_in xi)) = Some a.
Proof.
  intros xi f. unfold xmodel. destruct (x_plugin xi) as [pg|].
  2:{ intros H. right. now apply lift_auth. }
  destruct (o_auth (model (x_in xi))) as [a|] eqn:Ea.
  2:{ intros H. apply lift_auth in H. destruct H as (a & _ & H). congruence. }
  destruct (pg_caps pg) as [|c0 cs] eqn:Ec; [discriminate|].
  destruct (o_stop (model (x_in xi))).
  { intros H. apply lift_auth in H. destruct H as (a' & -> & H). right. exists a'. split; [reflexivity|congruence]. }
  cbn [xo_auth]. intros [= <-].
  destruct (plugin_loop_origin (auth_enforced (x_in xi)) pg (caps_to_verify pg) (FStore a)) as [H|H]; rewrite H.
  - right. now exists a.
  - now left.
Qed.

(* the plugin's success never clears a failure of the trust-store check *)
Theorem never_clears : forall xi f, xo_auth (xmodel xi) = Some f -> fpass f = true ->
  o_auth (model (x_in xi)) = Some APass.
Proof.
  intros xi f H Hp. destruct (only_adds_failure xi f H) as [->|(a & -> & Ha)]; [discriminate|].
  destruct a; try discriminate. exact Ha.
Qed.

(* the first sentence of the property on the FINAL result *)
Theorem final_sound : forall xi, xo_auth (xmodel xi) = Some (FStore APass) ->
  exists st ty name l c,
    select (i_policy (x_in xi)) (i_repo (x_in xi)) = Some st /\ store_type_of (i_scheme (x_in xi)) = Some ty /\
    In (store_value ty name) (st_stores st) /\ fs_get (i_fs (x_in xi)) ty name = Certs l /\
    In c l /\ In c (i_chain (x_in xi)).
Proof. intros xi H. apply sound. exact (never_clears xi _ H eq_refl). Qed.

Theorem final_pass_only_if : forall xi, xo_auth (xmodel xi) = Some (FStore APass) ->
  exists st ty,
    select (i_policy (x_in xi)) (i_repo (x_in xi)) = Some st /\ st_action st <> SkipLevel /\
    store_type_of (i_scheme (x_in xi)) = Some ty /\
    (forall s, In s (st_stores st) -> contains_byte colon s = true) /\
    (forall n, In (store_value ty n) (st_stores st) -> fs_get (i_fs (x_in xi)) ty n <> LoadError) /\
    exists name l c, In (store_value ty name) (st_stores st) /\ fs_get (i_fs (x_in xi)) ty name = Certs l /\
                     In c l /\ In c (i_chain (x_in xi)).
Proof. intros xi H. apply pass_iff. exact (never_clears xi _ H eq_refl). Qed.

(* without a plugin the extended model is the model *)
Theorem no_plugin : forall i, xmodel (mk_xinput i None) = lift (model i).
Proof. reflexivity. Qed.

(* exactly when the final result is a pass *)
Theorem final_pass_iff : forall xi, xo_auth (xmodel xi) = Some (FStore APass) <->
  o_auth (model (x_in xi)) = Some APass /\
  match x_plugin xi with
  | None => True
  | Some pg => pg_caps pg <> [] /\
               fst (plugin_loop (auth_enforced (x_in xi)) pg (caps_to_verify pg) (FStore APass)) = FStore APass
  end.
Proof.
  intros xi. split.
  - intros H. pose proof (never_clears xi _ H eq_refl) as Hm. split; [exact Hm|].
    assert (Hs : o_stop (model (x_in xi)) = false).
    { destruct (o_stop (model (x_in xi))) eqn:E; [|reflexivity].
      apply stop_iff in E. destruct E as (st & c & _ & _ & Hc & Hne). congruence. }
    unfold xmodel in H. destruct (x_plugin xi) as [pg|]; [|trivial]. rewrite Hm, Hs in H.
    destruct (pg_caps pg) as [|c0 cs]; [discriminate|]. split; [discriminate|].
    cbn [xo_auth] in H. injection H as H. exact H.
  - intros [Hm Hp]. unfold xmodel. destruct (x_plugin xi) as [pg|].
    + rewrite Hm. destruct Hp as [Hc Hl]. destruct (pg_caps pg) as [|c0 cs]; [congruence|].
      assert (Hs : o_stop (model (x_in xi)) = false).
      { destruct (o_stop (model (x_in xi))) eqn:E; [|reflexivity].
        apply stop_iff in E. destruct E as (st & c & _ & _ & Hc' & Hne). congruence. }
      rewrite Hs. cbn [xo_auth]. now rewrite Hl.
    + unfold lift. cbn [xo_auth]. now rewrite Hm.
Qed.

(* ---------- the oracle is met by the extended model ---------- *)
Lemma pass_store_condition i : wf i = true -> o_auth (model i) = Some APass -> store_condition i = true.
Proof.
  intros Hwf H. pose proof (model_spec_ok i Hwf) as S. unfold spec_ok in S. unfold store_condition.
  rewrite H in S. destruct (applicable (i_policy i) (i_repo i)) as [st|]; [|discriminate].
  destruct (st_action st), (store_type_of (i_scheme i)) as [ty|]; try discriminate;
    (destruct (is_pass (expected_auth i ty (st_stores st))); [reflexivity|cbn in S; discriminate]).
Qed.

Lemma lower_lift o : mk_obs (option_map lower (xo_auth (lift o))) (xo_calls (lift o)) (xo_stop (lift o)) = o.
Proof. destruct o as [[a|] c s]; reflexivity. Qed.

Theorem xmodel_spec_ok : forall xi, wf (x_in xi) = true -> xspec_ok xi (xmodel xi) = true.
Proof.
  intros xi Hwf. unfold xspec_ok. destruct (x_plugin xi) as [pg|] eqn:Ep.
  - destruct (xo_auth (xmodel xi)) as [f|] eqn:Ef; [|reflexivity].
    destruct (fpass f) eqn:Hp; [|reflexivity].
    apply pass_store_condition; [exact Hwf|]. exact (never_clears xi f Ef Hp).
  - unfold xmodel. rewrite Ep. rewrite lower_lift. now apply model_spec_ok.
Qed.

(* ---------- concrete inputs ---------- *)
Definition px_fs : fsys := [(("ca", "good"), Certs [3; 8]); (("signingAuthority", "good"), Certs [1]); (("ca", "bad"), LoadError)]%N.
Definition px_in (stores : list string) (a : action) : input :=
  mk_input SX509 [mk_stmt "p" ["*"] stores a true] "reg.example/r" px_fs [1; 2; 3]%N false.
Definition px_ok : plugin := mk_plugin [CTI; CRev] true true Enforce.
Definition px_no : plugin := mk_plugin [CRev; CTI] false true Log.
