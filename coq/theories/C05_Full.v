(* C05_Full.v — proofs about the FULL model [xmodel_native] of C05_Model.v: every answer a
   validator can give (error with or without results, short and overlong result
   vectors, nil entries, annotations), the value of the signing time, the verifier
   without a validator; the refinement [model] = projection of [xmodel_native]; and the
   pre-fix variant [xmodel_v0] (before /repo commit d78db00). *)
From NV Require Import Base C05_Model C05_Proofs.

Definition nokp (x : rres * string) := negb (is_ok (fst x)).

(* what the loop of revocationFinalResult computes, said without a loop: the
   leaf-most revoked certificate if there is one, otherwise the leaf-most
   certificate whose result is not OK / non-revokable, otherwise OK *)
Definition verdict (l : list (rres * string)) : rres * string :=
  match find revp l with
  | Some (_, s) => (RRevoked, s)
  | None => match find nokp l with
            | Some (r, s) => (r, s)
            | None => (ROK, "")
            end
  end.

Lemma fr_find_rev l r s : find revp l = Some (r, s) -> a_revFound (fr l) = true /\ a_revSubj (fr l) = s.
Proof.
  induction l as [|[r0 s0] l IH]; [discriminate|].
  rewrite fr_cons. unfold step. cbn [find]. change (revp (r0, s0)) with (is_revoked r0).
  destruct (is_ok r0) eqn:E.
  - rewrite (ok_not_rev _ E). cbn [a_revFound a_revSubj]. exact IH.
  - destruct (is_revoked r0) eqn:E2; cbn [a_revFound a_revSubj].
    + intros H; inversion H; subst; auto.
    + exact IH.
Qed.

Lemma fr_find_rev_none l : find revp l = None -> a_revFound (fr l) = false.
Proof.
  intros H. rewrite fr_revFound. destruct (existsb revp l) eqn:E; [|reflexivity].
  apply existsb_exists in E. destruct E as (x & Hin & Hx).
  exfalso. eapply find_none in H; eauto. congruence.
Qed.

Lemma fr_find_nok l r s : find nokp l = Some (r, s) -> a_final (fr l) = r /\ a_prob (fr l) = s.
Proof.
  induction l as [|[r0 s0] l IH]; [discriminate|].
  rewrite fr_cons. unfold step. cbn [find]. unfold nokp at 1. cbn [fst].
  destruct (is_ok r0) eqn:E; cbn [negb a_final a_prob].
  - exact IH.
  - intros H; inversion H; subst. destruct (is_revoked r); cbn [a_final a_prob]; auto.
Qed.

Lemma fr_find_nok_none l : find nokp l = None ->
  forallb okp l = true /\ a_final (fr l) = RUnknown /\ a_prob (fr l) = "".
Proof.
  induction l as [|[r0 s0] l IH]; [cbn; auto|].
  rewrite fr_cons. unfold step. cbn [find forallb]. unfold nokp at 1, okp at 1. cbn [fst].
  destruct (is_ok r0) eqn:E; cbn [negb andb a_final a_prob]; [exact IH | discriminate].
Qed.

Lemma find_nokp_some l x : find nokp l = Some x -> forallb okp l = false.
Proof.
  intros H. destruct (forallb okp l) eqn:E; [|reflexivity].
  apply find_some in H. destruct H as [Hin Hn]. rewrite forallb_forall in E.
  specialize (E _ Hin). unfold nokp, okp in *. rewrite E in Hn. discriminate.
Qed.

Lemma find_revp_nokp l r s : find revp l = Some (r, s) -> forallb okp l = false.
Proof.
  intros H. destruct (forallb okp l) eqn:E; [|reflexivity].
  apply find_some in H. destruct H as [Hin Hn]. rewrite forallb_forall in E.
  specialize (E _ Hin). unfold revp, okp in *. cbn [fst] in *. rewrite (ok_not_rev _ E) in Hn. discriminate.
Qed.

(* the aggregator is [verdict] whenever there are not more results than certificates *)
Lemma final_is_verdict rs chain : List.length rs <= List.length chain ->
  final_result rs chain = verdict (combine rs chain).
Proof.
  intros Hl. unfold final_result, verdict. rewrite loop_is_fr, fr_numOK.
  set (l := combine rs chain).
  assert (El : List.length rs = List.length l) by (unfold l; rewrite combine_length; lia).
  rewrite El, filter_len_all.
  destruct (find revp l) as [[r s]|] eqn:Er.
  - destruct (fr_find_rev _ _ _ Er) as [-> ->]. now rewrite (find_revp_nokp _ _ _ Er).
  - rewrite (fr_find_rev_none _ Er).
    destruct (find nokp l) as [[r s]|] eqn:En.
    + destruct (fr_find_nok _ _ _ En) as [-> ->]. now rewrite (find_nokp_some _ _ En).
    + destruct (fr_find_nok_none _ En) as (H1 & _ & H3). now rewrite H1, H3.
Qed.

(* position of the first element of [combine rs chain] that satisfies a predicate on the result *)
Lemma find_combine (p : rres -> bool) (rs : list rres) (chain : list string) r s :
  find (fun x => p (fst x)) (combine rs chain) = Some (r, s) ->
  exists k, nth_error rs k = Some r /\ nth_error chain k = Some s /\ p r = true /\
            forall j r', j < k -> nth_error rs j = Some r' -> p r' = false.
Proof.
  revert chain; induction rs as [|r0 rs IH]; intros [|c chain]; cbn [combine find]; try discriminate.
  cbn [fst]. destruct (p r0) eqn:E.
  - intros H; inversion H; subst. exists 0. cbn. repeat split; auto. intros j r' Hj; lia.
  - intros H. destruct (IH _ H) as (k & H1 & H2 & H3 & H4). exists (S k). cbn. repeat split; auto.
    intros [|j] r' Hj; cbn; [intros Hr; inversion Hr; subst; exact E | intros Hr; apply (H4 j); [lia | exact Hr]].
Qed.

Lemma find_combine_none (p : rres -> bool) (rs : list rres) (chain : list string) : List.length rs <= List.length chain ->
  find (fun x => p (fst x)) (combine rs chain) = None -> existsb p rs = false.
Proof.
  revert chain; induction rs as [|r0 rs IH]; intros [|c chain] Hl; cbn in *; try lia; try (intros; reflexivity).
  destruct (p r0); [discriminate|]. intros H. cbn. apply (IH chain); [lia | exact H].
Qed.

Lemma find_combine_some (p : rres -> bool) (rs : list rres) (chain : list string) : List.length rs <= List.length chain ->
  existsb p rs = true -> exists x, find (fun x => p (fst x)) (combine rs chain) = Some x.
Proof.
  intros Hl He. destruct (find _ (combine rs chain)) eqn:E; [eauto|].
  rewrite (find_combine_none p rs chain Hl E) in He. discriminate.
Qed.

(* ---------- xmodel_native, by cases ---------- *)
Lemma action_eq_dec (a b : action) : {a = b} + {a <> b}.
Proof. decide equality. Qed.

Lemma xmodel_skip x : x_action x = Skip -> xmodel_native x = mk_xobs [] None false false.
Proof. intros H. unfold xmodel_native. now rewrite H. Qed.

Lemma xmodel_novalidator x : x_action x <> Skip -> x_val x = 4%N ->
  xmodel_native x = mk_xobs [] (Some Inconclusive) (enforce_fails (x_action x) Inconclusive) false.
Proof. intros Ha Hv. unfold xmodel_native. rewrite Hv. destruct (x_action x); try congruence; reflexivity. Qed.

Lemma xmodel_err x : x_action x <> Skip -> x_val x <> 4%N -> x_err x = true ->
  xmodel_native x = mk_xobs (xcalls x) (Some Inconclusive) (enforce_fails (x_action x) Inconclusive) false.
Proof.
  intros Ha Hv He. unfold xmodel_native. apply N.eqb_neq in Hv. rewrite Hv, He.
  destruct (x_action x); try congruence; reflexivity.
Qed.

Lemma xmodel_incomplete x : x_action x <> Skip -> x_val x <> 4%N -> x_err x = false ->
  complete x = false ->
  xmodel_native x = mk_xobs (xcalls x) (Some Inconclusive) (enforce_fails (x_action x) Inconclusive) false.
Proof.
  intros Ha Hv He Hc. unfold xmodel_native. apply N.eqb_neq in Hv. rewrite Hv, He, Hc.
  destruct (x_action x); try congruence; reflexivity.
Qed.

(* what [complete] means: the slice is [Some c1; ..; Some cn] with n = length of the chain *)
Lemma forallb_is_some {A} (l : list (option A)) : forallb is_some l = true -> exists cs, l = map Some cs.
Proof.
  induction l as [|[c|] l IH]; cbn; [exists []; reflexivity | | discriminate].
  intros H. destruct (IH H) as [cs ->]. exists (c :: cs). reflexivity.
Qed.

Lemma flat_some (cs : list certres) :
  flat_map (fun o => match o with Some c => [cr_result c] | None => [] end) (map Some cs) = map cr_result cs.
Proof. induction cs as [|c cs IH]; cbn; [reflexivity | now rewrite IH]. Qed.

Lemma complete_spec x : complete x = true ->
  exists cs, x_results x = map Some cs /\ List.length cs = List.length (x_chain x) /\
             xresults x = map cr_result cs.
Proof.
  unfold complete, xresults. rewrite andb_true_iff, Nat.eqb_eq. intros [Hl Hs].
  destruct (forallb_is_some _ Hs) as [cs E]. exists cs. rewrite E in *. rewrite map_length in Hl.
  repeat split; auto. apply flat_some.
Qed.

Lemma complete_lengths x : complete x = true ->
  List.length (x_results x) = List.length (x_chain x) /\ List.length (xresults x) = List.length (x_chain x).
Proof.
  intros H. destruct (complete_spec _ H) as (cs & E1 & E2 & E3). rewrite E1, E3, !map_length. auto.
Qed.

Lemma xmodel_answer x : x_action x <> Skip -> x_val x <> 4%N -> x_err x = false ->
  complete x = true ->
  xmodel_native x =
    let res := classify (verdict (combine (xresults x) (x_chain x))) in
    mk_xobs (xcalls x) (Some res) (enforce_fails (x_action x) res) false.
Proof.
  intros Ha Hv He Hc. unfold xmodel_native. apply N.eqb_neq in Hv. rewrite Hv, He, Hc. cbn [negb].
  rewrite final_is_verdict by (rewrite (proj2 (complete_lengths _ Hc)); lia).
  destruct (x_action x); try congruence; reflexivity.
Qed.

(* the shape of every observation of a step that is entered *)
Lemma xmodel_cases x : x_action x <> Skip ->
  exists calls c, xmodel_native x = mk_xobs calls (Some c) (enforce_fails (x_action x) c) false.
Proof.
  intros Ha.
  destruct (N.eq_dec (x_val x) 4) as [Hv|Hv]; [rewrite (xmodel_novalidator _ Ha Hv); eauto|].
  destruct (x_err x) eqn:He; [rewrite (xmodel_err _ Ha Hv He); eauto|].
  destruct (complete x) eqn:Hc.
  - rewrite (xmodel_answer _ Ha Hv He Hc). cbv zeta. eauto.
  - rewrite (xmodel_incomplete _ Ha Hv He Hc). eauto.
Qed.

Lemma enforce_fails_iff a c : enforce_fails a c = true <-> a = Enforce /\ c <> Pass.
Proof. destruct a, c; cbn; split; try discriminate; try tauto; try (intros [H1 H2]; congruence); intros _; split; congruence. Qed.

Definition cr_ok (c : certres) : Prop := cr_result c = ROK \/ cr_result c = RNonRevokable.
Definition entry_ok (o : option certres) : Prop := exists c, o = Some c /\ cr_ok c.

Lemma entry_ok_forallb cs : Forall entry_ok (map Some cs) <-> forallb is_ok (map cr_result cs) = true.
Proof.
  rewrite <- all_ok_forallb. unfold all_ok. rewrite !Forall_map, !Forall_forall.
  split; intros H c Hin; specialize (H c Hin).
  - destruct H as (c' & E & Hok). inversion E; subst. exact Hok.
  - exists c. split; [reflexivity | exact H].
Qed.

Lemma forall_entry_ok_some l : Forall entry_ok l -> forallb is_some l = true.
Proof.
  intros H. apply forallb_forall. intros o Hin. rewrite Forall_forall in H.
  destruct (H o Hin) as (c & -> & _). reflexivity.
Qed.

Lemma verdict_pass_iff rs chain : List.length rs <= List.length chain ->
  (classify (verdict (combine rs chain)) = Pass <-> forallb is_ok rs = true).
Proof.
  intros Hl. unfold verdict.
  destruct (find revp (combine rs chain)) as [[r s]|] eqn:Er.
  - cbn. split; [discriminate|]. intros H. exfalso.
    destruct (find_combine is_revoked _ _ _ _ Er) as (k & H1 & _ & H3 & _).
    rewrite forallb_forall in H. specialize (H r (nth_error_In _ _ H1)).
    rewrite (ok_not_rev _ H) in H3. discriminate.
  - destruct (find nokp (combine rs chain)) as [[r s]|] eqn:En.
    + destruct (find_combine (fun r => negb (is_ok r)) _ _ _ _ En) as (k & H1 & _ & H3 & _).
      split.
      * unfold classify; cbn [fst]. destruct r; cbn in H3; try discriminate; intros H; discriminate.
      * intros H. exfalso. rewrite forallb_forall in H. specialize (H r (nth_error_In _ _ H1)).
        rewrite H in H3. discriminate.
    + split; [intros _ | reflexivity].
      pose proof (find_combine_none (fun r => negb (is_ok r)) rs chain Hl En) as H.
      destruct (forallb is_ok rs) eqn:E; [reflexivity|exfalso].
      assert (exists r, In r rs /\ is_ok r = false) as (r & Hin & Hr).
      { clear -E. induction rs as [|r rs IH]; [discriminate|]. cbn in E. destruct (is_ok r) eqn:E1.
        - destruct (IH E) as (r' & Hin & Hr). exists r'. split; [now right | exact Hr].
        - exists r. split; [now left | exact E1]. }
      assert (existsb (fun r => negb (is_ok r)) rs = true) by (apply existsb_exists; exists r; rewrite Hr; auto).
      congruence.
Qed.

(* ---------- the statements used by props/C05_Property.v ---------- *)

Lemma xpass_iff x : x_action x <> Skip ->
  (xo_result (xmodel_native x) = Some Pass <->
   x_val x <> 4%N /\ x_err x = false /\
   List.length (x_results x) = List.length (x_chain x) /\ Forall entry_ok (x_results x)).
Proof.
  intros Ha. destruct (N.eq_dec (x_val x) 4) as [Hv|Hv].
  { rewrite (xmodel_novalidator _ Ha Hv). cbn. split; [discriminate | intros [H _]; congruence]. }
  destruct (x_err x) eqn:He.
  { rewrite (xmodel_err _ Ha Hv He). cbn. split; [discriminate | intros (_ & H & _); discriminate]. }
  destruct (complete x) eqn:Hc.
  - rewrite (xmodel_answer _ Ha Hv He Hc). cbv zeta. cbn [xo_result].
    destruct (complete_spec _ Hc) as (cs & E1 & E2 & E3).
    assert (Hl : List.length (xresults x) <= List.length (x_chain x)) by (rewrite (proj2 (complete_lengths _ Hc)); lia).
    pose proof (verdict_pass_iff _ _ Hl) as V. rewrite E3 in V at 2. rewrite <- entry_ok_forallb, <- E1 in V.
    split.
    + intros H. inversion H as [H1]. repeat split; auto; [apply (complete_lengths _ Hc) | apply V; exact H1].
    + intros (_ & _ & _ & H). f_equal. apply V, H.
  - rewrite (xmodel_incomplete _ Ha Hv He Hc). cbn. split; [discriminate|].
    intros (_ & _ & Hl & Hf). exfalso. unfold complete in Hc.
    rewrite (proj2 (Nat.eqb_eq _ _) Hl), (forall_entry_ok_some _ Hf) in Hc. discriminate.
Qed.

(* the clause as worded, with NO hypothesis on the answer: every certificate of the chain has a
   result and it is OK / non-revokable *)
Lemma xpass_only_if x : x_action x <> Skip ->
  xo_result (xmodel_native x) = Some Pass ->
  forall k s, nth_error (x_chain x) k = Some s ->
    exists c, nth_error (x_results x) k = Some (Some c) /\ cr_ok c.
Proof.
  intros Ha Hp k s Hk. apply (xpass_iff _ Ha) in Hp. destruct Hp as (_ & _ & Hl & Hf).
  assert (Hlt : k < List.length (x_results x)).
  { rewrite Hl. apply nth_error_Some. congruence. }
  destruct (nth_error (x_results x) k) as [o|] eqn:E.
  - rewrite Forall_forall in Hf. destruct (Hf o (nth_error_In _ _ E)) as (c & -> & Hok). eauto.
  - apply nth_error_None in E. lia.
Qed.

Lemma xpass_if x : x_action x <> Skip -> x_val x <> 4%N -> x_err x = false ->
  List.length (x_results x) = List.length (x_chain x) -> Forall entry_ok (x_results x) ->
  xo_result (xmodel_native x) = Some Pass /\ xo_rejected (xmodel_native x) = false /\ xo_panic (xmodel_native x) = false.
Proof.
  intros Ha Hv He Hl Hf.
  assert (Hp : xo_result (xmodel_native x) = Some Pass) by (apply (xpass_iff _ Ha); repeat split; auto).
  split; [exact Hp|]. destruct (xmodel_cases _ Ha) as (calls & c & E). rewrite E in *. cbn in *.
  inversion Hp; subst c. destruct (x_action x); auto.
Qed.

(* an answer that is not exactly one non-nil result per certificate is inconclusive *)
Lemma xincomplete x : x_action x <> Skip -> x_err x = false -> complete x = false ->
  xo_result (xmodel_native x) = Some Inconclusive /\ xo_panic (xmodel_native x) = false /\
  xo_rejected (xmodel_native x) = match x_action x with Enforce => true | _ => false end.
Proof.
  intros Ha He Hc. destruct (N.eq_dec (x_val x) 4) as [Hv|Hv].
  - rewrite (xmodel_novalidator _ Ha Hv). cbn. destruct (x_action x); auto.
  - rewrite (xmodel_incomplete _ Ha Hv He Hc). cbn. destruct (x_action x); auto.
Qed.

Lemma complete_false_iff x :
  complete x = false <->
  List.length (x_results x) <> List.length (x_chain x) \/ In None (x_results x).
Proof.
  unfold complete. rewrite andb_false_iff, Nat.eqb_neq. split; (intros [H|H]; [now left | right]).
  - induction (x_results x) as [|[c|] l IH]; cbn in *; [discriminate | right; auto | now left].
  - destruct (forallb is_some (x_results x)) eqn:E; [|reflexivity].
    rewrite forallb_forall in E. specialize (E _ H). discriminate.
Qed.

Lemma xnever_panics x : xo_panic (xmodel_native x) = false.
Proof.
  destruct (action_eq_dec (x_action x) Skip) as [Ea|Ha]; [now rewrite (xmodel_skip _ Ea)|].
  destruct (xmodel_cases _ Ha) as (calls & c & E). now rewrite E.
Qed.

Lemma xrevoked x : x_action x <> Skip -> x_val x <> 4%N -> x_err x = false -> complete x = true ->
  In RRevoked (xresults x) ->
  exists k s, nth_error (xresults x) k = Some RRevoked /\
              (forall j, j < k -> nth_error (xresults x) j <> Some RRevoked) /\
              nth_error (x_chain x) k = Some s /\
              xo_result (xmodel_native x) = Some (Revoked s).
Proof.
  intros Ha Hv He Hc Hin. rewrite (xmodel_answer _ Ha Hv He Hc). cbv zeta. cbn [xo_result].
  assert (Hl' : List.length (xresults x) <= List.length (x_chain x)) by (rewrite (proj2 (complete_lengths _ Hc)); lia).
  assert (E : existsb is_revoked (xresults x) = true) by (apply existsb_exists; exists RRevoked; auto).
  destruct (find_combine_some is_revoked _ _ Hl' E) as ([r s] & Hf).
  destruct (find_combine is_revoked _ _ _ _ Hf) as (k & H1 & H2 & H3 & H4).
  assert (r = RRevoked) by (destruct r; cbn in H3; congruence). subst r.
  exists k, s. repeat split; auto.
  - intros j Hj Hn. specialize (H4 j RRevoked Hj Hn). discriminate.
  - unfold verdict. change (find revp) with (find (fun x : rres * string => is_revoked (fst x))). now rewrite Hf.
Qed.

Lemma xunknown x : x_action x <> Skip -> x_val x <> 4%N -> x_err x = false -> complete x = true ->
  ~ all_ok (xresults x) -> ~ In RRevoked (xresults x) ->
  exists k r s, nth_error (xresults x) k = Some r /\ is_ok r = false /\ r <> RRevoked /\
                (forall j r', j < k -> nth_error (xresults x) j = Some r' -> is_ok r' = true) /\
                nth_error (x_chain x) k = Some s /\
                xo_result (xmodel_native x) = Some (Unknown s).
Proof.
  intros Ha Hv He Hc Hn Hr. rewrite (xmodel_answer _ Ha Hv He Hc). cbv zeta. cbn [xo_result].
  assert (Hl' : List.length (xresults x) <= List.length (x_chain x)) by (rewrite (proj2 (complete_lengths _ Hc)); lia).
  assert (Er : find revp (combine (xresults x) (x_chain x)) = None).
  { destruct (find revp _) as [[r s]|] eqn:E; [exfalso|reflexivity].
    destruct (find_combine is_revoked _ _ _ _ E) as (k & H1 & _ & H3 & _).
    apply Hr. destruct r; cbn in H3; try discriminate. eapply nth_error_In; eauto. }
  assert (E : existsb (fun r => negb (is_ok r)) (xresults x) = true).
  { destruct (existsb _ (xresults x)) eqn:E; [reflexivity|exfalso]. apply Hn, all_ok_forallb.
    apply forallb_forall. intros r Hin. destruct (is_ok r) eqn:Eo; [reflexivity|].
    rewrite <- E. apply existsb_exists. exists r. rewrite Eo. auto. }
  destruct (find_combine_some (fun r => negb (is_ok r)) _ _ Hl' E) as ([r s] & Hf).
  destruct (find_combine (fun r => negb (is_ok r)) _ _ _ _ Hf) as (k & H1 & H2 & H3 & H4).
  assert (Hnr : r <> RRevoked) by (intros ->; apply Hr; eapply nth_error_In; eauto).
  exists k, r, s. repeat split; auto.
  - now apply negb_true_iff in H3.
  - intros j r' Hj Hj'. specialize (H4 j r' Hj Hj'). now apply negb_false_iff in H4.
  - unfold verdict. rewrite Er. change (find nokp) with (find (fun x : rres * string => negb (is_ok (fst x)))).
    rewrite Hf. unfold classify. cbn [fst snd]. destruct r; cbn in H3; try discriminate; try reflexivity. congruence.
Qed.

(* under [complete], entry k of [xresults] is the result reported for certificate k *)
Lemma xresults_nth x k : complete x = true ->
  nth_error (xresults x) k = option_map cr_result (match nth_error (x_results x) k with Some o => o | None => None end).
Proof.
  intros Hc. destruct (complete_spec _ Hc) as (cs & E1 & _ & E3). rewrite E1, E3, !nth_error_map.
  destruct (nth_error cs k); reflexivity.
Qed.

Lemma xvalidator_error x : x_action x <> Skip -> x_err x = true ->
  xo_result (xmodel_native x) = Some Inconclusive /\ xo_panic (xmodel_native x) = false /\
  xo_rejected (xmodel_native x) = match x_action x with Enforce => true | _ => false end.
Proof.
  intros Ha He. destruct (N.eq_dec (x_val x) 4) as [Hv|Hv].
  - rewrite (xmodel_novalidator _ Ha Hv). cbn. destruct (x_action x); auto.
  - rewrite (xmodel_err _ Ha Hv He). cbn. destruct (x_action x); auto.
Qed.

Lemma xno_validator x : x_action x <> Skip -> x_val x = 4%N ->
  xo_calls (xmodel_native x) = [] /\ xo_result (xmodel_native x) = Some Inconclusive /\
  xo_rejected (xmodel_native x) = match x_action x with Enforce => true | _ => false end.
Proof. intros Ha Hv. rewrite (xmodel_novalidator _ Ha Hv). cbn. destruct (x_action x); auto. Qed.

Lemma xo_calls_model x : x_action x <> Skip ->
  xo_calls (xmodel_native x) = if (x_val x =? 4)%N then [] else xcalls x.
Proof.
  intros Ha.
  destruct (N.eq_dec (x_val x) 4) as [Hv|Hv]; [rewrite (xmodel_novalidator _ Ha Hv), Hv; reflexivity|].
  rewrite (proj2 (N.eqb_neq _ _) Hv).
  destruct (x_err x) eqn:He; [rewrite (xmodel_err _ Ha Hv He); reflexivity|].
  destruct (complete x) eqn:Hc.
  - now rewrite (xmodel_answer _ Ha Hv He Hc).
  - now rewrite (xmodel_incomplete _ Ha Hv He Hc).
Qed.

(* the consultation does not depend on the answer *)
Lemma xarguments x : x_action x <> Skip -> (x_val x = 1 \/ x_val x = 2 \/ x_val x = 3)%N ->
  xo_calls (xmodel_native x) =
    [mk_xcall (if (x_val x =? 2)%N then 2 else 1) (x_chain x) (if x_sa x then x_stime x else None)].
Proof.
  intros Ha Hv. rewrite (xo_calls_model _ Ha). unfold xcalls, xtime.
  destruct Hv as [-> | [-> | ->]]; reflexivity.
Qed.

(* a result entry exists exactly when the step is entered *)
Lemma xresult_some_iff x :
  (exists c, xo_result (xmodel_native x) = Some c) <-> x_action x <> Skip.
Proof.
  destruct (action_eq_dec (x_action x) Skip) as [Ea|Ha].
  { rewrite (xmodel_skip _ Ea). cbn. split; [intros [c H]; discriminate | congruence]. }
  destruct (xmodel_cases _ Ha) as (calls & c & E); rewrite E; cbn. split; eauto.
Qed.

Lemma xrejected_iff x :
  xo_rejected (xmodel_native x) = true <->
  x_action x = Enforce /\ exists c, xo_result (xmodel_native x) = Some c /\ c <> Pass.
Proof.
  destruct (action_eq_dec (x_action x) Skip) as [Ea|Ha].
  { rewrite (xmodel_skip _ Ea). cbn. split; [discriminate | intros [H _]; congruence]. }
  destruct (xmodel_cases _ Ha) as (calls & c & E); rewrite E; cbn.
  rewrite enforce_fails_iff. split.
  - intros [H1 H2]. split; [exact H1|]. exists c. split; [reflexivity | exact H2].
  - intros [H1 (c' & Hc & Hn)]. inversion Hc; subst c'. auto.
Qed.

(* fail closed at the level of Verify: under enforce the signature gets through the
   revocation step exactly when the revocation validation passes *)
Lemma xaccept_iff x : x_action x = Enforce ->
  (xo_rejected (xmodel_native x) = false /\ xo_panic (xmodel_native x) = false <-> xo_result (xmodel_native x) = Some Pass).
Proof.
  intros Ea. assert (Ha : x_action x <> Skip) by congruence. split.
  - intros [Hr _].
    destruct (proj2 (xresult_some_iff x) Ha) as [c Hc]. destruct c; try exact Hc; exfalso.
    all: assert (Ht : xo_rejected (xmodel_native x) = true)
      by (apply xrejected_iff; split; [exact Ea|]; eexists; split; [exact Hc | discriminate]).
    all: congruence.
  - intros Hp. split; [|apply xnever_panics].
    destruct (xo_rejected (xmodel_native x)) eqn:E; [exfalso|reflexivity].
    apply xrejected_iff in E. destruct E as [_ (c & Hc & Hn)]. congruence.
Qed.

Lemma xlog_reports x : x_action x = Log ->
  xo_rejected (xmodel_native x) = false /\ exists c, xo_result (xmodel_native x) = Some c.
Proof.
  intros Ea. split.
  - destruct (xo_rejected (xmodel_native x)) eqn:E; [exfalso|reflexivity].
    apply xrejected_iff in E. destruct E as [H _]. congruence.
  - apply xresult_some_iff. congruence.
Qed.

(* method annotations and per-server results never matter *)
Definition view (l : list (option certres)) : list (option rres) := map (option_map cr_result) l.

Lemma view_determines l l' : view l = view l' ->
  List.length l = List.length l' /\ forallb is_some l = forallb is_some l' /\
  flat_map (fun o => match o with Some c => [cr_result c] | None => [] end) l =
  flat_map (fun o => match o with Some c => [cr_result c] | None => [] end) l'.
Proof.
  revert l'; induction l as [|o l IH]; intros [|o' l']; cbn; try discriminate; [auto|].
  intros H. inversion H as [[H1 H2]]. destruct (IH _ H2) as (A & B & C).
  destruct o, o'; cbn in *; try discriminate; rewrite ?A, ?B, ?C; repeat split; auto.
  inversion H1 as [H3]. now rewrite H3.
Qed.

Lemma xindependent x y :
  x_action x = x_action y -> x_sa x = x_sa y -> x_val x = x_val y -> x_stime x = x_stime y ->
  x_chain x = x_chain y -> x_err x = x_err y ->
  view (x_results x) = view (x_results y) ->
  xmodel_native x = xmodel_native y.
Proof.
  intros H1 H2 H3 H4 H5 H6 H7. destruct (view_determines _ _ H7) as (A & B & C).
  unfold xmodel_native, xcalls, xtime, complete, xresults.
  now rewrite H1, H2, H3, H4, H5, H6, A, B, C.
Qed.

(* an error makes the accompanying results irrelevant *)
Lemma xerror_ignores_results x rs' : x_err x = true ->
  xmodel_native x = xmodel_native (mk_xinput (x_action x) (x_sa x) (x_val x) (x_stime x) (x_chain x) true rs').
Proof.
  intros He. unfold xmodel_native, xcalls, xtime. cbn. rewrite He. reflexivity.
Qed.

(* ---------- the model meets the oracle on EVERY input ---------- *)
Lemma xnamed_ok p rs chain k r s :
  nth_error rs k = Some r -> nth_error chain k = Some s -> p r = true -> named_ok p rs chain s = true.
Proof.
  intros H1 H2 H3. unfold named_ok. apply existsb_exists. exists (r, s). split.
  - revert chain k H1 H2. induction rs as [|r0 rs IH]; intros [|c chain] [|k]; cbn; try discriminate.
    + intros A B; inversion A; inversion B; subst; now left.
    + intros A B. right. eapply IH; eauto.
  - cbn. now rewrite H3, String.eqb_refl.
Qed.

Lemma optz_eqb_refl o : optz_eqb o o = true.
Proof. destruct o; cbn; [apply Z.eqb_refl | reflexivity]. Qed.

Lemma xcalls_ok_model x : x_action x <> Skip -> xcalls_ok_native x (xo_calls (xmodel_native x)) = true.
Proof.
  intros Ha. rewrite (xo_calls_model _ Ha).
  assert (Hs : list_eqb String.eqb (x_chain x) (x_chain x) = true)
    by (apply (list_eqb_spec String.eqb String.eqb_eq); reflexivity).
  unfold xcalls_ok_native, xcalls, xtime.
  destruct (x_val x) as [|[[[|[]|]|[]|]|[[]|[]|]|]] eqn:Ev; cbn;
    rewrite ?Hs, ?optz_eqb_refl; reflexivity.
Qed.

Lemma xmodel_spec_ok x : xspec_ok_native x (xmodel_native x) = true.
Proof.
  unfold xspec_ok_native. rewrite xnever_panics. cbn [negb andb].
  destruct (x_action x) eqn:Ea; [| | rewrite (xmodel_skip _ Ea); reflexivity].
  all: assert (Ha : x_action x <> Skip) by congruence.
  all: rewrite (xcalls_ok_model _ Ha); cbn [andb].
  all: destruct (N.eq_dec (x_val x) 4) as [Hv|Hv];
    [ rewrite (xmodel_novalidator _ Ha Hv); unfold xresult_ok_native; rewrite Hv, Ea; reflexivity |].
  all: destruct (x_err x) eqn:He;
    [ rewrite (xmodel_err _ Ha Hv He); unfold xresult_ok_native; rewrite He, Ea, orb_true_r; reflexivity |].
  all: destruct (complete x) eqn:Hc;
    [| rewrite (xmodel_incomplete _ Ha Hv He Hc); unfold xresult_ok_native; rewrite Hc, Ea, orb_true_r; reflexivity ].
  all: assert (Hl' : List.length (xresults x) <= List.length (x_chain x)) by (rewrite (proj2 (complete_lengths _ Hc)); lia).
  all: rewrite (xmodel_answer _ Ha Hv He Hc), Ea; cbv zeta; cbn [xo_result xo_rejected];
       rewrite eqb_reflx, andb_true_r.
  all: unfold xresult_ok_native; apply N.eqb_neq in Hv; rewrite Hv, He, Hc; cbn [orb negb].
  all: destruct (forallb is_ok (xresults x)) eqn:E1;
    [ apply (verdict_pass_iff _ _ Hl') in E1; now rewrite E1 |].
  all: destruct (existsb is_revoked (xresults x)) eqn:E2.
  all: unfold verdict.
  1,3: destruct (find_combine_some is_revoked _ _ Hl' E2) as ([r s] & Hf);
       destruct (find_combine is_revoked _ _ _ _ Hf) as (k & H1 & H2 & H3 & _);
       change (find revp) with (find (fun x : rres * string => is_revoked (fst x))); rewrite Hf;
       cbn [classify fst snd]; eapply xnamed_ok; eauto.
  all: assert (Er : find revp (combine (xresults x) (x_chain x)) = None)
    by (destruct (find revp _) as [[r s]|] eqn:E; [exfalso|reflexivity];
        destruct (find_combine is_revoked _ _ _ _ E) as (k & H1 & _ & H3 & _);
        assert (existsb is_revoked (xresults x) = true)
          by (apply existsb_exists; exists r; split; [eapply nth_error_In; eauto | exact H3]);
        congruence).
  all: rewrite Er.
  all: assert (E3 : existsb (fun r => negb (is_ok r)) (xresults x) = true)
    by (clear -E1; induction (xresults x) as [|r rs IH]; [discriminate|]; cbn in *;
        destruct (is_ok r); cbn in *; [apply IH, E1 | reflexivity]).
  all: destruct (find_combine_some (fun r => negb (is_ok r)) _ _ Hl' E3) as ([r s] & Hf);
       destruct (find_combine (fun r => negb (is_ok r)) _ _ _ _ Hf) as (k & H1 & H2 & H3 & _);
       change (find nokp) with (find (fun x : rres * string => negb (is_ok (fst x)))); rewrite Hf.
  all: assert (Hnr : is_revoked r = false)
    by (destruct (is_revoked r) eqn:E4; [|reflexivity]; rewrite <- E2; symmetry;
        apply existsb_exists; exists r; split; [eapply nth_error_In; eauto | exact E4]).
  all: unfold classify; cbn [fst snd]; destruct r; cbn in H3, Hnr; try discriminate;
       (eapply xnamed_ok; [exact H1 | exact H2 | reflexivity]).
Qed.

(* ---------- [model] is the projection of [xmodel_native] ---------- *)
Definition call_of_x (k : xcall) : call :=
  mk_call (xk_which k) (xk_chain k) (match xk_time k with Some _ => true | None => false end).

Definition obs_of_x (o : xobs) : obs :=
  mk_obs (map call_of_x (xo_calls o)) (xo_result o) (xo_rejected o).

(* any decoration of an old input: annotations, a signing time [t], and, for a
   validator error, any accompanying results (the old input has no nil entries) *)
Definition vout_matches (v : vout) (err : bool) (rs : list (option certres)) : Prop :=
  match v with
  | VErr => err = true
  | VRes r => err = false /\ view rs = map Some r
  end.

Lemma view_some rs r : view rs = map Some r ->
  List.length rs = List.length r /\ forallb is_some rs = true /\
  flat_map (fun o => match o with Some c => [cr_result c] | None => [] end) rs = r.
Proof.
  revert r; induction rs as [|o rs IH]; intros [|r0 r]; cbn; try discriminate; [auto|].
  intros H. inversion H as [[H1 H2]]. destruct (IH _ H2) as (A & B & C).
  destruct o; cbn in *; try discriminate. inversion H1. subst. rewrite A, B. auto.
Qed.

Lemma xmodel_refines_model i t err rs :
  (i_val i <= 3)%N -> vout_matches (i_vout i) err rs ->
  let x := mk_xinput (i_action i) (i_sa i) (i_val i) (Some t) (i_chain i) err rs in
  obs_of_x (xmodel_native x) = model i.
Proof.
  intros Hv Hm x.
  assert (Hv4 : (i_val i =? 4)%N = false) by (apply N.eqb_neq; lia).
  unfold xmodel_native, model, x, xcalls, xtime, obs_of_x, xresults, complete.
  cbn [mk_xinput x_action x_val x_err x_results x_chain x_sa x_stime].
  rewrite Hv4.
  destruct (i_vout i) as [|r] eqn:Ev; cbn in Hm.
  - subst err. destruct (i_action i); cbn;
      destruct (i_val i) as [|[[]|[]|]]; cbn; destruct (i_sa i); reflexivity.
  - destruct Hm as [-> Hm]. destruct (view_some _ _ Hm) as (A & B & C). rewrite A, B, C, andb_true_r.
    destruct (Nat.eqb (List.length r) (List.length (i_chain i))); cbn [negb];
    destruct (i_action i); cbn;
      destruct (i_val i) as [|[[]|[]|]]; cbn; destruct (i_sa i); reflexivity.
Qed.

(* ---------- the code before fix d78db00 ---------- *)
Lemma xpass_only_if_v0_refuted :
  exists x, x_action x = Enforce /\ x_err x = false /\ x_val x = 1%N /\
            xo_result (xmodel_v0 x) = Some Pass /\ xo_rejected (xmodel_v0 x) = false /\ xo_panic (xmodel_v0 x) = false /\
            (exists k s, nth_error (x_chain x) k = Some s /\ nth_error (x_results x) k = None) /\
            (* the fixed code on the same input *)
            xo_result (xmodel_native x) = Some Inconclusive /\ xo_rejected (xmodel_native x) = true.
Proof.
  exists (mk_xinput Enforce false 1 (Some 1700000000%Z) ["leaf"; "root"] false []).
  repeat split. exists 0, "leaf". split; reflexivity.
Qed.

Lemma xv0_panic_iff x :
  xo_panic (xmodel_v0 x) = true <->
  x_action x <> Skip /\ x_val x <> 4%N /\ x_err x = false /\
  (List.length (x_chain x) < List.length (x_results x) \/ In None (x_results x)).
Proof.
  assert (G : Nat.ltb (List.length (x_chain x)) (List.length (x_results x)) || negb (forallb is_some (x_results x)) = true
              <-> List.length (x_chain x) < List.length (x_results x) \/ In None (x_results x)).
  { rewrite orb_true_iff, Nat.ltb_lt, negb_true_iff. split; (intros [H|H]; [now left | right]).
    - induction (x_results x) as [|[c|] l IH]; cbn in *; [discriminate | right; auto | now left].
    - destruct (forallb is_some (x_results x)) eqn:E; [|reflexivity].
      rewrite forallb_forall in E. specialize (E _ H). discriminate. }
  unfold xmodel_v0.
  destruct (x_action x) eqn:Ea; [| | cbn; split; [discriminate | intros [H _]; congruence]].
  all: destruct (N.eq_dec (x_val x) 4) as [Hv|Hv];
    [ rewrite Hv; cbn; split; [discriminate | intros (_ & H & _); congruence] | rewrite (proj2 (N.eqb_neq _ _) Hv) ].
  all: destruct (x_err x) eqn:He; [cbn; split; [discriminate | intros (_ & _ & H & _); discriminate]|].
  all: destruct (Nat.ltb _ _ || negb _) eqn:Eg; cbn.
  1,3: split; [intros _; repeat split; try discriminate; auto; apply G; reflexivity | reflexivity].
  all: split; [discriminate | intros (_ & _ & _ & H); apply G in H; discriminate].
Qed.

(* the fix changes nothing for a validator that keeps the contract *)
Lemma xfix_conservative x : xwf x = true -> xmodel_native x = xmodel_v0 x.
Proof.
  unfold xwf, xmodel_native, xmodel_v0. destruct (x_err x) eqn:He; cbn [orb].
  - intros _. reflexivity.
  - intros Hc. rewrite Hc. cbn [negb].
    assert (E : Nat.ltb (List.length (x_chain x)) (List.length (x_results x)) || negb (forallb is_some (x_results x)) = false).
    { unfold complete in Hc. apply andb_true_iff in Hc. destruct Hc as [H1 H2]. apply Nat.eqb_eq in H1.
      rewrite H2, orb_false_r. apply Nat.ltb_ge. lia. }
    now rewrite E.
Qed.

Lemma xincomplete_answer x : x_action x <> Skip -> x_err x = false ->
  (List.length (x_results x) <> List.length (x_chain x) \/ In None (x_results x)) ->
  xo_result (xmodel_native x) = Some Inconclusive /\ xo_panic (xmodel_native x) = false /\
  xo_rejected (xmodel_native x) = match x_action x with Enforce => true | _ => false end.
Proof. intros Ha He H. apply (xincomplete x Ha He). apply complete_false_iff. exact H. Qed.

Lemma complete_meaning x :
  (complete x = true <->
   List.length (x_results x) = List.length (x_chain x) /\ ~ In None (x_results x)) /\
  (complete x = true -> forall k,
     nth_error (xresults x) k =
     option_map cr_result (match nth_error (x_results x) k with Some o => o | None => None end)).
Proof.
  split; [|intros H k; apply xresults_nth, H].
  destruct (complete x) eqn:E.
  - split; [intros _|reflexivity]. split; [apply (complete_lengths _ E)|].
    intros Hin. assert (complete x = false) by (apply complete_false_iff; now right). congruence.
  - apply complete_false_iff in E. split; [discriminate|]. intros [H1 H2]. tauto.
Qed.

(* ---------- validator selection ---------- *)
Lemma constructor_installs_validator a b : consulted (set_revocation a b) <> None.
Proof. destruct a, b; cbn; discriminate. Qed.

Lemma selection_matches_xmodel a b x :
  x_action x <> Skip -> x_val x = val_of_options a b -> (a || b = true) ->
  map (fun k => Some (xk_which k)) (xo_calls (xmodel_native x)) = [consulted (set_revocation a b)].
Proof.
  intros Ha Hv Hab.
  assert (H : (x_val x = 1 \/ x_val x = 2 \/ x_val x = 3)%N) by (rewrite Hv; destruct a, b; cbn in *; auto; discriminate).
  rewrite (xarguments _ Ha H), Hv. destruct a, b; cbn in *; try reflexivity; discriminate.
Qed.

(* ====================================================================== *)
(* Who owns the revocation check ([owner], [xmodel] = routing of processSignature around
   [xmodel_native]). Everything above is about [xmodel_native], the step as notation performs it;
   [xmodel_notation] transfers it to [xmodel] whenever no plugin owns the check. *)

Lemma xmodel_notation x : owner x = OwnerNotation -> xmodel x = xmodel_native x.
Proof. intros H. unfold xmodel. rewrite H. reflexivity. Qed.

Lemma xspec_notation x o : owner x = OwnerNotation -> xspec_ok x o = xspec_ok_native x o.
Proof. intros H. unfold xspec_ok. rewrite H. reflexivity. Qed.

Lemma owner_mk_xinput a sa v st ch e rs : owner (mk_xinput a sa v st ch e rs) = OwnerNotation.
Proof. reflexivity. Qed.

Lemma existsb_In_pcap (f : pcap -> bool) l : existsb f l = true <-> exists c, In c l /\ f c = true.
Proof. apply existsb_exists. Qed.

(* what the three owners mean, in terms of the capability list *)
Lemma owner_meaning x :
  (owner x = OwnerNotation <->
     x_plugin x = None \/ exists p, x_plugin x = Some p /\ In PcapTI (xp_caps p) /\ ~ In PcapRev (xp_caps p)) /\
  (owner x = OwnerPlugin <-> exists p, x_plugin x = Some p /\ In PcapRev (xp_caps p)) /\
  (owner x = OwnerNobody <-> exists p, x_plugin x = Some p /\ forall c, In c (xp_caps p) -> c = PcapOther).
Proof.
  unfold owner. destruct (x_plugin x) as [p|].
  2:{ repeat split; try discriminate; auto; intros [p [H _]]; discriminate. }
  assert (V : existsb pcap_is_verifier (xp_caps p) = true <-> In PcapTI (xp_caps p) \/ In PcapRev (xp_caps p)).
  { rewrite existsb_exists. split.
    - intros [c [Hin Hc]]. destruct c; try discriminate; auto.
    - intros [H|H]; eexists; (split; [exact H|reflexivity]). }
  assert (R : existsb pcap_is_rev (xp_caps p) = true <-> In PcapRev (xp_caps p)).
  { rewrite existsb_exists. split.
    - intros [c [Hin Hc]]. destruct c; try discriminate; auto.
    - intros H; eexists; (split; [exact H|reflexivity]). }
  destruct (existsb pcap_is_verifier (xp_caps p)) eqn:Ev; cbn [negb].
  - destruct (existsb pcap_is_rev (xp_caps p)) eqn:Er.
    + pose proof (proj1 R eq_refl) as HR. repeat split; try discriminate.
      * intros [H|[q [E [_ N]]]]; [discriminate|inversion E; subst; contradiction].
      * intros _. eauto.
      * intros [q [E A]]. inversion E; subst q. specialize (A _ HR). discriminate.
    + assert (NR : ~ In PcapRev (xp_caps p)) by (intros H; apply R in H; discriminate).
      repeat split; try discriminate.
      * intros _. right. exists p. repeat split; auto. destruct (proj1 V eq_refl); [assumption|contradiction].
      * intros [q [E A]]. inversion E; subst q. contradiction.
      * intros [q [E A]]. inversion E; subst q. destruct (proj1 V eq_refl) as [H|H]; specialize (A _ H); discriminate.
  - assert (NV : ~ (In PcapTI (xp_caps p) \/ In PcapRev (xp_caps p))) by (intros H; apply V in H; discriminate).
    repeat split; try discriminate.
    + intros [H|[q [E [T _]]]]; [discriminate|inversion E; subst q; tauto].
    + intros [q [E T]]. inversion E; subst q. tauto.
    + intros _. exists p. split; [reflexivity|]. intros c Hc. destruct c; try reflexivity; exfalso; tauto.
Qed.

Lemma plugin_owns_owner x : plugin_owns_revocation x = true -> owner x = OwnerPlugin.
Proof.
  unfold plugin_owns_revocation, owner. destruct (x_plugin x) as [p|]; [|discriminate]. intros H.
  assert (V : existsb pcap_is_verifier (xp_caps p) = true).
  { apply existsb_exists in H. destruct H as [c [Hin Hc]]. apply existsb_exists. exists c. split; [exact Hin|].
    destruct c; try discriminate; reflexivity. }
  rewrite V, H. reflexivity.
Qed.

Lemma owner_plugin_owns x : owner x = OwnerPlugin <-> plugin_owns_revocation x = true.
Proof.
  split; [|apply plugin_owns_owner]. unfold plugin_owns_revocation, owner.
  destruct (x_plugin x) as [p|]; [|discriminate].
  destruct (existsb pcap_is_verifier (xp_caps p)); cbn [negb]; [|discriminate].
  destruct (existsb pcap_is_rev (xp_caps p)); [reflexivity|discriminate].
Qed.

(* a plugin that owns the check: the validator is not consulted, the plugin's verdict decides *)
Lemma xplugin_owns x : owner x = OwnerPlugin ->
  xo_calls (xmodel x) = [] /\ xo_panic (xmodel x) = false /\
  (x_action x = Skip -> xo_result (xmodel x) = None /\ xo_rejected (xmodel x) = false) /\
  (x_action x <> Skip ->
     xo_result (xmodel x) = Some (plugin_verdict x) /\
     (xo_result (xmodel x) = Some Pass <-> exists p, x_plugin x = Some p /\ xp_rev_ok p = true) /\
     (xo_rejected (xmodel x) = true <-> x_action x = Enforce /\ exists p, x_plugin x = Some p /\ xp_rev_ok p = false)).
Proof.
  intros Ho. unfold xmodel. rewrite Ho.
  assert (Hp : exists p, x_plugin x = Some p).
  { unfold owner in Ho. destruct (x_plugin x) as [p|]; [eauto|discriminate]. }
  destruct Hp as [p Ep]. unfold plugin_verdict. rewrite Ep.
  assert (Hex : forall b, (exists q, Some p = Some q /\ xp_rev_ok q = b) <-> xp_rev_ok p = b).
  { intros b. split; [intros [q [E Hq]]; inversion E; subst q; exact Hq|intros H; exists p; auto]. }
  destruct (x_action x) eqn:Ea; cbn [xo_calls xo_panic xo_result xo_rejected].
  3:{ split; [reflexivity|split; [reflexivity|split; [intros _; split; reflexivity|intros Hn; congruence]]]. }
  all: split; [reflexivity|split; [reflexivity|split; [intros H; discriminate|intros _]]].
  all: split; [reflexivity|]; rewrite !Hex; destruct (xp_rev_ok p); cbn; split; split; intros; try reflexivity; try discriminate;
       try tauto; try (split; [reflexivity|reflexivity]).
  all: try match goal with H : _ /\ _ |- _ => destruct H; discriminate end.
Qed.

(* a plugin without verification capability: the verification fails before any validation *)
Lemma xnobody x : owner x = OwnerNobody -> xmodel x = mk_xobs [] None true false.
Proof. intros Ho. unfold xmodel. rewrite Ho. reflexivity. Qed.

(* notation's own check is performed - the validator consulted - exactly when the level does not
   skip it and no plugin owns it (and the verification is not refused outright) *)
Lemma xperformed_iff x : (x_val x = 1 \/ x_val x = 2 \/ x_val x = 3)%N ->
  (xo_calls (xmodel x) <> [] <-> x_action x <> Skip /\ owner x = OwnerNotation).
Proof.
  intros Hv. destruct (owner x) eqn:Ho.
  - rewrite (xmodel_notation _ Ho). destruct (action_eq_dec (x_action x) Skip) as [Ea|Ha].
    + rewrite (xmodel_skip _ Ea). cbn. split; [congruence|intros [H _]; congruence].
    + rewrite (xarguments _ Ha Hv). split; [intros _; auto|discriminate].
  - destruct (xplugin_owns _ Ho) as [Hc _]. rewrite Hc. split; [congruence|intros [_ H]; discriminate].
  - rewrite (xnobody _ Ho). cbn. split; [congruence|intros [_ H]; discriminate].
Qed.

(* a plugin that does not own the check changes nothing about it *)
Lemma xplugin_irrelevant x : owner x = OwnerNotation ->
  xmodel x = xmodel (mk_xinput (x_action x) (x_sa x) (x_val x) (x_stime x) (x_chain x) (x_err x) (x_results x)).
Proof.
  intros Ho. rewrite (xmodel_notation _ Ho), (xmodel_notation _ (owner_mk_xinput _ _ _ _ _ _ _)).
  reflexivity.
Qed.

Lemma xnever_panics_all x : xo_panic (xmodel x) = false.
Proof.
  unfold xmodel. destruct (owner x); [apply xnever_panics| |reflexivity].
  destruct (x_action x); reflexivity.
Qed.

Lemma xaccept_iff_all x : x_action x = Enforce ->
  (xo_rejected (xmodel x) = false /\ xo_panic (xmodel x) = false <-> xo_result (xmodel x) = Some Pass).
Proof.
  intros Ea. destruct (owner x) eqn:Ho.
  - rewrite (xmodel_notation _ Ho). apply xaccept_iff, Ea.
  - unfold xmodel. rewrite Ho, Ea. cbn. destruct (plugin_verdict x); cbn; split; try tauto; try discriminate;
      intros [H _]; discriminate.
  - rewrite (xnobody _ Ho). cbn. split; [intros [H _]; discriminate|discriminate].
Qed.

Lemma rclass_eqb_refl c : rclass_eqb c c = true.
Proof. destruct c; cbn; try reflexivity; apply String.eqb_refl. Qed.

Lemma xmodel_spec_ok_all x : xspec_ok x (xmodel x) = true.
Proof.
  destruct (owner x) eqn:Ho.
  - rewrite (xspec_notation _ _ Ho), (xmodel_notation _ Ho). apply xmodel_spec_ok.
  - unfold xspec_ok, xmodel. rewrite Ho. destruct (x_action x); cbn; rewrite ?rclass_eqb_refl, ?eqb_reflx; reflexivity.
  - unfold xspec_ok. rewrite Ho, (xnobody _ Ho). reflexivity.
Qed.

Lemma xindependent_all x y :
  x_action x = x_action y -> x_sa x = x_sa y -> x_val x = x_val y -> x_stime x = x_stime y ->
  x_chain x = x_chain y -> x_err x = x_err y -> x_plugin x = x_plugin y ->
  view (x_results x) = view (x_results y) ->
  xmodel x = xmodel y.
Proof.
  intros H1 H2 H3 H4 H5 H6 Hp H7. unfold xmodel, owner, plugin_verdict. rewrite Hp, H1.
  rewrite (xindependent x y H1 H2 H3 H4 H5 H6 H7). reflexivity.
Qed.

Lemma xerror_ignores_results_all x rs' : x_err x = true ->
  xmodel x = xmodel (mk_xinput_p (x_action x) (x_sa x) (x_val x) (x_stime x) (x_chain x) true rs' (x_plugin x)).
Proof.
  intros He. unfold xmodel, owner, plugin_verdict. cbn [x_plugin x_action].
  destruct (match x_plugin x with None => OwnerNotation | Some p => _ end); try reflexivity.
  unfold xmodel_native, xcalls, xtime. cbn. rewrite He. reflexivity.
Qed.

Lemma xpass_only_if_v0_refuted_all :
  exists x, x_action x = Enforce /\ x_err x = false /\ x_val x = 1%N /\ x_plugin x = None /\
            xo_result (xmodel_v0 x) = Some Pass /\ xo_rejected (xmodel_v0 x) = false /\ xo_panic (xmodel_v0 x) = false /\
            (exists k s, nth_error (x_chain x) k = Some s /\ nth_error (x_results x) k = None) /\
            xo_result (xmodel x) = Some Inconclusive /\ xo_rejected (xmodel x) = true.
Proof.
  exists (mk_xinput Enforce false 1 (Some 1700000000%Z) ["leaf"; "root"] false []).
  repeat split. exists 0, "leaf". split; reflexivity.
Qed.
