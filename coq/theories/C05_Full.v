(* C05_Full.v — proofs about the FULL model [xmodel] of C05_Model.v: every answer a
   validator can give (error with or without results, short and overlong result
   vectors, annotations), the value of the signing time, the verifier without a
   validator; and the refinement [model] = projection of [xmodel]. *)
From NV Require Import Base C05_Model C05_Proofs.

Definition nokp (x : rres * string) := negb (is_ok (fst x)).

(* what the loop of revocationFinalResult computes, said without a loop: the
   leaf-most revoked certificate if there is one, otherwise the leaf-most
   certificate whose result is not OK / non-revokable, otherwise OK *)
Definition verdict (l : list (rres * string)) : rres * string :=
  match find revp l with
  | Some (_, s) => (RRevoked, s)
  | None => match find nokp l with
            | Some (r, s) => (r, s)
            | None => (ROK, "")
            end
  end.

Lemma fr_find_rev l r s : find revp l = Some (r, s) -> a_revFound (fr l) = true /\ a_revSubj (fr l) = s.
Proof.
  induction l as [|[r0 s0] l IH]; [discriminate|].
  rewrite fr_cons. unfold step. cbn [find]. change (revp (r0, s0)) with (is_revoked r0).
  destruct (is_ok r0) eqn:E.
  - rewrite (ok_not_rev _ E). cbn [a_revFound a_revSubj]. exact IH.
  - destruct (is_revoked r0) eqn:E2; cbn [a_revFound a_revSubj].
    + intros H; inversion H; subst; auto.
    + exact IH.
Qed.

Lemma fr_find_rev_none l : find revp l = None -> a_revFound (fr l) = false.
Proof.
  intros H. rewrite fr_revFound. destruct (existsb revp l) eqn:E; [|reflexivity].
  apply existsb_exists in E. destruct E as (x & Hin & Hx).
  exfalso. eapply find_none in H; eauto. congruence.
Qed.

Lemma fr_find_nok l r s : find nokp l = Some (r, s) -> a_final (fr l) = r /\ a_prob (fr l) = s.
Proof.
  induction l as [|[r0 s0] l IH]; [discriminate|].
  rewrite fr_cons. unfold step. cbn [find]. unfold nokp at 1. cbn [fst].
  destruct (is_ok r0) eqn:E; cbn [negb a_final a_prob].
  - exact IH.
  - intros H; inversion H; subst. destruct (is_revoked r); cbn [a_final a_prob]; auto.
Qed.

Lemma fr_find_nok_none l : find nokp l = None ->
  forallb okp l = true /\ a_final (fr l) = RUnknown /\ a_prob (fr l) = "".
Proof.
  induction l as [|[r0 s0] l IH]; [cbn; auto|].
  rewrite fr_cons. unfold step. cbn [find forallb]. unfold nokp at 1, okp at 1. cbn [fst].
  destruct (is_ok r0) eqn:E; cbn [negb andb a_final a_prob]; [exact IH | discriminate].
Qed.

Lemma find_nokp_some l x : find nokp l = Some x -> forallb okp l = false.
Proof.
  intros H. destruct (forallb okp l) eqn:E; [|reflexivity].
  apply find_some in H. destruct H as [Hin Hn]. rewrite forallb_forall in E.
  specialize (E _ Hin). unfold nokp, okp in *. rewrite E in Hn. discriminate.
Qed.

Lemma find_revp_nokp l r s : find revp l = Some (r, s) -> forallb okp l = false.
Proof.
  intros H. destruct (forallb okp l) eqn:E; [|reflexivity].
  apply find_some in H. destruct H as [Hin Hn]. rewrite forallb_forall in E.
  specialize (E _ Hin). unfold revp, okp in *. cbn [fst] in *. rewrite (ok_not_rev _ E) in Hn. discriminate.
Qed.

(* the aggregator is [verdict] whenever there are not more results than certificates *)
Lemma final_is_verdict rs chain : List.length rs <= List.length chain ->
  final_result rs chain = verdict (combine rs chain).
Proof.
  intros Hl. unfold final_result, verdict. rewrite loop_is_fr, fr_numOK.
  set (l := combine rs chain).
  assert (El : List.length rs = List.length l) by (unfold l; rewrite combine_length; lia).
  rewrite El, filter_len_all.
  destruct (find revp l) as [[r s]|] eqn:Er.
  - destruct (fr_find_rev _ _ _ Er) as [-> ->]. now rewrite (find_revp_nokp _ _ _ Er).
  - rewrite (fr_find_rev_none _ Er).
    destruct (find nokp l) as [[r s]|] eqn:En.
    + destruct (fr_find_nok _ _ _ En) as [-> ->]. now rewrite (find_nokp_some _ _ En).
    + destruct (fr_find_nok_none _ En) as (H1 & _ & H3). now rewrite H1, H3.
Qed.

(* position of the first element of [combine rs chain] that satisfies a predicate on the result *)
Lemma find_combine (p : rres -> bool) (rs : list rres) (chain : list string) r s :
  find (fun x => p (fst x)) (combine rs chain) = Some (r, s) ->
  exists k, nth_error rs k = Some r /\ nth_error chain k = Some s /\ p r = true /\
            forall j r', j < k -> nth_error rs j = Some r' -> p r' = false.
Proof.
  revert chain; induction rs as [|r0 rs IH]; intros [|c chain]; cbn [combine find]; try discriminate.
  cbn [fst]. destruct (p r0) eqn:E.
  - intros H; inversion H; subst. exists 0. cbn. repeat split; auto. intros j r' Hj; lia.
  - intros H. destruct (IH _ H) as (k & H1 & H2 & H3 & H4). exists (S k). cbn. repeat split; auto.
    intros [|j] r' Hj; cbn; [intros Hr; inversion Hr; subst; exact E | intros Hr; apply (H4 j); [lia | exact Hr]].
Qed.

Lemma find_combine_none (p : rres -> bool) (rs : list rres) (chain : list string) : List.length rs <= List.length chain ->
  find (fun x => p (fst x)) (combine rs chain) = None -> existsb p rs = false.
Proof.
  revert chain; induction rs as [|r0 rs IH]; intros [|c chain] Hl; cbn in *; try lia; try (intros; reflexivity).
  destruct (p r0); [discriminate|]. intros H. cbn. apply (IH chain); [lia | exact H].
Qed.

Lemma find_combine_some (p : rres -> bool) (rs : list rres) (chain : list string) : List.length rs <= List.length chain ->
  existsb p rs = true -> exists x, find (fun x => p (fst x)) (combine rs chain) = Some x.
Proof.
  intros Hl He. destruct (find _ (combine rs chain)) eqn:E; [eauto|].
  rewrite (find_combine_none p rs chain Hl E) in He. discriminate.
Qed.

(* ---------- xmodel, by cases ---------- *)
Lemma action_eq_dec (a b : action) : {a = b} + {a <> b}.
Proof. decide equality. Qed.

Definition xconsulted (x : xinput) : Prop :=
  x_action x <> Skip /\ x_val x <> 4%N.

Lemma xmodel_skip x : x_action x = Skip -> xmodel x = mk_xobs [] None false false.
Proof. intros H. unfold xmodel. now rewrite H. Qed.

Definition xcalls (x : xinput) : list xcall :=
  match x_val x with
  | 0%N => []
  | 2%N => [mk_xcall 2 (x_chain x) (xtime x)]
  | _ => [mk_xcall 1 (x_chain x) (xtime x)]
  end.

Lemma xmodel_novalidator x : x_action x <> Skip -> x_val x = 4%N ->
  xmodel x = mk_xobs [] (Some Inconclusive) (enforce_fails (x_action x) Inconclusive) false.
Proof. intros Ha Hv. unfold xmodel. rewrite Hv. destruct (x_action x); try congruence; reflexivity. Qed.

Lemma xmodel_err x : x_action x <> Skip -> x_val x <> 4%N -> x_err x = true ->
  xmodel x = mk_xobs (xcalls x) (Some Inconclusive) (enforce_fails (x_action x) Inconclusive) false.
Proof.
  intros Ha Hv He. unfold xmodel, xcalls. apply N.eqb_neq in Hv. rewrite Hv, He.
  destruct (x_action x); try congruence; reflexivity.
Qed.

Lemma xmodel_overlong x : x_action x <> Skip -> x_val x <> 4%N -> x_err x = false ->
  List.length (x_chain x) < List.length (x_results x) ->
  xmodel x = mk_xobs (xcalls x) None false true.
Proof.
  intros Ha Hv He Hl. unfold xmodel, xcalls. apply N.eqb_neq in Hv. rewrite Hv, He.
  apply Nat.ltb_lt in Hl. rewrite Hl. destruct (x_action x); try congruence; reflexivity.
Qed.

Lemma xmodel_answer x : x_action x <> Skip -> x_val x <> 4%N -> x_err x = false ->
  List.length (x_results x) <= List.length (x_chain x) ->
  xmodel x =
    let res := classify (verdict (combine (xresults x) (x_chain x))) in
    mk_xobs (xcalls x) (Some res) (enforce_fails (x_action x) res) false.
Proof.
  intros Ha Hv He Hl. unfold xmodel, xcalls. apply N.eqb_neq in Hv. rewrite Hv, He.
  assert (Hn : Nat.ltb (List.length (x_chain x)) (List.length (x_results x)) = false) by (apply Nat.ltb_ge; exact Hl).
  rewrite Hn, final_is_verdict by (unfold xresults; rewrite map_length; exact Hl).
  destruct (x_action x); try congruence; reflexivity.
Qed.

Lemma xresults_length x : List.length (xresults x) = List.length (x_results x).
Proof. unfold xresults. apply map_length. Qed.

Definition cr_ok (c : certres) : Prop := cr_result c = ROK \/ cr_result c = RNonRevokable.

Lemma cr_ok_forallb x : Forall cr_ok (x_results x) <-> forallb is_ok (xresults x) = true.
Proof.
  unfold xresults. rewrite <- all_ok_forallb. unfold all_ok. rewrite Forall_map. reflexivity.
Qed.

Lemma verdict_pass_iff rs chain : List.length rs <= List.length chain ->
  (classify (verdict (combine rs chain)) = Pass <-> forallb is_ok rs = true).
Proof.
  intros Hl. unfold verdict.
  destruct (find revp (combine rs chain)) as [[r s]|] eqn:Er.
  - cbn. split; [discriminate|]. intros H. exfalso.
    destruct (find_combine is_revoked _ _ _ _ Er) as (k & H1 & _ & H3 & _).
    rewrite forallb_forall in H. specialize (H r (nth_error_In _ _ H1)).
    rewrite (ok_not_rev _ H) in H3. discriminate.
  - destruct (find nokp (combine rs chain)) as [[r s]|] eqn:En.
    + destruct (find_combine (fun r => negb (is_ok r)) _ _ _ _ En) as (k & H1 & _ & H3 & _).
      split.
      * unfold classify; cbn [fst]. destruct r; cbn in H3; try discriminate; intros H; discriminate.
      * intros H. exfalso. rewrite forallb_forall in H. specialize (H r (nth_error_In _ _ H1)).
        rewrite H in H3. discriminate.
    + split; [intros _ | reflexivity].
      pose proof (find_combine_none (fun r => negb (is_ok r)) rs chain Hl En) as H.
      destruct (forallb is_ok rs) eqn:E; [reflexivity|exfalso].
      assert (exists r, In r rs /\ is_ok r = false) as (r & Hin & Hr).
      { clear -E. induction rs as [|r rs IH]; [discriminate|]. cbn in E. destruct (is_ok r) eqn:E1.
        - destruct (IH E) as (r' & Hin & Hr). exists r'. split; [now right | exact Hr].
        - exists r. split; [now left | exact E1]. }
      assert (existsb (fun r => negb (is_ok r)) rs = true) by (apply existsb_exists; exists r; rewrite Hr; auto).
      congruence.
Qed.

(* ---------- the statements used by props/C05_Property.v ---------- *)

Lemma xpass_iff x : x_action x <> Skip ->
  (xo_result (xmodel x) = Some Pass <->
   x_val x <> 4%N /\ x_err x = false /\
   List.length (x_results x) <= List.length (x_chain x) /\ Forall cr_ok (x_results x)).
Proof.
  intros Ha. destruct (N.eq_dec (x_val x) 4) as [Hv|Hv].
  { rewrite (xmodel_novalidator _ Ha Hv). cbn. split; [discriminate | intros [H _]; congruence]. }
  destruct (x_err x) eqn:He.
  { rewrite (xmodel_err _ Ha Hv He). cbn. split; [discriminate | intros (_ & H & _); discriminate]. }
  destruct (Nat.lt_ge_cases (List.length (x_chain x)) (List.length (x_results x))) as [Hl|Hl].
  { rewrite (xmodel_overlong _ Ha Hv He Hl). cbn. split; [discriminate | intros (_ & _ & H & _); lia]. }
  rewrite (xmodel_answer _ Ha Hv He Hl). cbv zeta. cbn [xo_result].
  rewrite cr_ok_forallb, <- (verdict_pass_iff (xresults x) (x_chain x)) by (rewrite xresults_length; exact Hl).
  split.
  - intros H. inversion H as [H1]. rewrite H1. auto.
  - intros (_ & _ & _ & H). now rewrite H.
Qed.

(* under the contract: every certificate of the chain has a result, and it is OK / non-revokable *)
Lemma xpass_only_if x : x_action x <> Skip ->
  (x_err x = false -> List.length (x_results x) = List.length (x_chain x)) ->
  xo_result (xmodel x) = Some Pass ->
  forall k s, nth_error (x_chain x) k = Some s ->
    exists c, nth_error (x_results x) k = Some c /\ cr_ok c.
Proof.
  intros Ha Hc Hp k s Hk. apply (xpass_iff _ Ha) in Hp. destruct Hp as (_ & He & _ & Hf).
  specialize (Hc He).
  assert (Hlt : k < List.length (x_results x)).
  { rewrite Hc. apply nth_error_Some. congruence. }
  destruct (nth_error (x_results x) k) as [c|] eqn:E.
  - exists c. split; [reflexivity|]. rewrite Forall_forall in Hf. apply Hf. eapply nth_error_In; eauto.
  - apply nth_error_None in E. lia.
Qed.

Lemma xpass_if x : x_action x <> Skip -> x_val x <> 4%N -> x_err x = false ->
  List.length (x_results x) = List.length (x_chain x) -> Forall cr_ok (x_results x) ->
  xo_result (xmodel x) = Some Pass /\ xo_rejected (xmodel x) = false /\ xo_panic (xmodel x) = false.
Proof.
  intros Ha Hv He Hl Hf.
  assert (Hp : xo_result (xmodel x) = Some Pass) by (apply (xpass_iff _ Ha); repeat split; auto; lia).
  split; [exact Hp|]. revert Hp. rewrite (xmodel_answer _ Ha Hv He) by lia. cbv zeta. cbn.
  intros H; inversion H as [H1]. rewrite H1. destruct (x_action x); auto.
Qed.

(* without the contract the "only if" is false: a validator that answers with fewer
   results than certificates (here: none at all, no error) makes the validation pass *)
Lemma xpass_only_if_refuted :
  exists x, x_action x = Enforce /\ x_err x = false /\ x_val x = 1%N /\
            xo_result (xmodel x) = Some Pass /\ xo_rejected (xmodel x) = false /\ xo_panic (xmodel x) = false /\
            exists k s, nth_error (x_chain x) k = Some s /\ nth_error (x_results x) k = None.
Proof.
  exists (mk_xinput Enforce false 1 (Some 1700000000%Z) ["leaf"; "root"] false []).
  repeat split. exists 0, "leaf". split; reflexivity.
Qed.

Lemma xrevoked x : x_action x <> Skip -> x_val x <> 4%N -> x_err x = false ->
  List.length (x_results x) <= List.length (x_chain x) ->
  In RRevoked (xresults x) ->
  exists k s, nth_error (xresults x) k = Some RRevoked /\
              (forall j, j < k -> nth_error (xresults x) j <> Some RRevoked) /\
              nth_error (x_chain x) k = Some s /\
              xo_result (xmodel x) = Some (Revoked s).
Proof.
  intros Ha Hv He Hl Hin. rewrite (xmodel_answer _ Ha Hv He Hl). cbv zeta. cbn [xo_result].
  assert (Hl' : List.length (xresults x) <= List.length (x_chain x)) by (rewrite xresults_length; exact Hl).
  assert (E : existsb is_revoked (xresults x) = true) by (apply existsb_exists; exists RRevoked; auto).
  destruct (find_combine_some is_revoked _ _ Hl' E) as ([r s] & Hf).
  destruct (find_combine is_revoked _ _ _ _ Hf) as (k & H1 & H2 & H3 & H4).
  assert (r = RRevoked) by (destruct r; cbn in H3; congruence). subst r.
  exists k, s. repeat split; auto.
  - intros j Hj Hn. specialize (H4 j RRevoked Hj Hn). discriminate.
  - unfold verdict. change (find revp) with (find (fun x : rres * string => is_revoked (fst x))). now rewrite Hf.
Qed.

Lemma xunknown x : x_action x <> Skip -> x_val x <> 4%N -> x_err x = false ->
  List.length (x_results x) <= List.length (x_chain x) ->
  ~ Forall cr_ok (x_results x) -> ~ In RRevoked (xresults x) ->
  exists k r s, nth_error (xresults x) k = Some r /\ is_ok r = false /\ r <> RRevoked /\
                (forall j r', j < k -> nth_error (xresults x) j = Some r' -> is_ok r' = true) /\
                nth_error (x_chain x) k = Some s /\
                xo_result (xmodel x) = Some (Unknown s).
Proof.
  intros Ha Hv He Hl Hn Hr. rewrite (xmodel_answer _ Ha Hv He Hl). cbv zeta. cbn [xo_result].
  assert (Hl' : List.length (xresults x) <= List.length (x_chain x)) by (rewrite xresults_length; exact Hl).
  assert (Er : find revp (combine (xresults x) (x_chain x)) = None).
  { destruct (find revp _) as [[r s]|] eqn:E; [exfalso|reflexivity].
    destruct (find_combine is_revoked _ _ _ _ E) as (k & H1 & _ & H3 & _).
    apply Hr. destruct r; cbn in H3; try discriminate. eapply nth_error_In; eauto. }
  assert (E : existsb (fun r => negb (is_ok r)) (xresults x) = true).
  { destruct (existsb _ (xresults x)) eqn:E; [reflexivity|exfalso]. apply Hn, cr_ok_forallb.
    apply forallb_forall. intros r Hin. destruct (is_ok r) eqn:Eo; [reflexivity|].
    rewrite <- E. apply existsb_exists. exists r. rewrite Eo. auto. }
  destruct (find_combine_some (fun r => negb (is_ok r)) _ _ Hl' E) as ([r s] & Hf).
  destruct (find_combine (fun r => negb (is_ok r)) _ _ _ _ Hf) as (k & H1 & H2 & H3 & H4).
  assert (Hnr : r <> RRevoked) by (intros ->; apply Hr; eapply nth_error_In; eauto).
  exists k, r, s. repeat split; auto.
  - now apply negb_true_iff in H3.
  - intros j r' Hj Hj'. specialize (H4 j r' Hj Hj'). now apply negb_false_iff in H4.
  - unfold verdict. rewrite Er. change (find nokp) with (find (fun x : rres * string => negb (is_ok (fst x)))).
    rewrite Hf. unfold classify. cbn [fst snd]. destruct r; cbn in H3; try discriminate; try reflexivity. congruence.
Qed.

Lemma xvalidator_error x : x_action x <> Skip -> x_err x = true ->
  xo_result (xmodel x) = Some Inconclusive /\ xo_panic (xmodel x) = false /\
  xo_rejected (xmodel x) = match x_action x with Enforce => true | _ => false end.
Proof.
  intros Ha He. destruct (N.eq_dec (x_val x) 4) as [Hv|Hv].
  - rewrite (xmodel_novalidator _ Ha Hv). cbn. destruct (x_action x); auto.
  - rewrite (xmodel_err _ Ha Hv He). cbn. destruct (x_action x); auto.
Qed.

Lemma xno_validator x : x_action x <> Skip -> x_val x = 4%N ->
  xo_calls (xmodel x) = [] /\ xo_result (xmodel x) = Some Inconclusive /\
  xo_rejected (xmodel x) = match x_action x with Enforce => true | _ => false end.
Proof. intros Ha Hv. rewrite (xmodel_novalidator _ Ha Hv). cbn. destruct (x_action x); auto. Qed.

(* the consultation does not depend on the answer *)
Lemma xarguments x : x_action x <> Skip -> (x_val x = 1 \/ x_val x = 2 \/ x_val x = 3)%N ->
  xo_calls (xmodel x) =
    [mk_xcall (if (x_val x =? 2)%N then 2 else 1) (x_chain x) (if x_sa x then x_stime x else None)].
Proof.
  intros Ha Hv. unfold xmodel, xtime.
  destruct (x_action x); try congruence;
    destruct Hv as [-> | [-> | ->]]; cbn -[Nat.ltb];
    destruct (x_err x); try reflexivity;
    destruct (Nat.ltb _ _); reflexivity.
Qed.

Lemma xpanic_iff x :
  xo_panic (xmodel x) = true <->
  x_action x <> Skip /\ x_val x <> 4%N /\ x_err x = false /\
  List.length (x_chain x) < List.length (x_results x).
Proof.
  destruct (x_action x) eqn:Ea.
  3: { rewrite (xmodel_skip _ Ea). cbn. split; [discriminate | intros [H _]; congruence]. }
  all: assert (Ha : x_action x <> Skip) by congruence.
  all: destruct (N.eq_dec (x_val x) 4) as [Hv|Hv];
    [ rewrite (xmodel_novalidator _ Ha Hv); cbn; split; [discriminate | intros (_ & H & _); congruence] |].
  all: destruct (x_err x) eqn:He;
    [ rewrite (xmodel_err _ Ha Hv He); cbn; split; [discriminate | intros (_ & _ & H & _); discriminate] |].
  all: destruct (Nat.lt_ge_cases (List.length (x_chain x)) (List.length (x_results x))) as [Hl|Hl];
    [ rewrite (xmodel_overlong _ Ha Hv He Hl); cbn; split; [intros _; repeat split; auto; discriminate | reflexivity]
    | rewrite (xmodel_answer _ Ha Hv He Hl); cbn; split; [discriminate | intros (_ & _ & _ & H); lia] ].
Qed.

Lemma xoverlong_never_passes x : x_action x <> Skip -> x_val x <> 4%N -> x_err x = false ->
  List.length (x_chain x) < List.length (x_results x) ->
  xo_panic (xmodel x) = true /\ xo_result (xmodel x) = None.
Proof. intros Ha Hv He Hl. rewrite (xmodel_overlong _ Ha Hv He Hl). auto. Qed.

(* the shape of every observation of a step that is entered *)
Lemma xmodel_cases x : x_action x <> Skip ->
  (xmodel x = mk_xobs (xcalls x) None false true) \/
  (exists calls c, xmodel x = mk_xobs calls (Some c) (enforce_fails (x_action x) c) false).
Proof.
  intros Ha.
  destruct (N.eq_dec (x_val x) 4) as [Hv|Hv]; [right; rewrite (xmodel_novalidator _ Ha Hv); eauto|].
  destruct (x_err x) eqn:He; [right; rewrite (xmodel_err _ Ha Hv He); eauto|].
  destruct (Nat.lt_ge_cases (List.length (x_chain x)) (List.length (x_results x))) as [Hl|Hl].
  - left. apply (xmodel_overlong _ Ha Hv He Hl).
  - right. rewrite (xmodel_answer _ Ha Hv He Hl). cbv zeta. eauto.
Qed.

Lemma enforce_fails_iff a c : enforce_fails a c = true <-> a = Enforce /\ c <> Pass.
Proof. destruct a, c; cbn; split; try discriminate; try tauto; try (intros [H1 H2]; congruence); intros _; split; congruence. Qed.

(* a result entry exists exactly when the step is entered and does not panic *)
Lemma xresult_some_iff x :
  (exists c, xo_result (xmodel x) = Some c) <-> x_action x <> Skip /\ xo_panic (xmodel x) = false.
Proof.
  destruct (action_eq_dec (x_action x) Skip) as [Ea|Ha].
  { rewrite (xmodel_skip _ Ea). cbn. split; [intros [c H]; discriminate | intros [H _]; congruence]. }
  destruct (xmodel_cases _ Ha) as [E | (calls & c & E)]; rewrite E; cbn.
  - split; [intros [c H]; discriminate | intros [_ H]; discriminate].
  - split; [intros _; split; [exact Ha | reflexivity] | intros _; eauto].
Qed.

Lemma xrejected_iff x :
  xo_rejected (xmodel x) = true <->
  x_action x = Enforce /\ exists c, xo_result (xmodel x) = Some c /\ c <> Pass.
Proof.
  destruct (action_eq_dec (x_action x) Skip) as [Ea|Ha].
  { rewrite (xmodel_skip _ Ea). cbn. split; [discriminate | intros [H _]; congruence]. }
  destruct (xmodel_cases _ Ha) as [E | (calls & c & E)]; rewrite E; cbn.
  - split; [discriminate | intros [_ (c & H & _)]; discriminate].
  - rewrite enforce_fails_iff. split.
    + intros [H1 H2]. split; [exact H1|]. exists c. split; [reflexivity | exact H2].
    + intros [H1 (c' & Hc & Hn)]. inversion Hc; subst c'. auto.
Qed.

(* fail closed at the level of Verify: under enforce the signature gets through the
   revocation step exactly when the revocation validation passes *)
Lemma xaccept_iff x : x_action x = Enforce ->
  (xo_rejected (xmodel x) = false /\ xo_panic (xmodel x) = false <-> xo_result (xmodel x) = Some Pass).
Proof.
  intros Ea. assert (Ha : x_action x <> Skip) by congruence. split.
  - intros [Hr Hp].
    assert (Hs : exists c, xo_result (xmodel x) = Some c) by (apply xresult_some_iff; auto).
    destruct Hs as [c Hc]. destruct c; try exact Hc; exfalso.
    all: assert (Ht : xo_rejected (xmodel x) = true)
      by (apply xrejected_iff; split; [exact Ea|]; eexists; split; [exact Hc | discriminate]).
    all: congruence.
  - intros Hp. split.
    + destruct (xo_rejected (xmodel x)) eqn:E; [exfalso|reflexivity].
      apply xrejected_iff in E. destruct E as [_ (c & Hc & Hn)]. congruence.
    + assert (Hs : exists c, xo_result (xmodel x) = Some c) by eauto.
      apply xresult_some_iff in Hs. tauto.
Qed.

Lemma xlog_reports x : x_action x = Log ->
  xo_rejected (xmodel x) = false /\
  (xo_panic (xmodel x) = false -> exists c, xo_result (xmodel x) = Some c).
Proof.
  intros Ea. split.
  - destruct (xo_rejected (xmodel x)) eqn:E; [exfalso|reflexivity].
    apply xrejected_iff in E. destruct E as [H _]. congruence.
  - intros Hp. apply xresult_some_iff. split; [congruence | exact Hp].
Qed.

(* method annotations and per-server results never matter *)
Lemma xindependent x y :
  x_action x = x_action y -> x_sa x = x_sa y -> x_val x = x_val y -> x_stime x = x_stime y ->
  x_chain x = x_chain y -> x_err x = x_err y ->
  map cr_result (x_results x) = map cr_result (x_results y) ->
  xmodel x = xmodel y.
Proof.
  intros H1 H2 H3 H4 H5 H6 H7. unfold xmodel, xtime, xresults.
  assert (Hlen : List.length (x_results x) = List.length (x_results y))
    by (rewrite <- (map_length cr_result (x_results x)), H7; apply map_length).
  now rewrite H1, H2, H3, H4, H5, H6, H7, Hlen.
Qed.

(* an error makes the accompanying results irrelevant *)
Lemma xerror_ignores_results x rs' : x_err x = true ->
  xmodel x = xmodel (mk_xinput (x_action x) (x_sa x) (x_val x) (x_stime x) (x_chain x) true rs').
Proof.
  intros He. unfold xmodel, xtime. cbn. rewrite He. reflexivity.
Qed.

(* ---------- the model meets the oracle under the contract ---------- *)
Lemma xnamed_ok p rs chain k r s :
  nth_error rs k = Some r -> nth_error chain k = Some s -> p r = true -> named_ok p rs chain s = true.
Proof.
  intros H1 H2 H3. unfold named_ok. apply existsb_exists. exists (r, s). split.
  - revert chain k H1 H2. induction rs as [|r0 rs IH]; intros [|c chain] [|k]; cbn; try discriminate.
    + intros A B; inversion A; inversion B; subst; now left.
    + intros A B. right. eapply IH; eauto.
  - cbn. now rewrite H3, String.eqb_refl.
Qed.

Lemma optz_eqb_refl o : optz_eqb o o = true.
Proof. destruct o; cbn; [apply Z.eqb_refl | reflexivity]. Qed.

Lemma xo_calls_model x : x_action x <> Skip ->
  xo_calls (xmodel x) = if (x_val x =? 4)%N then [] else xcalls x.
Proof.
  intros Ha.
  destruct (N.eq_dec (x_val x) 4) as [Hv|Hv]; [rewrite (xmodel_novalidator _ Ha Hv), Hv; reflexivity|].
  rewrite (proj2 (N.eqb_neq _ _) Hv).
  destruct (x_err x) eqn:He; [rewrite (xmodel_err _ Ha Hv He); reflexivity|].
  destruct (Nat.lt_ge_cases (List.length (x_chain x)) (List.length (x_results x))) as [Hl|Hl].
  - now rewrite (xmodel_overlong _ Ha Hv He Hl).
  - now rewrite (xmodel_answer _ Ha Hv He Hl).
Qed.

Lemma xcalls_ok_model x : x_action x <> Skip -> xcalls_ok x (xo_calls (xmodel x)) = true.
Proof.
  intros Ha. rewrite (xo_calls_model _ Ha).
  assert (Hs : list_eqb String.eqb (x_chain x) (x_chain x) = true)
    by (apply (list_eqb_spec String.eqb String.eqb_eq); reflexivity).
  unfold xcalls_ok, xcalls, xtime.
  destruct (x_val x) as [|[[[|[]|]|[]|]|[[]|[]|]|]] eqn:Ev; cbn;
    rewrite ?Hs, ?optz_eqb_refl; reflexivity.
Qed.

Lemma xmodel_spec_ok x : xwf x = true -> xspec_ok x (xmodel x) = true.
Proof.
  intros Hwf. unfold xspec_ok.
  destruct (x_action x) eqn:Ea; [| | rewrite (xmodel_skip _ Ea); reflexivity].
  all: assert (Ha : x_action x <> Skip) by congruence.
  all: rewrite (xcalls_ok_model _ Ha); cbn [andb].
  all: unfold xwf in Hwf.
  all: destruct (N.eq_dec (x_val x) 4) as [Hv|Hv];
    [ rewrite (xmodel_novalidator _ Ha Hv); unfold xresult_ok; rewrite Hv, Ea; reflexivity |].
  all: destruct (x_err x) eqn:He;
    [ rewrite (xmodel_err _ Ha Hv He); unfold xresult_ok; rewrite He, Ea, orb_true_r; reflexivity |].
  all: cbn [orb] in Hwf; apply Nat.eqb_eq in Hwf.
  all: assert (Hl : List.length (x_results x) <= List.length (x_chain x)) by lia.
  all: assert (Hl' : List.length (xresults x) <= List.length (x_chain x)) by (rewrite xresults_length; exact Hl).
  all: rewrite (xmodel_answer _ Ha Hv He Hl), Ea; cbv zeta; cbn [xo_panic xo_result xo_rejected negb andb];
       rewrite eqb_reflx, andb_true_r.
  all: unfold xresult_ok; apply N.eqb_neq in Hv; rewrite Hv, He; cbn [orb].
  all: destruct (forallb is_ok (xresults x)) eqn:E1;
    [ apply (verdict_pass_iff _ _ Hl') in E1; now rewrite E1 |].
  all: destruct (existsb is_revoked (xresults x)) eqn:E2.
  all: unfold verdict.
  1,3: destruct (find_combine_some is_revoked _ _ Hl' E2) as ([r s] & Hf);
       destruct (find_combine is_revoked _ _ _ _ Hf) as (k & H1 & H2 & H3 & _);
       change (find revp) with (find (fun x : rres * string => is_revoked (fst x))); rewrite Hf;
       cbn [classify fst snd]; eapply xnamed_ok; eauto.
  all: assert (Er : find revp (combine (xresults x) (x_chain x)) = None)
    by (destruct (find revp _) as [[r s]|] eqn:E; [exfalso|reflexivity];
        destruct (find_combine is_revoked _ _ _ _ E) as (k & H1 & _ & H3 & _);
        assert (existsb is_revoked (xresults x) = true)
          by (apply existsb_exists; exists r; split; [eapply nth_error_In; eauto | exact H3]);
        congruence).
  all: rewrite Er.
  all: assert (E3 : existsb (fun r => negb (is_ok r)) (xresults x) = true)
    by (clear -E1; induction (xresults x) as [|r rs IH]; [discriminate|]; cbn in *;
        destruct (is_ok r); cbn in *; [apply IH, E1 | reflexivity]).
  all: destruct (find_combine_some (fun r => negb (is_ok r)) _ _ Hl' E3) as ([r s] & Hf);
       destruct (find_combine (fun r => negb (is_ok r)) _ _ _ _ Hf) as (k & H1 & H2 & H3 & _);
       change (find nokp) with (find (fun x : rres * string => negb (is_ok (fst x)))); rewrite Hf.
  all: assert (Hnr : is_revoked r = false)
    by (destruct (is_revoked r) eqn:E4; [|reflexivity]; rewrite <- E2; symmetry;
        apply existsb_exists; exists r; split; [eapply nth_error_In; eauto | exact E4]).
  all: unfold classify; cbn [fst snd]; destruct r; cbn in H3, Hnr; try discriminate;
       (eapply xnamed_ok; [exact H1 | exact H2 | reflexivity]).
Qed.

(* ---------- [model] is the projection of [xmodel] ---------- *)
Definition call_of_x (k : xcall) : call :=
  mk_call (xk_which k) (xk_chain k) (match xk_time k with Some _ => true | None => false end).

Definition obs_of_x (o : xobs) : obs :=
  mk_obs (map call_of_x (xo_calls o)) (xo_result o) (xo_rejected o).

(* any decoration of an old input: annotations [ann], a signing time [t], and, for a
   validator error, any accompanying results *)
Definition vout_matches (v : vout) (err : bool) (rs : list certres) : Prop :=
  match v with
  | VErr => err = true
  | VRes r => err = false /\ map cr_result rs = r
  end.

Lemma xmodel_refines_model i t err rs :
  wf i = true -> (i_val i <= 3)%N -> vout_matches (i_vout i) err rs ->
  let x := mk_xinput (i_action i) (i_sa i) (i_val i) (Some t) (i_chain i) err rs in
  obs_of_x (xmodel x) = model i /\ xo_panic (xmodel x) = false.
Proof.
  intros Hwf Hv Hm x.
  assert (Hv4 : (i_val i =? 4)%N = false) by (apply N.eqb_neq; lia).
  unfold wf in Hwf. unfold xmodel, model, x, xtime, obs_of_x, xresults. cbn [x_action x_val x_err x_results x_chain x_sa x_stime].
  rewrite Hv4.
  destruct (i_vout i) as [|r] eqn:Ev; cbn in Hm.
  - subst err. destruct (i_action i); cbn; (split; [|reflexivity]);
      destruct (i_val i) as [|[[]|[]|]]; cbn; destruct (i_sa i); reflexivity.
  - destruct Hm as [-> <-]. apply Nat.eqb_eq in Hwf. rewrite map_length in Hwf.
    assert (Hn : Nat.ltb (List.length (i_chain i)) (List.length rs) = false) by (apply Nat.ltb_ge; lia).
    rewrite Hn.
    destruct (i_action i); cbn; (split; [|reflexivity]);
      destruct (i_val i) as [|[[]|[]|]]; cbn; destruct (i_sa i); reflexivity.
Qed.

(* ---------- validator selection ---------- *)
Lemma constructor_installs_validator a b : consulted (set_revocation a b) <> None.
Proof. destruct a, b; cbn; discriminate. Qed.

Lemma selection_matches_xmodel a b x :
  x_action x <> Skip -> x_val x = val_of_options a b -> (a || b = true) ->
  map (fun k => Some (xk_which k)) (xo_calls (xmodel x)) = [consulted (set_revocation a b)].
Proof.
  intros Ha Hv Hab.
  assert (H : (x_val x = 1 \/ x_val x = 2 \/ x_val x = 3)%N) by (rewrite Hv; destruct a, b; cbn in *; auto; discriminate).
  rewrite (xarguments _ Ha H), Hv. destruct a, b; cbn in *; try reflexivity; discriminate.
Qed.
