(* C12_Registry.v — the size caps of registry/repository.go ("never ... runaway allocation").
   Definitions only. Mirrors, statement by statement,
     registry/repository.go  FetchSignatureBlob, getSignatureBlobDesc,
                             ListSignatures (the non-ReferrerLister branch), signatureReferrers
   as far as the bytes the client asks its oras.GraphTarget for are concerned.

   content.FetchAll(ctx, fetcher, desc) (oras-go, a dependency) calls fetcher.Fetch(desc)
   and then allocates make([]byte, desc.Size) BEFORE it reads (content.ReadAll): the
   declared size of the descriptor handed to it is the allocation. A descriptor comes
   from the registry (referrers listing, manifest content): its size is untrusted.
   The model records every descriptor handed to FetchAll ([ro_reqs]: which of the
   two caps applies to it, declared size), and what the call returns.
   What the dependency makes of a descriptor (fetch fails / content is not JSON of the
   wanted struct / the manifest fields read) is an input fact ([mview]). *)
From NV Require Import Base Generated.
Open Scope list_scope.
Open Scope Z_scope.

(* maxManifestSizeLimit, maxBlobSizeLimit: read from the sources on every run *)
Definition capM : Z := Z.of_N gen_max_manifest_size.
Definition capB : Z := Z.of_N gen_max_blob_size.

(* media type of a manifest descriptor: the two the switch statements name, or another *)
Inductive mtype := MTArtifact | MTImage | MTOther.

Record rdesc := mk_rd { rd_mt : mtype; rd_size : Z }.   (* declared, any integer (int64) *)

(* content.FetchAll + json.Unmarshal into the struct the media type selects *)
Inductive mview :=
| MVFetchErr                       (* Fetch fails, size < 0, size or digest do not match the content *)
| MVBadJSON                        (* json.Unmarshal fails *)
| MVManifest (blobs : list rdesc)  (* Layers (image manifest) / Blobs (artifact manifest) *)
             (subject_eq : bool)   (* Subject != nil && content.Equal( *Subject, desc) *)
             (notation : bool).    (* Config.MediaType / ArtifactType == ArtifactTypeNotation *)

Inductive fkind := KManifest | KBlob.       (* which cap guards the request *)
Definition cap_of (k : fkind) : Z := match k with KManifest => capM | KBlob => capB end.

(* error classes: 1 media type, 2 manifest / referrer too large, 3 fetch, 4 JSON,
   5 not exactly one blob, 6 blob too large, 7 Predecessors fails *)
Inductive rres :=
| RErr (c : N)
| RBlob                            (* FetchSignatureBlob: the blob and its descriptor *)
| RList (kept : list N).           (* ListSignatures: the nodes handed to fn, by node id *)

Inductive robs :=
| RPanic
| RO (reqs : list (fkind * Z)) (res : rres).

(* ---------- FetchSignatureBlob ---------- *)
Record freq := mk_freq {
  fq_desc : rdesc;          (* the signature manifest descriptor *)
  fq_view : mview;          (* what fetching and decoding it gives *)
  fq_blob_ok : bool }.      (* FetchAll of the (single) blob descriptor succeeds *)

Definition fetch_sig (q : freq) : robs :=
  let d := fq_desc q in
  match rd_mt d with
  | MTOther => RO [] (RErr 1)
  | _ =>
      if capM <? rd_size d then RO [] (RErr 2) else
      let r1 := [(KManifest, rd_size d)] in
      match fq_view q with
      | MVFetchErr => RO r1 (RErr 3)
      | MVBadJSON => RO r1 (RErr 4)
      | MVManifest [b] _ _ =>
          if capB <? rd_size b then RO r1 (RErr 6) else
          let r2 := r1 ++ [(KBlob, rd_size b)] in
          if fq_blob_ok q then RO r2 RBlob else RO r2 (RErr 3)
      | MVManifest _ _ _ => RO r1 (RErr 5)
      end
  end.

(* the same function without the two size tests (what the caps are there for) *)
Definition fetch_sig_nocap (q : freq) : robs :=
  let d := fq_desc q in
  match rd_mt d with
  | MTOther => RO [] (RErr 1)
  | _ =>
      let r1 := [(KManifest, rd_size d)] in
      match fq_view q with
      | MVFetchErr => RO r1 (RErr 3)
      | MVBadJSON => RO r1 (RErr 4)
      | MVManifest [b] _ _ =>
          let r2 := r1 ++ [(KBlob, rd_size b)] in
          if fq_blob_ok q then RO r2 RBlob else RO r2 (RErr 3)
      | MVManifest _ _ _ => RO r1 (RErr 5)
      end
  end.

(* ---------- ListSignatures / signatureReferrers ---------- *)
Record lnode := mk_ln { ln_id : N; ln_desc : rdesc; ln_view : mview }.
Record lreq := mk_lreq { lq_pred_err : bool; lq_nodes : list lnode }.

(* for _, node := range predecessors: (requests, error, nodes kept) *)
Fixpoint list_loop (nodes : list lnode) : list (fkind * Z) * option N * list N :=
  match nodes with
  | [] => ([], None, [])
  | n :: rest =>
      let d := ln_desc n in
      match rd_mt d with
      | MTOther => list_loop rest                                  (* default: continue *)
      | _ =>
          if capM <? rd_size d then ([], Some 2%N, []) else
          let rq := (KManifest, rd_size d) in
          match ln_view n with
          | MVFetchErr => ([rq], Some 3%N, [])
          | MVBadJSON => ([rq], Some 4%N, [])
          | MVManifest _ subj nt =>
              let '(rs, e, kept) := list_loop rest in
              (rq :: rs, e, if subj && nt then ln_id n :: kept else kept)
          end
      end
  end.

Definition list_sigs (q : lreq) : robs :=
  if lq_pred_err q then RO [] (RErr 7) else
  match list_loop (lq_nodes q) with
  | (rs, Some e, _) => RO rs (RErr e)
  | (rs, None, kept) => RO rs (RList kept)
  end.

(* ---------- boolean equality, oracle ---------- *)
Definition fkind_eqb (a b : fkind) : bool :=
  match a, b with KManifest, KManifest | KBlob, KBlob => true | _, _ => false end.
Definition req_eqb (a b : fkind * Z) : bool := fkind_eqb (fst a) (fst b) && (snd a =? snd b).
Definition rres_eqb (a b : rres) : bool :=
  match a, b with
  | RErr x, RErr y => (x =? y)%N
  | RBlob, RBlob => true
  | RList x, RList y => list_eqb N.eqb x y
  | _, _ => false
  end.
Definition robs_eqb (a b : robs) : bool :=
  match a, b with
  | RPanic, RPanic => true
  | RO r1 x1, RO r2 x2 => list_eqb req_eqb r1 r2 && rres_eqb x1 x2
  | _, _ => false
  end.

(* bytes content.ReadAll allocates for a request: make([]byte, size) for 0 <= size *)
Definition alloc_of (reqs : list (fkind * Z)) : Z :=
  fold_right (fun r acc => Z.max 0 (snd r) + acc) 0 reqs.

Definition req_ok (r : fkind * Z) : bool := snd r <=? cap_of (fst r).

(* the property oracle, on the observation only: no panic, and no descriptor above
   its cap is ever handed to FetchAll *)
Definition rspec_ok (o : robs) : bool :=
  match o with
  | RPanic => false
  | RO reqs _ => forallb req_ok reqs
  end.
