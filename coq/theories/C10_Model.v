(* C10_Model.v — model of notation.Verify (notation.go): argument checks, skip
   short-circuit, reference classes, digest pin, the bounded / ordered /
   early-exit loop inside the paging callback of ListSignatures, and the result
   assembly; with the log of the calls made on the verifier and the repository.
   Definitions only.

   Outside /repo, hence inputs of the model (oracle facts):
     - oras registry.ParseReference / ValidateReferenceAsDigest  -> [pref] (invalid / no
       tag or digest / tag / digest reference carrying ref.Reference)
     - what Repository.Resolve answers (error / the descriptor; the string of its
       digest)                                                   -> [i_rerr], [classify]
       The comparison of the two digest strings (the pin) is notation.go's own
       statement and is modelled: [classify] computes the class [i_ref] from the
       parsed reference and the resolved digest string; the harness hands over the
       two strings, not the class.
     - what Repository.ListSignatures does: it hands consecutive pages of the
       listing to the callback, in order, stops at the first error the
       callback returns and returns it; after the last page it returns its own
       error or nil                                              -> [i_pages], [i_lerr], [pages_loop]
     - per listed signature, what FetchSignatureBlob and Verifier.Verify answer -> [sigk]
     - what SkipVerify answers (or that the verifier has no SkipVerify)  -> [skipper] *)
From NV Require Import Base.
Local Open Scope list_scope.

(* one listed signature, as the loop sees it *)
Inductive sigk :=
| G      (* fetched, verifies *)
| Bd     (* fetched, fails verification with an outcome *)
| U      (* cannot be fetched *)
| NO.    (* fetched, the verifier fails WITHOUT an outcome (breach of the Verifier contract) *)

Inductive skipper := NoSkipper | SkipErr | SkipYes | SkipNo.

(* ArtifactReference, as classified by oras ParseReference + the repository *)
Inductive refclass :=
| RInvalid     (* ParseReference fails *)
| RNone        (* no tag, no digest *)
| RTag
| RDigSame     (* digest reference, the repository resolves it to the same digest *)
| RDigDiff.    (* digest reference, the repository resolves it to another digest *)

(* ArtifactReference as oras registry.ParseReference / ValidateReferenceAsDigest
   report it (oracle); a digest reference carries ref.Reference *)
Inductive pref :=
| PInvalid                 (* ParseReference fails *)
| PNone                    (* ref.Reference == "" *)
| PTag                     (* ref.ValidateReferenceAsDigest() != nil *)
| PDigest (dg : string).   (* a digest reference, dg = ref.Reference *)

(* notation.go:
     if ref.ValidateReferenceAsDigest() != nil { (tag) }
     else if ref.Reference != artifactDescriptor.Digest.String() { return mismatch }
   [resolved] = artifactDescriptor.Digest.String() *)
Definition classify (p : pref) (resolved : string) : refclass :=
  match p with
  | PInvalid => RInvalid
  | PNone => RNone
  | PTag => RTag
  | PDigest dg => if String.eqb dg resolved then RDigSame else RDigDiff
  end.

(* calls, in the order they are made; a signature is identified by its position
   in the listing (the harness recovers it from the descriptor / blob passed) *)
Inductive ev :=
| ES                 (* verifier.SkipVerify *)
| ER                 (* repo.Resolve *)
| EL                 (* repo.ListSignatures *)
| EF (k : nat)       (* repo.FetchSignatureBlob of signature k *)
| EV (k : nat).      (* verifier.Verify on the blob of signature k *)

Inductive res :=
| ROk
| RNilVerifier | RNilRepo
| RBadMax              (* SignatureRetrievalFailed: non-positive MaxSignatureAttempts *)
| RSkipErr             (* the error of SkipVerify, as is *)
| RBadRef              (* SignatureRetrievalFailed: ParseReference error *)
| RNoRef               (* SignatureRetrievalFailed: reference is missing digest or tag *)
| RResolveErr          (* SignatureRetrievalFailed: the error of Resolve *)
| RDigestMismatch      (* SignatureRetrievalFailed: user digest <> resolved digest *)
| RFetch (k : nat)     (* SignatureRetrievalFailed naming signature k *)
| RNilOutcome (k : nat)(* the verifier's error for signature k, as is *)
| RListErr             (* the error of ListSignatures, as is *)
| RExceeded            (* VerificationFailed: limit of N signatures exceeded *)
| RAllFailed (ks : list nat)  (* errors.Join(VerificationFailed{}, outcome errors of signatures ks) *)
| RNoSignature         (* SignatureRetrievalFailed: no signature is associated *)
| ROther.              (* anything the harness cannot classify *)

Inductive dsc := DZero | DResolved | DOther.
Inductive outs :=
| ONone              (* nil slice *)
| OSkip              (* one outcome carrying exactly the level SkipVerify returned *)
| OSig (k : nat)     (* exactly the outcome the verifier returned for signature k *)
| OOther.

Record input := mk_input {
  i_nilv : bool;                (* verifier == nil *)
  i_nilr : bool;                (* repo == nil *)
  i_max : Z;                    (* MaxSignatureAttempts *)
  i_skip : skipper;
  i_ref : refclass;
  i_rerr : bool;                (* Resolve fails *)
  i_pages : list (list sigk);   (* the listing, as paged by the repository *)
  i_lerr : bool }.              (* ListSignatures returns an error after the last page *)

Record obs := mk_obs {
  o_res : res;
  o_desc : dsc;                 (* returned descriptor *)
  o_outs : outs;                (* returned outcomes *)
  o_log : list ev;
  o_args : bool }.              (* every call received the arguments it must receive
                                   (reference, resolved descriptor, blob of the fetched
                                   signature, its media type, options passed through) *)

(* ---------- the callback ---------- *)

(* variables captured by the closure *)
Record st := mk_st {
  s_n : nat;                    (* numOfSignatureProcessed *)
  s_failed : list nat;          (* verificationFailedErrorArray (after its first element) *)
  s_ok : option nat;            (* verificationSucceeded + verificationOutcomes, assigned together:
                                   None = false/nil, Some k = true/[outcome of k] *)
  s_log : list ev }.

Inductive cberr := EDone | EFetchE (k : nat) | ENilOut (k : nat) | EExceeded.
Inductive cb := Cont (* nil *) | Stop (e : cberr).

(* if numOfSignatureProcessed >= MaxSignatureAttempts { return errExceeded }; return nil *)
Definition after_loop (max : Z) (s : st) : cb :=
  if (max <=? Z.of_nat (s_n s))%Z then Stop EExceeded else Cont.

(* one call of the callback on one page; [pos] is the position in the listing of
   the first element of [page] *)
Fixpoint page_loop (max : Z) (pos : nat) (s : st) (page : list sigk) : st * cb :=
  match page with
  | [] => (s, after_loop max s)
  | x :: rest =>
      if (max <=? Z.of_nat (s_n s))%Z then (s, after_loop max s)          (* break *)
      else
        (* numOfSignatureProcessed++ ; repo.FetchSignatureBlob *)
        let s1 := mk_st (S (s_n s)) (s_failed s) (s_ok s) (s_log s ++ [EF pos]) in
        match x with
        | U => (s1, Stop (EFetchE pos))
        | _ =>
            (* verifier.Verify *)
            let s2 := mk_st (s_n s1) (s_failed s1) (s_ok s1) (s_log s1 ++ [EV pos]) in
            match x with
            | NO => (s2, Stop (ENilOut pos))                                (* return err *)
            | Bd => page_loop max (S pos)                                   (* append; continue *)
                      (mk_st (s_n s2) (s_failed s2 ++ [pos]) (s_ok s2) (s_log s2)) rest
            | _ => (mk_st (s_n s2) (s_failed s2) (Some pos) (s_log s2), Stop EDone)
            end
        end
  end.

(* Repository.ListSignatures: consecutive pages until the callback returns an error *)
Fixpoint pages_loop (max : Z) (pos : nat) (s : st) (pages : list (list sigk)) : st * cb :=
  match pages with
  | [] => (s, Cont)
  | p :: ps =>
      match page_loop max pos s p with
      | (s', Cont) => pages_loop max (pos + List.length p) s' ps
      | r => r
      end
  end.

(* ---------- notation.Verify ---------- *)

Definition err_obs (r : res) (log : list ev) : obs := mk_obs r DZero ONone log true.

Definition outs_of (ok : option nat) : outs :=
  match ok with None => ONone | Some k => OSig k end.

Definition after_listing (i : input) (log : list ev) : obs :=
  let '(s, c) := pages_loop (i_max i) 0 (mk_st 0 [] None (log ++ [EL])) (i_pages i) in
  (* err of ListSignatures *)
  let err := match c with
             | Cont => if i_lerr i then Some RListErr else None
             | Stop EDone => None              (* errors.Is(err, errDoneVerification) *)
             | Stop (EFetchE k) => Some (RFetch k)
             | Stop (ENilOut k) => Some (RNilOutcome k)
             | Stop EExceeded => Some RExceeded
             end in
  match err with
  | Some RExceeded => mk_obs RExceeded DZero (outs_of (s_ok s)) (s_log s) true
  | Some e => err_obs e (s_log s)
  | None =>
      if Nat.eqb (s_n s) 0 then err_obs RNoSignature (s_log s)
      else match s_ok s with
           | None => mk_obs (RAllFailed (s_failed s)) DZero (outs_of (s_ok s)) (s_log s) true
           | Some k => mk_obs ROk DResolved (outs_of (s_ok s)) (s_log s) true
           end
  end.

Definition after_skip (i : input) (log : list ev) : obs :=
  match i_ref i with
  | RInvalid => err_obs RBadRef log
  | RNone => err_obs RNoRef log
  | r =>
      let log1 := log ++ [ER] in
      if i_rerr i then err_obs RResolveErr log1
      else match r with
           | RDigDiff => err_obs RDigestMismatch log1
           | _ => after_listing i log1
           end
  end.

Definition model (i : input) : obs :=
  if i_nilv i then err_obs RNilVerifier []
  else if i_nilr i then err_obs RNilRepo []
  else if (i_max i <=? 0)%Z then err_obs RBadMax []
  else match i_skip i with
       | NoSkipper => after_skip i []
       | SkipErr => err_obs RSkipErr [ES]
       | SkipYes => mk_obs ROk DZero OSkip [ES] true
       | SkipNo => after_skip i [ES]
       end.

(* no input contract is needed: the model and the oracle are total *)
Definition wf (i : input) : bool := true.

(* ---------- boolean equalities ---------- *)
Definition ev_eqb (a b : ev) : bool :=
  match a, b with
  | ES, ES | ER, ER | EL, EL => true
  | EF j, EF k | EV j, EV k => Nat.eqb j k
  | _, _ => false
  end.

Definition res_eqb (a b : res) : bool :=
  match a, b with
  | ROk, ROk | RNilVerifier, RNilVerifier | RNilRepo, RNilRepo | RBadMax, RBadMax
  | RSkipErr, RSkipErr | RBadRef, RBadRef | RNoRef, RNoRef | RResolveErr, RResolveErr
  | RDigestMismatch, RDigestMismatch | RListErr, RListErr | RExceeded, RExceeded
  | RNoSignature, RNoSignature | ROther, ROther => true
  | RFetch j, RFetch k | RNilOutcome j, RNilOutcome k => Nat.eqb j k
  | RAllFailed x, RAllFailed y => list_eqb Nat.eqb x y
  | _, _ => false
  end.

Definition dsc_eqb (a b : dsc) : bool :=
  match a, b with
  | DZero, DZero | DResolved, DResolved | DOther, DOther => true
  | _, _ => false
  end.

Definition outs_eqb (a b : outs) : bool :=
  match a, b with
  | ONone, ONone | OSkip, OSkip | OOther, OOther => true
  | OSig j, OSig k => Nat.eqb j k
  | _, _ => false
  end.

Definition obs_eqb (a b : obs) : bool :=
  res_eqb (o_res a) (o_res b) && dsc_eqb (o_desc a) (o_desc b) && outs_eqb (o_outs a) (o_outs b)
  && list_eqb ev_eqb (o_log a) (o_log b) && Bool.eqb (o_args a) (o_args b).

(* ---------- the property oracle, evaluated on what the implementation did ----------
   Flat and declarative: it looks at the listing as one list (no pages, no
   counter) and does not call [model]. *)

Definition range (a b : nat) : list nat := seq a (b - a).

(* fetch + verify of signatures a .. b-1, in order *)
Definition pairs (a b : nat) : list ev := flat_map (fun j => [EF j; EV j]) (range a b).

(* the first listed signature (position >= p counted from p) that is not a plain
   verification failure *)
Fixpoint find_stop (l : list sigk) (p : nat) : option (nat * sigk) :=
  match l with
  | [] => None
  | Bd :: r => find_stop r (S p)
  | x :: _ => Some (p, x)
  end.

Definition is_ok (o : obs) : bool := res_eqb (o_res o) ROk.

(* an error, after exactly these calls. What accompanies an error (descriptor,
   outcomes) is not constrained by the property text, hence not by the oracle;
   the correspondence check still compares them with the model, and
   C10_errors proves them zero / nil for the model. *)
Definition failed_with (o : obs) (log : list ev) : bool :=
  negb (is_ok o) && list_eqb ev_eqb (o_log o) log.

Definition failed_as (r : res) (o : obs) (log : list ev) : bool :=
  res_eqb (o_res o) r && failed_with o log.

(* what must hold once the listing is reached; [head] = the calls made before *)
Definition listing_ok (i : input) (head : list ev) (o : obs) : bool :=
  let l := List.concat (i_pages i) in
  let max := i_max i in
  match find_stop l 0 with
  | Some (k, x) =>
      if (Z.of_nat k <? max)%Z then
        (* the first decisive signature is among the first N *)
        match x with
        | G => is_ok o && dsc_eqb (o_desc o) DResolved && outs_eqb (o_outs o) (OSig k)
               && list_eqb ev_eqb (o_log o) (head ++ pairs 0 (S k))
        | U => failed_as (RFetch k) o (head ++ pairs 0 k ++ [EF k])
        | _ => failed_with o (head ++ pairs 0 (S k))
        end
      else (* the first N all fail verification *)
        failed_with o (head ++ pairs 0 (Z.to_nat max))
  | None =>
      let n := List.length l in
      if (max <=? Z.of_nat n)%Z then failed_with o (head ++ pairs 0 (Z.to_nat max))
      else if Nat.eqb n 0 && negb (i_lerr i) then failed_as RNoSignature o head
      else failed_with o (head ++ pairs 0 n)
  end.

Definition spec_ok (i : input) (o : obs) : bool :=
  o_args o &&
  if i_nilv i || i_nilr i then failed_with o []
  else if (i_max i <=? 0)%Z then failed_as RBadMax o []
  else
    let pre := match i_skip i with NoSkipper => [] | _ => [ES] end in
    match i_skip i with
    | SkipYes => is_ok o && dsc_eqb (o_desc o) DZero && outs_eqb (o_outs o) OSkip
                 && list_eqb ev_eqb (o_log o) [ES]
    | SkipErr => failed_with o [ES]
    | _ =>
        match i_ref i with
        | RInvalid => failed_with o pre
        | RNone => failed_as RNoRef o pre
        | r =>
            if i_rerr i then failed_with o (pre ++ [ER])
            else match r with
                 | RDigDiff => failed_as RDigestMismatch o (pre ++ [ER])
                 | _ => listing_ok i (pre ++ [ER; EL]) o
                 end
        end
    end.

(* ---------- the callback under a repository that does not honour its contract ----------
   The closure handed to ListSignatures keeps its counter between invocations. A
   repository that ignores the error the callback returns, repeats pages or
   delivers them out of order is a sequence of invocations (pos, page) — [pos] the
   position in the listing of the first element of [page] — whose results are
   dropped. What the closure then does (the calls it makes) is [drive]; the
   return value of Verify depends on what such a repository returns and is not
   modelled. *)
Fixpoint drive (max : Z) (s : st) (calls : list (nat * list sigk)) : st :=
  match calls with
  | [] => s
  | (pos, page) :: r => drive max (fst (page_loop max pos s page)) r
  end.

Record dinput := mk_dinput {
  d_max : Z;                            (* MaxSignatureAttempts, > 0 *)
  d_plain : bool;                       (* the verifier has no SkipVerify (else it answers: do not skip) *)
  d_calls : list (nat * list sigk) }.   (* the invocations of the callback *)

(* the call log of Verify (tag reference, Resolve succeeds) *)
Definition dmodel (d : dinput) : list ev :=
  s_log (drive (d_max d) (mk_st 0 [] None ((if d_plain d then [] else [ES]) ++ [ER; EL])) (d_calls d)).

(* oracle on the observed log: never more than N fetches; every verification is of the
   signature fetched by the call right before it *)
Fixpoint verify_follows_fetch (prev : option nat) (log : list ev) : bool :=
  match log with
  | [] => true
  | EV k :: r => match prev with Some j => Nat.eqb j k | None => false end && verify_follows_fetch None r
  | EF k :: r => verify_follows_fetch (Some k) r
  | _ :: r => verify_follows_fetch None r
  end.

Definition count_fetches (log : list ev) : nat :=
  List.length (filter (fun e => match e with EF _ => true | _ => false end) log).

Definition dspec_ok (d : dinput) (log : list ev) : bool :=
  (Z.of_nat (count_fetches log) <=? Z.max 0 (d_max d))%Z && verify_follows_fetch None log.

(* ---------- cases ---------- *)
Inductive case :=
| mk_case (id : N) (i : input) (o : obs)            (* a conforming repository *)
| mk_dcase (id : N) (d : dinput) (log : list ev).   (* a repository that ignores the callback's errors *)

Definition c_id (c : case) : N := match c with mk_case id _ _ | mk_dcase id _ _ => id end.

Definition run (cs : list case) : list (N * N * N) :=
  run_cases c_id
    (fun c => match c with
              | mk_case _ i o => obs_eqb (model i) o
              | mk_dcase _ d log => list_eqb ev_eqb (dmodel d) log
              end)
    (fun c => match c with
              | mk_case _ i o => negb (wf i) || spec_ok i o
              | mk_dcase _ d log => dspec_ok d log
              end)
    (fun _ => 0%N) cs.
