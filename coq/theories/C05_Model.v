(* C05_Model.v — model of verifier.verifyRevocation / revocationFinalResult and of
   the place the revocation validation takes in processSignature when every
   other validation passes and no plugin is involved (the plugin routing is
   C02's model). Definitions only. Mirrors verifier/verifier.go:
     verifyRevocation        (validator selection, arguments, error mapping)
     revocationFinalResult   (right-to-left loop with counters)            *)
From NV Require Import Base.

Inductive rres := ROK | RNonRevokable | RUnknown | RRevoked | ROther.
(* ROther: any integer value of result.Result outside the four constants *)

Inductive vout := VErr | VRes (rs : list rres).
Inductive action := Enforce | Log | Skip.

(* outcome class of the revocation validation *)
Inductive rclass :=
| Pass
| Revoked (subject : string)
| Unknown (subject : string)
| Inconclusive             (* validator error, no validator at all, or an answer that is not
                              one result per certificate *)
| PluginRejected.          (* only in the full model: the verification plugin that owns the revocation
                              check (capability SIGNATURE_VERIFIER.REVOCATION_CHECK) answered "not successful" *)

Record input := mk_input {
  i_action : action;       (* action of the revocation type in the level *)
  i_sa : bool;             (* signing scheme is notary.x509.signingAuthority *)
  i_val : N;               (* validators supplied by the caller: 1 context-aware
                              validator, 2 deprecated client, 3 both, 0 none
                              (the constructor then installs the library default,
                              whose answer is [i_vout] as reported by the oracle) *)
  i_chain : list string;   (* subjects of the signing chain, leaf first *)
  i_vout : vout }.         (* what the validator answers *)

Record call := mk_call {
  k_which : N;             (* 1 = ValidateContext, 2 = deprecated Validate *)
  k_chain : list string;
  k_time_set : bool }.     (* AuthenticSigningTime is non-zero *)

Record obs := mk_obs {
  o_calls : list call;            (* calls received by the supplied validators *)
  o_result : option rclass;       (* revocation entry of the outcome; None = no entry *)
  o_rejected : bool }.            (* Verify returned an error *)

Definition is_ok (r : rres) : bool :=
  match r with ROK | RNonRevokable => true | _ => false end.
Definition is_revoked (r : rres) : bool :=
  match r with RRevoked => true | _ => false end.

(* --- revocationFinalResult: state of the loop --- *)
Record acc := mk_acc {
  a_final : rres; a_numOK : nat; a_prob : string; a_revFound : bool; a_revSubj : string }.

Definition acc0 : acc := mk_acc RUnknown 0 "" false "".

(* one iteration for (certResults[i], certChain[i]) *)
Definition step (a : acc) (x : rres * string) : acc :=
  let '(r, s) := x in
  if is_ok r then mk_acc (a_final a) (S (a_numOK a)) (a_prob a) (a_revFound a) (a_revSubj a)
  else if is_revoked r then mk_acc r (a_numOK a) s true s
  else mk_acc r (a_numOK a) s (a_revFound a) (a_revSubj a).

(* the loop runs i = len(results)-1 .. 0; [combine] pairs result i with
   certificate i. Since fix d78db00 the function is only called with
   len(results) = len(chain) (checkRevocationResults); before it, a longer vector
   indexed the chain out of range and a shorter one was aggregated as it was. *)
Definition final_result (rs : list rres) (chain : list string) : rres * string :=
  let a := fold_left step (rev (combine rs chain)) acc0 in
  let '(f, p) := if a_revFound a then (RRevoked, a_revSubj a) else (a_final a, a_prob a) in
  if Nat.eqb (a_numOK a) (List.length rs) then (ROK, p) else (f, p).

Definition classify (fr : rres * string) : rclass :=
  match fst fr with
  | ROK => Pass
  | RRevoked => Revoked (snd fr)
  | _ => Unknown (snd fr)
  end.

Definition is_failure (c : rclass) : bool :=
  match c with Pass => false | _ => true end.

(* --- verifyRevocation + its place in processSignature --- *)
Definition model (i : input) : obs :=
  match i_action i with
  | Skip => mk_obs [] None false
  | _ =>
      let calls :=
        match i_val i with
        | 0%N => []
        | 2%N => [mk_call 2 (i_chain i) (i_sa i)]
        | _ => [mk_call 1 (i_chain i) (i_sa i)]
        end in
      let res :=
        match i_vout i with
        | VErr => Inconclusive
        | VRes rs =>
            (* checkRevocationResults (fix d78db00): one result per certificate, else inconclusive *)
            if Nat.eqb (List.length rs) (List.length (i_chain i))
            then classify (final_result rs (i_chain i))
            else Inconclusive
        end in
      mk_obs calls (Some res)
             (match i_action i with Enforce => is_failure res | _ => false end)
  end.

(* the validator contract (one result per certificate). Since fix d78db00 the code checks it
   itself (an answer outside it is inconclusive), so [wf] is no longer needed as a hypothesis;
   it is kept because older statements mention it. *)
Definition wf (i : input) : bool :=
  match i_vout i with
  | VErr => true
  | VRes rs => Nat.eqb (List.length rs) (List.length (i_chain i))
  end.

(* ---------- boolean equalities ---------- *)
Definition rres_eqb (a b : rres) : bool :=
  match a, b with
  | ROK, ROK | RNonRevokable, RNonRevokable | RUnknown, RUnknown
  | RRevoked, RRevoked | ROther, ROther => true
  | _, _ => false
  end.

Definition rclass_eqb (a b : rclass) : bool :=
  match a, b with
  | Pass, Pass | Inconclusive, Inconclusive | PluginRejected, PluginRejected => true
  | Revoked s, Revoked t | Unknown s, Unknown t => String.eqb s t
  | _, _ => false
  end.

Definition call_eqb (a b : call) : bool :=
  (k_which a =? k_which b)%N && list_eqb String.eqb (k_chain a) (k_chain b)
  && Bool.eqb (k_time_set a) (k_time_set b).

Definition obs_eqb (a b : obs) : bool :=
  list_eqb call_eqb (o_calls a) (o_calls b)
  && opt_eqb rclass_eqb (o_result a) (o_result b)
  && Bool.eqb (o_rejected a) (o_rejected b).

(* ---------- the property oracle, evaluated on what the implementation did ----------
   It is stated on observations only (it does not call [model]). *)
Definition named_ok (p : rres -> bool) (rs : list rres) (chain : list string) (s : string) : bool :=
  existsb (fun x => p (fst x) && String.eqb (snd x) s) (combine rs chain).

Definition result_ok (i : input) (c : rclass) : bool :=
  match i_vout i with
  | VErr => match c with Inconclusive => true | _ => false end
  | VRes rs =>
      if negb (Nat.eqb (List.length rs) (List.length (i_chain i)))
      then match c with Inconclusive => true | _ => false end
      else if forallb is_ok rs then match c with Pass => true | _ => false end
      else if existsb is_revoked rs then
        match c with Revoked s => named_ok is_revoked rs (i_chain i) s | _ => false end
      else
        match c with Unknown s => named_ok (fun r => negb (is_ok r)) rs (i_chain i) s | _ => false end
  end.

Definition calls_ok (i : input) (cs : list call) : bool :=
  match i_val i with
  | 0%N => match cs with [] => true | _ => false end
  | v => match cs with
         | [k] => (k_which k =? (if (v =? 2)%N then 2 else 1))%N
                  && list_eqb String.eqb (k_chain k) (i_chain i)
                  && Bool.eqb (k_time_set k) (i_sa i)
         | _ => false
         end
  end.

Definition spec_ok (i : input) (o : obs) : bool :=
  match i_action i with
  | Skip =>
      match o_calls o, o_result o with [], None => negb (o_rejected o) | _, _ => false end
  | a =>
      calls_ok i (o_calls o)
      && match o_result o with
         | None => false
         | Some c =>
             result_ok i c
             && Bool.eqb (o_rejected o)
                  (match a with Enforce => is_failure c | _ => false end)
         end
  end.

(* ---------- cases ---------- *)
Record case := mk_case { c_id : N; c_in : input; c_obs : obs }.

Definition run (cs : list case) : list (N * N * N) :=
  run_cases c_id
    (fun c => obs_eqb (model (c_in c)) (c_obs c))
    (fun c => spec_ok (c_in c) (c_obs c))
    (fun _ => 0%N) cs.

(* ====================================================================== *)
(* The FULL model (added by the theorem audit, docs/audit/C05.md; revised after fix
   d78db00 of /repo, which the audit's finding F1/F2 led to).

   [model] above abstracts things away that the property quantifies over or that the
   anchored code decides itself:
     - the OCSP/CRL/fallback method annotation and the per-server results of
       every CertRevocationResult (no input of [model] at all),
     - an error returned TOGETHER with a result vector (collapsed into [VErr]),
     - the VALUE of the signing time handed to the validator (only zero / non-zero),
     - nil entries of the result slice,
     - the verifier whose two validator fields are both nil.
   [xmodel_native] takes all of this as input and mirrors verifyRevocation statement by
   statement, including checkRevocationResults. The aggregation itself is the same
   [final_result] / [classify]. The harness (vh-c05) emits [xcase]s; [model] is a proven
   projection of [xmodel_native] (C05_Full.xmodel_refines_model).
   [xmodel_v0] is the code BEFORE fix d78db00 (no checkRevocationResults): kept so that
   the defect stays stated (C05_pass_only_if_v0_refuted, C05_v0_panic_iff). *)

(* one *result.CertRevocationResult as the validator returns it *)
Record certres := mk_cr {
  cr_result : rres;
  cr_method : N;                   (* RevocationMethod: 0 unknown, 1 OCSP, 2 CRL, 3 OCSPFallbackCRL, other values *)
  cr_servers : list (option (N * bool)) }.  (* ServerResults: (RevocationMethod, Error != nil); None = a nil *ServerResult
                                      (only logged; dereferenced without a check before /repo fix a146158) *)

(* the verification plugin the signature names (critical extended attribute
   io.cncf.notary.verificationPlugin), as processSignature sees it: installed, metadata valid, version
   sufficient, and answering verify-signature with a well-formed response that reports the trusted-identity
   check (if it has that capability) as successful - everything else about plugins is C02's model *)
Inductive pcap := PcapTI | PcapRev | PcapOther.   (* SIGNATURE_VERIFIER.TRUSTED_IDENTITY / .REVOCATION_CHECK / any other capability *)
Record xplugin := mk_xplugin {
  xp_caps : list pcap;     (* Capabilities of its get-plugin-metadata response, in order *)
  xp_rev_ok : bool }.      (* Success of the revocation-check entry of its verify-signature response *)

Record xinput := mk_xinput_p {
  x_action : action;          (* action of the revocation type in the level *)
  x_sa : bool;                (* signing scheme is notary.x509.signingAuthority *)
  x_val : N;                  (* 1 context-aware validator supplied, 2 deprecated client, 3 both,
                                 0 none (the constructor installs the library default; not instrumented),
                                 4 a verifier whose revocationCodeSigningValidator and revocationClient
                                   are both nil (no public constructor produces it) *)
  x_stime : option Z;         (* signing time in the signed attributes, unix seconds; None = zero time.Time.
                                 For signingAuthority this is what SignerInfo.AuthenticSigningTime() yields *)
  x_chain : list string;      (* subjects of the signing chain, leaf first *)
  x_err : bool;               (* the validator returned a non-nil error ... *)
  x_results : list (option certres);  (* ... and this result slice (nil slice = []; None = nil entry) *)
  x_plugin : option xplugin }.        (* None: the signature names no verification plugin *)

(* the input without a verification plugin (every case before the plugin dimension was added) *)
Definition mk_xinput a sa v st ch e rs : xinput := mk_xinput_p a sa v st ch e rs None.

Record xcall := mk_xcall {
  xk_which : N;               (* 1 = ValidateContext, 2 = deprecated Validate *)
  xk_chain : list string;
  xk_time : option Z }.       (* AuthenticSigningTime / signingTime argument; None = zero *)

Record xobs := mk_xobs {
  xo_calls : list xcall;
  xo_result : option rclass;  (* revocation entry of the outcome; None = no entry *)
  xo_rejected : bool;         (* Verify returned an error *)
  xo_panic : bool }.          (* Verify did not return: run-time panic (recovered by the harness) *)

Definition enforce_fails (a : action) (c : rclass) : bool :=
  match a with Enforce => is_failure c | _ => false end.

Definition is_some {A} (o : option A) : bool := match o with Some _ => true | None => false end.

(* results of the non-nil entries, in order (all entries when none is nil) *)
Definition xresults (x : xinput) : list rres :=
  flat_map (fun o => match o with Some c => [cr_result c] | None => [] end) (x_results x).

(* checkRevocationResults: exactly one non-nil result per certificate *)
Definition complete (x : xinput) : bool :=
  Nat.eqb (List.length (x_results x)) (List.length (x_chain x)) && forallb is_some (x_results x).

(* the time verifyRevocation computes: AuthenticSigningTime() only under signingAuthority *)
Definition xtime (x : xinput) : option Z := if x_sa x then x_stime x else None.

Definition xcalls (x : xinput) : list xcall :=
  match x_val x with
  | 0%N => []
  | 2%N => [mk_xcall 2 (x_chain x) (xtime x)]
  | _ => [mk_xcall 1 (x_chain x) (xtime x)]
  end.

Definition xmodel_native (x : xinput) : xobs :=
  match x_action x with
  | Skip => mk_xobs [] None false false          (* processSignature: the step is not entered *)
  | a =>
      (* if v.revocationCodeSigningValidator == nil && v.revocationClient == nil *)
      if (x_val x =? 4)%N then
        mk_xobs [] (Some Inconclusive) (enforce_fails a Inconclusive) false
      (* if err != nil *)
      else if x_err x then
        mk_xobs (xcalls x) (Some Inconclusive) (enforce_fails a Inconclusive) false
      (* if err := checkRevocationResults(certResults, chain); err != nil *)
      else if negb (complete x) then
        mk_xobs (xcalls x) (Some Inconclusive) (enforce_fails a Inconclusive) false
      else
        let res := classify (final_result (xresults x) (x_chain x)) in
        mk_xobs (xcalls x) (Some res) (enforce_fails a res) false
  end.

(* the code before fix d78db00: no checkRevocationResults. revocationFinalResult runs
   i := len(certResults)-1 .. 0 with cert := certChain[i] (out of range when there are more
   results than certificates) and certResult.RevocationMethod (nil dereference on a nil entry) *)
Definition xmodel_v0 (x : xinput) : xobs :=
  match x_action x with
  | Skip => mk_xobs [] None false false
  | a =>
      if (x_val x =? 4)%N then
        mk_xobs [] (Some Inconclusive) (enforce_fails a Inconclusive) false
      else if x_err x then
        mk_xobs (xcalls x) (Some Inconclusive) (enforce_fails a Inconclusive) false
      else if Nat.ltb (List.length (x_chain x)) (List.length (x_results x))
              || negb (forallb is_some (x_results x)) then
        mk_xobs (xcalls x) None false true
      else
        let res := classify (final_result (xresults x) (x_chain x)) in
        mk_xobs (xcalls x) (Some res) (enforce_fails a res) false
  end.

(* the contract notation-core-go's own validator keeps: an error, or one non-nil result per certificate *)
Definition xwf (x : xinput) : bool := x_err x || complete x.

Definition optz_eqb (a b : option Z) : bool := opt_eqb Z.eqb a b.

Definition xcall_eqb (a b : xcall) : bool :=
  (xk_which a =? xk_which b)%N && list_eqb String.eqb (xk_chain a) (xk_chain b)
  && optz_eqb (xk_time a) (xk_time b).

Definition xobs_eqb (a b : xobs) : bool :=
  list_eqb xcall_eqb (xo_calls a) (xo_calls b)
  && opt_eqb rclass_eqb (xo_result a) (xo_result b)
  && Bool.eqb (xo_rejected a) (xo_rejected b)
  && Bool.eqb (xo_panic a) (xo_panic b).

(* ---------- the property oracle on the implementation's observations (does not call [xmodel_native]) ----------
   Evaluated on EVERY case, also on answers outside the contract: there the validation must not
   pass (it is inconclusive), and Verify must never panic. *)
Definition xresult_ok_native (x : xinput) (c : rclass) : bool :=
  if (x_val x =? 4)%N || x_err x || negb (complete x)
  then match c with Inconclusive => true | _ => false end
  else
    let rs := xresults x in
    if forallb is_ok rs then match c with Pass => true | _ => false end
    else if existsb is_revoked rs then
      match c with Revoked s => named_ok is_revoked rs (x_chain x) s | _ => false end
    else
      match c with Unknown s => named_ok (fun r => negb (is_ok r)) rs (x_chain x) s | _ => false end.

Definition xcalls_ok_native (x : xinput) (cs : list xcall) : bool :=
  match x_val x with
  | 0%N | 4%N => match cs with [] => true | _ => false end
  | v => match cs with
         | [k] => (xk_which k =? (if (v =? 2)%N then 2 else 1))%N
                  && list_eqb String.eqb (xk_chain k) (x_chain x)
                  && optz_eqb (xk_time k) (if x_sa x then x_stime x else None)
         | _ => false
         end
  end.

Definition xspec_ok_native (x : xinput) (o : xobs) : bool :=
  negb (xo_panic o) &&
  match x_action x with
  | Skip =>
      match xo_calls o, xo_result o with [], None => negb (xo_rejected o) | _, _ => false end
  | a =>
      xcalls_ok_native x (xo_calls o)
      && match xo_result o with
         | None => false
         | Some c => xresult_ok_native x c && Bool.eqb (xo_rejected o) (enforce_fails a c)
         end
  end.

(* ---------- who owns the revocation check: processSignature's routing ----------
   [xmodel_native] is the step when notation performs the check itself. A signature that names a
   verification plugin changes that (verifier.go, processSignature):
     for _, capability := range metadata.Capabilities { keep TRUSTED_IDENTITY and REVOCATION_CHECK }
     if len(pluginCapabilities) == 0 { return ErrorVerificationInconclusive }       -> [OwnerNobody]
     if level[revocation] != skip && !Contains(pluginCapabilities, REVOCATION_CHECK) { v.verifyRevocation }
     capabilitiesToVerify = pluginCapabilities minus REVOCATION_CHECK when the level skips revocation
     if len(capabilitiesToVerify) > 0 { executePlugin; processPluginResponse }      -> [OwnerPlugin]
   The same rule is VerifyCore.native_validations / process_caps of C02's model. *)
Inductive rev_owner :=
| OwnerNotation    (* no plugin named, or the plugin does not advertise the revocation capability *)
| OwnerPlugin      (* the plugin advertises SIGNATURE_VERIFIER.REVOCATION_CHECK *)
| OwnerNobody.     (* a plugin is named but has no verification capability at all: verification fails *)

Definition pcap_is_rev (c : pcap) : bool := match c with PcapRev => true | _ => false end.
Definition pcap_is_verifier (c : pcap) : bool := match c with PcapRev | PcapTI => true | PcapOther => false end.

(* derived from the capability list, as the coordinator's `plugin_owns_revocation` *)
Definition plugin_owns_revocation (x : xinput) : bool :=
  match x_plugin x with Some p => existsb pcap_is_rev (xp_caps p) | None => false end.

Definition owner (x : xinput) : rev_owner :=
  match x_plugin x with
  | None => OwnerNotation
  | Some p => if negb (existsb pcap_is_verifier (xp_caps p)) then OwnerNobody
              else if existsb pcap_is_rev (xp_caps p) then OwnerPlugin else OwnerNotation
  end.

Definition plugin_verdict (x : xinput) : rclass :=
  match x_plugin x with Some p => if xp_rev_ok p then Pass else PluginRejected | None => Pass end.

Definition xmodel (x : xinput) : xobs :=
  match owner x with
  | OwnerNobody => mk_xobs [] None true false        (* rejected before any validation, whatever the level *)
  | OwnerPlugin =>
      match x_action x with
      | Skip => mk_xobs [] None false false           (* the capability is dropped: nobody checks revocation *)
      | a => let res := plugin_verdict x in           (* the validator is NOT consulted; the plugin's verdict decides *)
             mk_xobs [] (Some res) (enforce_fails a res) false
      end
  | OwnerNotation => xmodel_native x
  end.

(* the property oracle on observations (does not call [xmodel]): revocation is performed by notation
   - validator consulted with the complete chain, answer aggregated - whenever the level does not skip it
   and no plugin owns it; when a plugin owns it the validator is not consulted and the plugin's verdict is
   the result; a plugin without verification capability fails the verification *)
Definition xspec_ok (x : xinput) (o : xobs) : bool :=
  match owner x with
  | OwnerNotation => xspec_ok_native x o
  | OwnerPlugin =>
      negb (xo_panic o) && match xo_calls o with [] => true | _ => false end &&
      match x_action x with
      | Skip => match xo_result o with None => negb (xo_rejected o) | _ => false end
      | a => match xo_result o with
             | Some c => rclass_eqb c (plugin_verdict x) && Bool.eqb (xo_rejected o) (enforce_fails a c)
             | None => false
             end
      end
  | OwnerNobody =>
      negb (xo_panic o) && xo_rejected o && match xo_calls o, xo_result o with [], None => true | _, _ => false end
  end.

Record xcase := mk_xcase { xc_id : N; xc_in : xinput; xc_obs : xobs }.

(* correspondence and the property oracle on EVERY input *)
Definition xrun (cs : list xcase) : list (N * N * N) :=
  run_cases xc_id
    (fun c => xobs_eqb (xmodel (xc_in c)) (xc_obs c))
    (fun c => xspec_ok (xc_in c) (xc_obs c))
    (fun _ => 0%N) cs.

(* ---------- validator selection (verifier.setRevocation, head of verifyRevocation) ----------
   [x_val] above encodes the options the caller gave to the constructor. These two
   functions spell the selection out: the fields of the verifier after setRevocation
   (code-signing validator set, deprecated client set), and the field verifyRevocation
   consults (None: both nil, the validation fails without consulting anything). *)
Definition set_revocation (supplied_validator supplied_client : bool) : bool * bool :=
  if supplied_validator then (true, false)
  else if supplied_client then (false, true)
  else (true, false).                    (* the library default, revocation.NewWithOptions *)

Definition consulted (fields : bool * bool) : option N :=
  if fst fields then Some 1%N else if snd fields then Some 2%N else None.

Definition val_of_options (supplied_validator supplied_client : bool) : N :=
  match supplied_validator, supplied_client with
  | true, false => 1 | false, true => 2 | true, true => 3 | false, false => 0
  end.
