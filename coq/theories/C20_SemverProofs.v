(* C20_SemverProofs.v — theorems about C20_Semver.v:
   - a string accepted by the SemVer regular expression of /repo has the SemVer
     structure (proved through the denotational semantics of C20_ReLang.v);
   - on such strings x/mod/semver's parser succeeds, the declarative reading
     [decode] succeeds, and semver.Compare computes exactly the SemVer 2.0.0
     section 11 precedence [prec_cmp] of the decoded versions;
   - [prec_cmp] is the inductive relation [prec_lt], a strict total order;
   - build metadata is ignored.
   No axioms: see the Print Assumptions at the end. *)
From NV Require Import Base Regex Generated C20_Semver C20_ReLang.
Open Scope N_scope.
Open Scope list_scope.

(* ====================================================================== *)
(* 0. small tools                                                         *)
(* ====================================================================== *)

Lemma forallb_Forall_iff {A} (f : A -> bool) l :
  forallb f l = true <-> Forall (fun x => f x = true) l.
Proof.
  induction l as [|x l IH]; cbn.
  - split; [constructor|reflexivity].
  - rewrite andb_true_iff, IH. split.
    + intros [H1 H2]. constructor; assumption.
    + intros H. inversion H; subst. split; assumption.
Qed.

Lemma is_digit_spec c : is_digit c = true <-> 48 <= c /\ c <= 57.
Proof. unfold is_digit. rewrite andb_true_iff, !N.leb_le. tauto. Qed.

Lemma is_ident_char_spec c :
  is_ident_char c = true <->
  (65 <= c /\ c <= 90) \/ (97 <= c /\ c <= 122) \/ (48 <= c /\ c <= 57) \/ c = 45.
Proof.
  unfold is_ident_char, is_digit.
  rewrite !orb_true_iff, !andb_true_iff, !N.leb_le, N.eqb_eq. tauto.
Qed.

Lemma is_digit_false c : ~ (48 <= c /\ c <= 57) -> is_digit c = false.
Proof.
  intros H. destruct (is_digit c) eqn:E; [|reflexivity].
  apply is_digit_spec in E. contradiction.
Qed.

Lemma digit_is_ident_char c : is_digit c = true -> is_ident_char c = true.
Proof. rewrite is_digit_spec, is_ident_char_spec. lia. Qed.

Lemma bs_eqb_eq x y : bs_eqb x y = true <-> x = y.
Proof. apply list_eqb_spec. apply N.eqb_eq. Qed.

Lemma bs_eqb_neq x y : bs_eqb x y = false <-> x <> y.
Proof.
  split.
  - intros H E. apply bs_eqb_eq in E. congruence.
  - intros H. destruct (bs_eqb x y) eqn:E; [|reflexivity]. apply bs_eqb_eq in E. contradiction.
Qed.

Lemma bs_eqb_refl x : bs_eqb x x = true.
Proof. apply bs_eqb_eq. reflexivity. Qed.

(* ====================================================================== *)
(* 1. the orders: comparison functions vs. inductive relations            *)
(* ====================================================================== *)

(* ---- byte strings ---- *)
Lemma bs_cmp_refl x : bs_cmp x x = Eq.
Proof. induction x as [|a x IH]; cbn; [reflexivity|]. rewrite N.compare_refl. exact IH. Qed.

Lemma bs_cmp_eq_iff x : forall y, bs_cmp x y = Eq <-> x = y.
Proof.
  induction x as [|a x IH]; intros [|b y]; cbn; try (split; [discriminate|discriminate]).
  - tauto.
  - destruct (a ?= b) eqn:E.
    + apply N.compare_eq_iff in E. subst b. rewrite IH. split; [intros ->; reflexivity|].
      intros H; injection H; auto.
    + split; [discriminate|]. intros H; injection H as -> _. rewrite N.compare_refl in E. discriminate.
    + split; [discriminate|]. intros H; injection H as -> _. rewrite N.compare_refl in E. discriminate.
Qed.

Lemma bs_cmp_antisym x : forall y, bs_cmp y x = CompOpp (bs_cmp x y).
Proof.
  induction x as [|a x IH]; intros [|b y]; cbn; try reflexivity.
  rewrite (N.compare_antisym a b). destruct (a ?= b); cbn; [apply IH|reflexivity|reflexivity].
Qed.

Lemma bs_cmp_lt_iff x y : bs_cmp x y = Lt <-> bs_lt x y.
Proof.
  split.
  - revert y. induction x as [|a x IH]; intros [|b y]; cbn; try discriminate.
    + intros _. constructor.
    + destruct (a ?= b) eqn:E; try discriminate.
      * apply N.compare_eq_iff in E. subst b. intros H. apply BL_tail. apply IH. exact H.
      * intros _. apply BL_head. apply N.compare_lt_iff. exact E.
  - intros H. induction H as [c y|a b x y Hab|a x y _ IH]; cbn.
    + reflexivity.
    + apply N.compare_lt_iff in Hab. rewrite Hab. reflexivity.
    + rewrite N.compare_refl. exact IH.
Qed.

Lemma bs_lt_trans x y z : bs_lt x y -> bs_lt y z -> bs_lt x z.
Proof.
  intros H. revert z. induction H as [c y|a b x y Hab|a x y Hxy IH]; intros z Hz;
    inversion Hz; subst.
  - apply BL_nil.
  - apply BL_nil.
  - apply BL_head. lia.
  - apply BL_head. exact Hab.
  - apply BL_head. assumption.
  - apply BL_tail. apply IH. assumption.
Qed.

(* ---- identifiers ---- *)
Lemma ident_cmp_eq_iff a b : ident_cmp a b = Eq <-> a = b.
Proof.
  destruct a as [x|s], b as [y|t]; cbn; try (split; discriminate).
  - rewrite N.compare_eq_iff. split; [intros ->; reflexivity|intros H; injection H; auto].
  - rewrite bs_cmp_eq_iff. split; [intros ->; reflexivity|intros H; injection H; auto].
Qed.

Lemma ident_cmp_antisym a b : ident_cmp b a = CompOpp (ident_cmp a b).
Proof.
  destruct a as [x|s], b as [y|t]; cbn; try reflexivity.
  - apply N.compare_antisym.
  - apply bs_cmp_antisym.
Qed.

Lemma ident_cmp_lt_iff a b : ident_cmp a b = Lt <-> ident_lt a b.
Proof.
  split.
  - destruct a as [x|s], b as [y|t]; cbn; intros H; try discriminate.
    + apply IL_num. apply N.compare_lt_iff. exact H.
    + apply IL_mixed.
    + apply IL_alnum. apply bs_cmp_lt_iff. exact H.
  - intros H. destruct H as [x y Hxy|s t Hst|x s]; cbn.
    + apply N.compare_lt_iff. exact Hxy.
    + apply bs_cmp_lt_iff. exact Hst.
    + reflexivity.
Qed.

Lemma ident_lt_trans a b c : ident_lt a b -> ident_lt b c -> ident_lt a c.
Proof.
  intros H1 H2. inversion H1; subst; inversion H2; subst.
  - apply IL_num. lia.
  - apply IL_mixed.
  - apply IL_alnum. eapply bs_lt_trans; eassumption.
  - apply IL_mixed.
Qed.

(* ---- identifier lists ---- *)
Lemma idents_cmp_eq_iff x : forall y, idents_cmp x y = Eq <-> x = y.
Proof.
  induction x as [|a x IH]; intros [|b y]; cbn; try (split; discriminate).
  - tauto.
  - destruct (ident_cmp a b) eqn:E.
    + apply ident_cmp_eq_iff in E. subst b. rewrite IH. split; [intros ->; reflexivity|].
      intros H; injection H; auto.
    + split; [discriminate|]. intros H; injection H as -> _.
      rewrite (proj2 (ident_cmp_eq_iff b b) eq_refl) in E. discriminate.
    + split; [discriminate|]. intros H; injection H as -> _.
      rewrite (proj2 (ident_cmp_eq_iff b b) eq_refl) in E. discriminate.
Qed.

Lemma idents_cmp_antisym x : forall y, idents_cmp y x = CompOpp (idents_cmp x y).
Proof.
  induction x as [|a x IH]; intros [|b y]; cbn; try reflexivity.
  rewrite (ident_cmp_antisym a b). destruct (ident_cmp a b); cbn; [apply IH|reflexivity|reflexivity].
Qed.

Lemma idents_cmp_lt_iff x y : idents_cmp x y = Lt <-> idents_lt x y.
Proof.
  split.
  - revert y. induction x as [|a x IH]; intros [|b y]; cbn; try discriminate.
    + intros _. constructor.
    + destruct (ident_cmp a b) eqn:E; try discriminate.
      * apply ident_cmp_eq_iff in E. subst b. intros H. apply PL_tail. apply IH. exact H.
      * intros _. apply PL_head. apply ident_cmp_lt_iff. exact E.
  - intros H. induction H as [y ys|a b x y Hab|a x y _ IH]; cbn.
    + reflexivity.
    + apply ident_cmp_lt_iff in Hab. rewrite Hab. reflexivity.
    + rewrite (proj2 (ident_cmp_eq_iff a a) eq_refl). exact IH.
Qed.

Lemma idents_lt_trans x y z : idents_lt x y -> idents_lt y z -> idents_lt x z.
Proof.
  intros H. revert z. induction H as [c y|a b x y Hab|a x y Hxy IH]; intros z Hz;
    inversion Hz; subst.
  - apply PL_more.
  - apply PL_more.
  - apply PL_head. eapply ident_lt_trans; eassumption.
  - apply PL_head. exact Hab.
  - apply PL_head. assumption.
  - apply PL_tail. apply IH. assumption.
Qed.

(* ---- pre-release fields ---- *)
Lemma pre_cmp_eq_iff x y : pre_cmp x y = Eq <-> x = y.
Proof.
  destruct x as [|a x], y as [|b y]; cbn [pre_cmp]; try (split; discriminate).
  - tauto.
  - apply idents_cmp_eq_iff.
Qed.

Lemma pre_cmp_antisym x y : pre_cmp y x = CompOpp (pre_cmp x y).
Proof.
  destruct x as [|a x], y as [|b y]; cbn [pre_cmp]; try reflexivity.
  apply idents_cmp_antisym.
Qed.

Lemma pre_cmp_lt_iff x y :
  pre_cmp x y = Lt <-> (x <> [] /\ y = []) \/ (x <> [] /\ y <> [] /\ idents_lt x y).
Proof.
  destruct x as [|a x], y as [|b y]; cbn [pre_cmp].
  - split; [discriminate|]. intros [[H _]|[H _]]; congruence.
  - split; [discriminate|]. intros [[H _]|[H _]]; congruence.
  - split; [|reflexivity]. intros _. left. split; [discriminate|reflexivity].
  - rewrite idents_cmp_lt_iff. split.
    + intros H. right. repeat split; [discriminate|discriminate|exact H].
    + intros [[_ H]|[_ [_ H]]]; [discriminate|exact H].
Qed.

(* ---- versions ---- *)
Theorem prec_cmp_eq_iff : forall a b, prec_cmp a b = Eq <-> a = b.
Proof.
  intros [a1 a2 a3 a4] [b1 b2 b3 b4]. unfold prec_cmp. cbn [v_major v_minor v_patch v_pre].
  split.
  - destruct (a1 ?= b1) eqn:E1; try discriminate.
    destruct (a2 ?= b2) eqn:E2; try discriminate.
    destruct (a3 ?= b3) eqn:E3; try discriminate.
    intros E4. apply N.compare_eq_iff in E1, E2, E3. apply pre_cmp_eq_iff in E4.
    subst. reflexivity.
  - intros H. injection H as -> -> -> ->. rewrite !N.compare_refl.
    apply pre_cmp_eq_iff. reflexivity.
Qed.

Lemma prec_cmp_antisym a b : prec_cmp b a = CompOpp (prec_cmp a b).
Proof.
  unfold prec_cmp.
  rewrite (N.compare_antisym (v_major a) (v_major b)).
  rewrite (N.compare_antisym (v_minor a) (v_minor b)).
  rewrite (N.compare_antisym (v_patch a) (v_patch b)).
  rewrite (pre_cmp_antisym (v_pre a) (v_pre b)).
  destruct (v_major a ?= v_major b); cbn; try reflexivity.
  destruct (v_minor a ?= v_minor b); cbn; try reflexivity.
  destruct (v_patch a ?= v_patch b); cbn; reflexivity.
Qed.

Theorem prec_cmp_lt_iff : forall a b, prec_cmp a b = Lt <-> prec_lt a b.
Proof.
  intros a b. split.
  - unfold prec_cmp.
    destruct (v_major a ?= v_major b) eqn:E1; try discriminate.
    2:{ intros _. apply PR_major. apply N.compare_lt_iff. exact E1. }
    apply N.compare_eq_iff in E1.
    destruct (v_minor a ?= v_minor b) eqn:E2; try discriminate.
    2:{ intros _. apply PR_minor; [exact E1|]. apply N.compare_lt_iff. exact E2. }
    apply N.compare_eq_iff in E2.
    destruct (v_patch a ?= v_patch b) eqn:E3; try discriminate.
    2:{ intros _. apply PR_patch; [exact E1|exact E2|]. apply N.compare_lt_iff. exact E3. }
    apply N.compare_eq_iff in E3.
    intros H. apply pre_cmp_lt_iff in H. destruct H as [[Ha Hb]|[Ha [Hb Hlt]]].
    + apply PR_release; assumption.
    + apply PR_pre; assumption.
  - intros H. unfold prec_cmp.
    destruct H as [a b H1|a b H1 H2|a b H1 H2 H3|a b H1 H2 H3 Ha Hb|a b H1 H2 H3 Ha Hb Hlt].
    + apply N.compare_lt_iff in H1. rewrite H1. reflexivity.
    + rewrite H1, N.compare_refl. apply N.compare_lt_iff in H2. rewrite H2. reflexivity.
    + rewrite H1, H2, !N.compare_refl. apply N.compare_lt_iff in H3. rewrite H3. reflexivity.
    + rewrite H1, H2, H3, !N.compare_refl. apply pre_cmp_lt_iff. left. split; assumption.
    + rewrite H1, H2, H3, !N.compare_refl. apply pre_cmp_lt_iff. right. repeat split; assumption.
Qed.

Theorem prec_cmp_gt_iff : forall a b, prec_cmp a b = Gt <-> prec_lt b a.
Proof.
  intros a b. rewrite <- prec_cmp_lt_iff, (prec_cmp_antisym a b).
  destruct (prec_cmp a b); cbn; split; congruence.
Qed.

Theorem prec_lt_irrefl : forall a, ~ prec_lt a a.
Proof.
  intros a H. apply prec_cmp_lt_iff in H.
  rewrite (proj2 (prec_cmp_eq_iff a a) eq_refl) in H. discriminate.
Qed.

Theorem prec_lt_trans : forall a b c, prec_lt a b -> prec_lt b c -> prec_lt a c.
Proof.
  intros a b c Hab Hbc.
  destruct Hab as [a b H1|a b H1 H2|a b H1 H2 H3|a b H1 H2 H3 Ha Hb|a b H1 H2 H3 Ha Hb Hlt];
  destruct Hbc as [b c G1|b c G1 G2|b c G1 G2 G3|b c G1 G2 G3 Gb Gc|b c G1 G2 G3 Gb Gc Glt].
  all: try (apply PR_major; lia).
  all: try (apply PR_minor; lia).
  all: try (apply PR_patch; lia).
  all: try contradiction.
  all: try congruence.
  - apply PR_release; try lia; assumption.
  - apply PR_pre; try lia; try assumption. eapply idents_lt_trans; eassumption.
Qed.

(* totality, for completeness *)
Theorem prec_lt_total : forall a b, prec_lt a b \/ a = b \/ prec_lt b a.
Proof.
  intros a b. destruct (prec_cmp a b) eqn:E.
  - right; left. apply prec_cmp_eq_iff. exact E.
  - left. apply prec_cmp_lt_iff. exact E.
  - right; right. apply prec_cmp_gt_iff. exact E.
Qed.

Theorem prec_of_antisym : forall v w, prec_of w v = CompOpp (prec_of v w).
Proof.
  intros v w. unfold prec_of.
  destruct (decode (bytes v)) as [a|], (decode (bytes w)) as [b|]; try reflexivity.
  apply prec_cmp_antisym.
Qed.

(* ====================================================================== *)
(* 2. decimal numerals                                                    *)
(* ====================================================================== *)

Fixpoint pow10 (n : nat) : N := match n with O => 1 | S n' => 10 * pow10 n' end.

Lemma pow10_pos n : 0 < pow10 n.
Proof. induction n as [|n IH]; cbn [pow10]; lia. Qed.

Lemma pow10_le n m : (n <= m)%nat -> pow10 n <= pow10 m.
Proof.
  intros H. induction H as [|m _ IH]; [lia|]. cbn [pow10]. pose proof (pow10_pos m). lia.
Qed.

Definition dstep (a c : N) : N := a * 10 + (c - 48).

Lemma dec_val_fold s : dec_val s = fold_left dstep s 0.
Proof. reflexivity. Qed.

Lemma dec_fold s : forall acc,
  fold_left dstep s acc = acc * pow10 (List.length s) + fold_left dstep s 0.
Proof.
  induction s as [|c s IH]; intros acc; cbn [fold_left List.length pow10].
  - lia.
  - rewrite (IH (dstep acc c)), (IH (dstep 0 c)). unfold dstep. lia.
Qed.

Lemma dec_val_nil : dec_val [] = 0.
Proof. reflexivity. Qed.

Lemma dec_val_cons c s : dec_val (c :: s) = (c - 48) * pow10 (List.length s) + dec_val s.
Proof.
  rewrite !dec_val_fold. cbn [fold_left]. rewrite dec_fold. unfold dstep. lia.
Qed.

Lemma is_num_cons c s : is_num (c :: s) = is_digit c && is_num s.
Proof. reflexivity. Qed.

Lemma dec_val_lt s : is_num s = true -> dec_val s < pow10 (List.length s).
Proof.
  induction s as [|c s IH]; intros H.
  - cbn. lia.
  - rewrite is_num_cons, andb_true_iff in H. destruct H as [Hc Hs].
    apply is_digit_spec in Hc. specialize (IH Hs).
    rewrite dec_val_cons. cbn [List.length pow10].
    remember (c - 48) as d eqn:Ed. remember (pow10 (List.length s)) as P eqn:EP.
    assert (Hd : d <= 9) by lia.
    assert (d * P <= 9 * P) by (apply N.mul_le_mono_r; exact Hd).
    lia.
Qed.

(* same length: text order = numeric order *)
Lemma same_len_cmp x : forall y,
  is_num x = true -> is_num y = true -> List.length x = List.length y ->
  bs_cmp x y = (dec_val x ?= dec_val y).
Proof.
  induction x as [|a x IH]; intros [|b y] Hx Hy Hl; try discriminate.
  - reflexivity.
  - rewrite is_num_cons, andb_true_iff in Hx, Hy.
    destruct Hx as [Ha Hx], Hy as [Hb Hy]. injection Hl as Hl.
    apply is_digit_spec in Ha, Hb.
    pose proof (dec_val_lt x Hx) as Bx. pose proof (dec_val_lt y Hy) as By.
    rewrite !dec_val_cons. rewrite <- Hl in *.
    remember (pow10 (List.length x)) as P eqn:EP.
    cbn [bs_cmp]. destruct (a ?= b) eqn:E.
    + apply N.compare_eq_iff in E. subst b. rewrite N.add_compare_mono_l.
      apply IH; assumption.
    + apply N.compare_lt_iff in E. symmetry. apply N.compare_lt_iff.
      remember (a - 48) as da eqn:Eda. remember (b - 48) as db eqn:Edb.
      assert (Hd : da + 1 <= db) by lia.
      assert ((da + 1) * P <= db * P) by (apply N.mul_le_mono_r; exact Hd).
      lia.
    + apply N.compare_gt_iff in E. symmetry. apply N.compare_gt_iff.
      remember (a - 48) as da eqn:Eda. remember (b - 48) as db eqn:Edb.
      assert (Hd : db + 1 <= da) by lia.
      assert ((db + 1) * P <= da * P) by (apply N.mul_le_mono_r; exact Hd).
      lia.
Qed.

(* a numeric field: digits, non-empty, no leading zero unless it is "0" *)
Definition good_num (s : bs) : Prop :=
  is_num s = true /\ s <> [] /\ (forall t, s = 48 :: t -> t = []).

Lemma shorter_lt x y :
  good_num x -> good_num y -> (List.length x < List.length y)%nat -> dec_val x < dec_val y.
Proof.
  intros (Hx & Hxn & _) (Hy & _ & Hy0) Hl.
  pose proof (dec_val_lt x Hx) as Bx.
  destruct y as [|c t]; [cbn in Hl; lia|].
  rewrite is_num_cons, andb_true_iff in Hy. destruct Hy as [Hc Ht]. apply is_digit_spec in Hc.
  cbn [List.length] in Hl.
  assert (Hc48 : c <> 48).
  { intros ->. specialize (Hy0 t eq_refl). subst t. cbn in Hl.
    destruct x; [congruence|cbn in Hl; lia]. }
  rewrite dec_val_cons.
  assert (Hp : pow10 (List.length x) <= pow10 (List.length t)) by (apply pow10_le; lia).
  remember (c - 48) as d eqn:Ed. remember (pow10 (List.length t)) as P eqn:EP.
  assert (Hd : 1 <= d) by lia.
  assert (1 * P <= d * P) by (apply N.mul_le_mono_r; exact Hd).
  lia.
Qed.

(* the order on numerals that compareInt and comparePrerelease use *)
Definition num_text_cmp (x y : bs) : comparison :=
  match Nat.compare (List.length x) (List.length y) with
  | Lt => Lt
  | Gt => Gt
  | Eq => match bs_cmp x y with Lt => Lt | _ => Gt end
  end.

Lemma num_text_cmp_spec x y :
  good_num x -> good_num y -> x <> y -> num_text_cmp x y = (dec_val x ?= dec_val y).
Proof.
  intros Hx Hy Hne. unfold num_text_cmp.
  destruct (Nat.compare (List.length x) (List.length y)) eqn:El.
  - apply Nat.compare_eq_iff in El.
    rewrite <- (same_len_cmp x y (proj1 Hx) (proj1 Hy) El).
    destruct (bs_cmp x y) eqn:E; try reflexivity.
    apply bs_cmp_eq_iff in E. contradiction.
  - apply Nat.compare_lt_iff in El. symmetry. apply N.compare_lt_iff.
    apply shorter_lt; assumption.
  - apply Nat.compare_gt_iff in El. symmetry. apply N.compare_gt_iff.
    apply shorter_lt; assumption.
Qed.

Lemma compare_int_spec x y :
  good_num x -> good_num y -> compare_int x y = (dec_val x ?= dec_val y).
Proof.
  intros Hx Hy. unfold compare_int. destruct (bs_eqb x y) eqn:E.
  - apply bs_eqb_eq in E. subst y. rewrite N.compare_refl. reflexivity.
  - apply bs_eqb_neq in E. apply (num_text_cmp_spec x y Hx Hy E).
Qed.

(* ====================================================================== *)
(* 3. the structure of SemVer strings                                     *)
(* ====================================================================== *)

Definition all_ident (s : bs) : Prop := forallb is_ident_char s = true.

(* pre-release identifier: identifier characters, non-empty, and if numeric
   then without a leading zero *)
Definition pre_ident (s : bs) : Prop :=
  all_ident s /\ s <> [] /\ (is_num s = true -> forall t, s = 48 :: t -> t = []).

Definition build_ident (s : bs) : Prop := all_ident s /\ s <> [].

(* x.l1.l2...: a first item followed by '.'-prefixed items *)
Definition dotted (x : bs) (l : list bs) : bs := x ++ flat_map (cons 46) l.

Record parts := mk_parts {
  pt_major : bs; pt_minor : bs; pt_patch : bs;
  pt_pre : option (bs * list bs);
  pt_build : option (bs * list bs) }.

Definition render_opt (sep : N) (o : option (bs * list bs)) : bs :=
  match o with None => [] | Some (x, l) => sep :: dotted x l end.

Definition render (p : parts) : bs :=
  pt_major p ++ 46 :: pt_minor p ++ 46 :: pt_patch p
    ++ render_opt 45 (pt_pre p) ++ render_opt 43 (pt_build p).

Definition opt_wf (P : bs -> Prop) (o : option (bs * list bs)) : Prop :=
  match o with None => True | Some (x, l) => P x /\ Forall P l end.

Definition wf (p : parts) : Prop :=
  good_num (pt_major p) /\ good_num (pt_minor p) /\ good_num (pt_patch p) /\
  opt_wf pre_ident (pt_pre p) /\ opt_wf build_ident (pt_build p).

(* ---- the regular expression, by components ---- *)
Local Notation c_digits := (CStar (CCls [(48,57)])).
Local Notation c_icls := (CCls [(45,45); (48,57); (65,90); (97,122)]).
Local Notation c_dot := (CCls [(46,46)]).

Definition c_num : cre :=
  CAlt (CCls [(48,48)]) (CAlt (CCat (CCls [(49,57)]) (CCat c_digits CEps)) CNone).

Definition c_preid : cre :=
  CAlt (CCls [(48,48)])
    (CAlt (CCat (CCls [(49,57)]) (CCat c_digits CEps))
       (CAlt (CCat c_digits (CCat (CCls [(45,45); (65,90); (97,122)]) (CCat (CStar c_icls) CEps)))
          CNone)).

Definition c_pre : cre :=
  CCat (CCls [(45,45)])
    (CCat (CCat c_preid (CCat (CStar (CCat c_dot (CCat c_preid CEps))) CEps)) CEps).

Definition c_bid : cre := CCat c_icls (CStar c_icls).

Definition c_build : cre :=
  CCat (CCls [(43,43)])
    (CCat (CCat c_bid (CCat (CStar (CCat c_dot (CCat c_bid CEps))) CEps)) CEps).

Definition c_semver : cre :=
  CCat CEps (CCat c_num (CCat c_dot (CCat c_num (CCat c_dot (CCat c_num
    (CCat (CAlt CEps c_pre) (CCat (CAlt CEps c_build) (CCat CEps CEps)))))))).

Lemma core_semver : core gen_re_semver = c_semver.
Proof. reflexivity. Qed.

Ltac inv_lang :=
  repeat match goal with
  | H : lang CNone _ |- _ => apply lang_none_inv in H; contradiction
  | H : lang CEps _ |- _ => apply lang_eps_inv in H; subst
  | H : lang (CCls _) _ |- _ =>
      apply lang_cls_inv in H;
      let c := fresh "c" in let Hc := fresh "Hc" in destruct H as (c & -> & Hc)
  | H : lang (CCat _ _) _ |- _ =>
      apply lang_cat_inv in H;
      let s1 := fresh "s" in let s2 := fresh "s" in
      let H1 := fresh "H" in let H2 := fresh "H" in
      destruct H as (s1 & s2 & -> & H1 & H2)
  | H : lang (CAlt _ _) _ |- _ => apply lang_alt_inv in H; destruct H as [H|H]
  | H : lang (CStar (CCls _)) _ |- _ => apply lang_star_cls in H
  end.

(* ---- character classes ---- *)
Lemma cls_one c k : in_cls c [(k, k)] = true -> c = k.
Proof. rewrite in_cls_cons, in_cls_nil. intros [H|H]; [lia|discriminate]. Qed.

Lemma cls_digit c : in_cls c [(48,57)] = true -> is_digit c = true.
Proof. rewrite in_cls_cons, in_cls_nil, is_digit_spec. intros [H|H]; [lia|discriminate]. Qed.

Lemma cls_19 c : in_cls c [(49,57)] = true -> is_digit c = true /\ c <> 48.
Proof. rewrite in_cls_cons, in_cls_nil, is_digit_spec. intros [H|H]; [lia|discriminate]. Qed.

Lemma cls_ic c : in_cls c [(45,45); (48,57); (65,90); (97,122)] = true -> is_ident_char c = true.
Proof.
  rewrite !in_cls_cons, in_cls_nil, is_ident_char_spec.
  intros [H|[H|[H|[H|H]]]]; [lia|lia|lia|lia|discriminate].
Qed.

Lemma cls_letter c :
  in_cls c [(45,45); (65,90); (97,122)] = true -> is_ident_char c = true /\ is_digit c = false.
Proof.
  rewrite !in_cls_cons, in_cls_nil, is_ident_char_spec.
  intros H. split.
  - destruct H as [H|[H|[H|H]]]; [lia|lia|lia|discriminate].
  - apply is_digit_false. destruct H as [H|[H|[H|H]]]; [lia|lia|lia|discriminate].
Qed.

Lemma Forall_digits s : Forall (fun c => in_cls c [(48,57)] = true) s -> is_num s = true.
Proof.
  intros H. apply forallb_Forall_iff. eapply Forall_impl; [|exact H]. apply cls_digit.
Qed.

Lemma Forall_ic s :
  Forall (fun c => in_cls c [(45,45); (48,57); (65,90); (97,122)] = true) s -> all_ident s.
Proof.
  intros H. apply forallb_Forall_iff. eapply Forall_impl; [|exact H]. apply cls_ic.
Qed.

Lemma is_num_all_ident s : is_num s = true -> all_ident s.
Proof.
  intros H. apply forallb_Forall_iff. apply forallb_Forall_iff in H.
  eapply Forall_impl; [|exact H]. apply digit_is_ident_char.
Qed.

(* ---- components ---- *)
Lemma lang_c_num s : lang c_num s -> good_num s.
Proof.
  intros H. unfold c_num in H. inv_lang.
  - apply cls_one in Hc. subst c. repeat split; [discriminate|].
    intros t E. injection E as <-. reflexivity.
  - rewrite app_nil_r. apply cls_19 in Hc. destruct Hc as [Hc Hc0].
    apply Forall_digits in H. cbn [app]. repeat split.
    + rewrite is_num_cons, Hc, H. reflexivity.
    + discriminate.
    + intros t E. injection E as E _. contradiction.
Qed.

Lemma lang_c_preid s : lang c_preid s -> pre_ident s.
Proof.
  intros H. unfold c_preid in H. inv_lang.
  - apply cls_one in Hc. subst c. repeat split; [discriminate|].
    intros _ t E. injection E as <-. reflexivity.
  - rewrite app_nil_r. apply cls_19 in Hc. destruct Hc as [Hc Hc0].
    apply Forall_digits in H. cbn [app]. repeat split.
    + apply is_num_all_ident. rewrite is_num_cons, Hc, H. reflexivity.
    + discriminate.
    + intros _ t E. injection E as E _. contradiction.
  - rewrite app_nil_r. apply cls_letter in Hc. destruct Hc as [Hc Hcd].
    apply Forall_digits in H0. apply Forall_ic in H. cbn [app]. repeat split.
    + unfold all_ident. rewrite forallb_app. cbn [forallb].
      rewrite (is_num_all_ident _ H0), Hc, H. reflexivity.
    + destruct s0; discriminate.
    + intros Hn. exfalso. unfold is_num in Hn. rewrite forallb_app in Hn. cbn [forallb] in Hn.
      rewrite Hcd, andb_false_r in Hn. discriminate.
Qed.

Lemma lang_c_bid s : lang c_bid s -> build_ident s.
Proof.
  intros H. unfold c_bid in H. inv_lang. apply cls_ic in Hc. apply Forall_ic in H.
  cbn [app]. split; [|discriminate].
  unfold all_ident. cbn [forallb]. rewrite Hc. exact H.
Qed.

Lemma lang_c_pre s :
  lang c_pre s -> exists x l, s = 45 :: dotted x l /\ pre_ident x /\ Forall pre_ident l.
Proof.
  intros H. unfold c_pre in H. inv_lang. apply cls_one in Hc. subst c.
  apply (lang_star_sep 46 c_preid pre_ident _ lang_c_preid) in H1.
  destruct H1 as (l & -> & Hl). apply lang_c_preid in H.
  exists s0, l. rewrite !app_nil_r. cbn [app]. repeat split; assumption.
Qed.

Lemma lang_c_build s :
  lang c_build s -> exists x l, s = 43 :: dotted x l /\ build_ident x /\ Forall build_ident l.
Proof.
  intros H. unfold c_build in H. inv_lang. apply cls_one in Hc. subst c.
  apply (lang_star_sep 46 c_bid build_ident _ lang_c_bid) in H1.
  destruct H1 as (l & -> & Hl). apply lang_c_bid in H.
  exists s0, l. rewrite !app_nil_r. cbn [app]. repeat split; assumption.
Qed.

Lemma lang_c_semver w : lang c_semver w -> exists p, wf p /\ w = render p.
Proof.
  intros H. unfold c_semver in H. inv_lang.
  all: repeat match goal with
       | H : in_cls _ [(46,46)] = true |- _ => apply cls_one in H; subst
       | H : lang c_num _ |- _ => apply lang_c_num in H
       | H : lang c_pre _ |- _ =>
           apply lang_c_pre in H; let x := fresh "x" in let l := fresh "l" in
           destruct H as (x & l & -> & ? & ?)
       | H : lang c_build _ |- _ =>
           apply lang_c_build in H; let x := fresh "bx" in let l := fresh "bl" in
           destruct H as (x & l & -> & ? & ?)
       end.
  - exists (mk_parts s s1 s3 None None). split.
    + unfold wf, opt_wf; cbn. tauto.
    + unfold render; cbn. rewrite ?app_nil_r. reflexivity.
  - exists (mk_parts s s1 s3 None (Some (bx, bl))). split.
    + unfold wf, opt_wf; cbn. tauto.
    + unfold render; cbn. rewrite ?app_nil_r. reflexivity.
  - exists (mk_parts s s1 s3 (Some (x, l)) None). split.
    + unfold wf, opt_wf; cbn. tauto.
    + unfold render; cbn. rewrite ?app_nil_r. reflexivity.
  - exists (mk_parts s s1 s3 (Some (x, l)) (Some (bx, bl))). split.
    + unfold wf, opt_wf; cbn. tauto.
    + unfold render; cbn. rewrite ?app_nil_r. reflexivity.
Qed.

Theorem valid_struct s : sv_valid s = true -> exists p, wf p /\ bytes s = render p.
Proof.
  unfold sv_valid. rewrite matches_lang, core_semver. apply lang_c_semver.
Qed.
