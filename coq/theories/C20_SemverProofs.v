(* C20_SemverProofs.v — theorems about C20_Semver.v:
   - a string accepted by the SemVer regular expression of /repo has the SemVer
     structure (proved through the denotational semantics of C20_ReLang.v);
   - on such strings x/mod/semver's parser succeeds, the declarative reading
     [decode] succeeds, and semver.Compare computes exactly the SemVer 2.0.0
     section 11 precedence [prec_cmp] of the decoded versions;
   - [prec_cmp] is the inductive relation [prec_lt], a strict total order;
   - build metadata is ignored.
   No axioms: see the Print Assumptions at the end. *)
From NV Require Import Base Regex Generated C20_Semver C20_ReLang.
Open Scope N_scope.
Open Scope list_scope.

(* ====================================================================== *)
(* 0. small tools                                                         *)
(* ====================================================================== *)

Lemma forallb_Forall_iff {A} (f : A -> bool) l :
  forallb f l = true <-> Forall (fun x => f x = true) l.
Proof.
  induction l as [|x l IH]; cbn.
  - split; [constructor|reflexivity].
  - rewrite andb_true_iff, IH. split.
    + intros [H1 H2]. constructor; assumption.
    + intros H. inversion H; subst. split; assumption.
Qed.

Lemma is_digit_spec c : is_digit c = true <-> 48 <= c /\ c <= 57.
Proof. unfold is_digit. rewrite andb_true_iff, !N.leb_le. tauto. Qed.

Lemma is_ident_char_spec c :
  is_ident_char c = true <->
  (65 <= c /\ c <= 90) \/ (97 <= c /\ c <= 122) \/ (48 <= c /\ c <= 57) \/ c = 45.
Proof.
  unfold is_ident_char, is_digit.
  rewrite !orb_true_iff, !andb_true_iff, !N.leb_le, N.eqb_eq. tauto.
Qed.

Lemma is_digit_false c : ~ (48 <= c /\ c <= 57) -> is_digit c = false.
Proof.
  intros H. destruct (is_digit c) eqn:E; [|reflexivity].
  apply is_digit_spec in E. contradiction.
Qed.

Lemma digit_is_ident_char c : is_digit c = true -> is_ident_char c = true.
Proof. rewrite is_digit_spec, is_ident_char_spec. lia. Qed.

Lemma bs_eqb_eq x y : bs_eqb x y = true <-> x = y.
Proof. apply list_eqb_spec. apply N.eqb_eq. Qed.

Lemma bs_eqb_neq x y : bs_eqb x y = false <-> x <> y.
Proof.
  split.
  - intros H E. apply bs_eqb_eq in E. congruence.
  - intros H. destruct (bs_eqb x y) eqn:E; [|reflexivity]. apply bs_eqb_eq in E. contradiction.
Qed.

Lemma bs_eqb_refl x : bs_eqb x x = true.
Proof. apply bs_eqb_eq. reflexivity. Qed.

(* ====================================================================== *)
(* 1. the orders: comparison functions vs. inductive relations            *)
(* ====================================================================== *)

(* ---- byte strings ---- *)
Lemma bs_cmp_refl x : bs_cmp x x = Eq.
Proof. induction x as [|a x IH]; cbn; [reflexivity|]. rewrite N.compare_refl. exact IH. Qed.

Lemma bs_cmp_eq_iff x : forall y, bs_cmp x y = Eq <-> x = y.
Proof.
  induction x as [|a x IH]; intros [|b y]; cbn; try (split; [discriminate|discriminate]).
  - tauto.
  - destruct (a ?= b) eqn:E.
    + apply N.compare_eq_iff in E. subst b. rewrite IH. split; [intros ->; reflexivity|].
      intros H; injection H; auto.
    + split; [discriminate|]. intros H; injection H as -> _. rewrite N.compare_refl in E. discriminate.
    + split; [discriminate|]. intros H; injection H as -> _. rewrite N.compare_refl in E. discriminate.
Qed.

Lemma bs_cmp_antisym x : forall y, bs_cmp y x = CompOpp (bs_cmp x y).
Proof.
  induction x as [|a x IH]; intros [|b y]; cbn; try reflexivity.
  rewrite (N.compare_antisym a b). destruct (a ?= b); cbn; [apply IH|reflexivity|reflexivity].
Qed.

Lemma bs_cmp_lt_iff x y : bs_cmp x y = Lt <-> bs_lt x y.
Proof.
  split.
  - revert y. induction x as [|a x IH]; intros [|b y]; cbn; try discriminate.
    + intros _. constructor.
    + destruct (a ?= b) eqn:E; try discriminate.
      * apply N.compare_eq_iff in E. subst b. intros H. apply BL_tail. apply IH. exact H.
      * intros _. apply BL_head. apply N.compare_lt_iff. exact E.
  - intros H. induction H as [c y|a b x y Hab|a x y _ IH]; cbn.
    + reflexivity.
    + unfold N.lt in Hab. rewrite Hab. reflexivity.
    + rewrite N.compare_refl. exact IH.
Qed.

Lemma bs_lt_trans x y z : bs_lt x y -> bs_lt y z -> bs_lt x z.
Proof.
  intros H. revert z. induction H as [c y|a b x y Hab|a x y Hxy IH]; intros z Hz;
    inversion Hz; subst.
  - apply BL_nil.
  - apply BL_nil.
  - apply BL_head. lia.
  - apply BL_head. exact Hab.
  - apply BL_head. assumption.
  - apply BL_tail. apply IH. assumption.
Qed.

(* ---- identifiers ---- *)
Lemma ident_cmp_eq_iff a b : ident_cmp a b = Eq <-> a = b.
Proof.
  destruct a as [x|s], b as [y|t]; cbn; try (split; discriminate).
  - rewrite N.compare_eq_iff. split; [intros ->; reflexivity|intros H; injection H; auto].
  - rewrite bs_cmp_eq_iff. split; [intros ->; reflexivity|intros H; injection H; auto].
Qed.

Lemma ident_cmp_antisym a b : ident_cmp b a = CompOpp (ident_cmp a b).
Proof.
  destruct a as [x|s], b as [y|t]; cbn; try reflexivity.
  - apply N.compare_antisym.
  - apply bs_cmp_antisym.
Qed.

Lemma ident_cmp_lt_iff a b : ident_cmp a b = Lt <-> ident_lt a b.
Proof.
  split.
  - destruct a as [x|s], b as [y|t]; cbn; intros H; try discriminate.
    + apply IL_num. apply N.compare_lt_iff. exact H.
    + apply IL_mixed.
    + apply IL_alnum. apply bs_cmp_lt_iff. exact H.
  - intros H. destruct H as [x y Hxy|s t Hst|x s]; cbn.
    + apply N.compare_lt_iff. exact Hxy.
    + apply bs_cmp_lt_iff. exact Hst.
    + reflexivity.
Qed.

Lemma ident_lt_trans a b c : ident_lt a b -> ident_lt b c -> ident_lt a c.
Proof.
  intros H1 H2. inversion H1; subst; inversion H2; subst.
  - apply IL_num. lia.
  - apply IL_mixed.
  - apply IL_alnum. eapply bs_lt_trans; eassumption.
  - apply IL_mixed.
Qed.

(* ---- identifier lists ---- *)
Lemma idents_cmp_eq_iff x : forall y, idents_cmp x y = Eq <-> x = y.
Proof.
  induction x as [|a x IH]; intros [|b y]; cbn; try (split; discriminate).
  - tauto.
  - destruct (ident_cmp a b) eqn:E.
    + apply ident_cmp_eq_iff in E. subst b. rewrite IH. split; [intros ->; reflexivity|].
      intros H; injection H; auto.
    + split; [discriminate|]. intros H; injection H as -> _.
      rewrite (proj2 (ident_cmp_eq_iff b b) eq_refl) in E. discriminate.
    + split; [discriminate|]. intros H; injection H as -> _.
      rewrite (proj2 (ident_cmp_eq_iff b b) eq_refl) in E. discriminate.
Qed.

Lemma idents_cmp_antisym x : forall y, idents_cmp y x = CompOpp (idents_cmp x y).
Proof.
  induction x as [|a x IH]; intros [|b y]; cbn; try reflexivity.
  rewrite (ident_cmp_antisym a b). destruct (ident_cmp a b); cbn; [apply IH|reflexivity|reflexivity].
Qed.

Lemma idents_cmp_lt_iff x y : idents_cmp x y = Lt <-> idents_lt x y.
Proof.
  split.
  - revert y. induction x as [|a x IH]; intros [|b y]; cbn; try discriminate.
    + intros _. constructor.
    + destruct (ident_cmp a b) eqn:E; try discriminate.
      * apply ident_cmp_eq_iff in E. subst b. intros H. apply PL_tail. apply IH. exact H.
      * intros _. apply PL_head. apply ident_cmp_lt_iff. exact E.
  - intros H. induction H as [y ys|a b x y Hab|a x y _ IH]; cbn.
    + reflexivity.
    + apply ident_cmp_lt_iff in Hab. rewrite Hab. reflexivity.
    + rewrite (proj2 (ident_cmp_eq_iff a a) eq_refl). exact IH.
Qed.

Lemma idents_lt_trans x y z : idents_lt x y -> idents_lt y z -> idents_lt x z.
Proof.
  intros H. revert z. induction H as [c y|a b x y Hab|a x y Hxy IH]; intros z Hz;
    inversion Hz; subst.
  - apply PL_more.
  - apply PL_more.
  - apply PL_head. eapply ident_lt_trans; eassumption.
  - apply PL_head. exact Hab.
  - apply PL_head. assumption.
  - apply PL_tail. apply IH. assumption.
Qed.

(* ---- pre-release fields ---- *)
Lemma pre_cmp_eq_iff x y : pre_cmp x y = Eq <-> x = y.
Proof.
  destruct x as [|a x], y as [|b y]; cbn [pre_cmp]; try (split; discriminate).
  - tauto.
  - apply idents_cmp_eq_iff.
Qed.

Lemma pre_cmp_antisym x y : pre_cmp y x = CompOpp (pre_cmp x y).
Proof.
  destruct x as [|a x], y as [|b y]; cbn [pre_cmp]; try reflexivity.
  apply idents_cmp_antisym.
Qed.

Lemma pre_cmp_lt_iff x y :
  pre_cmp x y = Lt <-> (x <> [] /\ y = []) \/ (x <> [] /\ y <> [] /\ idents_lt x y).
Proof.
  destruct x as [|a x], y as [|b y]; cbn [pre_cmp].
  - split; [discriminate|]. intros [[H _]|[H _]]; congruence.
  - split; [discriminate|]. intros [[H _]|[H _]]; congruence.
  - split; [|reflexivity]. intros _. left. split; [discriminate|reflexivity].
  - rewrite idents_cmp_lt_iff. split.
    + intros H. right. repeat split; [discriminate|discriminate|exact H].
    + intros [[_ H]|[_ [_ H]]]; [discriminate|exact H].
Qed.

(* ---- versions ---- *)
Theorem prec_cmp_eq_iff : forall a b, prec_cmp a b = Eq <-> a = b.
Proof.
  intros [a1 a2 a3 a4] [b1 b2 b3 b4]. unfold prec_cmp. cbn [v_major v_minor v_patch v_pre].
  split.
  - destruct (a1 ?= b1) eqn:E1; try discriminate.
    destruct (a2 ?= b2) eqn:E2; try discriminate.
    destruct (a3 ?= b3) eqn:E3; try discriminate.
    intros E4. apply N.compare_eq_iff in E1, E2, E3. apply pre_cmp_eq_iff in E4.
    subst. reflexivity.
  - intros H. injection H as -> -> -> ->. rewrite !N.compare_refl.
    apply pre_cmp_eq_iff. reflexivity.
Qed.

Lemma prec_cmp_antisym a b : prec_cmp b a = CompOpp (prec_cmp a b).
Proof.
  unfold prec_cmp.
  rewrite (N.compare_antisym (v_major a) (v_major b)).
  rewrite (N.compare_antisym (v_minor a) (v_minor b)).
  rewrite (N.compare_antisym (v_patch a) (v_patch b)).
  rewrite (pre_cmp_antisym (v_pre a) (v_pre b)).
  destruct (v_major a ?= v_major b); cbn; try reflexivity.
  destruct (v_minor a ?= v_minor b); cbn; try reflexivity.
  destruct (v_patch a ?= v_patch b); cbn; reflexivity.
Qed.

Theorem prec_cmp_lt_iff : forall a b, prec_cmp a b = Lt <-> prec_lt a b.
Proof.
  intros a b. split.
  - unfold prec_cmp.
    destruct (v_major a ?= v_major b) eqn:E1; try discriminate.
    2:{ intros _. apply PR_major. apply N.compare_lt_iff. exact E1. }
    apply N.compare_eq_iff in E1.
    destruct (v_minor a ?= v_minor b) eqn:E2; try discriminate.
    2:{ intros _. apply PR_minor; [exact E1|]. apply N.compare_lt_iff. exact E2. }
    apply N.compare_eq_iff in E2.
    destruct (v_patch a ?= v_patch b) eqn:E3; try discriminate.
    2:{ intros _. apply PR_patch; [exact E1|exact E2|]. apply N.compare_lt_iff. exact E3. }
    apply N.compare_eq_iff in E3.
    intros H. apply pre_cmp_lt_iff in H. destruct H as [[Ha Hb]|[Ha [Hb Hlt]]].
    + apply PR_release; assumption.
    + apply PR_pre; assumption.
  - intros H. unfold prec_cmp.
    destruct H as [a b H1|a b H1 H2|a b H1 H2 H3|a b H1 H2 H3 Ha Hb|a b H1 H2 H3 Ha Hb Hlt].
    + unfold N.lt in H1. rewrite H1. reflexivity.
    + rewrite H1, N.compare_refl. unfold N.lt in H2. rewrite H2. reflexivity.
    + rewrite H1, H2, !N.compare_refl. unfold N.lt in H3. rewrite H3. reflexivity.
    + rewrite H1, H2, H3, !N.compare_refl. apply pre_cmp_lt_iff. left. split; assumption.
    + rewrite H1, H2, H3, !N.compare_refl. apply pre_cmp_lt_iff. right. repeat split; assumption.
Qed.

Theorem prec_cmp_gt_iff : forall a b, prec_cmp a b = Gt <-> prec_lt b a.
Proof.
  intros a b. rewrite <- prec_cmp_lt_iff, (prec_cmp_antisym a b).
  destruct (prec_cmp a b); cbn; split; congruence.
Qed.

Theorem prec_lt_irrefl : forall a, ~ prec_lt a a.
Proof.
  intros a H. apply prec_cmp_lt_iff in H.
  rewrite (proj2 (prec_cmp_eq_iff a a) eq_refl) in H. discriminate.
Qed.

Theorem prec_lt_trans : forall a b c, prec_lt a b -> prec_lt b c -> prec_lt a c.
Proof.
  intros a b c Hab Hbc.
  destruct Hab as [a b H1|a b H1 H2|a b H1 H2 H3|a b H1 H2 H3 Ha Hb|a b H1 H2 H3 Ha Hb Hlt];
  destruct Hbc as [b c G1|b c G1 G2|b c G1 G2 G3|b c G1 G2 G3 Gb Gc|b c G1 G2 G3 Gb Gc Glt].
  all: try (apply PR_major; lia).
  all: try (apply PR_minor; lia).
  all: try (apply PR_patch; lia).
  all: try contradiction.
  all: try congruence.
  - apply PR_release; try lia; assumption.
  - apply PR_pre; try lia; try assumption. eapply idents_lt_trans; eassumption.
Qed.

(* totality, for completeness *)
Theorem prec_lt_total : forall a b, prec_lt a b \/ a = b \/ prec_lt b a.
Proof.
  intros a b. destruct (prec_cmp a b) eqn:E.
  - right; left. apply prec_cmp_eq_iff. exact E.
  - left. apply prec_cmp_lt_iff. exact E.
  - right; right. apply prec_cmp_gt_iff. exact E.
Qed.

Theorem prec_of_antisym : forall v w, prec_of w v = CompOpp (prec_of v w).
Proof.
  intros v w. unfold prec_of.
  destruct (decode (bytes v)) as [a|], (decode (bytes w)) as [b|]; try reflexivity.
  apply prec_cmp_antisym.
Qed.

(* ====================================================================== *)
(* 2. decimal numerals                                                    *)
(* ====================================================================== *)

Fixpoint pow10 (n : nat) : N := match n with O => 1 | S n' => 10 * pow10 n' end.

Lemma pow10_pos n : 0 < pow10 n.
Proof. induction n as [|n IH]; cbn [pow10]; lia. Qed.

Lemma pow10_le n m : (n <= m)%nat -> pow10 n <= pow10 m.
Proof.
  intros H. induction H as [|m _ IH]; [lia|]. cbn [pow10]. pose proof (pow10_pos m). lia.
Qed.

Definition dstep (a c : N) : N := a * 10 + (c - 48).

Lemma dec_val_fold s : dec_val s = fold_left dstep s 0.
Proof. reflexivity. Qed.

Lemma dec_fold s : forall acc,
  fold_left dstep s acc = acc * pow10 (List.length s) + fold_left dstep s 0.
Proof.
  induction s as [|c s IH]; intros acc; cbn [fold_left List.length pow10].
  - lia.
  - rewrite (IH (dstep acc c)), (IH (dstep 0 c)). unfold dstep. lia.
Qed.

Lemma dec_val_nil : dec_val [] = 0.
Proof. reflexivity. Qed.

Lemma dec_val_cons c s : dec_val (c :: s) = (c - 48) * pow10 (List.length s) + dec_val s.
Proof.
  rewrite !dec_val_fold. cbn [fold_left]. rewrite dec_fold. unfold dstep. lia.
Qed.

Lemma is_num_cons c s : is_num (c :: s) = is_digit c && is_num s.
Proof. reflexivity. Qed.

Lemma dec_val_lt s : is_num s = true -> dec_val s < pow10 (List.length s).
Proof.
  induction s as [|c s IH]; intros H.
  - cbn. lia.
  - rewrite is_num_cons, andb_true_iff in H. destruct H as [Hc Hs].
    apply is_digit_spec in Hc. specialize (IH Hs).
    rewrite dec_val_cons. cbn [List.length pow10].
    remember (c - 48) as d eqn:Ed. remember (pow10 (List.length s)) as P eqn:EP.
    assert (Hd : d <= 9) by lia.
    assert (d * P <= 9 * P) by (apply N.mul_le_mono_r; exact Hd).
    lia.
Qed.

Lemma Ncmp_lt n m : (n ?= m) = Lt -> n < m.
Proof. apply N.compare_lt_iff. Qed.
Lemma Ncmp_gt n m : (n ?= m) = Gt -> m < n.
Proof. apply N.compare_gt_iff. Qed.
Lemma lt_Ncmp n m : n < m -> (n ?= m) = Lt.
Proof. apply N.compare_lt_iff. Qed.
Lemma gt_Ncmp n m : m < n -> (n ?= m) = Gt.
Proof. apply N.compare_gt_iff. Qed.

Lemma N_add_compare_l p n m : (p + n ?= p + m) = (n ?= m).
Proof.
  destruct (n ?= m) eqn:E.
  - apply N.compare_eq_iff in E. subst. apply N.compare_refl.
  - apply Ncmp_lt in E. apply lt_Ncmp. lia.
  - apply Ncmp_gt in E. apply gt_Ncmp. lia.
Qed.

(* same length: text order = numeric order *)
Lemma same_len_cmp x : forall y,
  is_num x = true -> is_num y = true -> List.length x = List.length y ->
  bs_cmp x y = (dec_val x ?= dec_val y).
Proof.
  induction x as [|a x IH]; intros [|b y] Hx Hy Hl; try discriminate.
  - reflexivity.
  - rewrite is_num_cons, andb_true_iff in Hx, Hy.
    destruct Hx as [Ha Hx], Hy as [Hb Hy]. injection Hl as Hl.
    apply is_digit_spec in Ha, Hb.
    pose proof (dec_val_lt x Hx) as Bx. pose proof (dec_val_lt y Hy) as By.
    rewrite !dec_val_cons. rewrite <- Hl in *.
    remember (pow10 (List.length x)) as P eqn:EP.
    cbn [bs_cmp]. destruct (a ?= b) eqn:E.
    + apply N.compare_eq_iff in E. subst b. rewrite N_add_compare_l.
      apply IH; assumption.
    + apply Ncmp_lt in E. symmetry. apply lt_Ncmp.
      remember (a - 48) as da eqn:Eda. remember (b - 48) as db eqn:Edb.
      assert (Hd : da + 1 <= db) by lia.
      assert ((da + 1) * P <= db * P) by (apply N.mul_le_mono_r; exact Hd).
      lia.
    + apply Ncmp_gt in E. symmetry. apply gt_Ncmp.
      remember (a - 48) as da eqn:Eda. remember (b - 48) as db eqn:Edb.
      assert (Hd : db + 1 <= da) by lia.
      assert ((db + 1) * P <= da * P) by (apply N.mul_le_mono_r; exact Hd).
      lia.
Qed.

(* a numeric field: digits, non-empty, no leading zero unless it is "0" *)
Definition good_num (s : bs) : Prop :=
  is_num s = true /\ s <> [] /\ (forall t, s = 48 :: t -> t = []).

Lemma shorter_lt x y :
  good_num x -> good_num y -> (List.length x < List.length y)%nat -> dec_val x < dec_val y.
Proof.
  intros (Hx & Hxn & _) (Hy & _ & Hy0) Hl.
  pose proof (dec_val_lt x Hx) as Bx.
  destruct y as [|c t]; [cbn in Hl; lia|].
  rewrite is_num_cons, andb_true_iff in Hy. destruct Hy as [Hc Ht]. apply is_digit_spec in Hc.
  cbn [List.length] in Hl.
  assert (Hc48 : c <> 48).
  { intros ->. specialize (Hy0 t eq_refl). subst t. cbn in Hl.
    destruct x; [congruence|cbn in Hl; lia]. }
  rewrite dec_val_cons.
  assert (Hp : pow10 (List.length x) <= pow10 (List.length t)) by (apply pow10_le; lia).
  remember (c - 48) as d eqn:Ed. remember (pow10 (List.length t)) as P eqn:EP.
  assert (Hd : 1 <= d) by lia.
  assert (1 * P <= d * P) by (apply N.mul_le_mono_r; exact Hd).
  lia.
Qed.

(* the order on numerals that compareInt and comparePrerelease use *)
Definition num_text_cmp (x y : bs) : comparison :=
  match Nat.compare (List.length x) (List.length y) with
  | Lt => Lt
  | Gt => Gt
  | Eq => match bs_cmp x y with Lt => Lt | _ => Gt end
  end.

Lemma num_text_cmp_spec x y :
  good_num x -> good_num y -> x <> y -> num_text_cmp x y = (dec_val x ?= dec_val y).
Proof.
  intros Hx Hy Hne. unfold num_text_cmp.
  destruct (Nat.compare (List.length x) (List.length y)) eqn:El.
  - apply Nat.compare_eq_iff in El.
    rewrite <- (same_len_cmp x y (proj1 Hx) (proj1 Hy) El).
    destruct (bs_cmp x y) eqn:E; try reflexivity.
    apply bs_cmp_eq_iff in E. contradiction.
  - apply Nat.compare_lt_iff in El. symmetry. apply lt_Ncmp.
    apply shorter_lt; assumption.
  - apply Nat.compare_gt_iff in El. symmetry. apply gt_Ncmp.
    apply shorter_lt; assumption.
Qed.

Lemma compare_int_spec x y :
  good_num x -> good_num y -> compare_int x y = (dec_val x ?= dec_val y).
Proof.
  intros Hx Hy. unfold compare_int. destruct (bs_eqb x y) eqn:E.
  - apply bs_eqb_eq in E. subst y. rewrite N.compare_refl. reflexivity.
  - apply bs_eqb_neq in E. apply (num_text_cmp_spec x y Hx Hy E).
Qed.

(* ====================================================================== *)
(* 3. the structure of SemVer strings                                     *)
(* ====================================================================== *)

Definition all_ident (s : bs) : Prop := forallb is_ident_char s = true.

(* pre-release identifier: identifier characters, non-empty, and if numeric
   then without a leading zero *)
Definition pre_ident (s : bs) : Prop :=
  all_ident s /\ s <> [] /\ (is_num s = true -> forall t, s = 48 :: t -> t = []).

Definition build_ident (s : bs) : Prop := all_ident s /\ s <> [].

(* x.l1.l2...: a first item followed by '.'-prefixed items *)
Definition dotted (x : bs) (l : list bs) : bs := x ++ flat_map (cons 46) l.

Record parts := mk_parts {
  pt_major : bs; pt_minor : bs; pt_patch : bs;
  pt_pre : option (bs * list bs);
  pt_build : option (bs * list bs) }.

Definition render_opt (sep : N) (o : option (bs * list bs)) : bs :=
  match o with None => [] | Some (x, l) => sep :: dotted x l end.

Definition render (p : parts) : bs :=
  pt_major p ++ 46 :: pt_minor p ++ 46 :: pt_patch p
    ++ render_opt 45 (pt_pre p) ++ render_opt 43 (pt_build p).

Definition opt_wf (P : bs -> Prop) (o : option (bs * list bs)) : Prop :=
  match o with None => True | Some (x, l) => P x /\ Forall P l end.

Definition wf (p : parts) : Prop :=
  good_num (pt_major p) /\ good_num (pt_minor p) /\ good_num (pt_patch p) /\
  opt_wf pre_ident (pt_pre p) /\ opt_wf build_ident (pt_build p).

(* ---- the regular expression, by components ---- *)
Local Notation c_digits := (CStar (CCls [(48,57)])).
Local Notation c_icls := (CCls [(45,45); (48,57); (65,90); (97,122)]).
Local Notation c_dot := (CCls [(46,46)]).

Definition c_num : cre :=
  CAlt (CCls [(48,48)]) (CAlt (CCat (CCls [(49,57)]) (CCat c_digits CEps)) CNone).

Definition c_preid : cre :=
  CAlt (CCls [(48,48)])
    (CAlt (CCat (CCls [(49,57)]) (CCat c_digits CEps))
       (CAlt (CCat c_digits (CCat (CCls [(45,45); (65,90); (97,122)]) (CCat (CStar c_icls) CEps)))
          CNone)).

Definition c_pre : cre :=
  CCat (CCls [(45,45)])
    (CCat (CCat c_preid (CCat (CStar (CCat c_dot (CCat c_preid CEps))) CEps)) CEps).

Definition c_bid : cre := CCat c_icls (CStar c_icls).

Definition c_build : cre :=
  CCat (CCls [(43,43)])
    (CCat (CCat c_bid (CCat (CStar (CCat c_dot (CCat c_bid CEps))) CEps)) CEps).

Definition c_optpre : cre := CAlt CEps c_pre.
Definition c_optbuild : cre := CAlt CEps c_build.

Definition c_semver : cre :=
  CCat CEps (CCat c_num (CCat c_dot (CCat c_num (CCat c_dot (CCat c_num
    (CCat c_optpre (CCat c_optbuild (CCat CEps CEps)))))))).

Lemma core_semver : core gen_re_semver = c_semver.
Proof. reflexivity. Qed.

Ltac inv_lang :=
  repeat match goal with
  | H : lang CNone _ |- _ => apply lang_none_inv in H; contradiction
  | H : lang CEps _ |- _ => apply lang_eps_inv in H; subst
  | H : lang (CCls _) _ |- _ =>
      apply lang_cls_inv in H;
      let c := fresh "c" in let Hc := fresh "Hc" in destruct H as (c & -> & Hc)
  | H : lang (CCat _ _) _ |- _ =>
      apply lang_cat_inv in H;
      let s1 := fresh "s" in let s2 := fresh "s" in
      let H1 := fresh "H" in let H2 := fresh "H" in
      destruct H as (s1 & s2 & -> & H1 & H2)
  | H : lang (CAlt _ _) _ |- _ => apply lang_alt_inv in H; destruct H as [H|H]
  | H : lang (CStar (CCls _)) _ |- _ => apply lang_star_cls in H
  end.

(* ---- character classes ---- *)
Lemma cls_one c k : in_cls c [(k, k)] = true -> c = k.
Proof. rewrite in_cls_cons, in_cls_nil. intros [H|H]; [lia|discriminate]. Qed.

Lemma cls_digit c : in_cls c [(48,57)] = true -> is_digit c = true.
Proof. rewrite in_cls_cons, in_cls_nil, is_digit_spec. intros [H|H]; [lia|discriminate]. Qed.

Lemma cls_19 c : in_cls c [(49,57)] = true -> is_digit c = true /\ c <> 48.
Proof. rewrite in_cls_cons, in_cls_nil, is_digit_spec. intros [H|H]; [lia|discriminate]. Qed.

Lemma cls_ic c : in_cls c [(45,45); (48,57); (65,90); (97,122)] = true -> is_ident_char c = true.
Proof.
  rewrite !in_cls_cons, in_cls_nil, is_ident_char_spec.
  intros [H|[H|[H|[H|H]]]]; [lia|lia|lia|lia|discriminate].
Qed.

Lemma cls_letter c :
  in_cls c [(45,45); (65,90); (97,122)] = true -> is_ident_char c = true /\ is_digit c = false.
Proof.
  rewrite !in_cls_cons, in_cls_nil, is_ident_char_spec.
  intros H. split.
  - destruct H as [H|[H|[H|H]]]; [lia|lia|lia|discriminate].
  - apply is_digit_false. destruct H as [H|[H|[H|H]]]; [lia|lia|lia|discriminate].
Qed.

Lemma Forall_digits s : Forall (fun c => in_cls c [(48,57)] = true) s -> is_num s = true.
Proof.
  intros H. apply forallb_Forall_iff. eapply Forall_impl; [|exact H]. apply cls_digit.
Qed.

Lemma Forall_ic s :
  Forall (fun c => in_cls c [(45,45); (48,57); (65,90); (97,122)] = true) s -> all_ident s.
Proof.
  intros H. apply forallb_Forall_iff. eapply Forall_impl; [|exact H]. apply cls_ic.
Qed.

Lemma is_num_all_ident s : is_num s = true -> all_ident s.
Proof.
  intros H. apply forallb_Forall_iff. apply forallb_Forall_iff in H.
  eapply Forall_impl; [|exact H]. apply digit_is_ident_char.
Qed.

Ltac cls_norm :=
  repeat match goal with
  | H : in_cls _ [(?k, ?k)] = true |- _ => apply cls_one in H; subst
  | H : in_cls _ [(49,57)] = true |- _ => apply cls_19 in H; destruct H
  | H : in_cls _ [(45,45); (65,90); (97,122)] = true |- _ => apply cls_letter in H; destruct H
  | H : in_cls _ [(45,45); (48,57); (65,90); (97,122)] = true |- _ => apply cls_ic in H
  | H : Forall (fun c => in_cls c [(48,57)] = true) _ |- _ => apply Forall_digits in H
  | H : Forall (fun c => in_cls c [(45,45); (48,57); (65,90); (97,122)] = true) _ |- _ =>
      apply Forall_ic in H
  end.

(* ---- components ---- *)
Lemma good_num_zero : good_num [48].
Proof.
  split; [reflexivity|split; [discriminate|]]. intros t E. injection E as <-. reflexivity.
Qed.

Lemma good_num_nz c s : is_digit c = true -> c <> 48 -> is_num s = true -> good_num (c :: s).
Proof.
  intros Hc Hc0 Hs. split; [|split].
  - rewrite is_num_cons. apply andb_true_intro; split; assumption.
  - discriminate.
  - intros t E. injection E as E _. contradiction.
Qed.

Lemma good_num_pre_ident s : good_num s -> pre_ident s.
Proof.
  intros (Hn & Hne & H0). split; [|split].
  - apply is_num_all_ident; assumption.
  - assumption.
  - intros _. assumption.
Qed.

Lemma lang_c_num s : lang c_num s -> good_num s.
Proof.
  intros H. unfold c_num in H. inv_lang; cls_norm; rewrite ?app_nil_r; cbn [app].
  - apply good_num_zero.
  - apply good_num_nz; assumption.
Qed.

Lemma alnum_pre_ident ds c rest :
  is_num ds = true -> is_ident_char c = true -> is_digit c = false -> all_ident rest ->
  pre_ident (ds ++ c :: rest).
Proof.
  intros Hds Hc Hcd Hrest. split; [|split].
  - unfold all_ident. rewrite forallb_app. cbn [forallb].
    apply andb_true_intro; split; [apply is_num_all_ident; assumption|].
    apply andb_true_intro; split; assumption.
  - intros E. apply app_eq_nil in E. destruct E as [_ E]. discriminate.
  - intros Hn. exfalso. unfold is_num in Hn. rewrite forallb_app in Hn. cbn [forallb] in Hn.
    rewrite Hcd, andb_false_r in Hn. discriminate.
Qed.

Lemma lang_c_preid s : lang c_preid s -> pre_ident s.
Proof.
  intros H. unfold c_preid in H. inv_lang; cls_norm; rewrite ?app_nil_r; cbn [app].
  - apply good_num_pre_ident, good_num_zero.
  - apply good_num_pre_ident, good_num_nz; assumption.
  - apply alnum_pre_ident; assumption.
Qed.

Lemma lang_c_bid s : lang c_bid s -> build_ident s.
Proof.
  intros H. unfold c_bid in H. inv_lang; cls_norm. cbn [app]. split; [|discriminate].
  unfold all_ident. cbn [forallb]. apply andb_true_intro; split; assumption.
Qed.

Lemma lang_c_pre s :
  lang c_pre s -> exists x l, s = 45 :: dotted x l /\ pre_ident x /\ Forall pre_ident l.
Proof.
  intros H. unfold c_pre in H. inv_lang. cls_norm.
  match goal with Hs : lang (CStar _) _ |- _ =>
    apply (lang_star_sep 46 c_preid pre_ident _ lang_c_preid) in Hs;
    destruct Hs as (l & -> & Hl) end.
  match goal with Hx : lang c_preid ?x |- _ => apply lang_c_preid in Hx; exists x, l end.
  rewrite !app_nil_r. cbn [app]. unfold dotted. split; [reflexivity|split; assumption].
Qed.

Lemma lang_c_build s :
  lang c_build s -> exists x l, s = 43 :: dotted x l /\ build_ident x /\ Forall build_ident l.
Proof.
  intros H. unfold c_build in H. inv_lang. cls_norm.
  match goal with Hs : lang (CStar _) _ |- _ =>
    apply (lang_star_sep 46 c_bid build_ident _ lang_c_bid) in Hs;
    destruct Hs as (l & -> & Hl) end.
  match goal with Hx : lang c_bid ?x |- _ => apply lang_c_bid in Hx; exists x, l end.
  rewrite !app_nil_r. cbn [app]. unfold dotted. split; [reflexivity|split; assumption].
Qed.

Lemma lang_c_optpre s :
  lang c_optpre s -> exists o, opt_wf pre_ident o /\ s = render_opt 45 o.
Proof.
  intros H. unfold c_optpre in H. apply lang_alt_inv in H. destruct H as [H|H].
  - apply lang_eps_inv in H. subst s. exists None. split; [exact I|reflexivity].
  - apply lang_c_pre in H. destruct H as (x & l & -> & Hx & Hl).
    exists (Some (x, l)). split; [split; assumption|reflexivity].
Qed.

Lemma lang_c_optbuild s :
  lang c_optbuild s -> exists o, opt_wf build_ident o /\ s = render_opt 43 o.
Proof.
  intros H. unfold c_optbuild in H. apply lang_alt_inv in H. destruct H as [H|H].
  - apply lang_eps_inv in H. subst s. exists None. split; [exact I|reflexivity].
  - apply lang_c_build in H. destruct H as (x & l & -> & Hx & Hl).
    exists (Some (x, l)). split; [split; assumption|reflexivity].
Qed.

Lemma lang_c_semver w : lang c_semver w -> exists p, wf p /\ w = render p.
Proof.
  intros H. unfold c_semver in H. inv_lang. cls_norm.
  repeat match goal with
  | H : lang c_num _ |- _ => apply lang_c_num in H
  | H : lang c_optpre _ |- _ => apply lang_c_optpre in H; destruct H as (? & ? & ->)
  | H : lang c_optbuild _ |- _ => apply lang_c_optbuild in H; destruct H as (? & ? & ->)
  end.
  match goal with
  | Ha : good_num ?a, Hb : good_num ?b, Hc : good_num ?c,
    H1 : opt_wf pre_ident ?o1, H2 : opt_wf build_ident ?o2
    |- exists p, wf p /\ [] ++ ?a ++ [46] ++ ?b ++ [46] ++ ?c ++ _ = render p =>
      exists (mk_parts a b c o1 o2)
  end.
  split.
  - unfold wf. cbn [pt_major pt_minor pt_patch pt_pre pt_build]. tauto.
  - unfold render. cbn [pt_major pt_minor pt_patch pt_pre pt_build app].
    rewrite ?app_nil_r. reflexivity.
Qed.

Theorem valid_struct s : sv_valid s = true -> exists p, wf p /\ bytes s = render p.
Proof.
  unfold sv_valid. rewrite matches_lang, core_semver. apply lang_c_semver.
Qed.

(* ====================================================================== *)
(* 4. characters that do not occur                                        *)
(* ====================================================================== *)

Definition nochar (c : N) (s : bs) : Prop := ~ In c s.

Lemma nochar_nil c : nochar c [].
Proof. intros H. exact H. Qed.

Lemma nochar_app c a b : nochar c (a ++ b) <-> nochar c a /\ nochar c b.
Proof. unfold nochar. rewrite in_app_iff. tauto. Qed.

Lemma nochar_cons c d a : nochar c (d :: a) <-> d <> c /\ nochar c a.
Proof. unfold nochar. cbn [In]. tauto. Qed.

Lemma nochar_fm c l : c <> 46 -> Forall (nochar c) l -> nochar c (flat_map (cons 46) l).
Proof.
  intros Hc H. induction H as [|y l Hy _ IH]; cbn [flat_map].
  - apply nochar_nil.
  - change ((46 :: y) ++ flat_map (cons 46) l) with (46 :: y ++ flat_map (cons 46) l).
    apply nochar_cons. split; [congruence|]. apply nochar_app. split; assumption.
Qed.

Lemma nochar_dotted c x l :
  c <> 46 -> nochar c x -> Forall (nochar c) l -> nochar c (dotted x l).
Proof.
  intros Hc Hx Hl. unfold dotted. apply nochar_app. split; [assumption|].
  apply nochar_fm; assumption.
Qed.

Lemma is_num_nochar c s : is_num s = true -> is_digit c = false -> nochar c s.
Proof.
  intros Hs Hc Hin. unfold is_num in Hs. rewrite forallb_forall in Hs.
  apply Hs in Hin. congruence.
Qed.

Lemma all_ident_nochar c s : all_ident s -> is_ident_char c = false -> nochar c s.
Proof.
  intros Hs Hc Hin. unfold all_ident in Hs. rewrite forallb_forall in Hs.
  apply Hs in Hin. congruence.
Qed.

Lemma good_num_nochar c s : good_num s -> is_digit c = false -> nochar c s.
Proof. intros (H & _) Hc. apply is_num_nochar; assumption. Qed.

Lemma pre_ident_nochar c s : pre_ident s -> is_ident_char c = false -> nochar c s.
Proof. intros (H & _) Hc. apply all_ident_nochar; assumption. Qed.

Lemma build_ident_nochar c s : build_ident s -> is_ident_char c = false -> nochar c s.
Proof. intros (H & _) Hc. apply all_ident_nochar; assumption. Qed.

Lemma Forall_pre_nochar c l :
  Forall pre_ident l -> is_ident_char c = false -> Forall (nochar c) l.
Proof.
  intros H Hc. eapply Forall_impl; [|exact H]. intros s Hs. apply pre_ident_nochar; assumption.
Qed.

Lemma Forall_build_nochar c l :
  Forall build_ident l -> is_ident_char c = false -> Forall (nochar c) l.
Proof.
  intros H Hc. eapply Forall_impl; [|exact H]. intros s Hs. apply build_ident_nochar; assumption.
Qed.

(* [rest] is empty or starts with [sep] *)
Definition starts (sep : N) (rest : bs) : Prop := rest = [] \/ exists t, rest = sep :: t.

Lemma starts_render_opt sep o : starts sep (render_opt sep o).
Proof. destruct o as [[x l]|]; [right; eexists; reflexivity|left; reflexivity]. Qed.

Lemma starts_fm l : starts 46 (flat_map (cons 46) l).
Proof. destruct l as [|y l]; [left; reflexivity|right; eexists; reflexivity]. Qed.

Lemma before_app sep a rest : nochar sep a -> starts sep rest -> before sep (a ++ rest) = a.
Proof.
  intros Ha Hr. induction a as [|c a IH]; cbn [app before].
  - destruct Hr as [->|(t & ->)]; [reflexivity|]. cbn [before]. rewrite N.eqb_refl. reflexivity.
  - apply nochar_cons in Ha. destruct Ha as [Hc Ha].
    apply N.eqb_neq in Hc. rewrite Hc. rewrite (IH Ha). reflexivity.
Qed.

Lemma before_nochar sep a : nochar sep a -> before sep a = a.
Proof.
  intros Ha. rewrite <- (app_nil_r a) at 1. apply before_app; [assumption|left; reflexivity].
Qed.

Lemma after_nochar sep a : nochar sep a -> after sep a = None.
Proof.
  intros Ha. induction a as [|c a IH]; cbn [after]; [reflexivity|].
  apply nochar_cons in Ha. destruct Ha as [Hc Ha]. apply N.eqb_neq in Hc. rewrite Hc. exact (IH Ha).
Qed.

Lemma after_app sep a t : nochar sep a -> after sep (a ++ sep :: t) = Some t.
Proof.
  intros Ha. induction a as [|c a IH]; cbn [app after].
  - rewrite N.eqb_refl. reflexivity.
  - apply nochar_cons in Ha. destruct Ha as [Hc Ha]. apply N.eqb_neq in Hc. rewrite Hc. exact (IH Ha).
Qed.

Lemma split_on_one sep a : nochar sep a -> split_on sep a = [a].
Proof.
  intros Ha. induction a as [|c a IH]; cbn [split_on]; [reflexivity|].
  apply nochar_cons in Ha. destruct Ha as [Hc Ha]. apply N.eqb_neq in Hc.
  rewrite Hc, (IH Ha). reflexivity.
Qed.

Lemma split_on_app sep a r :
  nochar sep a -> split_on sep (a ++ sep :: r) = a :: split_on sep r.
Proof.
  intros Ha. induction a as [|c a IH]; cbn [app split_on].
  - rewrite N.eqb_refl. reflexivity.
  - apply nochar_cons in Ha. destruct Ha as [Hc Ha]. apply N.eqb_neq in Hc.
    rewrite Hc, (IH Ha). reflexivity.
Qed.

Lemma dotted_nil x : dotted x [] = x.
Proof. unfold dotted. cbn [flat_map]. apply app_nil_r. Qed.

Lemma dotted_cons x y l : dotted x (y :: l) = x ++ 46 :: dotted y l.
Proof. reflexivity. Qed.

Lemma fm_cons y l : flat_map (cons 46) (y :: l) = 46 :: dotted y l.
Proof. reflexivity. Qed.

Lemma split_on_dotted l : forall x,
  nochar 46 x -> Forall (nochar 46) l -> split_on 46 (dotted x l) = x :: l.
Proof.
  induction l as [|y l IH]; intros x Hx Hl.
  - rewrite dotted_nil. apply split_on_one. assumption.
  - inversion Hl; subst. rewrite dotted_cons, split_on_app by assumption.
    rewrite IH by assumption. reflexivity.
Qed.

Lemma length_fm (l : list bs) : (List.length l <= List.length (flat_map (cons 46%N) l))%nat.
Proof.
  induction l as [|y l IH]; cbn [flat_map List.length]; [lia|].
  rewrite app_length. cbn [List.length]. lia.
Qed.

Lemma next_ident_app x r : nochar 46 x -> starts 46 r -> next_ident (x ++ r) = (x, r).
Proof.
  intros Hx Hr. induction x as [|c x IH]; cbn [app next_ident].
  - destruct Hr as [->|(t & ->)]; [reflexivity|]. cbn [next_ident]. rewrite N.eqb_refl. reflexivity.
  - apply nochar_cons in Hx. destruct Hx as [Hc Hx]. apply N.eqb_neq in Hc.
    rewrite Hc, (IH Hx). reflexivity.
Qed.

(* concrete characters *)
Lemma ic46 : is_ident_char 46 = false. Proof. reflexivity. Qed.
Lemma ic43 : is_ident_char 43 = false. Proof. reflexivity. Qed.
Lemma dg46 : is_digit 46 = false. Proof. reflexivity. Qed.
Lemma dg45 : is_digit 45 = false. Proof. reflexivity. Qed.
Lemma dg43 : is_digit 43 = false. Proof. reflexivity. Qed.

(* ====================================================================== *)
(* 5. x/mod/semver's parser succeeds on structured strings                *)
(* ====================================================================== *)

Definition nd_head (rest : bs) : Prop :=
  match rest with [] => True | c :: _ => is_digit c = false end.

Lemma span_digits_app n rest :
  is_num n = true -> nd_head rest -> span_digits (n ++ rest) = (n, rest).
Proof.
  intros Hn Hr. induction n as [|c n IH]; cbn [app span_digits].
  - destruct rest as [|d rest]; [reflexivity|]. cbn [nd_head] in Hr. cbn [span_digits].
    rewrite Hr. reflexivity.
  - rewrite is_num_cons, andb_true_iff in Hn. destruct Hn as [Hc Hn].
    rewrite Hc, (IH Hn). reflexivity.
Qed.

Lemma parse_int_app n rest :
  good_num n -> nd_head rest -> parse_int (n ++ rest) = Some (n, rest).
Proof.
  intros (Hn & Hne & H0) Hr. destruct n as [|c t]; [congruence|].
  unfold parse_int. cbn [app].
  change (c :: t ++ rest) with ((c :: t) ++ rest).
  rewrite (span_digits_app (c :: t) rest Hn Hr).
  rewrite is_num_cons, andb_true_iff in Hn. destruct Hn as [Hc Ht]. rewrite Hc. cbn [negb].
  destruct (c =? 48) eqn:E; [|reflexivity].
  apply N.eqb_eq in E. subst c. rewrite (H0 t eq_refl). reflexivity.
Qed.

Lemma ident_end_bad_false y : pre_ident y -> ident_end_bad y = false.
Proof.
  intros (_ & Hne & H0). destruct y as [|c t]; [congruence|].
  unfold ident_end_bad, is_bad_num.
  destruct (is_num (c :: t)) eqn:En; [|reflexivity].
  destruct (c =? 48) eqn:E; [|apply andb_false_r].
  apply N.eqb_eq in E. subst c. rewrite (H0 eq_refl t eq_refl). reflexivity.
Qed.

Lemma ident_char_seps c :
  is_ident_char c = true -> (c =? 43) = false /\ (c =? 46) = false.
Proof.
  intros H. apply is_ident_char_spec in H. split; apply N.eqb_neq; lia.
Qed.

Lemma all_ident_cons c x : all_ident (c :: x) <-> is_ident_char c = true /\ all_ident x.
Proof. unfold all_ident. cbn [forallb]. apply andb_true_iff. Qed.

Lemma pre_scan_dotted rest : starts 43 rest ->
  forall l, Forall pre_ident l ->
  forall x cur, all_ident x -> pre_ident (cur ++ x) ->
  pre_scan cur (x ++ flat_map (cons 46) l ++ rest) = Some (x ++ flat_map (cons 46) l, rest).
Proof.
  intros Hr l Hl. induction Hl as [|y l Hy Hl IHl]; intros x;
    induction x as [|c x IHx]; intros cur Hx Hcur.
  - (* no identifier left, end of the pre-release *)
    rewrite app_nil_r in Hcur. apply ident_end_bad_false in Hcur.
    cbn [flat_map app]. destruct Hr as [->|(t & ->)]; cbn [pre_scan].
    + rewrite Hcur. reflexivity.
    + rewrite N.eqb_refl, Hcur. reflexivity.
  - apply all_ident_cons in Hx. destruct Hx as [Hc Hx].
    destruct (ident_char_seps c Hc) as [E43 E46].
    cbn [app pre_scan]. rewrite E43, E46, Hc. cbn [negb andb].
    rewrite (IHx (cur ++ [c])); [reflexivity|assumption|].
    rewrite <- app_assoc. exact Hcur.
  - (* a dot: the current identifier ends, the next one starts *)
    rewrite app_nil_r in Hcur. apply ident_end_bad_false in Hcur.
    rewrite fm_cons. unfold dotted. cbn [app pre_scan].
    change (46 =? 43) with false. change (46 =? 46) with true.
    change (is_ident_char 46) with false. cbn [negb andb]. rewrite Hcur.
    rewrite <- app_assoc. rewrite (IHl y []); [reflexivity| |exact Hy].
    destruct Hy as [Hy _]. exact Hy.
  - apply all_ident_cons in Hx. destruct Hx as [Hc Hx].
    destruct (ident_char_seps c Hc) as [E43 E46].
    cbn [app pre_scan]. rewrite E43, E46, Hc. cbn [negb andb].
    rewrite (IHx (cur ++ [c])); [reflexivity|assumption|].
    rewrite <- app_assoc. exact Hcur.
Qed.

Lemma build_scan_dotted :
  forall l, Forall build_ident l ->
  forall x cur, all_ident x -> cur ++ x <> [] ->
  build_scan cur (x ++ flat_map (cons 46) l) = true.
Proof.
  intros l Hl. induction Hl as [|y l Hy Hl IHl]; intros x;
    induction x as [|c x IHx]; intros cur Hx Hcur.
  - rewrite app_nil_r in Hcur. cbn [flat_map app build_scan].
    destruct cur; [congruence|reflexivity].
  - apply all_ident_cons in Hx. destruct Hx as [Hc Hx].
    destruct (ident_char_seps c Hc) as [E43 E46].
    cbn [app build_scan]. rewrite E46, Hc. cbn [negb andb].
    apply IHx; [assumption|]. rewrite <- app_assoc. cbn [app].
    intros E. apply app_eq_nil in E. destruct E as [_ E]. discriminate.
  - rewrite app_nil_r in Hcur. rewrite fm_cons. unfold dotted. cbn [app build_scan].
    change (46 =? 46) with true. change (is_ident_char 46) with false. cbn [negb andb].
    destruct cur as [|c0 cur]; [congruence|].
    apply (IHl y []); [destruct Hy as [Hy _]; exact Hy|].
    cbn [app]. destruct Hy as [_ Hy]. exact Hy.
  - apply all_ident_cons in Hx. destruct Hx as [Hc Hx].
    destruct (ident_char_seps c Hc) as [E43 E46].
    cbn [app build_scan]. rewrite E46, Hc. cbn [negb andb].
    apply IHx; [assumption|]. rewrite <- app_assoc. cbn [app].
    intros E. apply app_eq_nil in E. destruct E as [_ E]. discriminate.
Qed.

Definition parsed_of (p : parts) : parsed :=
  mk_parsed (pt_major p) (pt_minor p) (pt_patch p)
            (render_opt 45 (pt_pre p)) (render_opt 43 (pt_build p)).

(* the optional pre-release step of [xparse] *)
Definition pre_step (v3 : bs) : option (bs * bs) :=
  match v3 with
  | 45 :: v3' => match pre_scan [] v3' with
                 | Some (t, r) => Some (45 :: t, r)
                 | None => None
                 end
  | _ => Some ([], v3)
  end.

Definition build_step (maj mi pa pre v4 : bs) : option parsed :=
  match v4 with
  | [] => Some (mk_parsed maj mi pa pre [])
  | 43 :: v4' => if build_scan [] v4' then Some (mk_parsed maj mi pa pre v4) else None
  | _ => None
  end.

Lemma pre_step_render o b :
  opt_wf pre_ident o -> starts 43 b ->
  pre_step (render_opt 45 o ++ b) = Some (render_opt 45 o, b).
Proof.
  intros Ho Hb. destruct o as [[x l]|]; cbn [render_opt opt_wf] in *.
  - destruct Ho as [Hx Hl]. cbn [app pre_step]. unfold dotted. rewrite <- app_assoc.
    rewrite (pre_scan_dotted b Hb l Hl x []); [reflexivity| |exact Hx].
    destruct Hx as [Hx _]. exact Hx.
  - cbn [app]. destruct Hb as [->|(t & ->)]; reflexivity.
Qed.

Lemma build_step_render maj mi pa pre o :
  opt_wf build_ident o ->
  build_step maj mi pa pre (render_opt 43 o) = Some (mk_parsed maj mi pa pre (render_opt 43 o)).
Proof.
  intros Ho. destruct o as [[x l]|]; cbn [render_opt opt_wf] in *; [|reflexivity].
  destruct Ho as [Hx Hl]. cbn [build_step]. unfold dotted.
  rewrite (build_scan_dotted l Hl x []); [reflexivity| |].
  - destruct Hx as [Hx _]. exact Hx.
  - cbn [app]. destruct Hx as [_ Hx]. exact Hx.
Qed.

Lemma xparse_steps maj mi pa rest :
  good_num maj -> good_num mi -> good_num pa -> nd_head rest ->
  xparse (maj ++ 46 :: mi ++ 46 :: pa ++ rest) =
  match pre_step rest with
  | None => None
  | Some (pre, v4) => build_step maj mi pa pre v4
  end.
Proof.
  intros Hmaj Hmi Hpa Hrest. unfold xparse.
  rewrite parse_int_app; [|exact Hmaj|exact dg46].
  change (negb (46 =? 46)) with false. cbv iota.
  rewrite parse_int_app; [|exact Hmi|exact dg46].
  change (negb (46 =? 46)) with false. cbv iota.
  rewrite parse_int_app; [|exact Hpa|exact Hrest].
  reflexivity.
Qed.

Lemma nd_head_render o1 o2 : nd_head (render_opt 45 o1 ++ render_opt 43 o2).
Proof.
  destruct o1 as [[x l]|]; [reflexivity|]. destruct o2 as [[y m]|]; [reflexivity|exact I].
Qed.

Theorem xparse_render p : wf p -> xparse (render p) = Some (parsed_of p).
Proof.
  destruct p as [maj mi pa pre build]. unfold wf, render, parsed_of.
  cbn [pt_major pt_minor pt_patch pt_pre pt_build].
  intros (Hmaj & Hmi & Hpa & Hpre & Hbuild).
  rewrite (xparse_steps maj mi pa _ Hmaj Hmi Hpa (nd_head_render pre build)).
  rewrite (pre_step_render pre _ Hpre (starts_render_opt 43 build)).
  apply build_step_render. exact Hbuild.
Qed.

Theorem valid_parses : forall s, sv_valid s = true -> exists p, xparse (bytes s) = Some p.
Proof.
  intros s H. destruct (valid_struct s H) as (p & Hp & E).
  exists (parsed_of p). rewrite E. apply xparse_render. exact Hp.
Qed.

(* ====================================================================== *)
(* 6. the declarative reading succeeds on structured strings              *)
(* ====================================================================== *)

Definition pre_ids (o : option (bs * list bs)) : list ident :=
  match o with None => [] | Some (x, l) => map to_ident (x :: l) end.

Definition version_of (p : parts) : version :=
  mk_version (dec_val (pt_major p)) (dec_val (pt_minor p)) (dec_val (pt_patch p))
             (pre_ids (pt_pre p)).

Definition core_text (p : parts) : bs := pt_major p ++ 46 :: pt_minor p ++ 46 :: pt_patch p.

Lemma render_split p :
  render p = (core_text p ++ render_opt 45 (pt_pre p)) ++ render_opt 43 (pt_build p).
Proof.
  unfold render, core_text. rewrite <- !app_assoc. cbn [app]. rewrite <- !app_assoc.
  cbn [app]. reflexivity.
Qed.

Lemma core_text_nochar c p :
  good_num (pt_major p) -> good_num (pt_minor p) -> good_num (pt_patch p) ->
  is_digit c = false -> c <> 46 -> nochar c (core_text p).
Proof.
  intros H1 H2 H3 Hc Hc46. unfold core_text.
  apply nochar_app; split; [apply good_num_nochar; assumption|].
  apply nochar_cons; split; [congruence|].
  apply nochar_app; split; [apply good_num_nochar; assumption|].
  apply nochar_cons; split; [congruence|].
  apply good_num_nochar; assumption.
Qed.

Lemma pre_text_nochar43 o : opt_wf pre_ident o -> nochar 43 (render_opt 45 o).
Proof.
  destruct o as [[x l]|]; cbn [opt_wf render_opt]; [|intros _; apply nochar_nil].
  intros [Hx Hl]. apply nochar_cons; split; [discriminate|].
  apply nochar_dotted; [discriminate| |].
  - apply pre_ident_nochar; [assumption|exact ic43].
  - apply Forall_pre_nochar; [assumption|exact ic43].
Qed.

Lemma split_core p :
  good_num (pt_major p) -> good_num (pt_minor p) -> good_num (pt_patch p) ->
  split_on 46 (core_text p) = [pt_major p; pt_minor p; pt_patch p].
Proof.
  intros H1 H2 H3. unfold core_text.
  rewrite split_on_app by (apply good_num_nochar; [assumption|exact dg46]).
  rewrite split_on_app by (apply good_num_nochar; [assumption|exact dg46]).
  rewrite split_on_one by (apply good_num_nochar; [assumption|exact dg46]).
  reflexivity.
Qed.

Lemma after_pre p :
  good_num (pt_major p) -> good_num (pt_minor p) -> good_num (pt_patch p) ->
  opt_wf pre_ident (pt_pre p) ->
  match after 45 (core_text p ++ render_opt 45 (pt_pre p)) with
  | None => []
  | Some t => map to_ident (split_on 46 t)
  end = pre_ids (pt_pre p).
Proof.
  intros H1 H2 H3 Hpre.
  assert (Hc : nochar 45 (core_text p))
    by (apply core_text_nochar; [assumption|assumption|assumption|exact dg45|discriminate]).
  destruct (pt_pre p) as [[x l]|]; cbn [render_opt pre_ids opt_wf] in *.
  - rewrite after_app by exact Hc. destruct Hpre as [Hx Hl].
    rewrite split_on_dotted; [reflexivity| |].
    + apply pre_ident_nochar; [assumption|exact ic46].
    + apply Forall_pre_nochar; [assumption|exact ic46].
  - rewrite app_nil_r, after_nochar by exact Hc. reflexivity.
Qed.

Theorem decode_render p : wf p -> decode (render p) = Some (version_of p).
Proof.
  intros (Hmaj & Hmi & Hpa & Hpre & Hbuild). unfold decode.
  rewrite render_split.
  rewrite before_app; [| |apply starts_render_opt].
  2:{ apply nochar_app; split.
      - apply core_text_nochar; [assumption|assumption|assumption|exact dg43|discriminate].
      - apply pre_text_nochar43; assumption. }
  rewrite before_app; [| |apply starts_render_opt].
  2:{ apply core_text_nochar; [assumption|assumption|assumption|exact dg45|discriminate]. }
  rewrite (after_pre p Hmaj Hmi Hpa Hpre).
  rewrite (split_core p Hmaj Hmi Hpa). reflexivity.
Qed.

Theorem valid_decodes : forall s, sv_valid s = true -> exists v, decode (bytes s) = Some v.
Proof.
  intros s H. destruct (valid_struct s H) as (p & Hp & E).
  exists (version_of p). rewrite E. apply decode_render. exact Hp.
Qed.

(* ====================================================================== *)
(* 7. semver.Compare computes the SemVer precedence                       *)
(* ====================================================================== *)

Lemma cmp_ident_text_not_eq a b : cmp_ident_text a b <> Eq.
Proof.
  unfold cmp_ident_text.
  destruct (is_num a), (is_num b); cbn [Bool.eqb negb];
    destruct (Nat.compare (List.length a) (List.length b)), (bs_cmp a b); discriminate.
Qed.

Lemma pre_ident_good_num a : pre_ident a -> is_num a = true -> good_num a.
Proof.
  intros (_ & Hne & H0) Hn. split; [assumption|split; [assumption|]]. apply H0. assumption.
Qed.

Lemma cmp_ident_text_spec a b :
  pre_ident a -> pre_ident b -> a <> b ->
  cmp_ident_text a b = ident_cmp (to_ident a) (to_ident b).
Proof.
  intros Ha Hb Hne. unfold cmp_ident_text, to_ident.
  destruct (is_num a) eqn:Ea, (is_num b) eqn:Eb; cbn [Bool.eqb negb ident_cmp]; try reflexivity.
  - apply (num_text_cmp_spec a b); [apply pre_ident_good_num; assumption| |assumption].
    apply pre_ident_good_num; assumption.
  - destruct (bs_cmp a b) eqn:E; try reflexivity.
    apply bs_cmp_eq_iff in E. contradiction.
Qed.

Lemma ident_cmp_refl a : ident_cmp a a = Eq.
Proof. apply ident_cmp_eq_iff. reflexivity. Qed.

(* the loop of comparePrerelease on two different dotted texts *)
Lemma cmp_pre_loop_spec : forall f l m a b cx cy,
  Forall pre_ident (a :: l) -> Forall pre_ident (b :: m) ->
  dotted a l <> dotted b m -> (List.length l < f)%nat ->
  cmp_pre_loop f (cx :: dotted a l) (cy :: dotted b m)
  = idents_cmp (map to_ident (a :: l)) (map to_ident (b :: m)).
Proof.
  induction f as [|f IH]; intros l m a b cx cy Hal Hbm Hne Hf; [lia|].
  inversion Hal as [|? ? Ha Hl]; subst. inversion Hbm as [|? ? Hb Hm]; subst.
  cbn [cmp_pre_loop]. unfold dotted at 1 2.
  rewrite (next_ident_app a (flat_map (cons 46) l))
    by first [apply starts_fm | apply pre_ident_nochar; [assumption|exact ic46]].
  rewrite (next_ident_app b (flat_map (cons 46) m))
    by first [apply starts_fm | apply pre_ident_nochar; [assumption|exact ic46]].
  cbn [map idents_cmp].
  destruct (bs_eqb a b) eqn:E; cbn [negb].
  - (* same identifier: go on *)
    apply bs_eqb_eq in E. subst b. rewrite ident_cmp_refl.
    destruct l as [|x l], m as [|y m].
    + exfalso. apply Hne. reflexivity.
    + cbn [flat_map map idents_cmp]. destruct f; reflexivity.
    + cbn [List.length] in Hf. destruct f as [|f]; [lia|]. reflexivity.
    + rewrite !fm_cons. cbn [List.length] in Hf.
      apply IH; try assumption; [|lia].
      intros E. apply Hne. rewrite !dotted_cons, E. reflexivity.
  - (* different identifiers decide *)
    apply bs_eqb_neq in E. rewrite <- (cmp_ident_text_spec a b Ha Hb E).
    pose proof (cmp_ident_text_not_eq a b) as Hn.
    destruct (cmp_ident_text a b); [congruence|reflexivity|reflexivity].
Qed.

Lemma pre_ids_of_text o :
  opt_wf pre_ident o ->
  pre_ids o = match render_opt 45 o with
              | [] => []
              | _ :: t => map to_ident (split_on 46 t)
              end.
Proof.
  destruct o as [[x l]|]; cbn [opt_wf render_opt pre_ids]; [|reflexivity].
  intros [Hx Hl]. rewrite split_on_dotted; [reflexivity| |].
  - apply pre_ident_nochar; [assumption|exact ic46].
  - apply Forall_pre_nochar; [assumption|exact ic46].
Qed.

Lemma compare_prerelease_spec o1 o2 :
  opt_wf pre_ident o1 -> opt_wf pre_ident o2 ->
  compare_prerelease (render_opt 45 o1) (render_opt 45 o2) = pre_cmp (pre_ids o1) (pre_ids o2).
Proof.
  intros H1 H2. unfold compare_prerelease.
  destruct (bs_eqb (render_opt 45 o1) (render_opt 45 o2)) eqn:E.
  - apply bs_eqb_eq in E.
    rewrite (pre_ids_of_text o1 H1), (pre_ids_of_text o2 H2), E.
    symmetry. apply pre_cmp_eq_iff. reflexivity.
  - apply bs_eqb_neq in E.
    destruct o1 as [[x l]|], o2 as [[y m]|]; cbn [render_opt pre_ids opt_wf] in *.
    + destruct H1 as [Hx Hl], H2 as [Hy Hm].
      rewrite cmp_pre_loop_spec.
      * reflexivity.
      * constructor; assumption.
      * constructor; assumption.
      * intros E'. apply E. rewrite E'. reflexivity.
      * cbn [List.length]. unfold dotted. rewrite app_length.
        pose proof (length_fm l). lia.
    + reflexivity.
    + reflexivity.
    + exfalso. apply E. reflexivity.
Qed.

Lemma compare_parsed_render p q :
  wf p -> wf q -> compare_parsed (parsed_of p) (parsed_of q) = prec_cmp (version_of p) (version_of q).
Proof.
  intros (Hp1 & Hp2 & Hp3 & Hp4 & _) (Hq1 & Hq2 & Hq3 & Hq4 & _).
  unfold compare_parsed, parsed_of, prec_cmp, version_of.
  cbn [p_major p_minor p_patch p_pre p_build v_major v_minor v_patch v_pre].
  rewrite !compare_int_spec by assumption.
  rewrite compare_prerelease_spec by assumption.
  reflexivity.
Qed.

(* MAIN: on valid version strings, x/mod/semver.Compare is the SemVer 2.0.0
   precedence of the decoded versions *)
Theorem compare_is_precedence : forall v w,
  sv_valid v = true -> sv_valid w = true ->
  xcompare (bytes v) (bytes w) = prec_of v w.
Proof.
  intros v w Hv Hw.
  destruct (valid_struct v Hv) as (p & Hp & Ev).
  destruct (valid_struct w Hw) as (q & Hq & Ew).
  unfold xcompare, prec_of. rewrite Ev, Ew.
  rewrite !xparse_render, !decode_render by assumption.
  apply compare_parsed_render; assumption.
Qed.

Corollary compare_plugin_version_spec : forall v w,
  compare_plugin_version v w =
  if sv_valid v && sv_valid w then Some (prec_of v w) else None.
Proof.
  intros v w. unfold compare_plugin_version.
  destruct (sv_valid v) eqn:Hv; cbn [negb andb]; [|reflexivity].
  destruct (sv_valid w) eqn:Hw; cbn [negb]; [|reflexivity].
  rewrite compare_is_precedence by assumption. reflexivity.
Qed.

(* the same statement through the inductive relation: the implementation says
   "lower" exactly when the decoded versions are in [prec_lt], etc. *)
Corollary compare_plugin_version_lt : forall v w a b,
  sv_valid v = true -> sv_valid w = true ->
  decode (bytes v) = Some a -> decode (bytes w) = Some b ->
  (compare_plugin_version v w = Some Lt <-> prec_lt a b) /\
  (compare_plugin_version v w = Some Gt <-> prec_lt b a) /\
  (compare_plugin_version v w = Some Eq <-> a = b).
Proof.
  intros v w a b Hv Hw Ea Eb. rewrite compare_plugin_version_spec, Hv, Hw. cbn [andb].
  unfold prec_of. rewrite Ea, Eb.
  rewrite <- prec_cmp_lt_iff, <- prec_cmp_gt_iff, <- prec_cmp_eq_iff.
  repeat split; intros H; congruence.
Qed.

Corollary sv_higher_spec : forall v w,
  sv_higher v w = true <->
  exists a b, sv_valid v = true /\ sv_valid w = true /\
              decode (bytes v) = Some a /\ decode (bytes w) = Some b /\ prec_lt b a.
Proof.
  intros v w. unfold sv_higher. rewrite !andb_true_iff. split.
  - intros [[Hv Hw] H].
    destruct (valid_decodes v Hv) as (a & Ea). destruct (valid_decodes w Hw) as (b & Eb).
    exists a, b. repeat split; try assumption.
    apply prec_cmp_gt_iff. unfold prec_of in H. rewrite Ea, Eb in H.
    destruct (prec_cmp a b); [discriminate|discriminate|reflexivity].
  - intros (a & b & Hv & Hw & Ea & Eb & Hlt). repeat split; try assumption.
    unfold prec_of. rewrite Ea, Eb. apply prec_cmp_gt_iff in Hlt. rewrite Hlt. reflexivity.
Qed.

(* ====================================================================== *)
(* 7b. converse of section 3                                              *)
(* ====================================================================== *)

(* ---- converse: every structured string is accepted by the regular
   expression, so [wf]/[render] is exactly the language of the Go regexp ---- *)
Lemma lang_cat_eps a s : lang (CCat a CEps) s <-> lang a s.
Proof.
  rewrite lang_cat_inv. split.
  - intros (s1 & s2 & -> & H1 & H2). apply lang_eps_inv in H2. subst. rewrite app_nil_r. exact H1.
  - intros H. exists s, []. rewrite app_nil_r. repeat split; [assumption|constructor].
Qed.

Lemma lang_eps_cat a s : lang (CCat CEps a) s <-> lang a s.
Proof.
  rewrite lang_cat_inv. split.
  - intros (s1 & s2 & -> & H1 & H2). apply lang_eps_inv in H1. subst. exact H2.
  - intros H. exists [], s. repeat split; [constructor|assumption].
Qed.

Lemma lang_cons_cls rs a c s : in_cls c rs = true -> lang a s -> lang (CCat (CCls rs) a) (c :: s).
Proof.
  intros Hc Hs. change (c :: s) with ([c] ++ s). constructor; [constructor; exact Hc|exact Hs].
Qed.

Lemma digit_cls c : is_digit c = true -> in_cls c [(48,57)] = true.
Proof. rewrite is_digit_spec, in_cls_cons. intros H. left. exact H. Qed.

Lemma digit_nz_cls c : is_digit c = true -> c <> 48 -> in_cls c [(49,57)] = true.
Proof. rewrite is_digit_spec, in_cls_cons. intros H H0. left. lia. Qed.

Lemma ic_cls c : is_ident_char c = true -> in_cls c [(45,45); (48,57); (65,90); (97,122)] = true.
Proof. rewrite is_ident_char_spec, !in_cls_cons. intros H. lia. Qed.

Lemma letter_cls c :
  is_ident_char c = true -> is_digit c = false -> in_cls c [(45,45); (65,90); (97,122)] = true.
Proof.
  rewrite is_ident_char_spec, !in_cls_cons. intros H Hd.
  destruct H as [H|[H|[H|H]]]; try lia.
  rewrite (proj2 (is_digit_spec c) H) in Hd. discriminate.
Qed.

Lemma digits_lang s : is_num s = true -> lang c_digits s.
Proof.
  intros H. apply lang_star_cls. apply forallb_Forall_iff in H.
  eapply Forall_impl; [|exact H]. apply digit_cls.
Qed.

Lemma idchars_lang s : all_ident s -> lang (CStar c_icls) s.
Proof.
  intros H. apply lang_star_cls. apply forallb_Forall_iff in H.
  eapply Forall_impl; [|exact H]. apply ic_cls.
Qed.

Lemma good_num_cases s :
  good_num s -> s = [48] \/ exists c t, s = c :: t /\ is_digit c = true /\ c <> 48 /\ is_num t = true.
Proof.
  intros (Hn & Hne & H0). destruct s as [|c t]; [congruence|].
  rewrite is_num_cons, andb_true_iff in Hn. destruct Hn as [Hc Ht].
  destruct (N.eq_dec c 48) as [->|Hc0].
  - left. rewrite (H0 t eq_refl). reflexivity.
  - right. exists c, t. auto.
Qed.

Lemma good_num_lang s : good_num s -> lang c_num s.
Proof.
  intros H. apply good_num_cases in H. destruct H as [->|(c & t & -> & Hc & Hc0 & Ht)]; unfold c_num.
  - apply L_altl. constructor. reflexivity.
  - apply L_altr, L_altl. apply lang_cons_cls; [apply digit_nz_cls; assumption|].
    apply lang_cat_eps. apply digits_lang. exact Ht.
Qed.

Lemma alnum_split s :
  all_ident s -> is_num s = false ->
  exists ds c rest, s = ds ++ c :: rest /\ is_num ds = true /\
                    is_ident_char c = true /\ is_digit c = false /\ all_ident rest.
Proof.
  induction s as [|a s IH]; intros Hs Hn; [discriminate|].
  apply all_ident_cons in Hs. destruct Hs as [Ha Hs]. rewrite is_num_cons in Hn.
  destruct (is_digit a) eqn:Ed.
  - cbn [andb] in Hn. destruct (IH Hs Hn) as (ds & c & rest & -> & H1 & H2 & H3 & H4).
    exists (a :: ds), c, rest. repeat split; try assumption.
    rewrite is_num_cons, Ed, H1. reflexivity.
  - exists [], a, s. repeat split; assumption.
Qed.

Lemma pre_ident_lang s : pre_ident s -> lang c_preid s.
Proof.
  intros H. destruct (is_num s) eqn:En.
  - apply pre_ident_good_num in H; [|exact En]. apply good_num_cases in H.
    destruct H as [->|(c & t & -> & Hc & Hc0 & Ht)]; unfold c_preid.
    + apply L_altl. constructor. reflexivity.
    + apply L_altr, L_altl. apply lang_cons_cls; [apply digit_nz_cls; assumption|].
      apply lang_cat_eps. apply digits_lang. exact Ht.
  - destruct H as (Hs & _ & _).
    destruct (alnum_split s Hs En) as (ds & c & rest & -> & Hds & Hc & Hcd & Hrest).
    unfold c_preid. apply L_altr, L_altr, L_altl. constructor; [apply digits_lang; exact Hds|].
    apply lang_cons_cls; [apply letter_cls; assumption|].
    apply lang_cat_eps. apply idchars_lang. exact Hrest.
Qed.

Lemma build_ident_lang s : build_ident s -> lang c_bid s.
Proof.
  intros (Hs & Hne). destruct s as [|c t]; [congruence|].
  apply all_ident_cons in Hs. destruct Hs as [Hc Ht]. unfold c_bid.
  apply lang_cons_cls; [apply ic_cls; exact Hc|apply idchars_lang; exact Ht].
Qed.

Lemma lang_star_sep_intro sep body l :
  Forall (lang body) l ->
  lang (CStar (CCat (CCls [(sep, sep)]) (CCat body CEps))) (flat_map (cons sep) l).
Proof.
  intros H. induction H as [|y l Hy _ IH]; cbn [flat_map]; [constructor|].
  constructor; [|exact IH]. apply lang_cons_cls.
  - apply in_cls_cons. left. lia.
  - apply lang_cat_eps. exact Hy.
Qed.

Lemma render_opt_lang sep body (P : bs -> Prop) o :
  (forall w, P w -> lang body w) -> opt_wf P o ->
  lang (CAlt CEps (CCat (CCls [(sep, sep)])
         (CCat (CCat body (CCat (CStar (CCat c_dot (CCat body CEps))) CEps)) CEps)))
       (render_opt sep o).
Proof.
  intros HP Ho. destruct o as [[x l]|]; cbn [opt_wf render_opt] in *.
  - destruct Ho as [Hx Hl]. apply L_altr. apply lang_cons_cls; [apply in_cls_cons; left; lia|].
    apply lang_cat_eps. unfold dotted. constructor; [apply HP; exact Hx|].
    apply lang_cat_eps. apply lang_star_sep_intro.
    eapply Forall_impl; [|exact Hl]. exact HP.
  - apply L_altl. constructor.
Qed.

Lemma render_lang p : wf p -> lang c_semver (render p).
Proof.
  intros (Hmaj & Hmi & Hpa & Hpre & Hbuild). unfold c_semver, render.
  apply lang_eps_cat.
  constructor; [apply good_num_lang; exact Hmaj|].
  apply lang_cons_cls; [reflexivity|].
  constructor; [apply good_num_lang; exact Hmi|].
  apply lang_cons_cls; [reflexivity|].
  constructor; [apply good_num_lang; exact Hpa|].
  constructor; [apply (render_opt_lang 45 c_preid pre_ident); [exact pre_ident_lang|exact Hpre]|].
  apply lang_cat_inv. exists (render_opt 43 (pt_build p)), []. rewrite app_nil_r.
  split; [reflexivity|split].
  - apply (render_opt_lang 43 c_bid build_ident); [exact build_ident_lang|exact Hbuild].
  - apply lang_eps_cat. constructor.
Qed.

(* the Go regular expression accepts exactly the structured strings *)
Theorem sv_valid_iff s : sv_valid s = true <-> exists p, wf p /\ bytes s = render p.
Proof.
  split; [apply valid_struct|]. intros (p & Hp & E).
  unfold sv_valid. rewrite matches_lang, core_semver, E. apply render_lang. exact Hp.
Qed.

(* ====================================================================== *)
(* 8. build metadata is ignored                                           *)
(* ====================================================================== *)

Lemma decode_before s : decode s = decode (before 43 s).
Proof.
  assert (H : before 43 (before 43 s) = before 43 s).
  { induction s as [|c s IH]; cbn [before]; [reflexivity|].
    destruct (c =? 43) eqn:E; [reflexivity|]. cbn [before]. rewrite E, IH. reflexivity. }
  unfold decode. rewrite H. reflexivity.
Qed.

Theorem decode_ignores_build : forall s b, ~ In 43 s -> decode (s ++ 43 :: b) = decode s.
Proof.
  intros s b Hs. rewrite (decode_before (s ++ 43 :: b)), (decode_before s).
  rewrite before_app by first [exact Hs | right; eexists; reflexivity].
  rewrite before_nochar by exact Hs. reflexivity.
Qed.

(* two strings that agree before their first '+' have the same precedence
   with respect to everything, and are equal in precedence to one another *)
Theorem prec_of_build_irrelevant : forall v v' w,
  before 43 (bytes v) = before 43 (bytes v') ->
  prec_of v w = prec_of v' w /\ prec_of w v = prec_of w v'.
Proof.
  intros v v' w E. unfold prec_of.
  rewrite (decode_before (bytes v)), (decode_before (bytes v')), E. split; reflexivity.
Qed.

Theorem prec_of_ignores_build : forall v v',
  before 43 (bytes v) = before 43 (bytes v') -> prec_of v v' = Eq.
Proof.
  intros v v' E. unfold prec_of.
  rewrite (decode_before (bytes v)), (decode_before (bytes v')), E.
  destruct (decode (before 43 (bytes v'))) as [a|]; [|reflexivity].
  apply prec_cmp_eq_iff. reflexivity.
Qed.

(* ... and so the implementation reports "equal" for two valid versions that
   differ only in build metadata *)
Corollary compare_plugin_version_ignores_build : forall v v',
  sv_valid v = true -> sv_valid v' = true ->
  before 43 (bytes v) = before 43 (bytes v') ->
  compare_plugin_version v v' = Some Eq.
Proof.
  intros v v' Hv Hv' E. rewrite compare_plugin_version_spec, Hv, Hv'. cbn [andb].
  rewrite (prec_of_ignores_build v v' E). reflexivity.
Qed.

Lemma bytes_app s t : bytes (s ++ t)%string = bytes s ++ bytes t.
Proof.
  unfold bytes. induction s as [|a s IH]; cbn; [reflexivity|]. f_equal. exact IH.
Qed.

(* string form: appending "+meta" to a '+'-free string does not change its
   precedence class *)
Corollary prec_of_plus_suffix : forall v m m',
  ~ In 43 (bytes v) ->
  prec_of (v ++ "+" ++ m)%string (v ++ "+" ++ m')%string = Eq /\
  prec_of (v ++ "+" ++ m)%string v = Eq.
Proof.
  intros v m m' Hv.
  assert (E : forall k, before 43 (bytes (v ++ "+" ++ k)%string) = bytes v).
  { intros k. rewrite bytes_app. change (bytes ("+" ++ k)%string) with (43 :: bytes k).
    apply before_app; [exact Hv|right; eexists; reflexivity]. }
  split; apply prec_of_ignores_build.
  - rewrite !E. reflexivity.
  - rewrite E. symmetry. apply before_nochar. exact Hv.
Qed.

(* ====================================================================== *)
(* 9. examples: the ordering chain of SemVer 2.0.0 section 11             *)
(* ====================================================================== *)

Example ex_chain_1 : prec_of "1.0.0-alpha" "1.0.0-alpha.1" = Lt.        Proof. vm_compute. reflexivity. Qed.
Example ex_chain_2 : prec_of "1.0.0-alpha.1" "1.0.0-alpha.beta" = Lt.   Proof. vm_compute. reflexivity. Qed.
Example ex_chain_3 : prec_of "1.0.0-alpha.beta" "1.0.0-beta" = Lt.      Proof. vm_compute. reflexivity. Qed.
Example ex_chain_4 : prec_of "1.0.0-beta" "1.0.0-beta.2" = Lt.          Proof. vm_compute. reflexivity. Qed.
Example ex_chain_5 : prec_of "1.0.0-beta.2" "1.0.0-beta.11" = Lt.       Proof. vm_compute. reflexivity. Qed.
Example ex_chain_6 : prec_of "1.0.0-beta.11" "1.0.0-rc.1" = Lt.         Proof. vm_compute. reflexivity. Qed.
Example ex_chain_7 : prec_of "1.0.0-rc.1" "1.0.0" = Lt.                 Proof. vm_compute. reflexivity. Qed.
Example ex_chain_8 : prec_of "1.0.0" "2.0.0" = Lt.                      Proof. vm_compute. reflexivity. Qed.
Example ex_chain_9 : prec_of "2.0.0" "10.0.0" = Lt.                     Proof. vm_compute. reflexivity. Qed.
Example ex_build_eq : prec_of "1.0.0+a" "1.0.0+b" = Eq.                 Proof. vm_compute. reflexivity. Qed.
Example ex_build_pre : prec_of "1.0.0-rc.1+x.y" "1.0.0-rc.1" = Eq.      Proof. vm_compute. reflexivity. Qed.
Example ex_rev : prec_of "10.0.0" "2.0.0" = Gt.                         Proof. vm_compute. reflexivity. Qed.

(* the implementation agrees on the same chain (this also follows from
   compare_plugin_version_spec) *)
Example ex_impl_chain :
  map (fun vw => compare_plugin_version (fst vw) (snd vw))
    [("1.0.0-alpha", "1.0.0-alpha.1"); ("1.0.0-alpha.1", "1.0.0-alpha.beta");
     ("1.0.0-alpha.beta", "1.0.0-beta"); ("1.0.0-beta", "1.0.0-beta.2");
     ("1.0.0-beta.2", "1.0.0-beta.11"); ("1.0.0-beta.11", "1.0.0-rc.1");
     ("1.0.0-rc.1", "1.0.0"); ("1.0.0", "2.0.0"); ("2.0.0", "10.0.0");
     ("1.0.0+a", "1.0.0+b"); ("01.0.0", "1.0.0"); ("1.0", "1.0.0")]
  = [Some Lt; Some Lt; Some Lt; Some Lt; Some Lt; Some Lt; Some Lt; Some Lt; Some Lt;
     Some Eq; None; None].
Proof. vm_compute. reflexivity. Qed.

Print Assumptions run_re_lang.
Print Assumptions valid_struct.
Print Assumptions sv_valid_iff.
Print Assumptions valid_parses.
Print Assumptions valid_decodes.
Print Assumptions compare_is_precedence.
Print Assumptions compare_plugin_version_spec.
Print Assumptions compare_plugin_version_lt.
Print Assumptions sv_higher_spec.
Print Assumptions prec_cmp_lt_iff.
Print Assumptions prec_cmp_gt_iff.
Print Assumptions prec_cmp_eq_iff.
Print Assumptions prec_lt_irrefl.
Print Assumptions prec_lt_trans.
Print Assumptions prec_lt_total.
Print Assumptions prec_of_antisym.
Print Assumptions decode_ignores_build.
Print Assumptions prec_of_build_irrelevant.
Print Assumptions prec_of_ignores_build.
Print Assumptions compare_plugin_version_ignores_build.
Print Assumptions prec_of_plus_suffix.
