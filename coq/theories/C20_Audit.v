(* C20_Audit.v — theorems added by the theorem audit (docs/audit/C20.md):
   - the history form of the whole property: the operational model of a history of any
     length IS the declarative machine that applies [verdict] step by step
     (history_refines_spec), [verdict] spelled out clause by clause (verdict_iff);
   - a refused operation anywhere in a history leaves root and behaviour as they were
     (history_step_frame);
   - "fetched by its name": CLIManager.Get finds exactly the executable of the source,
     and after Uninstall the plugin is neither listed nor fetched (installed_get);
   - the installed executable is the same file (name, content, permission bits) whether
     the source is the executable or the directory holding it (source_independent_binary);
   - non-vacuity witnesses of the hypotheses of every theorem of props/C20_Property.v.
   No axioms. *)
From NV Require Import Base Regex Generated C20_Semver C20_Model C20_Proofs.
From NV Require C20_SemverProofs.
Open Scope string_scope.

(* ====================================================================== *)
(* 1. the declarative machine                                             *)
(* ====================================================================== *)

(* one operation, read declaratively: an installation whose verdict is positive puts the
   files of the source in place of the directory of that name, any other installation
   changes nothing; an uninstallation of a valid name removes the directory of that name *)
Definition spec_step (tbl : table) (T : state) (o : op) : state :=
  match o with
  | OInstall src ow =>
      match verdict tbl T src ow with
      | Some (n, _, _) => installed_state T n src
      | None => T
      end
  | OUninstall n => if valid_name n then aremove n T else T
  end.

Fixpoint spec_final (tbl : table) (T : state) (ops : list op) : state :=
  match ops with
  | [] => T
  | o :: r => spec_final tbl (spec_step tbl T o) r
  end.

Lemma mstep_spec_step tbl st o : op_ok o = true -> fst (mstep tbl st o) = spec_step tbl st o.
Proof.
  destruct o as [src ow|n]; cbn [op_ok mstep spec_step]; intros Hok.
  - destruct (install tbl st src ow) as [st' r] eqn:Hi. cbn [fst].
    pose proof (c20_install_result tbl st src ow st' r Hok Hi) as H.
    destruct (verdict tbl st src ow) as [[[n v] ex]|].
    + destruct H as [-> _]. reflexivity.
    + destruct H as [-> _]. reflexivity.
  - unfold uninstall. destruct (valid_name n); cbn [negb fst]; [|reflexivity].
    destruct (afind n st) eqn:Hf; cbn [fst]; [reflexivity|].
    symmetry. apply aremove_notin. exact Hf.
Qed.

Theorem history_refines_spec tbl : forall ops st,
  forallb op_ok ops = true -> final_state tbl st ops = spec_final tbl st ops.
Proof.
  induction ops as [|o ops IH]; intros st H; [reflexivity|].
  cbn [forallb] in H. apply andb_true_iff in H. destruct H as [Ho Hr].
  cbn [final_state spec_final]. rewrite (mstep_spec_step tbl st o Ho). apply IH. exact Hr.
Qed.

(* [verdict] clause by clause *)
Theorem verdict_iff tbl T src ow :
  verdict tbl T src ow <> None <->
  exists n v, candidate tbl src = Some (n, v) /\
    (existing tbl T n = None
     \/ (exists en ev, existing tbl T n = Some (AOk en ev) /\ (ow = true \/ higher v ev))
     \/ (exists a, existing tbl T n = Some a /\ (forall en ev, a <> AOk en ev) /\ ow = true)).
Proof.
  unfold verdict. split.
  - destruct (candidate tbl src) as [[n v]|]; [|intros H; exfalso; apply H; reflexivity].
    intros H. exists n, v. split; [reflexivity|].
    destruct (existing tbl T n) as [a|]; [|left; reflexivity]. right.
    destruct a as [en ev| | | |].
    + left. exists en, ev. split; [reflexivity|].
      destruct ow; [left; reflexivity|]. cbn [orb] in H.
      destruct (sv_higher v ev) eqn:Hh; [|exfalso; apply H; reflexivity].
      right. apply c20_sv_higher_iff. exact Hh.
    + right. exists AInvalid. split; [reflexivity|]. split; [intros; discriminate|].
      destruct ow; [reflexivity|exfalso; apply H; reflexivity].
    + right. exists AMisnamed. split; [reflexivity|]. split; [intros; discriminate|].
      destruct ow; [reflexivity|exfalso; apply H; reflexivity].
    + right. exists AFail. split; [reflexivity|]. split; [intros; discriminate|].
      destruct ow; [reflexivity|exfalso; apply H; reflexivity].
    + right. exists AAbsent. split; [reflexivity|]. split; [intros; discriminate|].
      destruct ow; [reflexivity|exfalso; apply H; reflexivity].
  - intros [n [v [Hc H]]]. rewrite Hc.
    destruct H as [H|[[en [ev [H Hw]]]|[a [H [Hna How]]]]]; rewrite H.
    + discriminate.
    + destruct Hw as [->|Hh]; [cbn [orb]; discriminate|].
      apply c20_sv_higher_iff in Hh. rewrite Hh, orb_true_r. discriminate.
    + subst ow. destruct a; discriminate.
Qed.

(* the directory a positive verdict installs, and what it leaves alone *)
Theorem spec_step_install tbl T src ow n v ex :
  verdict tbl T src ow = Some (n, v, ex) ->
  afind n (spec_step tbl T (OInstall src ow)) = Some (map mask (spec_files src)) /\
  (forall k, k <> n -> afind k (spec_step tbl T (OInstall src ow)) = afind k T).
Proof.
  intros Hv. cbn [spec_step]. rewrite Hv. unfold installed_state. split.
  - apply afind_ainsert_same.
  - intros k Hk. rewrite afind_ainsert_other by exact Hk. apply afind_aremove_other. exact Hk.
Qed.

(* ====================================================================== *)
(* 2. a refused operation anywhere in a history                            *)
(* ====================================================================== *)

Lemma final_state_app tbl : forall ops1 ops2 st,
  final_state tbl st (ops1 ++ ops2) = final_state tbl (final_state tbl st ops1) ops2.
Proof.
  induction ops1 as [|o ops1 IH]; intros ops2 st; [reflexivity|].
  cbn [app final_state]. apply IH.
Qed.

Theorem history_step_frame tbl ops1 o st :
  step_refused (snd (mstep tbl (final_state tbl st ops1) o)) ->
  final_state tbl st (ops1 ++ [o]) = final_state tbl st ops1 /\
  view_of tbl (final_state tbl st (ops1 ++ [o])) = view_of tbl (final_state tbl st ops1).
Proof.
  intros H. rewrite final_state_app. cbn [final_state].
  rewrite (step_refused_frame tbl _ o H). split; reflexivity.
Qed.

(* ====================================================================== *)
(* 3. fetched by its name; gone after Uninstall                            *)
(* ====================================================================== *)

Lemma candidate_spec_exe tbl src n v : source_ok src = true -> candidate tbl src = Some (n, v) ->
  exists e, spec_exe src = Some e /\ f_name e = bin_name n /\ is_exec e = true /\
            tbl_get (f_cid e) tbl = MOk n v /\ valid_name n = true /\
            find_file (bin_name n) (spec_files src) = Some e.
Proof.
  intros Hwf Hc. destruct (candidate_located tbl src n v Hwf Hc) as [exe [Hl [Hx [Hff [Ht Hvn]]]]].
  destruct (locate_ok src exe n (spec_files src) Hwf Hl) as [Hse [Hpn _]].
  exists exe. repeat split; try assumption. apply pname_of_bin. exact Hpn.
Qed.

Theorem installed_get tbl st src ow st' r :
  source_ok src = true -> install tbl st src ow = (st', r) -> r_err r = None ->
  exists n v e,
    candidate tbl src = Some (n, v) /\ spec_exe src = Some e /\ f_name e = bin_name n /\
    get_plugin st' n = GFound (mask e) /\                      (* Get(n) finds the executable of the source *)
    ask tbl n (mask e) = AOk n v /\                            (* which answers the new metadata *)
    In n (map fst st') /\                                      (* List names n *)
    (let st'' := fst (uninstall st' n) in
     snd (uninstall st' n) = None /\ st'' = aremove n st /\
     get_plugin st'' n = GNone /\ ~ In n (map fst st'') /\ existing tbl st'' n = None).
Proof.
  intros Hwf Hi He.
  destruct (c20_installed tbl st src ow st' r Hwf Hi He) as [n [v [Hc [_ [Hfd [_ [_ [_ [Hl [Hu Hgone]]]]]]]]]].
  destruct (candidate_spec_exe tbl src n v Hwf Hc) as [e [Hse [Hn [Hx [Ht [Hvn Hff]]]]]].
  exists n, v, e. repeat split; try assumption.
  - unfold get_plugin, dir_get. rewrite Hvn, Hfd. cbn [negb].
    rewrite find_file_map by (intros; reflexivity). rewrite Hff. reflexivity.
  - rewrite ask_mask. unfold ask. rewrite Hx, Ht, str_eqb_refl. reflexivity.
  - rewrite Hu. reflexivity.
  - rewrite Hu. reflexivity.
  - rewrite Hu. cbn [fst]. unfold get_plugin, dir_get. rewrite Hvn, Hgone. reflexivity.
  - rewrite Hu. cbn [fst]. intros Hin.
    assert (Hex : exists d, afind n (aremove n st) = Some d).
    { clear - Hin. induction (aremove n st) as [|[k d] m IH]; [contradiction|].
      cbn [afind]. destruct (String.eqb n k) eqn:E; [eexists; reflexivity|].
      cbn [map fst In] in Hin. destruct Hin as [Hk|Hin]; [subst k; rewrite str_eqb_refl in E; discriminate|].
      apply IH. exact Hin. }
    destruct Hex as [d Hd]. rewrite Hgone in Hd. discriminate.
  - rewrite Hu. cbn [fst]. unfold existing. rewrite Hgone. reflexivity.
Qed.

(* ====================================================================== *)
(* 4. the same executable from the file or from the directory             *)
(* ====================================================================== *)

Theorem source_independent_binary tbl st ow src1 src2 e :
  source_ok src1 = true -> source_ok src2 = true ->
  spec_exe src1 = Some e -> spec_exe src2 = Some e -> is_cand e = true ->
  r_err (snd (install tbl st src1 ow)) = None ->
  exists n v,
    r_new (snd (install tbl st src1 ow)) = Some (n, v) /\
    r_new (snd (install tbl st src2 ow)) = Some (n, v) /\
    get_plugin (fst (install tbl st src1 ow)) n = GFound (mask e) /\
    get_plugin (fst (install tbl st src2 ow)) n = GFound (mask e).
Proof.
  intros Hw1 Hw2 H1 H2 Hcand He1.
  destruct (c20_source_independent_gen tbl st ow src1 src2 e Hw1 Hw2 H1 H2 Hcand) as [Hsnd _].
  assert (He2 : r_err (snd (install tbl st src2 ow)) = None) by (rewrite <- Hsnd; exact He1).
  destruct (install tbl st src1 ow) as [s1 r1] eqn:Hi1.
  destruct (install tbl st src2 ow) as [s2 r2] eqn:Hi2. cbn [fst snd] in *.
  destruct (installed_get tbl st src1 ow s1 r1 Hw1 Hi1 He1) as [n [v [e1 [Hc1 [Hs1 [_ [Hg1 _]]]]]]].
  destruct (installed_get tbl st src2 ow s2 r2 Hw2 Hi2 He2) as [n2 [v2 [e2 [Hc2 [Hs2 [_ [Hg2 _]]]]]]].
  rewrite H1 in Hs1. injection Hs1 as <-. rewrite H2 in Hs2. injection Hs2 as <-.
  destruct (c20_installed tbl st src1 ow s1 r1 Hw1 Hi1 He1) as [n' [v' [Hc1' [Hn1 _]]]].
  rewrite Hc1 in Hc1'. injection Hc1' as <- <-.
  exists n, v. subst r2. repeat split; try assumption.
  (* the name found through src2 is the same: both are read off the file name of e *)
  assert (n2 = n).
  { destruct (candidate_spec_exe tbl src1 n v Hw1 Hc1) as [x [Hx1 [Hxn _]]].
    destruct (candidate_spec_exe tbl src2 n2 v2 Hw2 Hc2) as [y [Hy1 [Hyn _]]].
    rewrite H1 in Hx1. injection Hx1 as <-. rewrite H2 in Hy1. injection Hy1 as <-.
    rewrite Hxn in Hyn. unfold bin_name, bin_prefix in Hyn. cbn [append] in Hyn. injection Hyn as Hyn. symmetry. exact Hyn. }
  subst n2. exact Hg2.
Qed.

(* ====================================================================== *)
(* 5. invalid metadata: plugin.validate inside the model                   *)
(* ====================================================================== *)

Lemma tbl_get_tbl_of c : forall rt, tbl_get c (tbl_of rt) = mres_of (rtbl_get c rt).
Proof.
  induction rt as [|[k v] rt IH]; [reflexivity|].
  cbn [tbl_of map fst snd tbl_get rtbl_get]. destruct (k =? c)%N; [reflexivity|exact IH].
Qed.

Lemma str_eqb_empty s : String.eqb s "" = false <-> s <> "".
Proof.
  split.
  - intros H ->. discriminate.
  - intros H. destruct (String.eqb s "") eqn:E; [|reflexivity]. exfalso. apply H. apply str_eqb_eq. exact E.
Qed.

Theorem validate_spec m :
  validate m = true <->
  rm_name m <> "" /\ rm_desc m <> "" /\ rm_ver m <> "" /\ rm_url m <> "" /\
  rm_caps m <> [] /\ In contract_version (rm_contracts m).
Proof.
  unfold validate. split.
  - destruct (String.eqb (rm_name m) "") eqn:E1; [discriminate|].
    destruct (String.eqb (rm_desc m) "") eqn:E2; [discriminate|].
    destruct (String.eqb (rm_ver m) "") eqn:E3; [discriminate|].
    destruct (String.eqb (rm_url m) "") eqn:E4; [discriminate|].
    apply str_eqb_empty in E1, E2, E3, E4.
    destruct (rm_caps m) as [|c cs]; [discriminate|].
    destruct (rm_contracts m) as [|x xs] eqn:Ec; [discriminate|].
    intros H. apply mem_str_in in H. repeat split; try assumption. discriminate.
  - intros [H1 [H2 [H3 [H4 [H5 H6]]]]].
    apply str_eqb_empty in H1, H2, H3, H4. rewrite H1, H2, H3, H4.
    destruct (rm_caps m) as [|c cs]; [contradiction|].
    destruct (rm_contracts m) as [|x xs] eqn:Ec; [contradiction|].
    apply mem_str_in. exact H6.
Qed.

(* a usable source, read on what its executable prints *)
Theorem candidate_raw_iff rt src n v : source_ok src = true ->
  (candidate (tbl_of rt) src = Some (n, v) <->
   exists e m, spec_exe src = Some e /\ pname_of (f_name e) = Some n /\ valid_name n = true /\
               rtbl_get (f_cid e) rt = RJson m /\ validate m = true /\ rm_name m = n /\ rm_ver m = v).
Proof.
  intros Hwf. unfold candidate. split.
  - destruct (spec_exe src) as [e|]; [|discriminate].
    destruct (pname_of (f_name e)) as [k|] eqn:Hk; [|discriminate].
    destruct (valid_name k) eqn:Hvn; cbn [negb]; [|discriminate].
    rewrite tbl_get_tbl_of. destruct (rtbl_get (f_cid e) rt) as [m| |] eqn:Hr; cbn [mres_of]; try discriminate.
    destruct (validate m) eqn:Hv; [|discriminate].
    destruct (String.eqb (rm_name m) k) eqn:E; [|discriminate]. apply str_eqb_eq in E.
    intros H. injection H as <- <-. exists e, m. repeat split; try assumption; try reflexivity.
  - intros [e [m [Hse [Hk [Hvn [Hr [Hv [Hn Hw]]]]]]]]. rewrite Hse, Hk, Hvn. cbn [negb].
    rewrite tbl_get_tbl_of, Hr. cbn [mres_of]. rewrite Hv, Hn, str_eqb_refl, Hw. reflexivity.
Qed.

(* invalid or misnamed metadata is refused, with its own error, and nothing changes *)
Theorem metadata_refused rt st src ow e n st' r :
  source_ok src = true -> spec_exe src = Some e -> pname_of (f_name e) = Some n ->
  install (tbl_of rt) st src ow = (st', r) ->
  (forall m, rtbl_get (f_cid e) rt = RJson m -> validate m = false \/ rm_name m <> n) ->
  st' = st /\ r_new r = None /\ r_existing r = None /\
  r_err r = Some (match rtbl_get (f_cid e) rt with
                  | RJson m => if validate m then EMisnamed else EMetaInvalid
                  | _ => EMetaInvalid
                  end).
Proof.
  intros Hwf Hse Hn Hi Hbad.
  assert (Hce : is_cand e = true) by (unfold is_cand; rewrite Hn; reflexivity).
  destruct (spec_exe_located src e Hwf Hse Hce) as [k [Hk Hl]].
  rewrite Hn in Hk. injection Hk as <-.
  destruct (locate_ok src e n (spec_files src) Hwf Hl) as [_ [_ [_ [Hx _]]]].
  unfold install in Hi. rewrite Hl in Hi. cbn [install_with] in Hi.
  unfold ask in Hi. rewrite Hx in Hi. cbn [negb] in Hi. rewrite tbl_get_tbl_of in Hi.
  destruct (rtbl_get (f_cid e) rt) as [m| |] eqn:Hr; cbn [mres_of] in Hi.
  - destruct (validate m) eqn:Hv.
    + destruct (Hbad m eq_refl) as [H|H]; [congruence|].
      destruct (String.eqb (rm_name m) n) eqn:E; [apply str_eqb_eq in E; contradiction|].
      unfold fail in Hi. injection Hi as <- <-. repeat split; reflexivity.
    + unfold fail in Hi. injection Hi as <- <-. repeat split; reflexivity.
  - unfold fail in Hi. injection Hi as <- <-. repeat split; reflexivity.
  - unfold fail in Hi. injection Hi as <- <-. repeat split; reflexivity.
Qed.

(* ====================================================================== *)
(* 6. an invalid version on either side                                    *)
(* ====================================================================== *)

(* without overwrite, over a working plugin of the same name: if the new or the installed
   version is not a SemVer 2.0.0 version the installation is refused with the version error,
   returns nothing and leaves the root as it was (seed C20-5: "1", "1.1", "2.0" are not versions) *)
Theorem invalid_version_refused tbl st src n v en ev st' r :
  source_ok src = true -> install tbl st src false = (st', r) ->
  candidate tbl src = Some (n, v) -> existing tbl st n = Some (AOk en ev) ->
  sv_valid v = false \/ sv_valid ev = false ->
  r_err r = Some EVersion /\ st' = st /\ r_new r = None /\ r_existing r = None.
Proof.
  intros Hwf Hi Hc Hex Hbad.
  destruct (c20_replace_rule tbl st src false n v en ev st' r Hwf Hi Hc Hex) as [_ [_ H]].
  destruct (H eq_refl) as [Hv _].
  assert (He : r_err r = Some EVersion).
  { apply Hv. destruct Hbad as [->| ->]; [reflexivity|apply andb_false_r]. }
  split; [exact He|].
  assert (Hne : r_err r <> None) by (rewrite He; discriminate).
  destruct (refused_frame tbl st src false st' r Hi Hne) as [H1 [H2 [H3 _]]]. auto.
Qed.

(* the near-miss strings of the seeded regression, in both roles, as the model runs them *)
Definition nearmiss : list string :=
  ["1.1"; "1"; "2.0"; "v1.0.0"; "1.0.0.0"; "01.0.0"; "1.0.0-"; "1.0.0+"; "1.0"; " 1.0.0"; "1.0.0 ";
   "1.0.0-01"; "1.0.0-a..b"].

Definition errs_of (ss : list sobs) : list (option ierr) :=
  map (fun s => match s_res s with RInstall r => r_err r | _ => None end) ss.

Definition fsrc (cid : N) : source := SFile (F "notation-foo" 493 cid).

(* role "new": 1.0.0 installed, the near-miss refused (root untouched), 1.0.5 accepted over 1.0.0 *)
Definition nearmiss_new_ok (s : string) : bool :=
  let tbl := [(1%N, MOk "foo" "1.0.0"); (2%N, MOk "foo" s); (3%N, MOk "foo" "1.0.5")] in
  let ops := [OInstall (fsrc 1) false; OInstall (fsrc 2) false; OInstall (fsrc 3) false] in
  list_eqb (opt_eqb ierr_eqb) (errs_of (run_ops tbl [] ops)) [None; Some EVersion; None]
  && state_eqb (final_state tbl [] (firstn 2 ops)) [("foo", [F "notation-foo" 493 1])]
  && state_eqb (final_state tbl [] ops) [("foo", [F "notation-foo" 493 3])].

(* role "installed": the near-miss gets in by a fresh installation; every installation without
   overwrite is then refused and changes nothing; overwrite replaces it *)
Definition nearmiss_installed_ok (s : string) : bool :=
  let tbl := [(1%N, MOk "foo" s); (2%N, MOk "foo" "1.0.0"); (3%N, MOk "foo" "3.0.0")] in
  let ops := [OInstall (fsrc 1) false; OInstall (fsrc 2) false; OInstall (fsrc 3) false; OInstall (fsrc 1) false;
              OInstall (fsrc 3) true] in
  list_eqb (opt_eqb ierr_eqb) (errs_of (run_ops tbl [] ops))
           [None; Some EVersion; Some EVersion; Some EVersion; None]
  && state_eqb (final_state tbl [] (firstn 4 ops)) [("foo", [F "notation-foo" 493 1])]
  && state_eqb (final_state tbl [] ops) [("foo", [F "notation-foo" 493 3])].

Lemma nearmiss_model :
  forallb (fun s => negb (sv_valid s)) ("" :: nearmiss) = true /\
  forallb nearmiss_new_ok nearmiss = true /\ forallb nearmiss_installed_ok nearmiss = true.
Proof. vm_compute. repeat split; reflexivity. Qed.

(* ====================================================================== *)
(* 7. the reasons of a refusal are those the property lists                *)
(* ====================================================================== *)

(* every refusal is: an unusable source or invalid / misnamed metadata (candidate = None), or,
   without overwrite, a working plugin of that name whose version is not strictly lower (one of
   the three version errors), or, without overwrite, a broken plugin of that name *)
Theorem refusal_reasons tbl st src ow st' r e :
  source_ok src = true -> install tbl st src ow = (st', r) -> r_err r = Some e ->
  candidate tbl src = None \/
  (ow = false /\ exists n v a, candidate tbl src = Some (n, v) /\ existing tbl st n = Some a /\
     match a with
     | AOk en ev => ~ higher v ev /\ is_version_err e = true
     | _ => True
     end).
Proof.
  intros Hwf Hi He.
  pose proof (c20_install_result tbl st src ow st' r Hwf Hi) as H.
  unfold verdict in H. destruct (candidate tbl src) as [[n v]|] eqn:Hc; [right|left; reflexivity].
  destruct (existing tbl st n) as [a|] eqn:Hex.
  2:{ destruct H as [_ ->]. discriminate. }
  destruct a as [en ev| | | |].
  - destruct (ow || sv_higher v ev) eqn:Hb.
    + destruct H as [_ ->]. discriminate.
    + apply orb_false_iff in Hb. destruct Hb as [-> Hh]. split; [reflexivity|].
      exists n, v, (AOk en ev). repeat split; try reflexivity; try assumption.
      * intros Hhi. apply c20_sv_higher_iff in Hhi. congruence.
      * destruct H as [_ [e' [-> [_ Hcl]]]]. cbn in He. injection He as ->.
        apply (Hcl n v en ev); [exact Hc|exact Hex].
  - destruct ow; [destruct H as [_ ->]; discriminate|]. split; [reflexivity|]. exists n, v, AInvalid. auto.
  - destruct ow; [destruct H as [_ ->]; discriminate|]. split; [reflexivity|]. exists n, v, AMisnamed. auto.
  - destruct ow; [destruct H as [_ ->]; discriminate|]. split; [reflexivity|]. exists n, v, AFail. auto.
  - destruct ow; [destruct H as [_ ->]; discriminate|]. split; [reflexivity|]. exists n, v, AAbsent. auto.
Qed.

(* ====================================================================== *)
(* 8. the place of the source (after 6dc7abe)                              *)
(* ====================================================================== *)

(* a source outside the plugin root: the general form is the plain one *)
Theorem at_out tbl st src ow : install_at tbl st (POut src) ow = install tbl st src ow.
Proof.
  destruct (install_at_rel tbl st (POut src) ow eq_refl) as [H|[exe [n [copy [_ [Hh _]]]]]]; [exact H|].
  cbn in Hh. discriminate.
Qed.

(* every result of the general form is a refusal that changes nothing, or comes from the finishing function *)
Lemma install_with_g_cases doi loc tbl st ow :
  (exists e, install_with_g doi loc tbl st ow = fail st e) \/
  (exists exe n copy ex v, loc = LOk exe n copy /\ install_with_g doi loc tbl st ow = doi st n copy ex (n, v)).
Proof.
  destruct loc as [e|exe n copy]; cbn [install_with_g]; [left; eexists; reflexivity|].
  unfold ask. destruct (negb (is_exec exe)); [left; eexists; reflexivity|].
  destruct (tbl_get (f_cid exe) tbl) as [mn v| |]; try (left; eexists; reflexivity).
  destruct (String.eqb mn n) eqn:E; [|left; eexists; reflexivity]. apply str_eqb_eq in E. subst mn.
  repeat match goal with
         | |- (exists e, fail ?s ?x = fail ?s e) \/ _ => left; eexists; reflexivity
         | |- _ \/ (exists exe0 n0 copy0 ex v0, _ /\ doi ?s ?m ?c ?e (?m, ?w) = _) =>
             right; exists exe, n, copy, e, w; split; reflexivity
         | |- (exists e, match ?x with _ => _ end = _) \/ _ => destruct x
         | |- (exists e, (if ?x then _ else _) = _) \/ _ => destruct x
         end.
Qed.

(* a successful installation never has its source inside the directory it replaced: the plugin
   whose directory (or executable) is the source is not (re)installed from it, with or without overwrite *)
Theorem at_success_outside tbl st p ow st' r n v :
  install_at tbl st p ow = (st', r) -> r_err r = None -> r_new r = Some (n, v) ->
  rs_target (resolve st p) <> Some n /\ rs_home (resolve st p) <> Some n.
Proof.
  intros Hi He Hn.
  assert (Ht : rs_target (resolve st p) <> Some n).
  { unfold install_at, install_at_g in Hi.
    destruct (install_with_g_cases (do_install_at (resolve st p)) (locate (rs_src (resolve st p))) tbl
                (after_parse st p (locate (rs_src (resolve st p)))) ow) as [[e H]|[exe [m [copy [ex [w [_ H]]]]]]];
      rewrite H in Hi.
    - unfold fail in Hi. injection Hi as _ <-. discriminate.
    - unfold do_install_at in Hi.
      destruct (same_name (rs_home (resolve st p)) m); [unfold fail in Hi; injection Hi as _ <-; discriminate|].
      destruct (negb (valid_name m)); [unfold fail in Hi; injection Hi as _ <-; discriminate|].
      destruct (same_name (rs_target (resolve st p)) m) eqn:Et; [injection Hi as _ <-; discriminate|].
      injection Hi as _ <-. cbn in Hn. injection Hn as <- _.
      intros Hc. apply same_name_true in Hc. rewrite Hc in Et. discriminate. }
  split; [exact Ht|]. intros Hh. apply Ht. apply home_target. exact Hh.
Qed.

(* a source inside the root (not an installed plugin directory with a non-executable candidate) is installed exactly
   as an outside copy of it would be, or refused as being the installed plugin itself; then nothing changes *)
Theorem at_as_outside tbl st p ow : not_installed_dir_with_nonexec_candidate st p = true ->
  install_at tbl st p ow = install tbl st (rs_src (resolve st p)) ow \/
  (install_at tbl st p ow = (st, mk_ires None None (Some ESelf)) /\
   exists n, rs_home (resolve st p) = Some n /\
             r_err (snd (install tbl st (rs_src (resolve st p)) ow)) = None).
Proof.
  intros Hc. destruct (install_at_rel tbl st p ow Hc) as [H|[exe [n [copy [_ [Hh [He H]]]]]]]; [left; exact H|].
  right. split; [exact H|]. exists n. auto.
Qed.

(* refused or failed: root, List and all answers as they were - wherever the source lies *)
Theorem at_frame tbl st p ow st' r : not_installed_dir_with_nonexec_candidate st p = true ->
  install_at tbl st p ow = (st', r) -> r_err r <> None ->
  st' = st /\ r_new r = None /\ r_existing r = None /\ view_of tbl st' = view_of tbl st.
Proof.
  intros Hc Hi He. destruct (at_as_outside tbl st p ow Hc) as [H|[H _]]; rewrite H in Hi.
  - apply (refused_frame tbl st (rs_src (resolve st p)) ow st' r Hi He).
  - injection Hi as <- <-. auto.
Qed.

(* the plugin's own directory / executable, with overwrite, when the plugin works: refused, untouched *)
Theorem at_self_refused tbl st p k exe copy v :
  not_installed_dir_with_nonexec_candidate st p = true -> source_ok (rs_src (resolve st p)) = true ->
  rs_home (resolve st p) = Some k -> locate (rs_src (resolve st p)) = LOk exe k copy ->
  tbl_get (f_cid exe) tbl = MOk k v ->
  install_at tbl st p true = (st, mk_ires None None (Some ESelf)).
Proof.
  intros Hc Hwf Hh Hl Ht.
  destruct (at_as_outside tbl st p true Hc) as [H|[H _]]; [|exact H]. exfalso.
  destruct (install tbl st (rs_src (resolve st p)) true) as [s0 r0] eqn:Hi.
  assert (Hcand : candidate tbl (rs_src (resolve st p)) = Some (k, v)).
  { destruct (locate_ok _ _ _ _ Hwf Hl) as [Hse [Hpn _]]. unfold candidate. rewrite Hse, Hpn.
    rewrite (locate_err_or_valid _ _ _ _ Hl). cbn [negb]. rewrite Ht, str_eqb_refl. reflexivity. }
  assert (He : r_err r0 = None).
  { apply (c20_install_success_iff tbl st _ true s0 r0 Hwf Hi). unfold verdict. rewrite Hcand.
    destruct (existing tbl st k) as [[| | | |]|]; cbn [orb]; discriminate. }
  pose proof (c20_install_result tbl st _ true s0 r0 Hwf Hi) as Hr.
  destruct (verdict tbl st (rs_src (resolve st p)) true) as [[[n' v'] ex]|] eqn:Hv.
  2:{ destruct Hr as [_ [e [-> _]]]. discriminate. }
  pose proof (verdict_candidate _ _ _ _ _ _ _ Hv) as Hc'. rewrite Hcand in Hc'. injection Hc' as <- <-.
  destruct Hr as [_ ->].
  destruct (at_success_outside tbl st p true s0 _ k v H eq_refl eq_refl) as [_ Hn]. apply Hn. exact Hh.
Qed.

Lemma final_state_at_app tbl : forall ops1 ops2 st,
  final_state_at tbl st (ops1 ++ ops2) = final_state_at tbl (final_state_at tbl st ops1) ops2.
Proof.
  induction ops1 as [|o ops1 IH]; intros ops2 st; [reflexivity|]. cbn [app final_state_at]. apply IH.
Qed.

(* a refused installation at any place of a history whose installations name their places *)
Theorem at_history_step_frame tbl ops1 p ow st :
  let T := final_state_at tbl st ops1 in
  not_installed_dir_with_nonexec_candidate T p = true -> r_err (snd (install_at tbl T p ow)) <> None ->
  final_state_at tbl st (ops1 ++ [AInstall p ow]) = T.
Proof.
  intros T Hc He. rewrite final_state_at_app. cbn [final_state_at mstep_at]. fold T.
  destruct (install_at tbl T p ow) as [s r] eqn:Hi. cbn [fst snd] in *.
  destruct (at_frame tbl T p ow s r Hc Hi He) as [H _]. exact H.
Qed.

(* ---- witnesses ---- *)
Definition self_tbl : table := [(1%N, MOk "foo" "1.0.0"); (2%N, MOk "foo" "2.0.0"); (7%N, MFail)].
Definition self_st : state := [("foo", [F "lib.so" 420 7; F "notation-foo" 493 1])].

(* before 6dc7abe: the plugin's own directory or executable as the source, with overwrite: an error and
   the plugin is gone; now: refused, untouched *)
Lemma self_v0_refuted :
  install_at_v0 self_tbl self_st (PInDir "foo") true = ([], mk_ires None None (Some ECopy)) /\
  install_at_v0 self_tbl self_st (PInFile "foo" "notation-foo") true = ([], mk_ires None None (Some ECopy)) /\
  install_at self_tbl self_st (PInDir "foo") true = (self_st, mk_ires None None (Some ESelf)) /\
  install_at self_tbl self_st (PInFile "foo" "notation-foo") true = (self_st, mk_ires None None (Some ESelf)) /\
  install_at self_tbl self_st (PInDir "foo") false = (self_st, mk_ires None None (Some EEqual)).
Proof. vm_compute. repeat split; reflexivity. Qed.

(* the hypothesis of at_frame cannot be dropped: the documented chmod of a directory source whose only
   candidate is not executable, applied to a source that is an installed plugin directory *)
Lemma at_frame_chmod_refuted :
  let st := [("foo", [F "lib.so" 420 7; F "notation-foo" 420 1])] in
  not_installed_dir_with_nonexec_candidate st (PInDir "foo") = false /\
  (forall ow, exists e, install_at self_tbl st (PInDir "foo") ow
                        = ([("foo", [F "lib.so" 420 7; F "notation-foo" 484 1])], mk_ires None None (Some e))) /\
  existing self_tbl st "foo" = Some AFail /\
  existing self_tbl [("foo", [F "lib.so" 420 7; F "notation-foo" 484 1])] "foo" = Some (AOk "foo" "1.0.0").
Proof.
  cbv zeta. split; [vm_compute; reflexivity|]. split; [|vm_compute; split; reflexivity].
  intros [|]; eexists; vm_compute; reflexivity.
Qed.

(* before ccdc027: a link named notation-foo, elsewhere, to <root>/foo/notation-foo, with overwrite: copy
   error and the plugin gone; now refused as the installed plugin itself, untouched *)
Lemma linkfile_v1_refuted :
  install_at_v1 self_tbl self_st (PLinkFile "notation-foo" "foo" "notation-foo") true
    = ([], mk_ires None None (Some ECopy)) /\
  install_at self_tbl self_st (PLinkFile "notation-foo" "foo" "notation-foo") true
    = (self_st, mk_ires None None (Some ESelf)) /\
  install_at self_tbl self_st (PLinkFile "notation-foo" "foo" "notation-foo") false
    = (self_st, mk_ires None None (Some EEqual)) /\
  (* a link named for another plugin to that executable: the metadata names foo, not baz *)
  install_at self_tbl self_st (PLinkFile "notation-baz" "foo" "notation-foo") true
    = (self_st, mk_ires None None (Some EMisnamed)).
Proof. vm_compute. repeat split; reflexivity. Qed.

(* another plugin's directory holding an executable named for foo: foo is installed from it as from any
   directory, the other directory stays as it is; the directory of a plugin cannot name another plugin
   through its own executable (the name is read off the file name), but it can hold such a file *)
Lemma at_other_plugin_witness :
  let st := [("baz", [F "data" 420 7; F "notation-foo" 493 2]); ("foo", [F "lib.so" 420 7; F "notation-foo" 493 1])] in
  install_at self_tbl st (PInDir "baz") false
    = ([("baz", [F "data" 420 7; F "notation-foo" 493 2]); ("foo", [F "data" 420 7; F "notation-foo" 493 2])],
       mk_ires (Some ("foo", "1.0.0")) (Some ("foo", "2.0.0")) None) /\
  install_at self_tbl st (PInFile "baz" "notation-foo") false
    = ([("baz", [F "data" 420 7; F "notation-foo" 493 2]); ("foo", [F "notation-foo" 493 2])],
       mk_ires (Some ("foo", "1.0.0")) (Some ("foo", "2.0.0")) None) /\
  install_at self_tbl st PLinkDir true = (st, mk_ires None None (Some ESrcNoExec)) /\
  wf (IHistAt self_tbl st [AInstall (PInDir "baz") false; AInstall (PInDir "foo") true;
                           AInstall (PInFile "foo" "notation-foo") false; AInstall PLinkDir true]) = true.
Proof. vm_compute. repeat split; reflexivity. Qed.
