(* C09_Proofs.v — proofs about the model of trust policy validation. *)
From NV Require Import Base Regex Generated C02_Levels C04_DN C09_Model C09_Spec.
Open Scope string_scope.
Open Scope list_scope.

(* ---------- basics ---------- *)

Lemma andthen_ok : forall e k, (e ;; k) = EOk <-> e = EOk /\ k = EOk.
Proof.
  intros e k; destruct e; cbn;
    (split; [intros H; first [discriminate H | split; [reflexivity | exact H]]
            | intros [H1 H2]; first [discriminate H1 | exact H2]]).
Qed.

Lemma eqb_false_iff : forall a b, String.eqb a b = false <-> a <> b.
Proof. intros a b. apply String.eqb_neq. Qed.

Lemma negb_eqb_true : forall a b, negb (String.eqb a b) = true <-> a <> b.
Proof. intros. rewrite negb_true_iff. apply String.eqb_neq. Qed.

Lemma mem_str_In : forall x l, mem_str x l = true <-> In x l.
Proof.
  intros x l. unfold mem_str. rewrite existsb_exists. split.
  - intros [y [Hy E]]. apply String.eqb_eq in E. subst. exact Hy.
  - intros H. exists x. split; [exact H | apply String.eqb_refl].
Qed.

Lemma mem_str_false : forall x l, mem_str x l = false <-> ~ In x l.
Proof.
  intros x l. rewrite <- mem_str_In. destruct (mem_str x l); split; congruence.
Qed.

Lemma is_empty_true : forall {A} (l : list A), is_empty l = true <-> l = [].
Proof. intros A [|x l]; cbn; split; congruence. Qed.

Lemma is_empty_false : forall {A} (l : list A), is_empty l = false <-> l <> [].
Proof. intros A [|x l]; cbn; split; congruence. Qed.

Lemma has_dup_false : forall l, has_dup l = false <-> NoDup l.
Proof.
  induction l as [|x l IH]; cbn.
  - split; [constructor | reflexivity].
  - rewrite orb_false_iff, mem_str_false, IH. split.
    + intros [H1 H2]. constructor; assumption.
    + intros H. inversion H; subst. split; assumption.
Qed.

Lemma forallb_Forall : forall {A} (f : A -> bool) l, forallb f l = true <-> Forall (fun x => f x = true) l.
Proof. intros. rewrite forallb_forall, Forall_forall. reflexivity. Qed.

Lemma Forall_iff : forall {A} (P Q : A -> Prop) l,
  (forall x, P x <-> Q x) -> (Forall P l <-> Forall Q l).
Proof.
  intros A P Q l H. split; apply Forall_impl; intros a; apply H.
Qed.

Lemma cut_byte_split : forall c s l r, cut_byte c s = Some (l, r) -> s = (l ++ String c r)%string.
Proof.
  intros c s. induction s as [|a s IH]; intros l r; cbn.
  - discriminate.
  - destruct (Ascii.eqb a c) eqn:E.
    + intros H; inversion H; subst. apply Ascii.eqb_eq in E. subst. reflexivity.
    + destruct (cut_byte c s) as [[l' r']|]; [|discriminate].
      intros H; inversion H; subst. cbn. f_equal. apply IH. reflexivity.
Qed.

Lemma cut_byte_left : forall c s l r, cut_byte c s = Some (l, r) -> contains_byte c l = false.
Proof.
  intros c s. induction s as [|a s IH]; intros l r; cbn.
  - discriminate.
  - destruct (Ascii.eqb a c) eqn:E.
    + intros H; inversion H; subst. reflexivity.
    + destruct (cut_byte c s) as [[l' r']|]; [|discriminate].
      intros H; inversion H; subst. cbn. rewrite E. cbn. eapply IH. reflexivity.
Qed.

(* ---------- trust stores ---------- *)

Lemma valid_file_name_b : forall nm,
  is_valid_file_name nm =
  negb (String.eqb nm ".") && negb (String.eqb nm "..") && matches gen_re_filename nm.
Proof.
  intros nm. unfold is_valid_file_name.
  destruct (String.eqb nm "."), (String.eqb nm ".."); reflexivity.
Qed.

Lemma validate_trust_store_ok : forall stores,
  validate_trust_store stores = EOk <-> forallb store_ok_b stores = true.
Proof.
  induction stores as [|st rest IH]; cbn [validate_trust_store forallb].
  - split; reflexivity.
  - unfold store_ok_b at 1. destruct (cut_byte ":" st) as [[ty nm]|].
    + destruct (mem_str ty gen_store_types); cbn [negb andb].
      * rewrite <- valid_file_name_b.
        destruct (is_valid_file_name nm); cbn; [exact IH | split; discriminate].
      * split; discriminate.
    + cbn. split; discriminate.
Qed.

Lemma store_ok_reflect : forall st, store_ok_b st = true <-> StoreOK st.
Proof.
  intros st. unfold store_ok_b, StoreOK, FileNameSafe.
  destruct (cut_byte ":" st) as [[ty nm]|].
  - rewrite !andb_true_iff, mem_str_In, !negb_eqb_true. split.
    + intros [[[H1 H2] H3] H4]. exists ty, nm. auto.
    + intros [ty' [nm' [E [H1 [H2 [H3 H4]]]]]]. inversion E; subst. auto.
  - split; [discriminate | intros [ty [nm [E _]]]; discriminate].
Qed.

(* ---------- scopes ---------- *)

Lemma contains_short : forall c s, contains_byte c s = true -> (String.length s <= 1)%nat -> s = String c "".
Proof.
  intros c [|a [|b s]]; cbn.
  - discriminate.
  - rewrite orb_false_r. intros H _. apply Ascii.eqb_eq in H. subst. reflexivity.
  - intros _ H. lia.
Qed.

Lemma validate_scope_format_ok : forall sc, sc <> wildcard ->
  (validate_scope_format sc = EOk <-> scope_ok_b sc = true).
Proof.
  intros sc Hw. unfold validate_scope_format, scope_ok_b.
  assert (Ew : String.eqb sc wildcard = false) by (apply String.eqb_neq; exact Hw).
  rewrite Ew. cbn [orb].
  destruct (contains_byte "*" sc) eqn:Ec.
  - assert (Hl : Nat.ltb 1 (String.length sc) = true).
    { apply Nat.ltb_lt. destruct (Nat.le_gt_cases (String.length sc) 1) as [Hle|Hgt]; [|exact Hgt].
      exfalso. apply Hw. apply (contains_short _ _ Ec Hle). }
    rewrite Hl. cbn. split; discriminate.
  - rewrite andb_false_r. cbn [negb andb].
    destruct (cut_byte "/" sc) as [[d r]|]; [|split; discriminate].
    destruct (String.eqb d ""), (String.eqb r ""), (matches gen_re_domain d), (matches gen_re_repository r);
      cbn; split; congruence.
Qed.

Lemma scopes_inner_ok : forall scs, scopes_inner scs = EOk <-> forallb scope_ok_b scs = true.
Proof.
  induction scs as [|sc rest IH]; cbn [scopes_inner forallb].
  - split; reflexivity.
  - rewrite andthen_ok, andb_true_iff, IH.
    destruct (String.eqb sc wildcard) eqn:E.
    + unfold scope_ok_b. rewrite E. cbn. tauto.
    + apply String.eqb_neq in E. rewrite (validate_scope_format_ok _ E). tauto.
Qed.

Lemma length_ltb_1 : forall {A} (l : list A), Nat.ltb 1 (List.length l) = negb (Nat.eqb (List.length l) 1) && negb (is_empty l).
Proof. intros A [|a [|b l]]; reflexivity. Qed.

Lemma lone_wildcard_check : forall l, l <> [] ->
  (Nat.ltb 1 (List.length l) && mem_str wildcard l = false <-> lone_wildcard_b l = true).
Proof.
  intros l Hne. unfold lone_wildcard_b. rewrite length_ltb_1.
  destruct l as [|a l]; [congruence|]. cbn [is_empty negb]. rewrite andb_true_r.
  destruct (Nat.eqb (List.length (a :: l)) 1), (mem_str wildcard (a :: l)); cbn; split; congruence.
Qed.

Lemma scopes_loop_ok : forall ss, scopes_loop ss = EOk <-> forallb stmt_scopes_ok_b ss = true.
Proof.
  induction ss as [|s rest IH]; cbn [scopes_loop forallb].
  - split; reflexivity.
  - unfold stmt_scopes_ok_b at 1. destruct (is_empty (s_scopes s)) eqn:Ee.
    + cbn. split; discriminate.
    + apply is_empty_false in Ee. cbn [negb andb].
      destruct (Nat.ltb 1 (List.length (s_scopes s)) && mem_str wildcard (s_scopes s)) eqn:Em.
      * assert (lone_wildcard_b (s_scopes s) = false) as ->.
        { destruct (lone_wildcard_b (s_scopes s)) eqn:El; [|reflexivity].
          apply (lone_wildcard_check _ Ee) in El. congruence. }
        cbn. split; discriminate.
      * apply (lone_wildcard_check _ Ee) in Em. rewrite Em. cbn [andb].
        rewrite andthen_ok, andb_true_iff, scopes_inner_ok, IH. tauto.
Qed.

Lemma validate_registry_scopes_ok : forall ss,
  validate_registry_scopes ss = EOk <->
  forallb stmt_scopes_ok_b ss = true /\ has_dup (flat_map s_scopes ss) = false.
Proof.
  intros ss. unfold validate_registry_scopes. rewrite andthen_ok, scopes_loop_ok.
  destruct (has_dup (flat_map s_scopes ss)); split; intros [H1 H2]; split; congruence.
Qed.

(* ---------- trusted identities ---------- *)

Lemma ids_loop_inr : forall ids l, ids_loop ids = inr l ->
  forallb id_ok_b ids = true /\ l = dn_maps ids.
Proof.
  induction ids as [|id rest IH]; intros l; cbn [ids_loop forallb dn_maps flat_map].
  - intros H; inversion H; auto.
  - unfold id_ok_b at 1, x509_value at 1.
    destruct (String.eqb id "") eqn:E0; [discriminate|].
    destruct (String.eqb id wildcard) eqn:Ew.
    + apply String.eqb_eq in Ew. subst id. cbn. intros H. apply IH in H. exact H.
    + destruct (cut_byte ":" id) as [[p v]|]; [|discriminate].
      destruct (String.eqb p x509_subject).
      * destruct (String.eqb v ""); [discriminate|].
        destruct (parse_distinguished_name v) as [m|e]; [|discriminate].
        destruct (ids_loop rest) as [e|l']; [discriminate|].
        intros H; inversion H; subst. destruct (IH l' eq_refl) as [H1 H2]. subst. cbn. auto.
      * intros H. apply IH in H. cbn. exact H.
Qed.

Lemma ids_loop_inl : forall ids e, ids_loop ids = inl e ->
  forallb id_ok_b ids = false /\ e <> EOk.
Proof.
  induction ids as [|id rest IH]; intros e; cbn [ids_loop forallb].
  - discriminate.
  - unfold id_ok_b at 1.
    destruct (String.eqb id "") eqn:E0; [intros H; inversion H; split; [reflexivity|discriminate]|].
    destruct (String.eqb id wildcard) eqn:Ew.
    + cbn. apply IH.
    + cbn [negb orb andb]. destruct (cut_byte ":" id) as [[p v]|];
        [|intros H; inversion H; split; [reflexivity|discriminate]].
      destruct (String.eqb p x509_subject); cbn [negb orb].
      * destruct (String.eqb v ""); [intros H; inversion H; split; [reflexivity|discriminate]|].
        destruct (parse_distinguished_name v) as [m|e'];
          [|intros H; inversion H; split; [reflexivity|discriminate]].
        destruct (ids_loop rest) as [e'|l']; [|discriminate].
        intros H; inversion H; subst. cbn. apply IH. reflexivity.
      * apply IH.
Qed.

Lemma existsb_negb_forallb : forall {A} (f : A -> bool) l,
  existsb f l = negb (forallb (fun x => negb (f x)) l).
Proof.
  intros A f l. induction l as [|a l IH]; cbn; [reflexivity|].
  rewrite IH. destruct (f a); reflexivity.
Qed.

Lemma forallb_ext' : forall {A} (f g : A -> bool) l, (forall x, f x = g x) -> forallb f l = forallb g l.
Proof. intros A f g l H. induction l as [|a l IH]; cbn; [reflexivity | rewrite H, IH; reflexivity]. Qed.

Lemma overlapping_no_overlap : forall dns, overlapping dns = negb (no_overlap_b dns).
Proof.
  intros dns. unfold overlapping, no_overlap_b. rewrite existsb_negb_forallb. f_equal.
  apply forallb_ext'. intros ia. rewrite existsb_negb_forallb, negb_involutive.
  apply forallb_ext'. intros jb. destruct (Nat.eqb (fst ia) (fst jb)), (is_subset_dn (snd ia) (snd jb)); reflexivity.
Qed.

Lemma validate_trusted_identities_ok : forall ids, ids <> [] ->
  (validate_trusted_identities ids = EOk <->
   lone_wildcard_b ids && forallb id_ok_b ids && no_overlap_b (dn_maps ids) = true).
Proof.
  intros ids Hne. unfold validate_trusted_identities.
  destruct (Nat.ltb 1 (List.length ids) && mem_str wildcard ids) eqn:Em.
  - assert (lone_wildcard_b ids = false) as ->.
    { destruct (lone_wildcard_b ids) eqn:El; [|reflexivity].
      apply (lone_wildcard_check _ Hne) in El. congruence. }
    cbn. split; discriminate.
  - apply (lone_wildcard_check _ Hne) in Em. rewrite Em. cbn [andb].
    destruct (ids_loop ids) as [e|l] eqn:El.
    + apply ids_loop_inl in El. destruct El as [-> Hne']. cbn. split; [contradiction|discriminate].
    + apply ids_loop_inr in El. destruct El as [-> ->]. cbn [andb].
      rewrite overlapping_no_overlap. destruct (no_overlap_b (dn_maps ids)); cbn; split; congruence.
Qed.

(* ---------- levels ---------- *)

Lemma find_level_some : forall name ls,
  (exists e, find_level name ls = Some e) <-> mem_str name (map fst ls) = true.
Proof.
  intros name ls. induction ls as [|[n e] ls IH]; cbn [find_level map fst mem_str existsb].
  - split; [intros [e H]; discriminate | discriminate].
  - fold (mem_str name (map fst ls)). rewrite orb_true_iff, <- IH.
    destruct (find_level name ls) as [e'|].
    + split; [intros _; right; exists e'; reflexivity | intros _; exists e'; reflexivity].
    + rewrite (String.eqb_sym n name). destruct (String.eqb name n).
      * split; [intros _; left; reflexivity | intros _; exists e; reflexivity].
      * split; [intros [x H]; discriminate | intros [H|[x H]]; discriminate].
Qed.

Lemma apply_override_ok : forall enf kv,
  (exists enf', apply_override enf kv = inr enf') <-> override_entry_ok kv = true.
Proof.
  intros enf [k v]. unfold apply_override, override_entry_ok. cbn [fst snd].
  destruct (mem_str k gen_validation_types); cbn [negb andb];
    [|split; [intros [x H]; discriminate | discriminate]].
  destruct (mem_str v gen_validation_actions); cbn [negb andb];
    [|split; [intros [x H]; discriminate | discriminate]].
  destruct (String.eqb k "integrity"); cbn [negb andb];
    [split; [intros [x H]; discriminate | discriminate]|].
  destruct (String.eqb k "revocation"), (String.eqb v "skip"); cbn;
    (split; [intros [x H]; first [discriminate H | reflexivity] | intros H; first [discriminate H | eexists; reflexivity]]).
Qed.

Lemma apply_overrides_ok : forall ov enf,
  (exists enf', apply_overrides enf ov = inr enf') <-> forallb override_entry_ok ov = true.
Proof.
  induction ov as [|kv ov IH]; intros enf; cbn [apply_overrides forallb].
  - split; [reflexivity | intros _; eexists; reflexivity].
  - rewrite andb_true_iff, <- (apply_override_ok enf kv).
    destruct (apply_override enf kv) as [e|enf1].
    + split; [intros [x H]; discriminate | intros [[x H] _]; discriminate].
    + rewrite IH. split; [intros H; split; [eexists; reflexivity | exact H] | intros [_ H]; exact H].
Qed.

Lemma empty_not_level : mem_str "" (map fst gen_levels) = false.
Proof. reflexivity. Qed.

Lemma get_level_ok : forall sv,
  (exists r, get_level (sv_level sv) (sv_override sv) = inr r) <-> level_ok_b sv = true.
Proof.
  intros [l ov ts]. cbn [sv_level sv_override]. unfold get_level, level_ok_b. cbn [sv_level sv_override].
  destruct (String.eqb l "") eqn:E0.
  - apply String.eqb_eq in E0. subst l. rewrite empty_not_level. cbn.
    split; [intros [x H]; discriminate | discriminate].
  - destruct (find_level l gen_levels) as [base|] eqn:Ef.
    + assert (Hm : mem_str l (map fst gen_levels) = true) by (apply find_level_some; eauto).
      rewrite Hm. cbn [andb]. destruct ov as [|kv ov].
      * cbn. split; [reflexivity | intros _; eexists; reflexivity].
      * cbn [is_empty orb]. destruct (String.eqb l "skip"); cbn [negb andb].
        -- split; [intros [x H]; discriminate | discriminate].
        -- rewrite <- (apply_overrides_ok (kv :: ov) base).
           destruct (apply_overrides base (kv :: ov)) as [e|enf].
           ++ split; [intros [x H]; discriminate | intros [x H]; discriminate].
           ++ split; intros _; eexists; reflexivity.
    + assert (Hm : mem_str l (map fst gen_levels) = false).
      { destruct (mem_str l (map fst gen_levels)) eqn:Hm; [|reflexivity].
        apply find_level_some in Hm. destruct Hm as [e He]. congruence. }
      rewrite Hm. cbn. split; [intros [x H]; discriminate | discriminate].
Qed.

(* the name of the yielded level is "skip" exactly for skip statements *)
Lemma get_level_name : forall l ov n enf, get_level l ov = inr (n, enf) ->
  String.eqb n "skip" = String.eqb l "skip".
Proof.
  intros l ov n enf. unfold get_level.
  destruct (String.eqb l ""); [discriminate|].
  destruct (find_level l gen_levels) as [base|]; [|discriminate].
  destruct ov as [|kv ov].
  - intros H; inversion H; reflexivity.
  - destruct (String.eqb l "skip"); [discriminate|].
    destruct (apply_overrides base (kv :: ov)); [discriminate|].
    intros H; inversion H; reflexivity.
Qed.

(* ---------- validatePolicyCore ---------- *)

Lemma core_ok : forall s, core_of s = EOk <-> stmt_ok_b s = true.
Proof.
  intros s. unfold core_of, validate_policy_core, stmt_ok_b.
  destruct (String.eqb (s_name s) ""); cbn [negb andb]; [split; discriminate|].
  destruct (get_level (sv_level (s_sv s)) (sv_override (s_sv s))) as [e|[n enf]] eqn:Eg.
  - assert (level_ok_b (s_sv s) = false) as ->.
    { destruct (level_ok_b (s_sv s)) eqn:El; [|reflexivity].
      apply get_level_ok in El. destruct El as [r Hr]. congruence. }
    cbn. split; [destruct e; discriminate | discriminate].
  - assert (level_ok_b (s_sv s) = true) as -> by (apply get_level_ok; eauto).
    cbn [andb]. destruct (ts_ok (sv_ts (s_sv s))); cbn [negb andb]; [|split; discriminate].
    rewrite (get_level_name _ _ _ _ Eg).
    destruct (String.eqb (sv_level (s_sv s)) "skip").
    + destruct (is_empty (s_stores s)), (is_empty (s_ids s)); cbn; split; congruence.
    + destruct (is_empty (s_stores s)) eqn:Es; cbn [orb negb andb]; [split; discriminate|].
      destruct (is_empty (s_ids s)) eqn:Ei; cbn [orb negb andb]; [split; discriminate|].
      apply is_empty_false in Ei.
      rewrite andthen_ok, validate_trust_store_ok, (validate_trusted_identities_ok _ Ei).
      rewrite !andb_true_iff. tauto.
Qed.

(* ---------- the statement loops ---------- *)

Definition Fresh (ss : list stmt) (names : list string) : Prop :=
  (forall s, In s ss -> ~ In (s_name s) names) /\ NoDup (map s_name ss).

Lemma fresh_nil : forall names, Fresh [] names.
Proof. intros names. split; [intros s []| constructor]. Qed.

Lemma fresh_cons : forall s rest names,
  Fresh (s :: rest) names <-> ~ In (s_name s) names /\ Fresh rest (s_name s :: names).
Proof.
  intros s rest names. unfold Fresh. cbn [map]. split.
  - intros [H1 H2]. inversion H2 as [|x l Hn Hd]; subst. split; [apply H1; left; reflexivity|].
    split; [|exact Hd]. intros t Ht [E|Hin].
    + apply Hn. rewrite E. apply in_map. exact Ht.
    + apply (H1 t); [right; exact Ht | exact Hin].
  - intros [H0 [H1 H2]]. split.
    + intros t [E|Ht]; [subst; exact H0|]. intros Hin. apply (H1 t Ht). right. exact Hin.
    + constructor; [|exact H2]. intros Hin. apply in_map_iff in Hin. destruct Hin as [t [E Ht]].
      apply (H1 t Ht). left. symmetry. exact E.
Qed.

Lemma oci_loop_ok : forall ss names,
  oci_loop ss names = EOk <-> forallb stmt_ok_b ss = true /\ Fresh ss names.
Proof.
  induction ss as [|s rest IH]; intros names; cbn [oci_loop forallb].
  - split; [intros _; split; [reflexivity | apply fresh_nil] | reflexivity].
  - rewrite fresh_cons, andb_true_iff. destruct (mem_str (s_name s) names) eqn:Em.
    + apply mem_str_In in Em. split; [discriminate | intros [_ [H _]]; contradiction].
    + apply mem_str_false in Em. rewrite andthen_ok, core_ok, IH. tauto.
Qed.

Definition global_rule_b (s : stmt) : bool :=
  negb (s_global s) || negb (String.eqb (sv_level (s_sv s)) "skip").

Lemma blob_loop_ok : forall ss names fg,
  blob_loop ss names fg = EOk <->
  forallb stmt_ok_b ss = true /\ Fresh ss names
  /\ forallb global_rule_b ss = true
  /\ (List.length (filter s_global ss) + (if fg then 1 else 0) <= 1)%nat.
Proof.
  induction ss as [|s rest IH]; intros names fg; cbn [blob_loop forallb filter].
  - split; [intros _|reflexivity].
    split; [reflexivity|]. split; [apply fresh_nil|]. split; [reflexivity|]. destruct fg; cbn; lia.
  - rewrite fresh_cons, !andb_true_iff. destruct (mem_str (s_name s) names) eqn:Em.
    + apply mem_str_In in Em. split; [discriminate | intros [_ [[H _] _]]; contradiction].
    + apply mem_str_false in Em. rewrite andthen_ok, core_ok. unfold global_rule_b at 1.
      destruct (s_global s) eqn:Eg; cbn [negb orb List.length].
      * destruct fg.
        -- split; [intros [_ H]; discriminate | intros [_ [_ [_ H]]]; cbn in H; lia].
        -- destruct (String.eqb (sv_level (s_sv s)) "skip"); cbn [negb].
           ++ split; [intros [_ H]; discriminate | intros [_ [_ [[H _] _]]]; discriminate].
           ++ rewrite IH. cbn. rewrite !Nat.add_0_r.
              replace (S (List.length (filter s_global rest)) <= 1)%nat
                with (List.length (filter s_global rest) + 1 <= 1)%nat
                by (rewrite Nat.add_1_r; reflexivity).
              tauto.
      * rewrite IH. tauto.
Qed.

(* ---------- the two Validate methods, against the boolean rules ---------- *)

Theorem validate_ok_b : forall k d, validate k d = EOk <-> wellformed_b k d = true.
Proof.
  intros k [ver ss]. unfold validate, validate_oci, validate_blob, wellformed_b, doc_common_ok_b.
  cbn [d_version d_stmts].
  destruct (String.eqb ver "") eqn:E0.
  - apply String.eqb_eq in E0. subst ver. cbn. destruct k; split; discriminate.
  - destruct (mem_str ver supported_versions); cbn [negb andb];
      [|destruct k; split; discriminate].
    destruct (is_empty ss) eqn:Ee; cbn [negb andb]; [destruct k; split; discriminate|].
    destruct k.
    + rewrite andthen_ok, oci_loop_ok, validate_registry_scopes_ok, !andb_true_iff, !negb_true_iff.
      unfold Fresh. rewrite has_dup_false. split.
      * intros [[H1 [_ H2]] [H3 H4]]. auto.
      * intros [[H2 H1] [H3 H4]]. split; [split; [exact H1|split; [intros s _ []|exact H2]]|split; assumption].
    + rewrite blob_loop_ok, !andb_true_iff, !negb_true_iff. unfold Fresh. rewrite has_dup_false.
      fold global_rule_b. rewrite Nat.leb_le, Nat.add_0_r.
      change (forallb (fun s => negb (s_global s) || negb (String.eqb (sv_level (s_sv s)) "skip")) ss)
        with (forallb global_rule_b ss).
      split.
      * intros [H1 [[_ H2] [H3 H4]]]. auto.
      * intros [[H2 H1] [H4 H3]]. split; [exact H1|]. split; [split; [intros s _ []|exact H2]|]. split; assumption.
Qed.
