(* C09_Proofs.v — proofs about the model of trust policy validation. *)
From NV Require Import Base Regex Generated C02_Levels C04_DN C09_Model C09_Spec.
Open Scope string_scope.
Open Scope list_scope.

(* ---------- basics ---------- *)

Lemma andthen_ok : forall e k, (e ;; k) = EOk <-> e = EOk /\ k = EOk.
Proof.
  intros e k; destruct e; cbn;
    (split; [intros H; first [discriminate H | split; [reflexivity | exact H]]
            | intros [H1 H2]; first [discriminate H1 | exact H2]]).
Qed.

Lemma eqb_false_iff : forall a b, String.eqb a b = false <-> a <> b.
Proof. intros a b. apply String.eqb_neq. Qed.

Lemma negb_eqb_true : forall a b, negb (String.eqb a b) = true <-> a <> b.
Proof. intros. rewrite negb_true_iff. apply String.eqb_neq. Qed.

Lemma mem_str_In : forall x l, mem_str x l = true <-> In x l.
Proof.
  intros x l. unfold mem_str. rewrite existsb_exists. split.
  - intros [y [Hy E]]. apply String.eqb_eq in E. subst. exact Hy.
  - intros H. exists x. split; [exact H | apply String.eqb_refl].
Qed.

Lemma mem_str_false : forall x l, mem_str x l = false <-> ~ In x l.
Proof.
  intros x l. rewrite <- mem_str_In. destruct (mem_str x l); split; congruence.
Qed.

Lemma is_empty_true : forall {A} (l : list A), is_empty l = true <-> l = [].
Proof. intros A [|x l]; cbn; split; congruence. Qed.

Lemma is_empty_false : forall {A} (l : list A), is_empty l = false <-> l <> [].
Proof. intros A [|x l]; cbn; split; congruence. Qed.

Lemma has_dup_false : forall l, has_dup l = false <-> NoDup l.
Proof.
  induction l as [|x l IH]; cbn.
  - split; [constructor | reflexivity].
  - rewrite orb_false_iff, mem_str_false, IH. split.
    + intros [H1 H2]. constructor; assumption.
    + intros H. inversion H; subst. split; assumption.
Qed.

Lemma forallb_Forall : forall {A} (f : A -> bool) l, forallb f l = true <-> Forall (fun x => f x = true) l.
Proof. intros. rewrite forallb_forall, Forall_forall. reflexivity. Qed.

Lemma Forall_iff : forall {A} (P Q : A -> Prop) l,
  (forall x, P x <-> Q x) -> (Forall P l <-> Forall Q l).
Proof.
  intros A P Q l H. split; apply Forall_impl; intros a; apply H.
Qed.

Lemma cut_byte_split : forall c s l r, cut_byte c s = Some (l, r) -> s = (l ++ String c r)%string.
Proof.
  intros c s. induction s as [|a s IH]; intros l r; cbn.
  - discriminate.
  - destruct (Ascii.eqb a c) eqn:E.
    + intros H; inversion H; subst. apply Ascii.eqb_eq in E. subst. reflexivity.
    + destruct (cut_byte c s) as [[l' r']|]; [|discriminate].
      intros H; inversion H; subst. cbn. f_equal. apply IH. reflexivity.
Qed.

Lemma cut_byte_left : forall c s l r, cut_byte c s = Some (l, r) -> contains_byte c l = false.
Proof.
  intros c s. induction s as [|a s IH]; intros l r; cbn.
  - discriminate.
  - destruct (Ascii.eqb a c) eqn:E.
    + intros H; inversion H; subst. reflexivity.
    + destruct (cut_byte c s) as [[l' r']|]; [|discriminate].
      intros H; inversion H; subst. cbn. rewrite E. cbn. eapply IH. reflexivity.
Qed.

(* ---------- trust stores ---------- *)

Lemma valid_file_name_b : forall nm,
  is_valid_file_name nm =
  negb (String.eqb nm ".") && negb (String.eqb nm "..") && matches gen_re_filename nm.
Proof.
  intros nm. unfold is_valid_file_name.
  destruct (String.eqb nm "."), (String.eqb nm ".."); reflexivity.
Qed.

Lemma validate_trust_store_ok : forall stores,
  validate_trust_store stores = EOk <-> forallb store_ok_b stores = true.
Proof.
  induction stores as [|st rest IH]; cbn [validate_trust_store forallb].
  - split; reflexivity.
  - unfold store_ok_b at 1. destruct (cut_byte ":" st) as [[ty nm]|].
    + destruct (mem_str ty gen_store_types); cbn [negb andb].
      * rewrite <- valid_file_name_b.
        destruct (is_valid_file_name nm); cbn; [exact IH | split; discriminate].
      * split; discriminate.
    + cbn. split; discriminate.
Qed.

Lemma store_ok_reflect : forall st, store_ok_b st = true <-> StoreOK st.
Proof.
  intros st. unfold store_ok_b, StoreOK, FileNameSafe.
  destruct (cut_byte ":" st) as [[ty nm]|].
  - rewrite !andb_true_iff, mem_str_In, !negb_eqb_true. split.
    + intros [[[H1 H2] H3] H4]. exists ty, nm. auto.
    + intros [ty' [nm' [E [H1 [H2 [H3 H4]]]]]]. inversion E; subst. auto.
  - split; [discriminate | intros [ty [nm [E _]]]; discriminate].
Qed.

(* ---------- scopes ---------- *)

Lemma contains_short : forall c s, contains_byte c s = true -> (String.length s <= 1)%nat -> s = String c "".
Proof.
  intros c [|a [|b s]]; cbn.
  - discriminate.
  - rewrite orb_false_r. intros H _. apply Ascii.eqb_eq in H. subst. reflexivity.
  - intros _ H. lia.
Qed.

Lemma validate_scope_format_ok : forall sc, sc <> wildcard ->
  (validate_scope_format sc = EOk <-> scope_ok_b sc = true).
Proof.
  intros sc Hw. unfold validate_scope_format, scope_ok_b.
  assert (Ew : String.eqb sc wildcard = false) by (apply String.eqb_neq; exact Hw).
  rewrite Ew. cbn [orb].
  destruct (contains_byte "*" sc) eqn:Ec.
  - assert (Hl : Nat.ltb 1 (String.length sc) = true).
    { apply Nat.ltb_lt. destruct (Nat.le_gt_cases (String.length sc) 1) as [Hle|Hgt]; [|exact Hgt].
      exfalso. apply Hw. apply (contains_short _ _ Ec Hle). }
    rewrite Hl. cbn. split; discriminate.
  - rewrite andb_false_r. cbn [negb andb].
    destruct (cut_byte "/" sc) as [[d r]|]; [|split; discriminate].
    destruct (String.eqb d ""), (String.eqb r ""), (matches gen_re_domain d), (matches gen_re_repository r);
      cbn; split; congruence.
Qed.

Lemma scopes_inner_ok : forall scs, scopes_inner scs = EOk <-> forallb scope_ok_b scs = true.
Proof.
  induction scs as [|sc rest IH]; cbn [scopes_inner forallb].
  - split; reflexivity.
  - rewrite andthen_ok, andb_true_iff, IH.
    destruct (String.eqb sc wildcard) eqn:E.
    + unfold scope_ok_b. rewrite E. cbn. tauto.
    + apply String.eqb_neq in E. rewrite (validate_scope_format_ok _ E). tauto.
Qed.

Lemma length_ltb_1 : forall {A} (l : list A), Nat.ltb 1 (List.length l) = negb (Nat.eqb (List.length l) 1) && negb (is_empty l).
Proof. intros A [|a [|b l]]; reflexivity. Qed.

Lemma lone_wildcard_check : forall l, l <> [] ->
  (Nat.ltb 1 (List.length l) && mem_str wildcard l = false <-> lone_wildcard_b l = true).
Proof.
  intros l Hne. unfold lone_wildcard_b. rewrite length_ltb_1.
  destruct l as [|a l]; [congruence|]. cbn [is_empty negb]. rewrite andb_true_r.
  destruct (Nat.eqb (List.length (a :: l)) 1), (mem_str wildcard (a :: l)); cbn; split; congruence.
Qed.

Lemma scopes_loop_ok : forall ss, scopes_loop ss = EOk <-> forallb stmt_scopes_ok_b ss = true.
Proof.
  induction ss as [|s rest IH]; cbn [scopes_loop forallb].
  - split; reflexivity.
  - unfold stmt_scopes_ok_b at 1. destruct (is_empty (s_scopes s)) eqn:Ee.
    + cbn. split; discriminate.
    + apply is_empty_false in Ee. cbn [negb andb].
      destruct (Nat.ltb 1 (List.length (s_scopes s)) && mem_str wildcard (s_scopes s)) eqn:Em.
      * assert (lone_wildcard_b (s_scopes s) = false) as ->.
        { destruct (lone_wildcard_b (s_scopes s)) eqn:El; [|reflexivity].
          apply (lone_wildcard_check _ Ee) in El. congruence. }
        cbn. split; discriminate.
      * apply (lone_wildcard_check _ Ee) in Em. rewrite Em. cbn [andb].
        rewrite andthen_ok, andb_true_iff, scopes_inner_ok, IH. tauto.
Qed.

Lemma validate_registry_scopes_ok : forall ss,
  validate_registry_scopes ss = EOk <->
  forallb stmt_scopes_ok_b ss = true /\ has_dup (flat_map s_scopes ss) = false.
Proof.
  intros ss. unfold validate_registry_scopes. rewrite andthen_ok, scopes_loop_ok.
  destruct (has_dup (flat_map s_scopes ss)); split; intros [H1 H2]; split; congruence.
Qed.

(* ---------- trusted identities ---------- *)

Lemma ids_loop_inr : forall ids l, ids_loop ids = inr l ->
  forallb id_ok_b ids = true /\ l = dn_maps ids.
Proof.
  induction ids as [|id rest IH]; intros l; cbn [ids_loop forallb dn_maps flat_map].
  - intros H; inversion H; auto.
  - unfold id_ok_b at 1, x509_value at 1.
    destruct (String.eqb id "") eqn:E0; [discriminate|].
    destruct (String.eqb id wildcard) eqn:Ew.
    + apply String.eqb_eq in Ew. subst id. cbn. intros H. apply IH in H. exact H.
    + destruct (cut_byte ":" id) as [[p v]|]; [|discriminate].
      destruct (String.eqb p x509_subject).
      * destruct (String.eqb v ""); [discriminate|].
        destruct (parse_distinguished_name v) as [m|e]; [|discriminate].
        destruct (ids_loop rest) as [e|l']; [discriminate|].
        intros H; inversion H; subst. destruct (IH l' eq_refl) as [H1 H2]. subst. cbn. auto.
      * intros H. apply IH in H. cbn. exact H.
Qed.

Lemma ids_loop_inl : forall ids e, ids_loop ids = inl e ->
  forallb id_ok_b ids = false /\ e <> EOk.
Proof.
  induction ids as [|id rest IH]; intros e; cbn [ids_loop forallb].
  - discriminate.
  - unfold id_ok_b at 1.
    destruct (String.eqb id "") eqn:E0; [intros H; inversion H; split; [reflexivity|discriminate]|].
    destruct (String.eqb id wildcard) eqn:Ew.
    + cbn. apply IH.
    + cbn [negb orb andb]. destruct (cut_byte ":" id) as [[p v]|];
        [|intros H; inversion H; split; [reflexivity|discriminate]].
      destruct (String.eqb p x509_subject); cbn [negb orb].
      * destruct (String.eqb v ""); [intros H; inversion H; split; [reflexivity|discriminate]|].
        destruct (parse_distinguished_name v) as [m|e'];
          [|intros H; inversion H; split; [reflexivity|discriminate]].
        destruct (ids_loop rest) as [e'|l']; [|discriminate].
        intros H; inversion H; subst. cbn. apply IH. reflexivity.
      * apply IH.
Qed.

Lemma existsb_negb_forallb : forall {A} (f : A -> bool) l,
  existsb f l = negb (forallb (fun x => negb (f x)) l).
Proof.
  intros A f l. induction l as [|a l IH]; cbn; [reflexivity|].
  rewrite IH. destruct (f a); reflexivity.
Qed.

Lemma forallb_ext' : forall {A} (f g : A -> bool) l, (forall x, f x = g x) -> forallb f l = forallb g l.
Proof. intros A f g l H. induction l as [|a l IH]; cbn; [reflexivity | rewrite H, IH; reflexivity]. Qed.

Lemma overlapping_no_overlap : forall dns, overlapping dns = negb (no_overlap_b dns).
Proof.
  intros dns. unfold overlapping, no_overlap_b. rewrite existsb_negb_forallb. f_equal.
  apply forallb_ext'. intros ia. rewrite existsb_negb_forallb, negb_involutive.
  apply forallb_ext'. intros jb. destruct (Nat.eqb (fst ia) (fst jb)), (is_subset_dn (snd ia) (snd jb)); reflexivity.
Qed.

Lemma validate_trusted_identities_ok : forall ids, ids <> [] ->
  (validate_trusted_identities ids = EOk <->
   lone_wildcard_b ids && forallb id_ok_b ids && no_overlap_b (dn_maps ids) = true).
Proof.
  intros ids Hne. unfold validate_trusted_identities.
  destruct (Nat.ltb 1 (List.length ids) && mem_str wildcard ids) eqn:Em.
  - assert (lone_wildcard_b ids = false) as ->.
    { destruct (lone_wildcard_b ids) eqn:El; [|reflexivity].
      apply (lone_wildcard_check _ Hne) in El. congruence. }
    cbn. split; discriminate.
  - apply (lone_wildcard_check _ Hne) in Em. rewrite Em. cbn [andb].
    destruct (ids_loop ids) as [e|l] eqn:El.
    + apply ids_loop_inl in El. destruct El as [-> Hne']. cbn. split; [contradiction|discriminate].
    + apply ids_loop_inr in El. destruct El as [-> ->]. cbn [andb].
      rewrite overlapping_no_overlap. destruct (no_overlap_b (dn_maps ids)); cbn; split; congruence.
Qed.

(* ---------- levels ---------- *)

Lemma find_level_some : forall name ls,
  (exists e, find_level name ls = Some e) <-> mem_str name (map fst ls) = true.
Proof.
  intros name ls. induction ls as [|[n e] ls IH]; cbn [find_level map fst mem_str existsb].
  - split; [intros [e H]; discriminate | discriminate].
  - fold (mem_str name (map fst ls)). rewrite orb_true_iff, <- IH.
    destruct (find_level name ls) as [e'|].
    + split; [intros _; right; exists e'; reflexivity | intros _; exists e'; reflexivity].
    + rewrite (String.eqb_sym n name). destruct (String.eqb name n).
      * split; [intros _; left; reflexivity | intros _; exists e; reflexivity].
      * split; [intros [x H]; discriminate | intros [H|[x H]]; discriminate].
Qed.

Lemma apply_override_ok : forall enf kv,
  (exists enf', apply_override enf kv = inr enf') <-> override_entry_ok kv = true.
Proof.
  intros enf [k v]. unfold apply_override, override_entry_ok. cbn [fst snd].
  destruct (mem_str k gen_validation_types); cbn [negb andb];
    [|split; [intros [x H]; discriminate | discriminate]].
  destruct (mem_str v gen_validation_actions); cbn [negb andb];
    [|split; [intros [x H]; discriminate | discriminate]].
  destruct (String.eqb k "integrity"); cbn [negb andb];
    [split; [intros [x H]; discriminate | discriminate]|].
  destruct (String.eqb k "revocation"), (String.eqb v "skip"); cbn;
    (split; [intros [x H]; first [discriminate H | reflexivity] | intros H; first [discriminate H | eexists; reflexivity]]).
Qed.

Lemma apply_overrides_ok : forall ov enf,
  (exists enf', apply_overrides enf ov = inr enf') <-> forallb override_entry_ok ov = true.
Proof.
  induction ov as [|kv ov IH]; intros enf; cbn [apply_overrides forallb].
  - split; [reflexivity | intros _; eexists; reflexivity].
  - rewrite andb_true_iff, <- (apply_override_ok enf kv).
    destruct (apply_override enf kv) as [e|enf1].
    + split; [intros [x H]; discriminate | intros [[x H] _]; discriminate].
    + rewrite IH. split; [intros H; split; [eexists; reflexivity | exact H] | intros [_ H]; exact H].
Qed.

Lemma empty_not_level : mem_str "" (map fst gen_levels) = false.
Proof. reflexivity. Qed.

Lemma get_level_ok : forall sv,
  (exists r, get_level (sv_level sv) (sv_override sv) = inr r) <-> level_ok_b sv = true.
Proof.
  intros [l ov ts]. cbn [sv_level sv_override]. unfold get_level, level_ok_b. cbn [sv_level sv_override].
  destruct (String.eqb l "") eqn:E0.
  - apply String.eqb_eq in E0. subst l. rewrite empty_not_level. cbn.
    split; [intros [x H]; discriminate | discriminate].
  - destruct (find_level l gen_levels) as [base|] eqn:Ef.
    + assert (Hm : mem_str l (map fst gen_levels) = true) by (apply find_level_some; eauto).
      rewrite Hm. cbn [andb]. destruct ov as [|kv ov].
      * cbn. split; [reflexivity | intros _; eexists; reflexivity].
      * cbn [is_empty orb]. destruct (String.eqb l "skip"); cbn [negb andb].
        -- split; [intros [x H]; discriminate | discriminate].
        -- rewrite <- (apply_overrides_ok (kv :: ov) base).
           destruct (apply_overrides base (kv :: ov)) as [e|enf].
           ++ split; [intros [x H]; discriminate | intros [x H]; discriminate].
           ++ split; intros _; eexists; reflexivity.
    + assert (Hm : mem_str l (map fst gen_levels) = false).
      { destruct (mem_str l (map fst gen_levels)) eqn:Hm; [|reflexivity].
        apply find_level_some in Hm. destruct Hm as [e He]. congruence. }
      rewrite Hm. cbn. split; [intros [x H]; discriminate | discriminate].
Qed.

(* the name of the yielded level is "skip" exactly for skip statements *)
Lemma get_level_name : forall l ov n enf, get_level l ov = inr (n, enf) ->
  String.eqb n "skip" = String.eqb l "skip".
Proof.
  intros l ov n enf. unfold get_level.
  destruct (String.eqb l ""); [discriminate|].
  destruct (find_level l gen_levels) as [base|]; [|discriminate].
  destruct ov as [|kv ov].
  - intros H; inversion H; reflexivity.
  - destruct (String.eqb l "skip"); [discriminate|].
    destruct (apply_overrides base (kv :: ov)); [discriminate|].
    intros H; inversion H; reflexivity.
Qed.

(* ---------- validatePolicyCore ---------- *)

Lemma core_ok : forall s, core_of s = EOk <-> stmt_ok_b s = true.
Proof.
  intros s. unfold core_of, validate_policy_core, stmt_ok_b.
  destruct (String.eqb (s_name s) ""); cbn [negb andb]; [split; discriminate|].
  destruct (get_level (sv_level (s_sv s)) (sv_override (s_sv s))) as [e|[n enf]] eqn:Eg.
  - assert (level_ok_b (s_sv s) = false) as ->.
    { destruct (level_ok_b (s_sv s)) eqn:El; [|reflexivity].
      apply get_level_ok in El. destruct El as [r Hr]. congruence. }
    cbn. split; [destruct e; discriminate | discriminate].
  - assert (level_ok_b (s_sv s) = true) as -> by (apply get_level_ok; eauto).
    cbn [andb]. destruct (ts_ok (sv_ts (s_sv s))); cbn [negb andb]; [|split; discriminate].
    rewrite (get_level_name _ _ _ _ Eg).
    destruct (String.eqb (sv_level (s_sv s)) "skip").
    + destruct (is_empty (s_stores s)), (is_empty (s_ids s)); cbn; split; congruence.
    + destruct (is_empty (s_stores s)) eqn:Es; cbn [orb negb andb]; [split; discriminate|].
      destruct (is_empty (s_ids s)) eqn:Ei; cbn [orb negb andb]; [split; discriminate|].
      apply is_empty_false in Ei.
      rewrite andthen_ok, validate_trust_store_ok, (validate_trusted_identities_ok _ Ei).
      rewrite !andb_true_iff. tauto.
Qed.

(* ---------- the statement loops ---------- *)

Definition Fresh (ss : list stmt) (names : list string) : Prop :=
  (forall s, In s ss -> ~ In (s_name s) names) /\ NoDup (map s_name ss).

Lemma fresh_nil : forall names, Fresh [] names.
Proof. intros names. split; [intros s []| constructor]. Qed.

Lemma fresh_cons : forall s rest names,
  Fresh (s :: rest) names <-> ~ In (s_name s) names /\ Fresh rest (s_name s :: names).
Proof.
  intros s rest names. unfold Fresh. cbn [map]. split.
  - intros [H1 H2]. inversion H2 as [|x l Hn Hd]; subst. split; [apply H1; left; reflexivity|].
    split; [|exact Hd]. intros t Ht [E|Hin].
    + apply Hn. rewrite E. apply in_map. exact Ht.
    + apply (H1 t); [right; exact Ht | exact Hin].
  - intros [H0 [H1 H2]]. split.
    + intros t [E|Ht]; [subst; exact H0|]. intros Hin. apply (H1 t Ht). right. exact Hin.
    + constructor; [|exact H2]. intros Hin. apply in_map_iff in Hin. destruct Hin as [t [E Ht]].
      apply (H1 t Ht). left. symmetry. exact E.
Qed.

Lemma oci_loop_ok : forall ss names,
  oci_loop ss names = EOk <-> forallb stmt_ok_b ss = true /\ Fresh ss names.
Proof.
  induction ss as [|s rest IH]; intros names; cbn [oci_loop forallb].
  - split; [intros _; split; [reflexivity | apply fresh_nil] | reflexivity].
  - rewrite fresh_cons, andb_true_iff. destruct (mem_str (s_name s) names) eqn:Em.
    + apply mem_str_In in Em. split; [discriminate | intros [_ [H _]]; contradiction].
    + apply mem_str_false in Em. rewrite andthen_ok, core_ok, IH. tauto.
Qed.

Definition global_rule_b (s : stmt) : bool :=
  negb (s_global s) || negb (String.eqb (sv_level (s_sv s)) "skip").

Lemma blob_loop_ok : forall ss names fg,
  blob_loop ss names fg = EOk <->
  forallb stmt_ok_b ss = true /\ Fresh ss names
  /\ forallb global_rule_b ss = true
  /\ (List.length (filter s_global ss) + (if fg then 1 else 0) <= 1)%nat.
Proof.
  induction ss as [|s rest IH]; intros names fg; cbn [blob_loop forallb filter].
  - split; [intros _|reflexivity].
    split; [reflexivity|]. split; [apply fresh_nil|]. split; [reflexivity|]. destruct fg; cbn; lia.
  - rewrite fresh_cons, !andb_true_iff. destruct (mem_str (s_name s) names) eqn:Em.
    + apply mem_str_In in Em. split; [discriminate | intros [_ [[H _] _]]; contradiction].
    + apply mem_str_false in Em. rewrite andthen_ok, core_ok. unfold global_rule_b at 1.
      destruct (s_global s) eqn:Eg; cbn [negb orb List.length].
      * destruct fg.
        -- split; [intros [_ H]; discriminate | intros [_ [_ [_ H]]]; cbn in H; lia].
        -- destruct (String.eqb (sv_level (s_sv s)) "skip"); cbn [negb].
           ++ split; [intros [_ H]; discriminate | intros [_ [_ [[H _] _]]]; discriminate].
           ++ rewrite IH. cbn. rewrite !Nat.add_0_r.
              replace (S (List.length (filter s_global rest)) <= 1)%nat
                with (List.length (filter s_global rest) + 1 <= 1)%nat
                by (rewrite Nat.add_1_r; reflexivity).
              tauto.
      * rewrite IH. tauto.
Qed.

(* ---------- the two Validate methods, against the boolean rules ---------- *)

Theorem validate_ok_b : forall k d, validate k d = EOk <-> wellformed_b k d = true.
Proof.
  intros k [ver ss]. unfold validate, validate_oci, validate_blob, wellformed_b, doc_common_ok_b.
  cbn [d_version d_stmts].
  destruct (String.eqb ver "") eqn:E0.
  - apply String.eqb_eq in E0. subst ver. cbn. destruct k; split; discriminate.
  - destruct (mem_str ver supported_versions); cbn [negb andb];
      [|destruct k; split; discriminate].
    destruct (is_empty ss) eqn:Ee; cbn [negb andb]; [destruct k; split; discriminate|].
    destruct k.
    + rewrite andthen_ok, oci_loop_ok, validate_registry_scopes_ok, !andb_true_iff, !negb_true_iff.
      unfold Fresh. rewrite !has_dup_false. split.
      * intros [[H1 [_ H2]] [H3 H4]]. auto.
      * intros [[H2 H1] [H3 H4]]. split; [split; [exact H1|split; [intros s _ []|exact H2]]|split; assumption].
    + rewrite blob_loop_ok, !andb_true_iff, !negb_true_iff. unfold Fresh. rewrite !has_dup_false.
      fold global_rule_b. rewrite Nat.leb_le, Nat.add_0_r.
      change (forallb (fun s => negb (s_global s) || negb (String.eqb (sv_level (s_sv s)) "skip")) ss)
        with (forallb global_rule_b ss).
      split.
      * intros [H1 [[_ H2] [H3 H4]]]. auto.
      * intros [[H2 H1] [H4 H3]]. split; [exact H1|]. split; [split; [intros s _ []|exact H2]|]. split; assumption.
Qed.

(* ---------- the boolean rules reflect the declarative predicate ---------- *)

Lemma override_entry_reflect : forall kv, override_entry_ok kv = true <-> OverrideEntryOK kv.
Proof.
  intros kv. unfold override_entry_ok, OverrideEntryOK.
  rewrite !andb_true_iff, !mem_str_In, negb_eqb_true, orb_true_iff, negb_eqb_true, String.eqb_eq.
  split.
  - intros [[[H1 H2] H3] H4]. repeat split; try assumption.
    intros E. destruct H4 as [H4|H4]; [contradiction | exact H4].
  - intros [H1 [H2 [H3 H4]]]. repeat split; try assumption.
    destruct (String.eqb (snd kv) "skip") eqn:E.
    + right. apply H4. apply String.eqb_eq. exact E.
    + left. apply String.eqb_neq. exact E.
Qed.

Lemma level_reflect : forall sv, level_ok_b sv = true <-> LevelOK sv.
Proof.
  intros sv. unfold level_ok_b, LevelOK.
  rewrite andb_true_iff, mem_str_In, orb_true_iff, is_empty_true, andb_true_iff, negb_eqb_true,
    forallb_Forall, (Forall_iff _ _ _ override_entry_reflect).
  split.
  - intros [H1 [H2|H2]]; split; try assumption; intros Hne; [contradiction | exact H2].
  - intros [H1 H2]. split; [exact H1|]. destruct (sv_override sv) as [|kv ov] eqn:E.
    + left; reflexivity.
    + right. apply H2. discriminate.
Qed.

Lemma ts_reflect : forall sv, ts_ok (sv_ts sv) = true <-> TimestampOK sv.
Proof.
  intros sv. unfold ts_ok, TimestampOK. rewrite !orb_true_iff, !String.eqb_eq. tauto.
Qed.

Lemma id_reflect : forall id, id_ok_b id = true <-> IdentityOK id.
Proof.
  intros id. unfold id_ok_b, IdentityOK.
  rewrite andb_true_iff, negb_eqb_true, orb_true_iff, String.eqb_eq.
  split; intros [H0 H]; (split; [exact H0|]); destruct H as [H|H]; try (left; exact H); right.
  - destruct (cut_byte ":" id) as [[p v]|]; [|discriminate].
    exists p, v. split; [reflexivity|]. intros Ep. subst p.
    rewrite String.eqb_refl in H. cbn in H. apply andb_true_iff in H. destruct H as [H1 H2].
    apply negb_eqb_true in H1. split; [exact H1|].
    destruct (parse_distinguished_name v) as [m|e]; [exists m; reflexivity | discriminate].
  - destruct H as [p [v [Ec Hp]]]. rewrite Ec.
    destruct (String.eqb p x509_subject) eqn:Ep; [|reflexivity].
    apply String.eqb_eq in Ep. destruct (Hp Ep) as [Hv [m Hm]]. cbn. rewrite Hm.
    apply negb_eqb_true in Hv. rewrite Hv. reflexivity.
Qed.

Lemma in_combine_seq : forall {A} (l : list A) start i a,
  In (i, a) (combine (seq start (List.length l)) l) <->
  (start <= i)%nat /\ nth_error l (i - start) = Some a.
Proof.
  intros A l. induction l as [|x l IH]; intros start i a; cbn [List.length seq combine In].
  - split; [intros [] | intros [_ H]; destruct (i - start)%nat; discriminate].
  - rewrite IH. split.
    + intros [E|[H1 H2]].
      * inversion E; subst. split; [lia|]. rewrite Nat.sub_diag. reflexivity.
      * split; [lia|]. replace (i - start)%nat with (S (i - S start)) by lia. exact H2.
    + intros [H1 H2]. destruct (Nat.eq_dec i start) as [E|Hn].
      * left. subst. rewrite Nat.sub_diag in H2. cbn in H2. inversion H2. reflexivity.
      * right. split; [lia|]. replace (i - start)%nat with (S (i - S start)) in H2 by lia. exact H2.
Qed.

Lemma in_indexed : forall {A} (l : list A) i a, In (i, a) (indexed l) <-> nth_error l i = Some a.
Proof.
  intros A l i a. unfold indexed. rewrite in_combine_seq, Nat.sub_0_r. split; [tauto | intros H; split; [lia | exact H]].
Qed.

Lemma no_overlap_reflect : forall dns, no_overlap_b dns = true <-> NoOverlap dns.
Proof.
  intros dns. unfold no_overlap_b, NoOverlap. rewrite forallb_forall. split.
  - intros H i j a b Hij Ha Hb.
    apply in_indexed in Ha. apply in_indexed in Hb.
    specialize (H _ Ha). rewrite forallb_forall in H. specialize (H _ Hb). cbn [fst snd] in H.
    apply orb_true_iff in H. destruct H as [H|H].
    + apply Nat.eqb_eq in H. contradiction.
    + apply negb_true_iff in H. exact H.
  - intros H [i a] Ha. rewrite forallb_forall. intros [j b] Hb. cbn [fst snd].
    apply in_indexed in Ha. apply in_indexed in Hb.
    destruct (Nat.eqb i j) eqn:E; [reflexivity|]. apply Nat.eqb_neq in E.
    cbn. rewrite (H i j a b E Ha Hb). reflexivity.
Qed.

Lemma lone_wildcard_reflect : forall l, lone_wildcard_b l = true <-> LoneWildcard l.
Proof.
  intros l. unfold lone_wildcard_b, LoneWildcard.
  rewrite orb_true_iff, negb_true_iff, mem_str_false, Nat.eqb_eq. split.
  - intros [H|H] Hin; [contradiction|].
    destruct l as [|a [|b l]]; cbn in H; try discriminate.
    destruct Hin as [E|[]]. subst. reflexivity.
  - intros H. destruct (mem_str wildcard l) eqn:E.
    + apply mem_str_In in E. rewrite (H E). right. reflexivity.
    + left. apply mem_str_false. exact E.
Qed.

Lemma stmt_reflect : forall s, stmt_ok_b s = true <-> StmtOK s.
Proof.
  intros s. unfold stmt_ok_b, StmtOK.
  rewrite !andb_true_iff, negb_eqb_true, level_reflect, ts_reflect.
  destruct (String.eqb (sv_level (s_sv s)) "skip") eqn:E.
  - apply String.eqb_eq in E. rewrite andb_true_iff, !is_empty_true. split.
    + intros [[[H1 H2] H3] H4].
      split; [exact H1|]. split; [exact H2|]. split; [exact H3|].
      split; [intros _; exact H4 | intros Hn; contradiction].
    + intros [H1 [H2 [H3 [H4 _]]]]. specialize (H4 E). tauto.
  - apply String.eqb_neq in E.
    rewrite !andb_true_iff, !negb_true_iff, !is_empty_false, !forallb_Forall,
      (Forall_iff _ _ _ store_ok_reflect), (Forall_iff _ _ _ id_reflect),
      lone_wildcard_reflect, no_overlap_reflect.
    split.
    + intros [[[H1 H2] H3] H4].
      split; [exact H1|]. split; [exact H2|]. split; [exact H3|].
      split; [intros Hs; contradiction | intros _; tauto].
    + intros [H1 [H2 [H3 [_ H5]]]]. specialize (H5 E). tauto.
Qed.

Lemma scope_reflect : forall sc, scope_ok_b sc = true <-> ScopeOK sc.
Proof.
  intros sc. unfold scope_ok_b, ScopeOK. rewrite orb_true_iff, String.eqb_eq, andb_true_iff, negb_true_iff.
  split; (intros [H|[H0 H]]; [left; exact H|right; split; [exact H0|]]).
  - destruct (cut_byte "/" sc) as [[d r]|]; [|discriminate].
    rewrite !andb_true_iff, !negb_eqb_true in H. exists d, r. tauto.
  - destruct H as [d [r [Ec H]]]. rewrite Ec, !andb_true_iff, !negb_eqb_true. tauto.
Qed.

Lemma stmt_scopes_reflect : forall s, stmt_scopes_ok_b s = true <-> StmtScopesOK s.
Proof.
  intros s. unfold stmt_scopes_ok_b, StmtScopesOK.
  rewrite !andb_true_iff, negb_true_iff, is_empty_false, lone_wildcard_reflect, forallb_Forall,
    (Forall_iff _ _ _ scope_reflect). tauto.
Qed.

Lemma one_global_reflect : forall ss,
  (List.length (filter s_global ss) <= 1)%nat <-> AtMostOneGlobal ss.
Proof.
  unfold AtMostOneGlobal. induction ss as [|s rest IH]; cbn [filter].
  - split; [intros _ i j s t H; destruct i; discriminate | cbn; lia].
  - destruct (s_global s) eqn:Eg.
    + cbn [List.length]. split.
      * intros Hl. assert (Hz : filter s_global rest = []) by (destruct (filter s_global rest); [reflexivity | cbn in Hl; lia]).
        assert (Hnone : forall k t, nth_error rest k = Some t -> s_global t = false).
        { intros k t Hk. destruct (s_global t) eqn:Et; [|reflexivity].
          assert (In t (filter s_global rest)) by (apply filter_In; split; [eapply nth_error_In; eauto | exact Et]).
          rewrite Hz in H. destruct H. }
        intros i j a b Ha Hb Ga Gb. destruct i as [|i], j as [|j]; cbn in Ha, Hb.
        -- reflexivity.
        -- rewrite (Hnone _ _ Hb) in Gb. discriminate.
        -- rewrite (Hnone _ _ Ha) in Ga. discriminate.
        -- rewrite (Hnone _ _ Ha) in Ga. discriminate.
      * intros H. destruct (filter s_global rest) as [|t l] eqn:Ef; [cbn; lia|]. exfalso.
        assert (Ht : In t (filter s_global rest)) by (rewrite Ef; left; reflexivity).
        apply filter_In in Ht. destruct Ht as [Hin Gt]. apply In_nth_error in Hin. destruct Hin as [k Hk].
        specialize (H 0%nat (S k) s t eq_refl Hk Eg Gt). discriminate.
    + rewrite IH. split.
      * intros H i j a b Ha Hb Ga Gb. destruct i as [|i], j as [|j]; cbn in Ha, Hb.
        -- reflexivity.
        -- inversion Ha; subst. congruence.
        -- inversion Hb; subst. congruence.
        -- f_equal. eapply H; eauto.
      * intros H i j a b Ha Hb Ga Gb. assert (S i = S j) by (eapply H; eauto). lia.
Qed.

Theorem wellformed_reflect : forall k d, wellformed_b k d = true <-> WellFormed k d.
Proof.
  intros k d. unfold wellformed_b, doc_common_ok_b, WellFormed.
  rewrite !andb_true_iff, mem_str_In, !negb_true_iff, is_empty_false, has_dup_false,
    forallb_Forall, (Forall_iff _ _ _ stmt_reflect).
  destruct k.
  - rewrite andb_true_iff, negb_true_iff, has_dup_false, forallb_Forall,
      (Forall_iff _ _ _ stmt_scopes_reflect). tauto.
  - rewrite andb_true_iff, Nat.leb_le, one_global_reflect, forallb_Forall.
    assert (Hg : forall s, negb (s_global s) || negb (String.eqb (sv_level (s_sv s)) "skip") = true
                          <-> (s_global s = true -> sv_level (s_sv s) <> "skip")).
    { intros s. rewrite orb_true_iff, negb_true_iff, negb_eqb_true. destruct (s_global s); split.
      - intros [H|H] _; [discriminate | exact H].
      - intros H. right. apply H. reflexivity.
      - intros _ H. discriminate.
      - intros _. left. reflexivity. }
    rewrite (Forall_iff _ _ _ Hg). tauto.
Qed.

(* ---------- main theorems ---------- *)

Theorem validate_iff : forall k d, validate k d = EOk <-> WellFormed k d.
Proof. intros k d. rewrite validate_ok_b. apply wellformed_reflect. Qed.

Theorem oci_iff : forall d, validate_oci d = EOk <-> WellFormed OCI d.
Proof. intros d. apply (validate_iff OCI). Qed.

Theorem blob_iff : forall d, validate_blob d = EOk <-> WellFormed Blob d.
Proof. intros d. apply (validate_iff Blob). Qed.

(* ---------- the yielded level enforces integrity ---------- *)

Lemma lookup_remove_other : forall k k' (m : amap), k <> k' -> lookup k (remove_key k' m) = lookup k m.
Proof.
  intros k k' m Hne. induction m as [|[a b] m IH]; cbn; [reflexivity|].
  destruct (String.eqb k' a) eqn:E1.
  - apply String.eqb_eq in E1. subst a. rewrite IH.
    apply String.eqb_neq in Hne. rewrite Hne. reflexivity.
  - cbn. rewrite IH. reflexivity.
Qed.

Lemma lookup_set_other : forall k k' v (m : amap), k <> k' -> lookup k (set_key k' v m) = lookup k m.
Proof.
  intros k k' v m Hne. unfold set_key. cbn.
  rewrite (proj2 (String.eqb_neq k k') Hne). apply lookup_remove_other. exact Hne.
Qed.

Lemma apply_override_integrity : forall enf kv enf', apply_override enf kv = inr enf' ->
  lookup "integrity" enf' = lookup "integrity" enf.
Proof.
  intros enf [k v] enf'. unfold apply_override.
  destruct (negb (mem_str k gen_validation_types)); [discriminate|].
  destruct (negb (mem_str v gen_validation_actions)); [discriminate|].
  destruct (String.eqb k "integrity") eqn:E; [discriminate|].
  destruct (negb (String.eqb k "revocation") && String.eqb v "skip"); [discriminate|].
  intros H; inversion H; subst. apply lookup_set_other.
  apply String.eqb_neq in E. congruence.
Qed.

Lemma apply_overrides_integrity : forall ov enf enf', apply_overrides enf ov = inr enf' ->
  lookup "integrity" enf' = lookup "integrity" enf.
Proof.
  induction ov as [|kv ov IH]; intros enf enf'; cbn [apply_overrides].
  - intros H; inversion H; reflexivity.
  - destruct (apply_override enf kv) as [e|enf1] eqn:E1; [discriminate|].
    intros H. rewrite (IH _ _ H). eapply apply_override_integrity; eauto.
Qed.

Lemma find_level_In : forall name ls e, find_level name ls = Some e -> In (name, e) ls.
Proof.
  intros name ls. induction ls as [|[n e0] ls IH]; intros e; cbn [find_level].
  - discriminate.
  - destruct (find_level name ls) as [e'|].
    + intros H; inversion H; subst. right. apply IH. reflexivity.
    + destruct (String.eqb n name) eqn:E; [|discriminate].
      apply String.eqb_eq in E. intros H; inversion H; subst. left. reflexivity.
Qed.

(* every level of the table other than skip enforces integrity (over Generated.v) *)
Lemma table_integrity : forall l base, In (l, base) gen_levels ->
  l = "skip" \/ lookup "integrity" base = Some "enforce".
Proof.
  intros l base H. cbn in H.
  repeat (destruct H as [H|H]; [inversion H; subst; first [right; reflexivity | left; reflexivity]|]).
  destruct H.
Qed.

Lemma get_level_integrity : forall l ov n enf, get_level l ov = inr (n, enf) ->
  l = "skip" \/ lookup "integrity" enf = Some "enforce".
Proof.
  intros l ov n enf. unfold get_level.
  destruct (String.eqb l ""); [discriminate|].
  destruct (find_level l gen_levels) as [base|] eqn:Ef; [|discriminate].
  apply find_level_In in Ef. apply table_integrity in Ef.
  destruct ov as [|kv ov].
  - intros H; inversion H; subst. exact Ef.
  - destruct (String.eqb l "skip"); [discriminate|].
    destruct (apply_overrides base (kv :: ov)) as [e|enf1] eqn:Ea; [discriminate|].
    intros H; inversion H; subst. destruct Ef as [Ef|Ef]; [left; exact Ef|].
    right. rewrite (apply_overrides_integrity _ _ _ Ea). exact Ef.
Qed.

Lemma stmt_yields_integrity : forall s, stmt_ok_b s = true -> YieldsIntegrity s.
Proof.
  intros s H. unfold stmt_ok_b in H. rewrite !andb_true_iff in H.
  destruct H as [[[_ Hl] _] _]. apply get_level_ok in Hl. destruct Hl as [[n enf] Hr].
  exists n, enf. split; [exact Hr|]. eapply get_level_integrity; eauto.
Qed.

Lemma accepted_stmts_ok : forall k d, validate k d = EOk -> forallb stmt_ok_b (d_stmts d) = true.
Proof.
  intros k d H. apply validate_ok_b in H. unfold wellformed_b, doc_common_ok_b in H.
  rewrite !andb_true_iff in H. tauto.
Qed.

Theorem integrity : forall k d, validate k d = EOk -> Forall YieldsIntegrity (d_stmts d).
Proof.
  intros k d H. apply accepted_stmts_ok in H. rewrite forallb_Forall in H.
  eapply Forall_impl; [|exact H]. apply stmt_yields_integrity.
Qed.

(* ---------- accepted store names are safe path components ---------- *)

Lemma filename_alphabet : forall c, in_alphabet (core gen_re_filename) c = true -> fn_byte c.
Proof.
  intros c H. unfold in_alphabet in H. cbn in H. unfold fn_byte.
  rewrite !orb_true_iff, !andb_true_iff, !N.leb_le in H. lia.
Qed.

Lemma filename_safe_component : forall nm, FileNameSafe nm -> SafeComponent nm.
Proof.
  intros nm [H1 [H2 H3]]. unfold SafeComponent. split; [|split; [exact H1|split; [exact H2|]]].
  - intros E. subst nm. vm_compute in H3. discriminate.
  - apply matches_alphabet in H3. eapply Forall_impl; [|exact H3]. apply filename_alphabet.
Qed.

Lemma fn_byte_not_separator : forall c, fn_byte c -> c <> 47%N /\ c <> 92%N /\ c <> 0%N.
Proof. intros c H. unfold fn_byte in H. lia. Qed.

Theorem names_safe : forall k d s st, validate k d = EOk ->
  In s (d_stmts d) -> In st (s_stores s) ->
  exists ty nm, st = (ty ++ ":" ++ nm)%string /\ In ty gen_store_types /\ SafeComponent nm.
Proof.
  intros k d s st H Hs Hst. apply validate_iff in H. destruct H as [_ [_ [_ [H _]]]].
  rewrite Forall_forall in H. specialize (H s Hs). destruct H as [_ [_ [_ [Hskip Hn]]]].
  destruct (String.eqb (sv_level (s_sv s)) "skip") eqn:E.
  - apply String.eqb_eq in E. destruct (Hskip E) as [H0 _]. rewrite H0 in Hst. destruct Hst.
  - apply String.eqb_neq in E. destruct (Hn E) as [_ [_ [Hst' _]]].
    rewrite Forall_forall in Hst'. destruct (Hst' st Hst) as [ty [nm [Ec [Hty Hsafe]]]].
    exists ty, nm. split; [apply (cut_byte_split _ _ _ _ Ec)|]. split; [exact Hty|].
    apply filename_safe_component. exact Hsafe.
Qed.

(* ---------- accepted x509.subject identities carry C, ST and O ---------- *)

Lemma parse_mandatory' : forall v m, parse_distinguished_name v = DOk m ->
  Forall (fun f => lookup_default f m <> "") mandatory.
Proof.
  intros v m. unfold parse_distinguished_name.
  destruct (has_eqhash (list_ascii_of_string v)); [discriminate|].
  destruct (parse_dn v) as [rdns| |]; try discriminate.
  destruct (add_rdns rdns []) as [m'|e]; [|discriminate].
  destruct (find (fun f => String.eqb (lookup_default f m') "") mandatory) eqn:Ef; [discriminate|].
  intros H; inversion H; subst. apply Forall_forall. intros f Hf.
  apply (find_none _ _ Ef) in Hf. apply String.eqb_neq. exact Hf.
Qed.

Theorem identities_mandatory : forall k d s id v, validate k d = EOk ->
  In s (d_stmts d) -> In id (s_ids s) -> x509_value id = Some v ->
  exists m, parse_distinguished_name v = DOk m
    /\ lookup_default "C" m <> "" /\ lookup_default "ST" m <> "" /\ lookup_default "O" m <> "".
Proof.
  intros k d s id v H Hs Hid Hv. apply validate_iff in H. destruct H as [_ [_ [_ [H _]]]].
  rewrite Forall_forall in H. specialize (H s Hs). destruct H as [_ [_ [_ [Hskip Hn]]]].
  destruct (String.eqb (sv_level (s_sv s)) "skip") eqn:E.
  - apply String.eqb_eq in E. destruct (Hskip E) as [_ H0]. rewrite H0 in Hid. destruct Hid.
  - apply String.eqb_neq in E. destruct (Hn E) as [_ [_ [_ [_ [Hids _]]]]].
    rewrite Forall_forall in Hids. destruct (Hids id Hid) as [_ [Hw|[p [v' [Ec Hp]]]]].
    + subst id. discriminate.
    + unfold x509_value in Hv. rewrite Ec in Hv.
      destruct (String.eqb p x509_subject) eqn:Ep; [|discriminate].
      inversion Hv; subst v'. apply String.eqb_eq in Ep. destruct (Hp Ep) as [_ [m Hm]].
      exists m. split; [exact Hm|]. apply parse_mandatory' in Hm.
      unfold mandatory in Hm. inversion Hm as [|? ? HC Hm1]; subst.
      inversion Hm1 as [|? ? HST Hm2]; subst. inversion Hm2 as [|? ? HO _]; subst. auto.
Qed.

(* ---------- construction of a verifier forces validation ---------- *)

Theorem forced : forall oci blob,
  new_verifier oci blob = EOk <->
  (oci <> None \/ blob <> None)
  /\ (forall d, oci = Some d -> WellFormed OCI d)
  /\ (forall d, blob = Some d -> WellFormed Blob d).
Proof.
  intros [o|] [b|]; unfold new_verifier; rewrite ?andthen_ok, ?validate_iff.
  - split.
    + intros [H1 H2]. split; [left; discriminate|]. split; intros d E; inversion E; subst; assumption.
    + intros [_ [H1 H2]]. split; [apply H1 | apply H2]; reflexivity.
  - split.
    + intros [H1 _]. split; [left; discriminate|]. split; intros d E; inversion E; subst; assumption.
    + intros [_ [H1 _]]. split; [apply H1|]; reflexivity.
  - split.
    + intros [_ H2]. split; [right; discriminate|]. split; intros d E; inversion E; subst; assumption.
    + intros [_ [_ H2]]. split; [|apply H2]; reflexivity.
  - split; [discriminate|]. intros [[H|H] _]; contradiction.
Qed.

(* ---------- the first violated rule in code order is the one reported ---------- *)

Lemma first_error_app : forall a b, first_error (a ++ b) = first_error a ;; first_error b.
Proof.
  induction a as [|e a IH]; intros b; cbn; [reflexivity|]. rewrite IH. destruct e; reflexivity.
Qed.

Lemma andthen_EOk_r : forall e, e ;; EOk = e.
Proof. destruct e; reflexivity. Qed.

Theorem core_first_error : forall s, core_of s = first_error (stmt_rules s).
Proof.
  intros s. unfold core_of, validate_policy_core, stmt_rules, first_error,
    name_rule, level_rule, ts_rule, presence_rule, stores_rule, ids_rule, is_skip.
  destruct (String.eqb (s_name s) ""); [reflexivity|]. cbn [andthen].
  destruct (get_level (sv_level (s_sv s)) (sv_override (s_sv s))) as [e|[n enf]] eqn:Eg.
  - destruct e; reflexivity.
  - cbn [andthen]. rewrite (get_level_name _ _ _ _ Eg).
    destruct (ts_ok (sv_ts (s_sv s))); [|reflexivity]. cbn [negb andthen].
    destruct (String.eqb (sv_level (s_sv s)) "skip").
    + destruct (negb (is_empty (s_stores s)) || negb (is_empty (s_ids s))); reflexivity.
    + destruct (is_empty (s_stores s) || is_empty (s_ids s)); [reflexivity|]. cbn [andthen].
      rewrite andthen_EOk_r. reflexivity.
Qed.

Lemma oci_loop_first_error : forall ss seen, oci_loop ss seen = first_error (oci_stmt_rules ss seen).
Proof.
  induction ss as [|s r IH]; intros seen; cbn [oci_loop oci_stmt_rules first_error]; [reflexivity|].
  unfold dup_rule. destruct (mem_str (s_name s) seen); [reflexivity|]. cbn [andthen].
  rewrite first_error_app, <- core_first_error, IH. reflexivity.
Qed.

Lemma scopes_inner_first_error : forall scs,
  scopes_inner scs =
  first_error (map (fun sc => if String.eqb sc wildcard then EOk else validate_scope_format sc) scs).
Proof.
  induction scs as [|sc r IH]; cbn [scopes_inner map first_error]; [reflexivity|]. rewrite IH. reflexivity.
Qed.

Lemma scopes_loop_first_error : forall ss, scopes_loop ss = first_error (flat_map scope_rules ss).
Proof.
  induction ss as [|s r IH]; cbn [scopes_loop flat_map]; [reflexivity|].
  rewrite first_error_app. unfold scope_rules. cbn [app first_error].
  destruct (is_empty (s_scopes s)); [reflexivity|]. cbn [andthen].
  destruct (Nat.ltb 1 (List.length (s_scopes s)) && mem_str wildcard (s_scopes s)); [reflexivity|].
  cbn [andthen]. rewrite scopes_inner_first_error, IH. reflexivity.
Qed.

Theorem oci_first_error : forall d, validate_oci d = first_error (oci_rules d).
Proof.
  intros d. unfold validate_oci, oci_rules, version_rules. cbn [app first_error].
  destruct (String.eqb (d_version d) ""); [reflexivity|]. cbn [andthen].
  destruct (mem_str (d_version d) supported_versions); [|reflexivity]. cbn [negb andthen].
  destruct (is_empty (d_stmts d)); [reflexivity|]. cbn [andthen].
  rewrite !first_error_app, <- oci_loop_first_error, <- scopes_loop_first_error.
  cbn [first_error]. rewrite andthen_EOk_r. reflexivity.
Qed.

Lemma blob_loop_first_error : forall ss seen fg,
  blob_loop ss seen fg = first_error (blob_stmt_rules ss seen fg).
Proof.
  induction ss as [|s r IH]; intros seen fg; cbn [blob_loop blob_stmt_rules first_error]; [reflexivity|].
  unfold dup_rule. destruct (mem_str (s_name s) seen); [reflexivity|]. cbn [andthen].
  rewrite !first_error_app, <- core_first_error. cbn [first_error]. unfold is_skip.
  destruct (core_of s); try reflexivity. cbn [andthen].
  destruct (s_global s); cbn [andb orb].
  - destruct fg; [reflexivity|]. cbn [andthen orb].
    destruct (String.eqb (sv_level (s_sv s)) "skip"); [reflexivity|]. cbn [andthen]. apply IH.
  - cbn [andthen]. rewrite orb_false_r. apply IH.
Qed.

Theorem blob_first_error : forall d, validate_blob d = first_error (blob_rules d).
Proof.
  intros d. unfold validate_blob, blob_rules, version_rules. cbn [app first_error].
  destruct (String.eqb (d_version d) ""); [reflexivity|]. cbn [andthen].
  destruct (mem_str (d_version d) supported_versions); [|reflexivity]. cbn [negb andthen].
  destruct (is_empty (d_stmts d)); [reflexivity|]. cbn [andthen].
  apply blob_loop_first_error.
Qed.

(* ---------- accepted strings stay inside the hand-written alphabets ---------- *)

Lemma fn_byte_reflect : forall c, fn_byte_b c = true <-> fn_byte c.
Proof.
  intros c. unfold fn_byte_b, fn_byte.
  rewrite !orb_true_iff, !andb_true_iff, !N.leb_le, !N.eqb_eq. lia.
Qed.

Lemma safe_component_reflect : forall nm, safe_component_b nm = true <-> SafeComponent nm.
Proof.
  intros nm. unfold safe_component_b, SafeComponent.
  rewrite !andb_true_iff, !negb_eqb_true, forallb_Forall, (Forall_iff _ _ _ fn_byte_reflect). tauto.
Qed.

(* a list of byte ranges covered, range by range, by another one *)
Lemma in_cls_mono : forall c rs rs',
  forallb (fun p => existsb (fun q => (fst q <=? fst p)%N && (snd p <=? snd q)%N) rs') rs = true ->
  in_cls c rs = true -> in_cls c rs' = true.
Proof.
  intros c rs rs' Hcov H. unfold in_cls in *. rewrite existsb_exists in *.
  destruct H as [p [Hin Hp]]. rewrite forallb_forall in Hcov. specialize (Hcov p Hin).
  rewrite existsb_exists in Hcov. destruct Hcov as [q [Hq Hpq]]. exists q. split; [exact Hq|].
  rewrite !andb_true_iff, !N.leb_le in *. lia.
Qed.

Definition domain_ranges : list (N * N) := [(48, 57); (65, 90); (97, 122); (45, 45); (46, 46); (58, 58)]%N.
Definition repo_ranges : list (N * N) := [(48, 57); (97, 122); (95, 95); (45, 45); (46, 46); (47, 47)]%N.

Lemma domain_ranges_byte : forall c, in_cls c domain_ranges = true -> domain_byte_b c = true.
Proof.
  intros c H. unfold in_cls, domain_ranges in H. cbn in H. unfold domain_byte_b.
  rewrite !orb_true_iff, !andb_true_iff, !N.leb_le in H.
  rewrite !orb_true_iff, !andb_true_iff, !N.leb_le, !N.eqb_eq. lia.
Qed.

Lemma repo_ranges_byte : forall c, in_cls c repo_ranges = true -> repo_byte_b c = true.
Proof.
  intros c H. unfold in_cls, repo_ranges in H. cbn in H. unfold repo_byte_b.
  rewrite !orb_true_iff, !andb_true_iff, !N.leb_le in H.
  rewrite !orb_true_iff, !andb_true_iff, !N.leb_le, !N.eqb_eq. lia.
Qed.

Lemma domain_alphabet : forall c, in_alphabet (core gen_re_domain) c = true -> domain_byte_b c = true.
Proof.
  intros c H. apply domain_ranges_byte. unfold in_alphabet in H.
  eapply in_cls_mono; [|exact H]. vm_compute. reflexivity.
Qed.

Lemma repo_alphabet : forall c, in_alphabet (core gen_re_repository) c = true -> repo_byte_b c = true.
Proof.
  intros c H. apply repo_ranges_byte. unfold in_alphabet in H.
  eapply in_cls_mono; [|exact H]. vm_compute. reflexivity.
Qed.

Lemma store_ok_safe : forall st, store_ok_b st = true -> store_safe_b st = true.
Proof.
  intros st H. apply store_ok_reflect in H. destruct H as [ty [nm [Ec [_ Hs]]]].
  unfold store_safe_b. rewrite Ec. apply safe_component_reflect. apply filename_safe_component. exact Hs.
Qed.

Lemma scope_ok_alpha : forall sc, scope_ok_b sc = true -> scope_alpha_b sc = true.
Proof.
  intros sc H. unfold scope_ok_b in H. unfold scope_alpha_b.
  destruct (String.eqb sc wildcard); [reflexivity|]. cbn [orb] in *.
  apply andb_true_iff in H. destruct H as [_ H].
  destruct (cut_byte "/" sc) as [[dm r]|]; [|discriminate].
  rewrite !andb_true_iff in H. destruct H as [[[H1 H2] H3] H4].
  rewrite H1, H2. cbn [andb]. apply andb_true_iff. split; apply forallb_Forall.
  - apply matches_alphabet in H3. eapply Forall_impl; [|exact H3]. apply domain_alphabet.
  - apply matches_alphabet in H4. eapply Forall_impl; [|exact H4]. apply repo_alphabet.
Qed.

Lemma forallb_impl : forall {A} (f g : A -> bool) l,
  (forall x, f x = true -> g x = true) -> forallb f l = true -> forallb g l = true.
Proof.
  intros A f g l H. induction l as [|a l IH]; cbn; [reflexivity|].
  rewrite !andb_true_iff. intros [H1 H2]. split; [apply H; exact H1 | apply IH; exact H2].
Qed.

Lemma stmt_ok_stores_safe : forall s, stmt_ok_b s = true -> forallb store_safe_b (s_stores s) = true.
Proof.
  intros s H. unfold stmt_ok_b in H. rewrite !andb_true_iff in H. destruct H as [_ H].
  destruct (String.eqb (sv_level (s_sv s)) "skip").
  - apply andb_true_iff in H. destruct H as [H _]. apply is_empty_true in H. rewrite H. reflexivity.
  - rewrite !andb_true_iff in H. destruct H as [[[[_ H] _] _] _].
    eapply forallb_impl; [|exact H]. apply store_ok_safe.
Qed.

Theorem accepted_strings_safe : forall k d, validate k d = EOk -> strings_safe_b k d = true.
Proof.
  intros k d H. pose proof (accepted_stmts_ok _ _ H) as Hs. apply validate_ok_b in H.
  unfold strings_safe_b. apply forallb_forall. intros s Hin.
  rewrite forallb_forall in Hs. rewrite (stmt_ok_stores_safe s (Hs s Hin)). cbn [andb].
  destruct k; [|reflexivity].
  unfold wellformed_b in H. rewrite !andb_true_iff in H. destruct H as [_ [H _]].
  rewrite forallb_forall in H. specialize (H s Hin). unfold stmt_scopes_ok_b in H.
  rewrite !andb_true_iff in H. destruct H as [_ H]. eapply forallb_impl; [|exact H]. apply scope_ok_alpha.
Qed.

(* ---------- the model meets the oracle ---------- *)

Lemma model_is_spec : forall i, model i = model_spec i.
Proof.
  intros [k d o c]. unfold model, model_spec, construct, new_verifier_store, new_verifier, oci_of, blob_of,
    validate_ptr, validate_json, other_kind.
  cbn [i_kind i_doc i_other i_ctor]. destruct c, k, d as [d|], o as [o|]; try reflexivity;
    rewrite ?andthen_EOk_r; try reflexivity.
Qed.

Lemma is_ok_validate : forall k d, is_ok (validate k d) = wellformed_b k d.
Proof.
  intros k d. destruct (wellformed_b k d) eqn:E.
  - apply validate_ok_b in E. rewrite E. reflexivity.
  - destruct (validate k d) eqn:Ev; try reflexivity.
    apply validate_ok_b in Ev. congruence.
Qed.

Lemma is_ok_andthen : forall a b, is_ok (a ;; b) = is_ok a && is_ok b.
Proof. intros a b. destruct a; reflexivity. Qed.

Lemma enf_code_head : forall enf, lookup "integrity" enf = Some "enforce" ->
  exists t, enf_code enf = String "e" t.
Proof.
  intros enf H. unfold enf_code. cbn [gen_validation_types map String.concat]. rewrite H.
  cbn. eexists. reflexivity.
Qed.

Lemma levels_ok_model : forall ss, forallb stmt_ok_b ss = true -> levels_ok ss (map level_obs ss) = true.
Proof.
  induction ss as [|s r IH]; cbn [forallb map levels_ok]; [reflexivity|].
  rewrite andb_true_iff. intros [Hs Hr]. rewrite (IH Hr), andb_true_r.
  destruct (stmt_yields_integrity s Hs) as [n [enf [Hg Hi]]].
  unfold level_obs, level_integrity_ok. rewrite Hg. destruct Hi as [Hi|Hi].
  - rewrite Hi. reflexivity.
  - destruct (enf_code_head enf Hi) as [t ->]. apply orb_true_r.
Qed.

Lemma is_ok_validate_ptr : forall k d, is_ok (validate_ptr k d) = accept_expected k d.
Proof. intros k [d|]; [apply is_ok_validate | reflexivity]. Qed.

Lemma is_ok_validate_json : forall k d, is_ok (validate_json k d) = accept_expected k d.
Proof. intros k [d|]; [apply is_ok_validate | destruct k; reflexivity]. Qed.

Lemma is_ok_new_verifier : forall oci blob,
  is_ok (new_verifier oci blob)
  = match oci, blob with
    | None, None => false
    | Some d, None => wellformed_b OCI d
    | None, Some b => wellformed_b Blob b
    | Some d, Some b => wellformed_b OCI d && wellformed_b Blob b
    end.
Proof.
  intros [d|] [b|]; unfold new_verifier; rewrite ?is_ok_andthen, ?is_ok_validate, ?andb_true_r;
    reflexivity.
Qed.

Lemma is_ok_construct : forall i,
  is_ok (construct (i_ctor i) (oci_of i) (blob_of i))
  = construct_expected i (accept_expected (i_kind i) (i_doc i)).
Proof.
  intros [k d o c]. unfold construct, new_verifier_store, construct_expected, new_expected, accept_expected,
    oci_of, blob_of, other_kind.
  cbn [i_kind i_doc i_other i_ctor].
  destruct c; try reflexivity; rewrite is_ok_new_verifier;
    destruct k, d as [d|], o as [o|]; try reflexivity; apply andb_comm.
Qed.

Theorem model_spec_ok : forall i, spec_ok i (model i) = true.
Proof.
  intros i. rewrite model_is_spec. unfold spec_ok. apply N.eqb_eq.
  unfold fp, model_spec. cbn [o_val o_json o_new o_levels].
  rewrite is_ok_validate_ptr, is_ok_validate_json, is_ok_construct, !eqb_reflx. cbn [negb].
  destruct (i_doc i) as [d|]; [|reflexivity].
  cbn [validate_ptr accept_expected].
  destruct (wellformed_b (i_kind i) d) eqn:Ew; [|reflexivity].
  pose proof (proj2 (validate_ok_b _ d) Ew) as Ev. rewrite Ev.
  rewrite (levels_ok_model _ (accepted_stmts_ok _ _ Ev)), (accepted_strings_safe _ _ Ev). reflexivity.
Qed.

Theorem model_meets_oracle : forall i, wf i = true -> spec_ok i (model i) = true.
Proof. intros i _. apply model_spec_ok. Qed.

(* ---------- pinned verdicts of the regular expressions ---------- *)

Theorem pinned_strings :
  forallb scope_ok_b pinned_good_scopes = true
  /\ forallb (fun s => negb (scope_ok_b s)) pinned_bad_scopes = true
  /\ forallb is_valid_file_name pinned_good_names = true
  /\ forallb (fun s => negb (is_valid_file_name s)) pinned_bad_names = true.
Proof. repeat split; vm_compute; reflexivity. Qed.
