(* C04_Model.v — model of trusted-identity pinning in notation-go. Definitions only.
   Mirrors (statement by statement, on top of the byte-level DN library C04_DN):
     verifier/verifier.go          verifyX509TrustedIdentities  (wildcard short-cut,
                                   Cut on ':', prefix filter, empty value, parse,
                                   no-identity error, leaf = certs[0], subset loop)
     verifier/trustpolicy/trustpolicy.go   validateTrustedIdentities /
                                   validateOverlappingDNs + the emptiness test of
                                   validatePolicyCore (what NewVerifier enforces on
                                   the identities of a statement)
     internal/pkix/pkix.go         ParseDistinguishedName, IsSubsetDN (C04_DN)
   The subjects of the certificates are inputs: the strings crypto/x509 reports
   as Subject.String() for the certificates of the envelope (oracle facts). *)
From NV Require Import Base C04_DN.
Open Scope string_scope.
Open Scope list_scope.

Definition wildcard : string := "*".              (* internal/trustpolicy.Wildcard *)
Definition x509_subject : string := "x509.subject". (* internal/trustpolicy.X509Subject *)
Definition colon : ascii := ":"%char.

(* ---------- verifyX509TrustedIdentities ---------- *)

Inductive vclass :=
| VPass
| VNoSep                       (* identity without ':' *)
| VEmptyValue                  (* "x509.subject:" *)
| VBadIdentity (e : dnerr)     (* identity value does not parse *)
| VNoX509                      (* no x509.subject identity configured *)
| VBadLeaf (e : dnerr)         (* subject of certs[0] does not parse *)
| VNoMatch
| VPluginFail                  (* the verification plugin reported the trusted-identity check as failed *)
| VStoreFail                   (* the chain does not lead to a certificate of the trust stores
                                  (verifyAuthenticity failed; the identity check did not replace the error) *)
| VPanic.                      (* certs[0] on an empty chain (never produced by an envelope) *)

(* the loop over trustedIdentities: first error wins, x509.subject identities
   are collected in order *)
Fixpoint collect_ids (ids : list string) : vclass + list amap :=
  match ids with
  | [] => inr []
  | id :: rest =>
      match cut_byte colon id with
      | None => inl VNoSep
      | Some (p, v) =>
          if String.eqb p x509_subject then
            if String.eqb v "" then inl VEmptyValue
            else match parse_distinguished_name v with
                 | DErr e => inl (VBadIdentity e)
                 | DOk m => match collect_ids rest with
                            | inr l => inr (m :: l)
                            | inl e => inl e
                            end
                 end
          else collect_ids rest
      end
  end.

Definition verify_identities (ids chain : list string) : vclass :=
  if mem_str wildcard ids then VPass
  else match collect_ids ids with
       | inl e => e
       | inr [] => VNoX509
       | inr maps =>
           match chain with
           | [] => VPanic
           | leaf :: _ =>
               match parse_distinguished_name leaf with
               | DErr e => VBadLeaf e
               | DOk m => if existsb (fun i => is_subset_dn i m) maps then VPass else VNoMatch
               end
           end
       end.

(* ---------- what NewVerifier (Document.Validate) enforces on the identities ---------- *)

Inductive wclass :=
| WOk
| WNone                        (* no trusted identities at all *)
| WWildcardMixed               (* "*" together with other values *)
| WEmpty                       (* an empty identity *)
| WNoSep
| WEmptyValue
| WBadDN (e : dnerr)
| WOverlap.

Fixpoint validate_loop (ids : list string) : wclass + list amap :=
  match ids with
  | [] => inr []
  | id :: rest =>
      if String.eqb id "" then inl WEmpty
      else if String.eqb id wildcard then validate_loop rest
      else match cut_byte colon id with
           | None => inl WNoSep
           | Some (p, v) =>
               if String.eqb p x509_subject then
                 if String.eqb v "" then inl WEmptyValue
                 else match parse_distinguished_name v with
                      | DErr e => inl (WBadDN e)
                      | DOk m => match validate_loop rest with
                                 | inr l => inr (m :: l)
                                 | inl e => inl e
                                 end
                      end
               else validate_loop rest
           end
  end.

(* validateOverlappingDNs: some dn_i is a subset of some dn_j, i <> j *)
Fixpoint overlapping (pre post : list amap) : bool :=
  match post with
  | [] => false
  | x :: r => existsb (fun y => is_subset_dn x y) (pre ++ r) || overlapping (pre ++ [x]) r
  end.

Definition validate_ids (ids : list string) : wclass :=
  if is_nil ids then WNone
  else if (1 <? List.length ids)%nat && mem_str wildcard ids then WWildcardMixed
  else match validate_loop ids with
       | inl w => w
       | inr dns => if overlapping [] dns then WOverlap else WOk
       end.

(* ---------- inputs, observations ---------- *)

Inductive input :=
| IParse (s : string)                          (* pkix.ParseDistinguishedName s *)
| ISubset (a b : amap)                         (* pkix.IsSubsetDN a b *)
| IRender (d : list (astyle * attr)) (s : string)
                                               (* ParseDistinguishedName of the rendering s of d *)
| IVerify (late log : bool) (ids chain : list string)
| IPlugin (cap_ti cap_rev plugin_ok log : bool) (ids chain : list string)
| IUntrusted (log : bool) (ids chain : list string).
   (* IUntrusted: the same Verify as IVerify false, but the trust store named by the
      statement does not hold the root of the chain: verifyAuthenticity fails with a
      SignatureAuthenticityError BEFORE the identity check.  processSignature returns
      at once when that failure is critical (level strict); at level audit it goes on
      to the identity check, which can only REPLACE the error by its own, never
      clear it. *)
   (* IPlugin: the same Verify, but the signature names a verification plugin
      (critical attribute io.cncf.notary.verificationPlugin) that is installed
      and advertises the trusted-identity capability iff [cap_ti] and the
      revocation capability iff [cap_rev] (revocation is skipped by the policy);
      [plugin_ok]: the success flag of the plugin's trusted-identity result.
      processSignature performs the native check iff the plugin does NOT
      advertise the trusted-identity capability. *)
   (* verifier.Verify of an envelope whose chain has the subjects [chain] (leaf
      first) under a statement with trusted identities [ids]; [late]: the
      identities are put into the document after the verifier was constructed
      (they are then not validated by NewVerifier); [log]: level audit
      (authenticity logged) instead of strict *)

Inductive obs :=
| OParse (r : dnres)
| OBool (b : bool)
| OConstruct (w : wclass)                      (* NewVerifier rejected the policy *)
| OVerify (v : vclass) (rejected : bool).      (* class of the authenticity result's
                                                  error, and whether Verify returned an error *)

Definition is_pass (v : vclass) : bool := match v with VPass => true | _ => false end.

Definition verify_obs (log : bool) (ids chain : list string) : obs :=
  let v := verify_identities ids chain in
  OVerify v (negb log && negb (is_pass v)).

Definition model (i : input) : obs :=
  match i with
  | IParse s => OParse (parse_distinguished_name s)
  | ISubset a b => OBool (is_subset_dn a b)
  | IRender _ s => OParse (parse_distinguished_name s)
  | IVerify late log ids chain =>
      if late then verify_obs log ids chain
      else match validate_ids ids with
           | WOk => verify_obs log ids chain
           | w => OConstruct w
           end
  | IPlugin ti _ pok log ids chain =>
      match validate_ids ids with
      | WOk =>
          if ti then
            let v := if pok then VPass else VPluginFail in
            OVerify v (negb log && negb (is_pass v))
          else verify_obs log ids chain
      | w => OConstruct w
      end
  | IUntrusted log ids chain =>
      match validate_ids ids with
      | WOk =>
          if log then
            let v := verify_identities ids chain in
            OVerify (if is_pass v then VStoreFail else v) false
          else OVerify VStoreFail true
      | w => OConstruct w
      end
  end.

(* ---------- boolean equalities ---------- *)

Definition vclass_eqb (a b : vclass) : bool :=
  match a, b with
  | VPass, VPass | VNoSep, VNoSep | VEmptyValue, VEmptyValue | VNoX509, VNoX509
  | VNoMatch, VNoMatch | VPanic, VPanic | VPluginFail, VPluginFail | VStoreFail, VStoreFail => true
  | VBadIdentity e, VBadIdentity e' | VBadLeaf e, VBadLeaf e' => dnerr_eqb e e'
  | _, _ => false
  end.

Definition wclass_eqb (a b : wclass) : bool :=
  match a, b with
  | WOk, WOk | WNone, WNone | WWildcardMixed, WWildcardMixed | WEmpty, WEmpty
  | WNoSep, WNoSep | WEmptyValue, WEmptyValue | WOverlap, WOverlap => true
  | WBadDN e, WBadDN e' => dnerr_eqb e e'
  | _, _ => false
  end.

Definition obs_eqb (a b : obs) : bool :=
  match a, b with
  | OParse r, OParse r' => dnres_eqb r r'
  | OBool x, OBool y => Bool.eqb x y
  | OConstruct w, OConstruct w' => wclass_eqb w w'
  | OVerify v r, OVerify v' r' => vclass_eqb v v' && Bool.eqb r r'
  | _, _ => false
  end.

(* ---------- input contract ---------- *)

Definition ascii_only (s : string) : bool :=
  forallb (fun c => (N_of_ascii c <? 128)%N) (list_ascii_of_string s).

(* the input contract of the byte-level DN model: valid UTF-8 (C04_DN, Limits) *)
Definition valid_utf8 (s : string) : bool := valid_utf8_bytes (list_ascii_of_string s).

Definition keys_unique (m : amap) : bool := nodup_keys m.

Definition wf (i : input) : bool :=
  match i with
  | IParse s => valid_utf8 s
  | ISubset a b => keys_unique a && keys_unique b          (* Go maps *)
  | IRender d s => true
  | IVerify _ _ ids chain =>
      negb (is_nil chain)                                   (* an envelope carries >= 1 certificate *)
  | IPlugin ti rev _ _ ids chain =>
      negb (is_nil chain) && (ti || rev)                    (* a plugin without verification capability is refused earlier *)
  | IUntrusted _ ids chain => negb (is_nil chain)
  end.

(* ---------- the property oracle (on observations only) ---------- *)

(* every attribute of a occurs with an equal value in b *)
Definition subset_decl (a b : amap) : bool :=
  forallb (fun kv => existsb (fun kv' => String.eqb (fst kv) (fst kv') && String.eqb (snd kv) (snd kv')) b) a.

Definition nonempty_at (k : string) (m : amap) : bool :=
  match lookup k m with Some v => negb (String.eqb v "") | None => false end.

(* what an accepted interpretation of a name must look like *)
Definition parse_ok (s : string) (r : dnres) : bool :=
  match r with
  | DErr _ => true
  | DOk m =>
      keys_unique m && forallb (fun f => nonempty_at f m) mandatory
      && negb (existsb (fun kv => String.eqb (fst kv) "S") m)
      && negb (has_eqhash (list_ascii_of_string s))
  end.

(* the value of an x509.subject identity *)
Definition x509_value (id : string) : option string :=
  match cut_byte colon id with
  | Some (p, v) => if String.eqb p x509_subject then Some v else None
  | None => None
  end.

(* an identity the verifier can interpret: it has a separator, and if it is an
   x509.subject identity its value is a valid DN *)
Definition identity_ok (id : string) : bool :=
  match cut_byte colon id with
  | None => false
  | Some (p, v) =>
      if String.eqb p x509_subject then
        negb (String.eqb v "")
        && match parse_distinguished_name v with DOk _ => true | DErr _ => false end
      else true
  end.

(* some x509.subject identity all of whose attributes occur in m *)
Definition some_identity_within (ids : list string) (m : amap) : bool :=
  existsb (fun id =>
    match x509_value id with
    | Some v => match parse_distinguished_name v with
                | DOk i => subset_decl i m
                | DErr _ => false
                end
    | None => false
    end) ids.

Definition expected_pass (ids chain : list string) : bool :=
  match chain with
  | [] => false
  | leaf :: _ =>
      match parse_distinguished_name leaf with
      | DErr _ => false
      | DOk m => forallb identity_ok ids && some_identity_within ids m
      end
  end.

Definition verify_ok (ids chain : list string) (v : vclass) : bool :=
  if list_eqb String.eqb ids [wildcard] then is_pass v     (* the lone wildcard accepts *)
  else if mem_str wildcard ids then true                    (* not a valid policy; not constrained *)
  else Bool.eqb (is_pass v) (expected_pass ids chain).

Definition render_pre (d : list (astyle * attr)) (s : string) : bool :=
  dn_wf (map snd d) && forallb style_wf d && String.eqb (render d) s.

Definition spec_ok (i : input) (o : obs) : bool :=
  match i, o with
  | IParse s, OParse r => parse_ok s r
  | ISubset a b, OBool r => Bool.eqb r (subset_decl a b)
  | IRender d s, OParse r =>
      parse_ok s r &&
      (if render_pre d s
       then match r with DOk m => amap_eqb m (map snd d) | DErr _ => false end
       else true)
  | IVerify late _ _ _, OConstruct _ => negb late           (* rejected before any verification *)
  | IVerify _ log ids chain, OVerify v rej =>
      verify_ok ids chain v && Bool.eqb rej (negb log && negb (is_pass v))
  | IPlugin _ _ _ _ _ _, OConstruct _ => true
  | IPlugin ti _ pok log ids chain, OVerify v rej =>
      (* the native check is replaced only when the plugin owns trusted-identity verification *)
      (if ti then Bool.eqb (is_pass v) pok else verify_ok ids chain v)
      && Bool.eqb rej (negb log && negb (is_pass v))
  | IUntrusted _ _ _, OConstruct _ => true
  | IUntrusted log ids chain, OVerify v rej =>
      (* authenticity never passes without a trusted chain, whatever the identities are *)
      negb (is_pass v) && Bool.eqb rej (negb log)
  | _, _ => false
  end.

(* ---------- notions used in the statements of the theorems ---------- *)

(* every attribute of i occurs with an equal value in m (presence required) *)
Definition within (i m : amap) : Prop :=
  forall k v, lookup k i = Some v -> lookup k m = Some v.

(* two interpretations with the same attributes *)
Definition same_attrs (a b : amap) : Prop := forall k, lookup k a = lookup k b.

(* the interpretations of the x509.subject identities of a list, in order *)
Definition x509_maps (ids : list string) : list amap :=
  flat_map (fun id =>
    match x509_value id with
    | Some v => match parse_distinguished_name v with DOk i => [i] | DErr _ => [] end
    | None => []
    end) ids.

(* the identity string of an abstract DN written in some style *)
Definition id_of (d : list (astyle * attr)) : string := "x509.subject:" ++ render d.

Definition styled_wf (d : list (astyle * attr)) : bool :=
  dn_wf (map snd d) && forallb style_wf d.

(* abstract subset: every (type, value) of a is an attribute of b *)
Definition abs_subset (a b : list attr) : bool :=
  forallb (fun kv => existsb (fun kv' => String.eqb (fst kv) (fst kv') && String.eqb (snd kv) (snd kv')) b) a.

(* ---------- cases ---------- *)
Record case := mk_case { c_id : N; c_in : input; c_obs : obs }.

(* a rendering case whose string is not the Coq rendering of its abstract DN
   is a harness inconsistency and is reported as a disagreement *)
Definition harness_consistent (i : input) : bool :=
  match i with
  | IRender d s => String.eqb (render d) s
  | _ => true
  end.

Definition run (cs : list case) : list (N * N * N) :=
  run_cases c_id
    (fun c => obs_eqb (model (c_in c)) (c_obs c) && harness_consistent (c_in c))
    (fun c => negb (wf (c_in c)) || spec_ok (c_in c) (c_obs c))
    (fun _ => 0%N) cs.
