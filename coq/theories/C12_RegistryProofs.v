(* C12_RegistryProofs.v — proofs about the size caps of the registry client (C12_Registry.v). *)
From NV Require Import Base Generated C12_Registry.
From Coq Require Import Lia.
Open Scope list_scope.
Open Scope Z_scope.

Definition within_cap (r : fkind * Z) : Prop := snd r <= cap_of (fst r).

Lemma req_ok_iff r : req_ok r = true <-> within_cap r.
Proof. unfold req_ok, within_cap. apply Z.leb_le. Qed.

Lemma caps_pos : 0 < capM /\ 0 < capB.
Proof. split; reflexivity. Qed.

Lemma alloc_app a b : alloc_of (a ++ b) = alloc_of a + alloc_of b.
Proof. induction a as [|x a IH]; cbn; [reflexivity|]. fold (alloc_of (a ++ b)) (alloc_of a). lia. Qed.

Lemma alloc_nonneg a : 0 <= alloc_of a.
Proof. induction a as [|x a IH]; cbn; [lia|]. fold (alloc_of a). lia. Qed.

(* ---------- FetchSignatureBlob ---------- *)
(* shape of every result: at most one manifest request, then at most one blob request,
   each within its cap *)
Inductive fetch_shape : robs -> Prop :=
| fs_none r : fetch_shape (RO [] r)
| fs_man m r : m <= capM -> fetch_shape (RO [(KManifest, m)] r)
| fs_both m b r : m <= capM -> b <= capB -> fetch_shape (RO [(KManifest, m); (KBlob, b)] r).

Lemma fetch_sig_shape q : fetch_shape (fetch_sig q).
Proof.
  unfold fetch_sig. destruct (rd_mt (fq_desc q)); try apply fs_none;
  (destruct (capM <? rd_size (fq_desc q)) eqn:Cm; [apply fs_none|]; apply Z.ltb_ge in Cm;
   destruct (fq_view q) as [| |[|b [|b' bs]] s n]; try (apply fs_man; assumption);
   destruct (capB <? rd_size b) eqn:Cb; [apply fs_man; assumption|]; apply Z.ltb_ge in Cb;
   destruct (fq_blob_ok q); apply fs_both; assumption).
Qed.

Theorem fetch_sig_bounded q reqs res :
  fetch_sig q = RO reqs res ->
  Forall within_cap reqs /\ (List.length reqs <= 2)%nat /\ alloc_of reqs <= capM + capB.
Proof.
  intros E. pose proof (fetch_sig_shape q) as H. rewrite E in H. pose proof caps_pos as [Pm Pb].
  inversion H; subst; cbn [List.length alloc_of fold_right snd].
  - repeat split; [constructor | lia | lia].
  - repeat split; [repeat constructor; assumption | lia | lia].
  - repeat split; [repeat constructor; assumption | lia | lia].
Qed.

Theorem fetch_sig_no_panic q : fetch_sig q <> RPanic.
Proof. pose proof (fetch_sig_shape q) as H. intros E. rewrite E in H. inversion H. Qed.

(* success: exactly the two requests, both within their caps, and exactly one blob *)
Theorem fetch_sig_success q reqs :
  fetch_sig q = RO reqs RBlob ->
  exists b s n, fq_view q = MVManifest [b] s n /\ fq_blob_ok q = true /\
    rd_mt (fq_desc q) <> MTOther /\
    reqs = [(KManifest, rd_size (fq_desc q)); (KBlob, rd_size b)] /\
    rd_size (fq_desc q) <= capM /\ rd_size b <= capB.
Proof.
  unfold fetch_sig. destruct (rd_mt (fq_desc q)) eqn:Emt; try discriminate;
  (destruct (capM <? rd_size (fq_desc q)) eqn:Cm; [discriminate|]; apply Z.ltb_ge in Cm;
   destruct (fq_view q) as [| |[|b [|b' bs]] s n]; try discriminate;
   destruct (capB <? rd_size b) eqn:Cb; [discriminate|]; apply Z.ltb_ge in Cb;
   destruct (fq_blob_ok q) eqn:Eb; [|discriminate];
   intros E; inversion E; subst; exists b, s, n; repeat split; try assumption; try reflexivity; discriminate).
Qed.

(* an oversized manifest or blob is refused BEFORE anything of that size is requested *)
Theorem fetch_sig_oversize_manifest q :
  rd_mt (fq_desc q) <> MTOther -> capM < rd_size (fq_desc q) -> fetch_sig q = RO [] (RErr 2).
Proof.
  intros Hm Hs. unfold fetch_sig. apply Z.ltb_lt in Hs. rewrite Hs.
  destruct (rd_mt (fq_desc q)); [reflexivity | reflexivity | congruence].
Qed.

Theorem fetch_sig_oversize_blob q b s n :
  rd_mt (fq_desc q) <> MTOther -> rd_size (fq_desc q) <= capM ->
  fq_view q = MVManifest [b] s n -> capB < rd_size b ->
  fetch_sig q = RO [(KManifest, rd_size (fq_desc q))] (RErr 6).
Proof.
  intros Hm Hs Hv Hb. unfold fetch_sig. apply Z.ltb_ge in Hs. apply Z.ltb_lt in Hb. rewrite Hs, Hv, Hb.
  destruct (rd_mt (fq_desc q)); [reflexivity | reflexivity | congruence].
Qed.

(* without the two tests the declared size of the registry's choosing reaches FetchAll *)
Theorem fetch_sig_nocap_unbounded : forall z : Z, capM < z ->
  exists q reqs res, fetch_sig_nocap q = RO reqs res /\ z <= alloc_of reqs /\ fetch_sig q = RO [] (RErr 2).
Proof.
  intros z Hgt.
  exists (mk_freq (mk_rd MTImage z) MVFetchErr false), [(KManifest, z)], (RErr 3).
  repeat split.
  - cbn. lia.
  - unfold fetch_sig. cbn [fq_desc rd_mt rd_size]. assert (H : capM <? z = true) by (apply Z.ltb_lt; lia).
    rewrite H. reflexivity.
Qed.

Definition q_huge_manifest : freq := mk_freq (mk_rd MTImage 1099511627776) MVFetchErr false.
Definition q_huge_blob : freq :=
  mk_freq (mk_rd MTArtifact 300) (MVManifest [mk_rd MTOther 1099511627776] true true) false.

Theorem nocap_refuted :
  fetch_sig_nocap q_huge_manifest = RO [(KManifest, 1099511627776)] (RErr 3) /\
  fetch_sig q_huge_manifest = RO [] (RErr 2) /\
  fetch_sig_nocap q_huge_blob = RO [(KManifest, 300); (KBlob, 1099511627776)] (RErr 3) /\
  fetch_sig q_huge_blob = RO [(KManifest, 300)] (RErr 6) /\
  rspec_ok (fetch_sig_nocap q_huge_manifest) = false /\ rspec_ok (fetch_sig_nocap q_huge_blob) = false.
Proof. repeat split; reflexivity. Qed.

(* ---------- ListSignatures ---------- *)
Definition kept_ok (nodes : list lnode) (id : N) : Prop :=
  exists n, In n nodes /\ ln_id n = id /\ rd_mt (ln_desc n) <> MTOther /\
            rd_size (ln_desc n) <= capM /\ exists bl, ln_view n = MVManifest bl true true.

Definition loop_ok (nodes : list lnode) (r : list (fkind * Z) * option N * list N) : Prop :=
  let '(rs, e, kept) := r in
  Forall (fun r => fst r = KManifest /\ snd r <= capM) rs /\
  (List.length rs <= List.length nodes)%nat /\ (List.length kept <= List.length rs)%nat /\
  (forall id, In id kept -> kept_ok nodes id).

Lemma loop_ok_stop nodes e : loop_ok nodes ([], Some e, []).
Proof. cbn. split; [constructor|]. split; [lia|]. split; [lia|]. intros id []. Qed.

Lemma loop_ok_stop1 n rest z e : z <= capM -> loop_ok (n :: rest) ([(KManifest, z)], Some e, []).
Proof.
  intros Hz. cbn. split; [constructor; [split; [reflexivity|exact Hz]|constructor]|].
  split; [lia|]. split; [lia|]. intros id [].
Qed.

Lemma kept_ok_cons n rest id : kept_ok rest id -> kept_ok (n :: rest) id.
Proof. intros (n0 & Hn0 & R). exists n0. split; [right; exact Hn0 | exact R]. Qed.

Lemma list_loop_bounded nodes : loop_ok nodes (list_loop nodes).
Proof.
  induction nodes as [|n rest IH]; cbn [list_loop].
  - cbn. split; [constructor|]. split; [lia|]. split; [lia|]. intros id [].
  - assert (Hskip : loop_ok (n :: rest) (list_loop rest)).
    { destruct (list_loop rest) as [[rs e] kept]. destruct IH as (F & L & K & W).
      split; [exact F|]. split; [cbn; lia|]. split; [exact K|].
      intros id Hin. apply kept_ok_cons, W, Hin. }
    assert (Hsig : rd_mt (ln_desc n) <> MTOther ->
      loop_ok (n :: rest)
        (if capM <? rd_size (ln_desc n) then ([], Some 2%N, []) else
         match ln_view n with
         | MVFetchErr => ([(KManifest, rd_size (ln_desc n))], Some 3%N, [])
         | MVBadJSON => ([(KManifest, rd_size (ln_desc n))], Some 4%N, [])
         | MVManifest _ subj nt =>
             let '(rs, e, kept) := list_loop rest in
             ((KManifest, rd_size (ln_desc n)) :: rs, e, if subj && nt then ln_id n :: kept else kept)
         end)).
    { intros Hmt. destruct (capM <? rd_size (ln_desc n)) eqn:Cm; [apply loop_ok_stop|].
      apply Z.ltb_ge in Cm.
      destruct (ln_view n) as [| |bl s nt] eqn:Ev; try (apply loop_ok_stop1; exact Cm).
      destruct (list_loop rest) as [[rs e] kept]. destruct IH as (F & L & K & W).
      split; [constructor; [split; [reflexivity|exact Cm]|exact F]|].
      split; [cbn; lia|].
      split; [destruct (s && nt); cbn; lia|].
      intros id Hin.
      destruct s, nt; cbn [andb] in Hin; try (apply kept_ok_cons, W, Hin).
      destruct Hin as [Hid|Hin]; [|apply kept_ok_cons, W, Hin].
      exists n. split; [left; reflexivity|]. split; [exact Hid|]. split; [exact Hmt|]. split; [exact Cm|].
      exists bl. exact Ev. }
    destruct (rd_mt (ln_desc n)) eqn:Emt; [apply Hsig; discriminate | apply Hsig; discriminate | exact Hskip].
Qed.

Theorem list_sigs_bounded q reqs res :
  list_sigs q = RO reqs res ->
  Forall within_cap reqs /\ (List.length reqs <= List.length (lq_nodes q))%nat /\
  alloc_of reqs <= Z.of_nat (List.length (lq_nodes q)) * capM.
Proof.
  unfold list_sigs. destruct (lq_pred_err q).
  { intros E; inversion E; subst. repeat split; [constructor | cbn; lia | cbn; pose proof caps_pos; lia]. }
  pose proof (list_loop_bounded (lq_nodes q)) as H.
  destruct (list_loop (lq_nodes q)) as [[rs e] kept]. destruct H as (F & L & _ & _).
  intros E. assert (Hreq : reqs = rs) by (destruct e; inversion E; reflexivity).
  rewrite Hreq. clear E Hreq reqs res.
  assert (Hall : Forall within_cap rs).
  { eapply Forall_impl; [|exact F]. intros [k z] [Hk Hz]. unfold within_cap. cbn [fst snd] in *. subst k. exact Hz. }
  repeat split; [exact Hall | exact L |].
  assert (Ha : alloc_of rs <= Z.of_nat (List.length rs) * capM).
  { clear L Hall. induction F as [|[k z] rs [Hk Hz] F IH]; cbn [alloc_of fold_right List.length snd]; [lia|].
    fold (alloc_of rs). change (z <= capM) in Hz. pose proof caps_pos. rewrite Nat2Z.inj_succ, Z.mul_succ_l. lia. }
  pose proof caps_pos. assert (Z.of_nat (List.length rs) <= Z.of_nat (List.length (lq_nodes q))) by lia. nia.
Qed.

Theorem list_sigs_no_panic q : list_sigs q <> RPanic.
Proof.
  unfold list_sigs. destruct (lq_pred_err q); [discriminate|].
  destruct (list_loop (lq_nodes q)) as [[rs [e|]] kept]; discriminate.
Qed.

(* what is handed to the callback: only nodes that decoded, refer to the artifact, are of
   the notation artifact type, and whose declared size is within the cap *)
Theorem list_sigs_kept q reqs kept id :
  list_sigs q = RO reqs (RList kept) -> In id kept ->
  exists n, In n (lq_nodes q) /\ ln_id n = id /\ rd_mt (ln_desc n) <> MTOther /\
            rd_size (ln_desc n) <= capM /\ exists bl, ln_view n = MVManifest bl true true.
Proof.
  unfold list_sigs. destruct (lq_pred_err q); [discriminate|].
  pose proof (list_loop_bounded (lq_nodes q)) as H.
  destruct (list_loop (lq_nodes q)) as [[rs e] kept']. destruct H as (_ & _ & _ & W).
  destruct e; [discriminate|]. intros E; inversion E; subst. apply W.
Qed.

(* an oversized referrer stops the listing before it is requested *)
Theorem list_sigs_oversize n rest :
  rd_mt (ln_desc n) <> MTOther -> capM < rd_size (ln_desc n) ->
  list_sigs (mk_lreq false (n :: rest)) = RO [] (RErr 2).
Proof.
  intros Hm Hs. unfold list_sigs. cbn [lq_pred_err lq_nodes list_loop]. apply Z.ltb_lt in Hs. rewrite Hs.
  destruct (rd_mt (ln_desc n)); [reflexivity | reflexivity | congruence].
Qed.

(* ---------- the oracle ---------- *)
Lemma rspec_of_forall reqs res : Forall within_cap reqs -> rspec_ok (RO reqs res) = true.
Proof.
  intros F. cbn. apply forallb_forall. intros r Hin. apply req_ok_iff.
  rewrite Forall_forall in F. exact (F r Hin).
Qed.

Theorem fetch_sig_spec_ok q : rspec_ok (fetch_sig q) = true.
Proof.
  destruct (fetch_sig q) as [|reqs res] eqn:E; [exfalso; exact (fetch_sig_no_panic q E)|].
  apply rspec_of_forall. exact (proj1 (fetch_sig_bounded q reqs res E)).
Qed.

Theorem list_sigs_spec_ok q : rspec_ok (list_sigs q) = true.
Proof.
  destruct (list_sigs q) as [|reqs res] eqn:E; [exfalso; exact (list_sigs_no_panic q E)|].
  apply rspec_of_forall. exact (proj1 (list_sigs_bounded q reqs res E)).
Qed.

Theorem registry_spec_ok qf ql : rspec_ok (fetch_sig qf) = true /\ rspec_ok (list_sigs ql) = true.
Proof. exact (conj (fetch_sig_spec_ok qf) (list_sigs_spec_ok ql)). Qed.

Theorem rspec_ok_sound o : rspec_ok o = true ->
  o <> RPanic /\ forall reqs res, o = RO reqs res -> Forall within_cap reqs.
Proof.
  destruct o as [|reqs res]; cbn; [discriminate|]. intros H. split; [discriminate|].
  intros reqs' res' E; inversion E; subst. apply Forall_forall. intros r Hin. apply req_ok_iff.
  rewrite forallb_forall in H. exact (H r Hin).
Qed.

(* the caps are the constants of the sources *)
Theorem caps_generated : capM = 4194304 /\ capB = 33554432 /\
  capM = Z.of_N gen_max_manifest_size /\ capB = Z.of_N gen_max_blob_size.
Proof. repeat split; reflexivity. Qed.

(* non-vacuity: a fetch that succeeds, a listing that keeps a node *)
Definition q_fetch_ok : freq := mk_freq (mk_rd MTImage 700) (MVManifest [mk_rd MTOther 2500] true true) true.
Definition q_list_ok : lreq :=
  mk_lreq false [mk_ln 0 (mk_rd MTOther 5) MVFetchErr;
                 mk_ln 1 (mk_rd MTImage 700) (MVManifest [] true true);
                 mk_ln 2 (mk_rd MTArtifact 600) (MVManifest [] false true);
                 mk_ln 3 (mk_rd MTArtifact 4194304) (MVManifest [] true true)].

Example fetch_example : fetch_sig q_fetch_ok = RO [(KManifest, 700); (KBlob, 2500)] RBlob.
Proof. reflexivity. Qed.
Example list_example :
  list_sigs q_list_ok = RO [(KManifest, 700); (KManifest, 600); (KManifest, 4194304)] (RList [1%N; 3%N]).
Proof. reflexivity. Qed.
