(* Regex.v — regular expressions as translated from Go's regexp/syntax by
   `vh gen-constants`, and a Brzozowski-derivative matcher over bytes.
   Only whole-string, anchored use is modelled (every regex in notation-go is
   of the form ^...$ used with MatchString). Definitions + basic lemmas. *)
From NV Require Import Base.
Open Scope N_scope.

Inductive re :=
| RNone | REps | RBegin | REnd
| RChar (c : N) | RClass (rs : list (N * N))
| RSeq (l : list re) | RAlt (l : list re)
| RStar (r : re) | RPlus (r : re) | ROpt (r : re).

(* core form *)
Inductive cre := CNone | CEps | CCls (rs : list (N*N)) | CCat (a b : cre) | CAlt (a b : cre) | CStar (a : cre).

Fixpoint core (r : re) : cre :=
  match r with
  | RNone => CNone | REps | RBegin | REnd => CEps
  | RChar c => CCls [(c,c)] | RClass rs => CCls rs
  | RSeq l => fold_right (fun x acc => CCat (core x) acc) CEps l
  | RAlt l => fold_right (fun x acc => CAlt (core x) acc) CNone l
  | RStar r => CStar (core r) | RPlus r => CCat (core r) (CStar (core r)) | ROpt r => CAlt CEps (core r)
  end.

(* anchored r = true iff r is RSeq (RBegin :: ... ++ [REnd]) with no other
   anchors: then MatchString r s  <->  whole-string match of the body *)
Fixpoint no_anchor (r : re) : bool :=
  match r with
  | RBegin | REnd => false
  | RNone | REps | RChar _ | RClass _ => true
  | RSeq l | RAlt l => forallb no_anchor l
  | RStar r | RPlus r | ROpt r => no_anchor r
  end.

Definition anchored (r : re) : bool :=
  match r with
  | RSeq (RBegin :: l) =>
      match rev l with
      | REnd :: body => forallb no_anchor body
      | _ => false
      end
  | _ => false
  end.

Fixpoint nullable (r : cre) : bool :=
  match r with CNone => false | CEps => true | CCls _ => false
  | CCat a b => nullable a && nullable b | CAlt a b => nullable a || nullable b | CStar _ => true end.

Definition in_cls (c : N) (rs : list (N*N)) := existsb (fun p => (fst p <=? c) && (c <=? snd p)) rs.

Definition mkcat a b := match a, b with CNone, _ | _, CNone => CNone | CEps, x | x, CEps => x | _, _ => CCat a b end.
Definition mkalt a b := match a, b with CNone, x | x, CNone => x | _, _ => CAlt a b end.

Fixpoint deriv (c : N) (r : cre) : cre :=
  match r with
  | CNone | CEps => CNone
  | CCls rs => if in_cls c rs then CEps else CNone
  | CCat a b => let d := mkcat (deriv c a) b in if nullable a then mkalt d (deriv c b) else d
  | CAlt a b => mkalt (deriv c a) (deriv c b)
  | CStar a => mkcat (deriv c a) (CStar a)
  end.

Fixpoint run_re (r : cre) (s : list N) : bool :=
  match s with [] => nullable r | c :: s' => match deriv c r with CNone => false | d => run_re d s' end end.

Definition matches (r : re) (s : string) : bool := run_re (core r) (bytes s).

(* ---- alphabet: every byte of a matched string belongs to some class of the regex ---- *)
Fixpoint cls_of (r : cre) : list (N * N) :=
  match r with
  | CNone | CEps => []
  | CCls rs => rs
  | CCat a b | CAlt a b => cls_of a ++ cls_of b
  | CStar a => cls_of a
  end.

Definition in_alphabet (r : cre) (c : N) : bool := in_cls c (cls_of r).

Lemma in_cls_app c a b : in_cls c (a ++ b) = in_cls c a || in_cls c b.
Proof. unfold in_cls. apply existsb_app. Qed.

Lemma mkcat_alpha a b c : in_alphabet (mkcat a b) c = true -> in_alphabet a c = true \/ in_alphabet b c = true.
Proof.
  unfold in_alphabet. destruct a, b; cbn [mkcat mkalt cls_of app]; rewrite ?in_cls_app, ?orb_true_iff, ?app_nil_r; cbn; rewrite ?in_cls_app, ?orb_true_iff; intuition (try discriminate).
Qed.

Lemma mkalt_alpha a b c : in_alphabet (mkalt a b) c = true -> in_alphabet a c = true \/ in_alphabet b c = true.
Proof.
  unfold in_alphabet. destruct a, b; cbn [mkcat mkalt cls_of app]; rewrite ?in_cls_app, ?orb_true_iff, ?app_nil_r; cbn; rewrite ?in_cls_app, ?orb_true_iff; intuition (try discriminate).
Qed.

Lemma deriv_alpha r : forall c x, in_alphabet (deriv c r) x = true -> in_alphabet r x = true.
Proof.
  induction r as [| |rs|a IHa b IHb|a IHa b IHb|a IHa]; intros c x; cbn [deriv].
  - discriminate. - discriminate.
  - destruct (in_cls c rs); discriminate.
  - unfold in_alphabet at 2; cbn [cls_of]; rewrite in_cls_app, orb_true_iff.
    destruct (nullable a).
    + intros H. apply mkalt_alpha in H. destruct H as [H|H].
      * apply mkcat_alpha in H. destruct H as [H|H]; [left; eapply IHa; eauto | right; exact H].
      * right; eapply IHb; eauto.
    + intros H. apply mkcat_alpha in H. destruct H as [H|H]; [left; eapply IHa; eauto | right; exact H].
  - unfold in_alphabet at 2; cbn [cls_of]; rewrite in_cls_app, orb_true_iff.
    intros H. apply mkalt_alpha in H. destruct H as [H|H]; [left; eapply IHa | right; eapply IHb]; eauto.
  - intros H. apply mkcat_alpha in H. destruct H as [H|H]; [eapply IHa; eauto | exact H].
Qed.

Lemma deriv_head_alpha r : forall c, deriv c r <> CNone -> in_alphabet r c = true.
Proof.
  induction r as [| |rs|a IHa b IHb|a IHa b IHb|a IHa]; intros c; cbn [deriv].
  - congruence. - congruence.
  - unfold in_alphabet; cbn [cls_of]. destruct (in_cls c rs); congruence.
  - unfold in_alphabet; cbn [cls_of]; rewrite in_cls_app, orb_true_iff.
    destruct (nullable a).
    + intros H. destruct (deriv c a) eqn:Ea.
      * right. apply IHb. intros Eb. rewrite Eb in H. cbn in H. congruence.
      * left; apply IHa; congruence.
      * left; apply IHa; congruence.
      * left; apply IHa; congruence.
      * left; apply IHa; congruence.
      * left; apply IHa; congruence.
    + intros H. left. apply IHa. intros Ea. rewrite Ea in H. cbn in H. congruence.
  - unfold in_alphabet; cbn [cls_of]; rewrite in_cls_app, orb_true_iff.
    intros H. destruct (deriv c a) eqn:Ea; try (left; apply IHa; congruence).
    right. apply IHb. intros Eb. rewrite Eb in H. cbn in H. congruence.
  - intros H. apply IHa. intros Ea. rewrite Ea in H. cbn in H. congruence.
Qed.

Lemma run_re_alphabet s : forall r, run_re r s = true -> Forall (fun c => in_alphabet r c = true) s.
Proof.
  induction s as [|c s IH]; intros r H; [constructor|].
  cbn [run_re] in H. destruct (deriv c r) eqn:Ed; try discriminate.
  all: constructor; [apply deriv_head_alpha; congruence|].
  all: rewrite <- Ed in H; apply IH in H; eapply Forall_impl; [|exact H];
       intros x Hx; eapply deriv_alpha; exact Hx.
Qed.

Theorem matches_alphabet r s : matches r s = true ->
  Forall (fun c => in_alphabet (core r) c = true) (bytes s).
Proof. apply run_re_alphabet. Qed.

Lemma run_re_nonempty_needs_nullable r : run_re r [] = nullable r.
Proof. reflexivity. Qed.
