(* C02_Proofs.v — the theorems of property C02 (the verification level alone
   decides which failed validations reject), derived from C02_Core. *)
From NV Require Import Base Regex Generated C02_Levels VerifyCore C02_Model C02_Core.
Open Scope string_scope.
Open Scope list_scope.

(* ================================================================== *)
(* 3. The theorems of the property                                     *)
(* ================================================================== *)

Lemma core_exact lvl sc : wf_sc sc = true ->
  accepted (verify_core lvl sc) = negb (should_fail_impl lvl sc).
Proof.
  intros W. pose proof (core_ok lvl sc W) as H. unfold spec_impl in H.
  apply andb_true_iff in H. destruct H as [H _]. apply Bool.eqb_prop in H.
  rewrite <- H. now rewrite negb_involutive.
Qed.

Lemma core_shape lvl sc : wf_sc sc = true -> spec_shape lvl sc (verify_core lvl sc) = true.
Proof.
  intros W. pose proof (core_ok lvl sc W) as H. unfold spec_impl in H.
  apply andb_true_iff in H. tauto.
Qed.

(* the conjuncts of spec_shape, one by one *)
Lemma shape_parts lvl sc o : spec_shape lvl sc o = true ->
  forallb (fun r => action_eqb (r_action r) (act_of lvl (r_type r))) (o_results o) = true
  /\ is_prefix (map r_type (o_results o)) type_order = true
  /\ (negb (accepted o) || list_eqb result_eqb (o_results o) (expected_results lvl sc)) = true
  /\ match o_err o with
     | EResult t => existsb (fun r => vtype_eqb (r_type r) t && action_eqb (r_action r) Enforce && r_failed r) (o_results o)
     | _ => true
     end = true
  /\ (negb (existsb (fun r => action_eqb (r_action r) Enforce && r_failed r) (o_results o)) || negb (accepted o)) = true
  /\ match o_err o with
     | EInconclusive | EOther => plugin_or_attribute_problem lvl sc
     | _ => true
     end = true
  /\ (negb (action_eqb (l_rev lvl) Skip)
      || (negb (o_rev_called o)
          && match o_exec o with Some (cs, _) => negb (has_cap CapRev cs) | None => true end
          && negb (existsb (fun r => vtype_eqb (r_type r) TRev) (o_results o)))) = true
  /\ (negb (o_rev_called o) || negb (has_cap CapRev (caps_of sc))) = true
  /\ match o_exec o with
     | Some (cs, _) => nonempty cs && list_eqb cap_eqb cs (asked lvl sc)
     | None => true
     end = true
  /\ (negb (accepted o) || Bool.eqb (negb (is_none (o_exec o))) (nonempty (asked lvl sc))) = true.
Proof. unfold spec_shape. rewrite !andb_true_iff. tauto. Qed.

(* ---------- C02_exact ---------- *)
Lemma exact_iff lvl sc : wf_sc sc = true ->
  (accepted (verify_core lvl sc) = false <-> should_fail_impl lvl sc = true).
Proof. intros W. rewrite (core_exact lvl sc W). destruct (should_fail_impl lvl sc); cbn; split; congruence. Qed.

Lemma should_fail_impl_iff lvl sc :
  should_fail_impl lvl sc = true <->
  s_integrity_ok sc = false \/ enforced_failure lvl sc = true \/ plugin_or_attribute_problem lvl sc = true.
Proof.
  unfold should_fail_impl. rewrite !orb_true_iff, negb_true_iff. tauto.
Qed.

Definition failed_fact (sc : scenario) (t : vtype) : bool :=
  match t with
  | TIntegrity => negb (s_integrity_ok sc)
  | TAuth => authenticity_failed sc
  | TExpiry => s_expired sc
  | TTimestamp => negb (s_ts_ok sc)
  | TRev => revocation_failed sc
  end.

Lemma enforced_true a f : enforced a f = true <-> a = Enforce /\ f = true.
Proof. destruct a, f; cbn; split; try tauto; try congruence; intros [? ?]; congruence. Qed.

Lemma enforced_failure_iff lvl sc :
  enforced_failure lvl sc = true <->
  exists t, t <> TIntegrity /\ act_of lvl t = Enforce /\ failed_fact sc t = true.
Proof.
  unfold enforced_failure. rewrite !orb_true_iff, !enforced_true. split.
  - intros [[[[A F]|[A F]]|[A F]]|[A F]];
      [exists TAuth | exists TExpiry | exists TTimestamp | exists TRev]; cbn; (split; [discriminate | tauto]).
  - intros (t & NT & A & F). destruct t; cbn in *; try congruence; tauto.
Qed.

(* the observational form: rejected iff a reported result is enforced and
   failed, or there is a plugin / attribute problem *)
Lemma in_existsb_res (p : result -> bool) rs : existsb p rs = true <-> exists r, In r rs /\ p r = true.
Proof. apply existsb_exists. Qed.

Lemma exact_reported lvl sc : wf_sc sc = true ->
  (accepted (verify_core lvl sc) = false <->
   (exists r, In r (o_results (verify_core lvl sc)) /\ r_action r = Enforce /\ r_failed r = true)
   \/ plugin_or_attribute_problem lvl sc = true).
Proof.
  intros W. pose proof (shape_parts _ _ _ (core_shape lvl sc W)) as (_ & _ & _ & S4 & S5 & S6 & _).
  split.
  - intros R. unfold accepted in R. destruct (o_err (verify_core lvl sc)) as [|t| |] eqn:E; cbn in R; try discriminate.
    + left. apply in_existsb_res in S4. destruct S4 as (r & HIn & P).
      rewrite !andb_true_iff in P. destruct P as [[_ A] F]. apply action_eqb_eq in A. eauto.
    + right. exact S6.
    + right. exact S6.
  - intros [(r & HIn & A & F) | P].
    + apply orb_true_iff in S5. destruct S5 as [S5|S5]; [|now apply negb_true_iff in S5].
      apply negb_true_iff in S5. exfalso.
      assert (X : existsb (fun r => action_eqb (r_action r) Enforce && r_failed r) (o_results (verify_core lvl sc)) = true).
      { apply in_existsb_res. exists r. split; [exact HIn|]. rewrite A, F. reflexivity. }
      congruence.
    + apply exact_iff; [exact W|]. apply should_fail_impl_iff. auto.
Qed.

(* ---------- the known finding: the full statement is refuted, the rest holds ---------- *)
Definition f12b_level : level := mk_level Enforce Enforce Enforce Skip.
Definition f12b_scenario : scenario :=
  mk_sc true (AStr "plug") AAbsent false [("foo", true)] false 0 true false true true
        (PMPlugin true true [CapRev]) (PResp [] None None).

Lemma full_refuted :
  exists lvl sc,
    level_for "strict" [("revocation", "skip")] = Some lvl
    /\ wf_sc sc = true /\ s_integrity_ok sc = true
    /\ other_crit sc = ["foo"]                          (* a critical extended attribute *)
    /\ o_exec (verify_core lvl sc) = None               (* no plugin was executed: nothing processed it *)
    /\ accepted (verify_core lvl sc) = true             (* and yet the signature is accepted *)
    /\ should_fail_full lvl sc = true.
Proof. exists f12b_level, f12b_scenario. repeat split; vm_compute; reflexivity. Qed.

Lemma full_vs_impl lvl sc : f12b lvl sc = false ->
  should_fail_full lvl sc = should_fail_impl lvl sc.
Proof.
  unfold should_fail_full, should_fail_impl, plugin_or_attribute_problem, f12b.
  generalize (s_integrity_ok sc) (s_nonstring_crit sc) (plugin_unusable sc) (enforced_failure lvl sc)
    (plugin_exec_problem lvl sc) (nothing_processes lvl sc) (plugin_demanded sc).
  intros i ns pu ef pe np dem H1.
  destruct i, ns, pu, ef, pe, np, dem; cbn in *; congruence.
Qed.

Lemma exact_partial lvl sc : wf_sc sc = true -> f12b lvl sc = false ->
  (accepted (verify_core lvl sc) = false <-> should_fail_full lvl sc = true).
Proof. intros W F. rewrite (full_vs_impl lvl sc F). now apply exact_iff. Qed.

(* outside the footprint an accepted signature has every critical extended
   attribute processed by the executed plugin *)
Lemma critical_processed_partial lvl sc : wf_sc sc = true ->
  f12b lvl sc = false -> accepted (verify_core lvl sc) = true ->
  s_nonstring_crit sc = false
  /\ (other_crit sc <> [] ->
      exists processed ti rev cs attrs,
        s_presp sc = PResp processed ti rev
        /\ o_exec (verify_core lvl sc) = Some (cs, attrs)
        /\ forall k, In k (other_crit sc) -> In k processed).
Proof.
  intros W F A.
  pose proof (core_exact lvl sc W) as E. rewrite A in E. symmetry in E. apply negb_true_iff in E.
  unfold should_fail_impl, plugin_or_attribute_problem in E. rewrite !orb_false_iff in E.
  destruct E as [[_ [[[NS PU] PE] NP]] _]. split; [exact NS|]. intros OC.
  assert (AN : nonempty (asked lvl sc) = true).
  { unfold f12b in F. destruct (plugin_demanded sc); cbn in F, NP.
    - unfold nothing_processes, has_critical in F. destruct (other_crit sc); [congruence|]. cbn in F.
      now apply negb_false_iff in F.
    - unfold nothing_processes, has_critical in NP. destruct (other_crit sc); [congruence|]. cbn in NP.
      now apply negb_false_iff in NP. }
  pose proof (shape_parts _ _ _ (core_shape lvl sc W)) as (_ & _ & _ & _ & _ & _ & _ & _ & _ & S11).
  rewrite A, AN in S11. cbn in S11.
  destruct (o_exec (verify_core lvl sc)) as [[cs attrs]|] eqn:OE; [|discriminate].
  unfold plugin_exec_problem in PE. destruct (asked lvl sc) as [|c tv]; [discriminate|].
  destruct (s_presp sc) as [|processed ti rev]; [discriminate|].
  rewrite !orb_false_iff in PE. destruct PE as [[CP _] _]. apply negb_false_iff in CP.
  exists processed, ti, rev, cs, attrs. repeat split.
  intros k HIn. unfold crit_processed in CP. rewrite forallb_forall in CP. apply mem_str_In. now apply CP.
Qed.

(* before fix 6f898df an executed plugin also had to acknowledge NON-critical
   attributes: a rejection the property lists no reason for. The code as it is
   now accepts the same input. *)
Definition noncrit_level : level := mk_level Enforce Enforce Enforce Enforce.
Definition noncrit_scenario : scenario :=
  mk_sc true (AStr "plug") AAbsent false [("note", false)] false 0 true false true true
        (PMPlugin true true [CapTI]) (PResp [] (Some true) None).

Lemma noncritical_strictness_v0_refuted :
  exists lvl sc, wf_sc sc = true /\ f12b lvl sc = false /\ should_fail_full lvl sc = false /\ other_crit sc = []
                 /\ accepted (verify_core_v0 lvl sc) = false
                 /\ accepted (verify_core lvl sc) = true.
Proof. exists noncrit_level, noncrit_scenario. repeat split; vm_compute; reflexivity. Qed.

(* ---------- C02_log_reports ---------- *)
Lemma accepted_results lvl sc : wf_sc sc = true -> accepted (verify_core lvl sc) = true ->
  o_results (verify_core lvl sc) = expected_results lvl sc.
Proof.
  intros W A. pose proof (shape_parts _ _ _ (core_shape lvl sc W)) as (_ & _ & S3 & _).
  rewrite A in S3. cbn in S3. now apply (list_eqb_spec _ result_eqb_eq).
Qed.

Lemma log_reported lvl sc t : wf_sc sc = true -> accepted (verify_core lvl sc) = true ->
  t <> TIntegrity -> act_of lvl t = Log -> failed_fact sc t = true ->
  In (mk_res t Log true) (o_results (verify_core lvl sc)).
Proof.
  intros W A NT AL FF. rewrite (accepted_results lvl sc W A). unfold expected_results.
  destruct t; cbn in AL, FF; try congruence; rewrite ?AL, ?FF; cbn; auto 6.
Qed.

(* acceptance does not depend on the outcome of a validation that is not enforced *)
Lemma pap_set_auth lvl sc n : plugin_or_attribute_problem lvl (set_auth n sc) = plugin_or_attribute_problem lvl sc.
Proof. destruct sc; reflexivity. Qed.
Lemma pap_set_identity lvl sc b : plugin_or_attribute_problem lvl (set_identity b sc) = plugin_or_attribute_problem lvl sc.
Proof. destruct sc; reflexivity. Qed.
Lemma pap_set_expired lvl sc b : plugin_or_attribute_problem lvl (set_expired b sc) = plugin_or_attribute_problem lvl sc.
Proof. destruct sc; reflexivity. Qed.
Lemma pap_set_ts_ok lvl sc b : plugin_or_attribute_problem lvl (set_ts_ok b sc) = plugin_or_attribute_problem lvl sc.
Proof. destruct sc; reflexivity. Qed.
Lemma pap_set_rev_ok lvl sc b : plugin_or_attribute_problem lvl (set_rev_ok b sc) = plugin_or_attribute_problem lvl sc.
Proof. destruct sc; reflexivity. Qed.

Lemma not_enforce_enforced a f : a <> Enforce -> enforced a f = false.
Proof. destruct a; cbn; congruence. Qed.

Lemma sfi_not_enforced_auth lvl sc n b : l_auth lvl <> Enforce ->
  should_fail_impl lvl (set_identity b (set_auth n sc)) = should_fail_impl lvl sc.
Proof.
  intros NE. unfold should_fail_impl, enforced_failure.
  rewrite pap_set_identity, pap_set_auth, !(not_enforce_enforced _ _ NE). destruct sc; reflexivity.
Qed.

Lemma sfi_not_enforced_expiry lvl sc b : l_exp lvl <> Enforce ->
  should_fail_impl lvl (set_expired b sc) = should_fail_impl lvl sc.
Proof.
  intros NE. unfold should_fail_impl, enforced_failure.
  rewrite pap_set_expired, !(not_enforce_enforced _ _ NE). destruct sc; reflexivity.
Qed.

Lemma sfi_not_enforced_ts lvl sc b : l_ts lvl <> Enforce ->
  should_fail_impl lvl (set_ts_ok b sc) = should_fail_impl lvl sc.
Proof.
  intros NE. unfold should_fail_impl, enforced_failure.
  rewrite pap_set_ts_ok, !(not_enforce_enforced _ _ NE). destruct sc; reflexivity.
Qed.

Lemma sfi_not_enforced_rev lvl sc b : l_rev lvl <> Enforce ->
  should_fail_impl lvl (set_rev_ok b sc) = should_fail_impl lvl sc.
Proof.
  intros NE. unfold should_fail_impl, enforced_failure.
  rewrite pap_set_rev_ok, !(not_enforce_enforced _ _ NE). destruct sc; reflexivity.
Qed.

Lemma wf_set_auth n sc : wf_sc (set_auth n sc) = wf_sc sc. Proof. destruct sc; reflexivity. Qed.
Lemma wf_set_identity b sc : wf_sc (set_identity b sc) = wf_sc sc. Proof. destruct sc; reflexivity. Qed.
Lemma wf_set_expired b sc : wf_sc (set_expired b sc) = wf_sc sc. Proof. destruct sc; reflexivity. Qed.
Lemma wf_set_ts_ok b sc : wf_sc (set_ts_ok b sc) = wf_sc sc. Proof. destruct sc; reflexivity. Qed.
Lemma wf_set_rev_ok b sc : wf_sc (set_rev_ok b sc) = wf_sc sc. Proof. destruct sc; reflexivity. Qed.

Lemma log_does_not_fail lvl sc : wf_sc sc = true ->
  (l_auth lvl <> Enforce -> forall n b,
     accepted (verify_core lvl (set_identity b (set_auth n sc))) = accepted (verify_core lvl sc))
  /\ (l_exp lvl <> Enforce -> forall b,
     accepted (verify_core lvl (set_expired b sc)) = accepted (verify_core lvl sc))
  /\ (l_ts lvl <> Enforce -> forall b,
     accepted (verify_core lvl (set_ts_ok b sc)) = accepted (verify_core lvl sc))
  /\ (l_rev lvl <> Enforce -> forall b,
     accepted (verify_core lvl (set_rev_ok b sc)) = accepted (verify_core lvl sc)).
Proof.
  intros W. repeat split; intros NE; intros.
  - rewrite !core_exact; [|exact W | now rewrite wf_set_identity, wf_set_auth]. now rewrite sfi_not_enforced_auth.
  - rewrite !core_exact; [|exact W | now rewrite wf_set_expired]. now rewrite sfi_not_enforced_expiry.
  - rewrite !core_exact; [|exact W | now rewrite wf_set_ts_ok]. now rewrite sfi_not_enforced_ts.
  - rewrite !core_exact; [|exact W | now rewrite wf_set_rev_ok]. now rewrite sfi_not_enforced_rev.
Qed.

(* ---------- C02_actions ---------- *)
Lemma is_prefix_firstn a b : is_prefix a b = true -> a = firstn (List.length a) b.
Proof.
  revert b. induction a as [|x a IH]; intros [|y b]; cbn; try congruence.
  rewrite andb_true_iff, vtype_eqb_eq. intros [-> H]. f_equal. now apply IH.
Qed.

Lemma actions_ok lvl sc : wf_sc sc = true ->
  Forall (fun r => r_action r = act_of lvl (r_type r)) (o_results (verify_core lvl sc))
  /\ exists k, map r_type (o_results (verify_core lvl sc)) = firstn k type_order.
Proof.
  intros W. pose proof (shape_parts _ _ _ (core_shape lvl sc W)) as (S1 & S2 & _). split.
  - apply Forall_forall. intros r HIn. rewrite forallb_forall in S1. now apply action_eqb_eq, S1.
  - eexists. now apply is_prefix_firstn.
Qed.

(* ---------- C02_skip_not_performed ---------- *)
Lemma has_cap_In c l : has_cap c l = true <-> In c l.
Proof.
  unfold has_cap. rewrite existsb_exists. split.
  - intros (x & HIn & E). destruct c, x; cbn in E; congruence.
  - intros HIn. exists c. split; [exact HIn | destruct c; reflexivity].
Qed.

Lemma skip_not_performed lvl sc : wf_sc sc = true -> l_rev lvl = Skip ->
  o_rev_called (verify_core lvl sc) = false
  /\ (forall cs attrs, o_exec (verify_core lvl sc) = Some (cs, attrs) -> ~ In CapRev cs)
  /\ (forall r, In r (o_results (verify_core lvl sc)) -> r_type r <> TRev).
Proof.
  intros W SK. pose proof (shape_parts _ _ _ (core_shape lvl sc W)) as (_ & _ & _ & _ & _ & _ & S7 & _).
  rewrite SK in S7. cbn in S7. rewrite !andb_true_iff, !negb_true_iff in S7. destruct S7 as [[RC EX] RS].
  split; [exact RC|]. split.
  - intros cs attrs E. rewrite E in EX. apply negb_true_iff in EX. intros HIn. apply has_cap_In in HIn. congruence.
  - intros r HIn Ht. assert (X : existsb (fun r => vtype_eqb (r_type r) TRev) (o_results (verify_core lvl sc)) = true).
    { apply existsb_exists. exists r. split; [exact HIn | now apply vtype_eqb_eq]. }
    congruence.
Qed.

(* ---------- C02_capability_replaces ---------- *)
Lemma discover_usable sc n vc : discover sc = DPlugin n vc -> usable_caps sc = Some vc.
Proof. intros D. pose proof (discover_spec sc) as DS. rewrite D in DS. tauto. Qed.

Lemma discover_none sc : discover sc = DNoPlugin -> usable_caps sc = None.
Proof. intros D. pose proof (discover_spec sc) as DS. rewrite D in DS. tauto. Qed.

Lemma native_identity_irrelevant lvl sc caps b : has_cap CapTI caps = true ->
  native lvl (set_identity b sc) caps = native lvl sc caps.
Proof. intros H. unfold native. rewrite H. destruct sc; reflexivity. Qed.

Lemma native_rev_irrelevant lvl sc caps b : has_cap CapRev caps = true ->
  native lvl (set_rev_ok b sc) caps = native lvl sc caps.
Proof.
  intros H. unfold native. rewrite H, andb_false_r. destruct sc; reflexivity.
Qed.

Lemma replaces_identity lvl sc caps b : usable_caps sc = Some caps -> has_cap CapTI caps = true ->
  verify_core lvl (set_identity b sc) = verify_core lvl sc.
Proof.
  intros U H. unfold verify_core, process_signature, process_signature_gen.
  change (s_integrity_ok (set_identity b sc)) with (s_integrity_ok sc).
  replace (discover (set_identity b sc)) with (discover sc) by (destruct sc; reflexivity).
  destruct (s_integrity_ok sc); [|reflexivity]. cbn [negb].
  destruct (discover sc) as [e gets| |n vc] eqn:D; [reflexivity | |].
  - apply discover_none in D. congruence.
  - apply discover_usable in D. assert (vc = caps) by congruence. subst vc.
    rewrite (native_identity_irrelevant lvl sc caps b H).
    destruct sc; reflexivity.
Qed.

Lemma replaces_revocation lvl sc caps b : usable_caps sc = Some caps -> has_cap CapRev caps = true ->
  verify_core lvl (set_rev_ok b sc) = verify_core lvl sc.
Proof.
  intros U H. unfold verify_core, process_signature, process_signature_gen.
  change (s_integrity_ok (set_rev_ok b sc)) with (s_integrity_ok sc).
  replace (discover (set_rev_ok b sc)) with (discover sc) by (destruct sc; reflexivity).
  destruct (s_integrity_ok sc); [|reflexivity]. cbn [negb].
  destruct (discover sc) as [e gets| |n vc] eqn:D; [reflexivity | |].
  - apply discover_none in D. congruence.
  - apply discover_usable in D. assert (vc = caps) by congruence. subst vc.
    rewrite (native_rev_irrelevant lvl sc caps b H).
    destruct sc; reflexivity.
Qed.

Lemma replaces_rev_call lvl sc caps : wf_sc sc = true -> usable_caps sc = Some caps -> has_cap CapRev caps = true ->
  o_rev_called (verify_core lvl sc) = false.
Proof.
  intros W U H. pose proof (shape_parts _ _ _ (core_shape lvl sc W)) as (_ & _ & _ & _ & _ & _ & _ & S8 & _).
  unfold caps_of in S8. rewrite U, H in S8. cbn in S8. rewrite orb_false_r in S8. now apply negb_true_iff in S8.
Qed.

(* with the capability declared, the verdict used is the plugin's *)
Lemma replaces_verdict sc caps : usable_caps sc = Some caps ->
  (has_cap CapTI caps = true ->
     identity_failed sc = match s_presp sc with PResp _ (Some false) _ => true | _ => false end)
  /\ (has_cap CapRev caps = true ->
     revocation_failed sc = match s_presp sc with PResp _ _ (Some false) => true | _ => false end).
Proof. intros U. unfold identity_failed, revocation_failed, caps_of. rewrite U. split; intros ->; reflexivity. Qed.

(* ---------- what the plugin is handed ---------- *)
Lemma plugin_request lvl sc cs attrs : wf_sc sc = true ->
  o_exec (verify_core lvl sc) = Some (cs, attrs) ->
  cs = asked lvl sc /\ cs <> [] /\ attrs = other_keys sc.
Proof.
  intros W E.
  pose proof (shape_parts _ _ _ (core_shape lvl sc W)) as (_ & _ & _ & _ & _ & _ & _ & _ & S10 & _).
  rewrite E in S10. apply andb_true_iff in S10. destruct S10 as [NE EQ].
  assert (CE : forall a b, cap_eqb a b = true <-> a = b) by (intros [] []; cbn; split; congruence).
  apply (list_eqb_spec _ CE) in EQ. split; [exact EQ|]. split; [destruct cs; [discriminate|congruence]|].
  revert E. unfold verify_core, process_signature, process_signature_gen.
  destruct (negb (s_integrity_ok sc)); [discriminate|].
  destruct (discover sc) as [e gets| |n vc]; [discriminate| |].
  all: destruct (native lvl sc _) as [[e rs] c]; destruct e; try discriminate.
  all: destruct (caps_to_verify lvl _) as [|c0 tv].
  all: try (destruct (_ && _); discriminate).
  all: destruct (s_presp sc) as [|p ti rv]; [cbn; congruence|].
  all: destruct (process_plugin_response crit_processed lvl sc (c0 :: tv) p ti rv rs); cbn; congruence.
Qed.

(* ---------- C02_monotone ---------- *)
Lemma caps_of_shapes sc : wf_sc sc = true -> In (caps_of sc) shapes.
Proof.
  intros W. pose proof (wf_shapes sc W) as SH. unfold caps_of, usable_caps.
  assert (N : In (@nil cap) shapes) by (cbn; auto).
  destruct (s_plugin_attr sc) as [| | |name]; try exact N.
  destruct (blank name); [exact N|].
  destruct (attr_malformed (s_minver_attr sc)); [exact N|].
  destruct (match s_minver_attr sc with AStr _ => negb (s_minver_valid sc) | _ => false end); [exact N|].
  destruct (s_pm sc) as [| | |[] [] caps]; try exact N.
  destruct (verification_caps caps) eqn:E; [exact N|]. exact SH.
Qed.

Lemma enforced_mono a1 a2 f : action_le a1 a2 = true -> enforced a2 f = true -> enforced a1 f = true.
Proof. destruct a1, a2, f; cbn; congruence. Qed.

Lemma implb_elim (x y : bool) : (negb x || y) = true -> x = true -> y = true.
Proof. destruct x, y; cbn; congruence. Qed.

Lemma not_demanded_caps sc : plugin_demanded sc = false -> caps_of sc = [].
Proof. unfold plugin_demanded, caps_of, usable_caps. destruct (s_plugin_attr sc); cbn; congruence. Qed.

(* the plugin / attribute problems depend on the level only through the
   action of revocation, and relaxing it can only remove problems *)
Lemma pap_mono l1 l2 sc : wf_sc sc = true -> action_le (l_rev l1) (l_rev l2) = true ->
  plugin_or_attribute_problem l2 sc = true -> plugin_or_attribute_problem l1 sc = true.
Proof.
  intros W. pose proof (caps_of_shapes sc W) as SH. pose proof (not_demanded_caps sc) as ND.
  destruct l1 as [a1 t1 e1 r1], l2 as [a2 t2 e2 r2]. cbn [l_rev].
  unfold plugin_or_attribute_problem, plugin_exec_problem, nothing_processes, asked, caps_to_verify.
  cbn [l_rev].
  destruct (plugin_demanded sc); [clear ND | rewrite (ND eq_refl) in *; clear ND].
  all: generalize (s_nonstring_crit sc) (plugin_unusable sc) (has_critical sc).
  all: intros ns pu hc.
  all: intros LE; apply implb_elim; revert LE; apply implb_elim.
  2:{ clear. enum_all. }
  unfold shapes in SH. cbn [In] in SH.
  destruct SH as [<-|[<-|[<-|[<-|[<-|[]]]]]];
    (destruct (s_presp sc) as [|p ti rv];
     [| generalize (crit_processed sc p); intros cp]);
    clear; enum_all.
Qed.

Lemma sfi_mono l1 l2 sc : wf_sc sc = true -> level_le l1 l2 = true ->
  should_fail_impl l2 sc = true -> should_fail_impl l1 sc = true.
Proof.
  intros W LE. unfold level_le in LE. rewrite !andb_true_iff in LE. destruct LE as [[[LA LT] LX] LR].
  unfold should_fail_impl, enforced_failure. rewrite !orb_true_iff.
  intros [[I | P] | [[[A | X] | T] | R]].
  - auto.
  - left. right. eapply pap_mono; eassumption.
  - right. left. left. left. eapply enforced_mono; eassumption.
  - right. left. left. right. eapply enforced_mono; eassumption.
  - right. left. right. eapply enforced_mono; eassumption.
  - right. right. eapply enforced_mono; eassumption.
Qed.

Lemma monotone l1 l2 sc : wf_sc sc = true -> level_le l1 l2 = true ->
  accepted (verify_core l1 sc) = true -> accepted (verify_core l2 sc) = true.
Proof.
  intros W LE. rewrite !core_exact by exact W. rewrite !negb_true_iff.
  intros H. destruct (should_fail_impl l2 sc) eqn:E; [|reflexivity].
  rewrite (sfi_mono l1 l2 sc W LE E) in H. discriminate.
Qed.

(* strict -> permissive -> audit under the same override *)
Lemma monotone_named ov sc ls lp la : wf_sc sc = true ->
  level_for "strict" ov = Some ls -> level_for "permissive" ov = Some lp -> level_for "audit" ov = Some la ->
  (accepted (verify_core ls sc) = true -> accepted (verify_core lp sc) = true)
  /\ (accepted (verify_core lp sc) = true -> accepted (verify_core la sc) = true).
Proof.
  intros W S P A. split; apply monotone; try exact W.
  - eapply named_order; [left; split; reflexivity | exact S | exact P].
  - eapply named_order; [right; left; split; reflexivity | exact P | exact A].
Qed.

(* ---------- the oracle ---------- *)
Lemma spec_ok_obs_partial lvl sc : wf_sc sc = true ->
  f12b lvl sc && negb (should_fail_impl lvl sc) = false ->
  spec_ok_obs lvl sc (verify_core lvl sc) = true.
Proof.
  intros W F. unfold spec_ok_obs. rewrite (core_shape lvl sc W), andb_true_r.
  rewrite (core_exact lvl sc W), negb_involutive. revert F.
  unfold should_fail_full, should_fail_impl, plugin_or_attribute_problem, f12b.
  generalize (s_integrity_ok sc) (s_nonstring_crit sc) (plugin_unusable sc) (enforced_failure lvl sc)
    (plugin_exec_problem lvl sc) (nothing_processes lvl sc) (plugin_demanded sc).
  intros i ns pu ef pe np dem. destruct i, ns, pu, ef, pe, np, dem; cbn; congruence.
Qed.

Lemma model_spec_ok_partial i : wf i = true -> fp i = 0%N -> spec_ok i (model i) = true.
Proof.
  unfold wf, fp, spec_ok, model. intros W F.
  destruct (get_level (i_level i) (i_override i)) as [e|[nm enf]]; [reflexivity|].
  destruct (String.eqb (i_level i) "skip") eqn:SK; [reflexivity|].
  apply spec_ok_obs_partial; [exact W|].
  destruct (f12b (level_of enf) (i_sc i) && negb (should_fail_impl (level_of enf) (i_sc i))); [discriminate|reflexivity].
Qed.

Lemma model_spec_ok_refuted : exists i, wf i = true /\ fp i = 1%N /\ spec_ok i (model i) = false.
Proof.
  exists (mk_input "strict" [("revocation", "skip")] f12b_scenario). repeat split; vm_compute; reflexivity.
Qed.

(* ---------- the statements of props/C02_Property.v that combine several lemmas ---------- *)
Lemma levels_thm : forall l : level,
  (In l reachable_levels <-> In l all_24)
  /\ (In l all_24 <-> (l_auth l <> Skip /\ l_ts l <> Skip /\ l_exp l <> Skip))
  /\ NoDup all_24 /\ List.length all_24 = 24%nat.
Proof.
  exact (fun l => conj (reachable_iff l) (conj (all_24_spec l) (conj all_24_nodup all_24_length))).
Qed.

Lemma levels_legal_thm : forall name ov nm enf,
  get_level name ov = inr (nm, enf) ->
  (name = "skip" /\ ov = [])
  \/ (In name base_names /\ Forall legal_entry ov
      /\ lookup_default "integrity" enf = "enforce" /\ In (level_of enf) all_24).
Proof.
  intros name ov nm enf H. destruct (string_dec name "skip") as [->|NS].
  - left. split; [reflexivity | exact (get_level_skip ov nm enf H)].
  - right. exact (get_level_sound name ov nm enf NS H).
Qed.

Lemma exact_thm : forall lvl sc, wf_sc sc = true ->
  (accepted (verify_core lvl sc) = false <->
   s_integrity_ok sc = false \/ enforced_failure lvl sc = true \/ plugin_or_attribute_problem lvl sc = true).
Proof.
  intros lvl sc W. rewrite (exact_iff lvl sc W). exact (should_fail_impl_iff lvl sc).
Qed.

Lemma log_reports_thm : forall lvl sc, wf_sc sc = true -> accepted (verify_core lvl sc) = true ->
  o_results (verify_core lvl sc) = expected_results lvl sc
  /\ forall t, t <> TIntegrity -> act_of lvl t = Log -> failed_fact sc t = true ->
               In (mk_res t Log true) (o_results (verify_core lvl sc)).
Proof.
  intros lvl sc W A. split; [exact (accepted_results lvl sc W A)|].
  intros t. exact (log_reported lvl sc t W A).
Qed.

Lemma capability_replaces_thm : forall lvl sc caps, usable_caps sc = Some caps ->
  (has_cap CapTI caps = true ->
     (forall b, verify_core lvl (set_identity b sc) = verify_core lvl sc)
     /\ identity_failed sc = match s_presp sc with PResp _ (Some false) _ => true | _ => false end)
  /\ (has_cap CapRev caps = true ->
     (forall b, verify_core lvl (set_rev_ok b sc) = verify_core lvl sc)
     /\ (wf_sc sc = true -> o_rev_called (verify_core lvl sc) = false)
     /\ revocation_failed sc = match s_presp sc with PResp _ _ (Some false) => true | _ => false end).
Proof.
  intros lvl sc caps U. split; intros H.
  - split; [intros b; exact (replaces_identity lvl sc caps b U H) | exact (proj1 (replaces_verdict sc caps U) H)].
  - split; [intros b; exact (replaces_revocation lvl sc caps b U H)|].
    split; [intros W; exact (replaces_rev_call lvl sc caps W U H) | exact (proj2 (replaces_verdict sc caps U) H)].
Qed.
