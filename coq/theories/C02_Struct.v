(* C02_Struct.v — property C02, audit round: facts about VerifyCore.process_signature
   proved STRUCTURALLY (induction over the capability list, case analysis of the
   native stage), hence for EVERY scenario: the input contract [wf_sc] (each
   verification capability listed at most once) of C02_Core.core_ok is not needed.

   Contents
     A. capability lists: membership after the skip filter, emptiness
     B. process_caps (processPluginResponse's loop): when it accepts, what it reports
     C. the native stage: when it passes, whether the validator is consulted, what it reports
     D. decomposition of a run (integrity / discovery / native stage / plugin stage)
     E. the theorems: exact acceptance rule and monotonicity without contract, which
        validations are performed (functional, not only safety), every reported result is
        truthful — in rejected runs too —, logged failures are reported whenever performed,
        the reasons of the property text spelled out. *)
From NV Require Import Base Regex Generated C02_Levels VerifyCore C02_Model C02_Core C02_Proofs.
Open Scope string_scope.
Open Scope list_scope.

(* ================================================================== *)
(* A. capability lists                                                 *)
(* ================================================================== *)

Definition skipb (lvl : level) : bool := action_eqb (l_rev lvl) Skip.

Lemma ctv_TI lvl caps : has_cap CapTI (caps_to_verify lvl caps) = has_cap CapTI caps.
Proof.
  unfold has_cap, caps_to_verify. destruct (action_eqb (l_rev lvl) Skip); cbn;
    induction caps as [|[] caps IH]; cbn; rewrite ?IH; reflexivity.
Qed.

Lemma ctv_Rev lvl caps : has_cap CapRev (caps_to_verify lvl caps) = has_cap CapRev caps && negb (skipb lvl).
Proof.
  unfold has_cap, caps_to_verify, skipb. destruct (action_eqb (l_rev lvl) Skip); cbn;
    induction caps as [|[] caps IH]; cbn; rewrite ?IH; cbn; rewrite ?andb_true_r, ?andb_false_r; reflexivity.
Qed.

Definition no_other (l : list cap) : Prop := Forall (fun c => c <> CapOther) l.

Lemma no_other_nonempty l : no_other l -> nonempty l = has_cap CapTI l || has_cap CapRev l.
Proof.
  intros F. destruct l as [|c l]; [reflexivity|]. inversion F as [|? ? Hc _]; subst.
  destruct c; try congruence; unfold has_cap; cbn; now rewrite ?orb_true_r.
Qed.

Lemma ctv_no_other lvl l : no_other l -> no_other (caps_to_verify lvl l).
Proof.
  unfold no_other, caps_to_verify. intros F. rewrite Forall_forall in *. intros c H.
  apply filter_In in H. now apply F.
Qed.

Lemma caps_of_no_other sc : no_other (caps_of sc).
Proof.
  unfold caps_of, usable_caps, no_other.
  assert (N : Forall (fun c => c <> CapOther) (@nil cap)) by constructor.
  destruct (s_plugin_attr sc) as [| | |name]; try exact N.
  destruct (blank name); [exact N|].
  destruct (attr_malformed (s_minver_attr sc)); [exact N|].
  destruct (match s_minver_attr sc with AStr _ => negb (s_minver_valid sc) | _ => false end); [exact N|].
  destruct (s_pm sc) as [| | |[] [] caps]; try exact N.
  destruct (verification_caps caps) eqn:E; [exact N|]. rewrite <- E. apply vcaps_no_other.
Qed.

(* ================================================================== *)
(* B. process_caps                                                     *)
(* ================================================================== *)

Lemma auth_action_set rs : auth_action (set_auth_failed rs) = auth_action rs.
Proof.
  induction rs as [|r rs IH]; [reflexivity|]. cbn [set_auth_failed auth_action].
  destruct (vtype_eqb (r_type r) TAuth) eqn:E; cbn [auth_action r_type r_action vtype_eqb]; [reflexivity|].
  rewrite E. exact IH.
Qed.

Lemma auth_action_app_rev rs a f : auth_action (rs ++ [mk_res TRev a f]) = auth_action rs.
Proof.
  induction rs as [|r rs IH]; [reflexivity|]. cbn [app auth_action].
  destruct (vtype_eqb (r_type r) TAuth); [reflexivity | exact IH].
Qed.

(* the verdicts asked for are all there and none of them is an enforced failure *)
Definition caps_fine (hT hR : bool) (ti rev : option bool) (aa lr : action) : bool :=
  (negb hT || match ti with Some true => true | Some false => negb (is_critical_failure aa true) | None => false end)
  && (negb hR || match rev with Some ok => negb (is_critical_failure lr (negb ok)) | None => false end).

Ltac fin_caps caps :=
  unfold caps_fine; cbn [negb orb andb is_critical_failure];
  generalize (existsb (cap_eqb CapTI) caps) (existsb (cap_eqb CapRev) caps);
  let hT := fresh "hT" in let hR := fresh "hR" in
  intros hT hR; destruct hT, hR; cbn [negb orb andb]; rewrite ?andb_false_r, ?andb_true_r; reflexivity.

Lemma process_caps_accept lvl ti rev caps : forall rs,
  err_eqb (fst (process_caps lvl ti rev caps rs)) ENone
  = caps_fine (has_cap CapTI caps) (has_cap CapRev caps) ti rev (auth_action rs) (l_rev lvl).
Proof.
  unfold has_cap. induction caps as [|c caps IH]; intros rs; [reflexivity|].
  destruct c; cbn [process_caps existsb cap_eqb orb].
  - destruct ti as [[|]|].
    + rewrite IH. fin_caps caps.
    + destruct (auth_action rs) eqn:AA; cbn [is_critical_failure fst err_eqb].
      * fin_caps caps.
      * rewrite IH, auth_action_set, AA. fin_caps caps.
      * rewrite IH, auth_action_set, AA. fin_caps caps.
    + fin_caps caps.
  - destruct rev as [ok|].
    + destruct (is_critical_failure (l_rev lvl) (negb ok)) eqn:CF; cbn [fst err_eqb].
      * unfold caps_fine. rewrite CF. cbn. now rewrite andb_false_r.
      * rewrite IH, auth_action_app_rev. unfold caps_fine. rewrite CF. cbn.
        now rewrite andb_true_r, orb_true_r, andb_true_r.
    + unfold caps_fine. cbn. now rewrite andb_false_r.
  - apply IH.
Qed.

(* ================================================================== *)
(* C. the native stage                                                 *)
(* ================================================================== *)

Definition na0 (sc : scenario) : bool := negb (s_auth sc =? 0)%N.

(* the authenticity validation as notation itself performs it: trust store
   authenticity and, unless a plugin capability replaces it, trusted identity *)
Definition native_auth_failed_with (sc : scenario) (hT : bool) : bool :=
  na0 sc || (negb hT && negb (s_identity_ok sc)).

(* no enforced failure among authenticity, expiry, authentic timestamp *)
Definition pre_ok (lvl : level) (sc : scenario) (hT : bool) : bool :=
  negb (enforced (l_auth lvl) (native_auth_failed_with sc hT))
  && negb (enforced (l_exp lvl) (s_expired sc))
  && negb (enforced (l_ts lvl) (negb (s_ts_ok sc))).

(* revocation is notation's own business: not skipped, not taken over by the plugin *)
Definition native_rev (lvl : level) (hR : bool) : bool := negb (skipb lvl) && negb hR.

Definition native_ok (lvl : level) (sc : scenario) (hT hR : bool) : bool :=
  pre_ok lvl sc hT && negb (native_rev lvl hR && enforced (l_rev lvl) (negb (s_rev_ok sc))).

Definition reach_exp (lvl : level) (sc : scenario) (hT : bool) : bool :=
  negb (enforced (l_auth lvl) (native_auth_failed_with sc hT)).
Definition reach_ts (lvl : level) (sc : scenario) (hT : bool) : bool :=
  reach_exp lvl sc hT && negb (enforced (l_exp lvl) (s_expired sc)).

Definition native_types (lvl : level) (sc : scenario) (hT hR : bool) : list vtype :=
  [TIntegrity; TAuth]
  ++ (if reach_exp lvl sc hT then [TExpiry] else [])
  ++ (if reach_ts lvl sc hT then [TTimestamp] else [])
  ++ (if pre_ok lvl sc hT && native_rev lvl hR then [TRev] else []).

(* a result of the native stage: action of the level, outcome = the native fact *)
Definition nat_res_ok (lvl : level) (sc : scenario) (hT hR : bool) (r : result) : bool :=
  action_eqb (r_action r) (act_of lvl (r_type r))
  && match r_type r with
     | TIntegrity => negb (r_failed r)
     | TAuth => Bool.eqb (r_failed r) (native_auth_failed_with sc hT)
     | TExpiry => Bool.eqb (r_failed r) (s_expired sc)
     | TTimestamp => Bool.eqb (r_failed r) (negb (s_ts_ok sc))
     | TRev => Bool.eqb (r_failed r) (negb (s_rev_ok sc)) && native_rev lvl hR
     end.

Definition native_check (lvl : level) (sc : scenario) (caps : list cap) : bool :=
  let hT := has_cap CapTI caps in
  let hR := has_cap CapRev caps in
  let '(e, rs, called) := native lvl sc caps in
  Bool.eqb (err_eqb e ENone) (native_ok lvl sc hT hR)
  && Bool.eqb called (pre_ok lvl sc hT && native_rev lvl hR)
  && action_eqb (auth_action rs) (l_auth lvl)
  && forallb (nat_res_ok lvl sc hT hR) rs
  && list_eqb vtype_eqb (map r_type rs) (native_types lvl sc hT hR)
  && match e with
     | ENone => true
     | EResult t => existsb (fun r => vtype_eqb (r_type r) t && action_eqb (r_action r) Enforce && r_failed r) rs
     | _ => false
     end.

Lemma native_check_ok lvl sc caps : native_check lvl sc caps = true.
Proof.
  destruct lvl as [la lt le lr].
  unfold native_check, native, native_types, native_ok, nat_res_ok, reach_ts, reach_exp, pre_ok, native_rev,
    native_auth_failed_with, na0, skipb.
  cbn [l_auth l_ts l_exp l_rev].
  generalize (s_auth sc =? 0)%N (s_identity_ok sc) (s_expired sc) (s_ts_ok sc) (s_rev_ok sc)
    (has_cap CapTI caps) (has_cap CapRev caps).
  intros a0 idn ex ts rv hT hR. enum_all.
Qed.

Section NativeFacts.
  Variables (lvl : level) (sc : scenario) (caps : list cap).
  Let hT := has_cap CapTI caps.
  Let hR := has_cap CapRev caps.

  Lemma native_parts :
    err_eqb (fst (fst (native lvl sc caps))) ENone = native_ok lvl sc hT hR
    /\ snd (native lvl sc caps) = (pre_ok lvl sc hT && native_rev lvl hR)
    /\ auth_action (snd (fst (native lvl sc caps))) = l_auth lvl
    /\ forallb (nat_res_ok lvl sc hT hR) (snd (fst (native lvl sc caps))) = true
    /\ map r_type (snd (fst (native lvl sc caps))) = native_types lvl sc hT hR
    /\ match fst (fst (native lvl sc caps)) with
       | ENone => True
       | EResult t => exists r, In r (snd (fst (native lvl sc caps))) /\ r_type r = t /\ r_action r = Enforce /\ r_failed r = true
       | _ => False
       end.
  Proof.
    pose proof (native_check_ok lvl sc caps) as H. unfold native_check in H. fold hT hR in H.
    destruct (native lvl sc caps) as [[e rs] called]. cbn [fst snd].
    rewrite !andb_true_iff in H. destruct H as [[[[[H1 H2] H3] H4] H5] H6].
    apply Bool.eqb_prop in H1, H2. apply action_eqb_eq in H3.
    apply (list_eqb_spec _ vtype_eqb_eq) in H5.
    repeat split; try assumption.
    destruct e as [|t| |]; try exact I; try discriminate.
    apply existsb_exists in H6. destruct H6 as (r & HIn & P). rewrite !andb_true_iff in P.
    destruct P as [[T A] F]. apply vtype_eqb_eq in T. apply action_eqb_eq in A. eauto.
  Qed.
End NativeFacts.

(* ---------- every reported result is truthful ---------- *)
Definition native_auth_failed (sc : scenario) : bool :=
  native_auth_failed_with sc (has_cap CapTI (caps_of sc)).

(* a reported result carries the action of the level, and its outcome is the fact:
   expiry, authentic timestamp, revocation (native or plugin verdict, whoever owns it) exactly;
   authenticity: reported failed only if it failed, and always when notation's own part failed *)
Definition res_truthful (lvl : level) (sc : scenario) (r : result) : bool :=
  action_eqb (r_action r) (act_of lvl (r_type r))
  && match r_type r with
     | TIntegrity => Bool.eqb (r_failed r) (negb (s_integrity_ok sc))
     | TAuth => implb (r_failed r) (authenticity_failed sc) && implb (native_auth_failed sc) (r_failed r)
     | TExpiry => Bool.eqb (r_failed r) (s_expired sc)
     | TTimestamp => Bool.eqb (r_failed r) (negb (s_ts_ok sc))
     | TRev => Bool.eqb (r_failed r) (revocation_failed sc)
     end.

Lemma nat_res_truthful lvl sc r : s_integrity_ok sc = true ->
  nat_res_ok lvl sc (has_cap CapTI (caps_of sc)) (has_cap CapRev (caps_of sc)) r = true ->
  res_truthful lvl sc r = true.
Proof.
  intros IO. unfold nat_res_ok, res_truthful, native_auth_failed, authenticity_failed, identity_failed,
    revocation_failed, native_auth_failed_with, native_rev, na0. rewrite IO.
  destruct r as [t a f]. cbn [r_type r_action r_failed].
  generalize (s_auth sc =? 0)%N (s_identity_ok sc) (s_expired sc) (s_ts_ok sc) (s_rev_ok sc)
    (has_cap CapTI (caps_of sc)) (has_cap CapRev (caps_of sc)) (skipb lvl)
    (match s_presp sc with PResp _ (Some false) _ => true | _ => false end)
    (match s_presp sc with PResp _ _ (Some false) => true | _ => false end)
    (action_eqb a (act_of lvl t)).
  intros a0 idn ex ts rv hT hR sk pti prv ae.
  destruct t; apply implb_elim; clear; enum_all.
Qed.

Lemma set_auth_truthful lvl sc rs : authenticity_failed sc = true ->
  forallb (res_truthful lvl sc) rs = true -> forallb (res_truthful lvl sc) (set_auth_failed rs) = true.
Proof.
  intros AF. induction rs as [|r rs IH]; cbn [set_auth_failed forallb]; [auto|].
  rewrite andb_true_iff. intros [H1 H2].
  destruct (vtype_eqb (r_type r) TAuth) eqn:E; cbn [forallb]; rewrite andb_true_iff; split; auto.
  apply vtype_eqb_eq in E. unfold res_truthful in *. cbn [r_type r_action r_failed]. rewrite E in H1.
  rewrite AF. apply andb_true_iff in H1. destruct H1 as [A _]. rewrite A.
  destruct (native_auth_failed sc); reflexivity.
Qed.

Lemma has_cap_cons_r c x l : has_cap c l = true -> has_cap c (x :: l) = true.
Proof. unfold has_cap. cbn. intros ->. now rewrite orb_true_r. Qed.

Lemma process_caps_truthful lvl sc p ti rev : s_presp sc = PResp p ti rev ->
  forall caps rs,
    (has_cap CapTI caps = true -> has_cap CapTI (caps_of sc) = true) ->
    (has_cap CapRev caps = true -> has_cap CapRev (caps_of sc) = true) ->
    forallb (res_truthful lvl sc) rs = true ->
    forallb (res_truthful lvl sc) (snd (process_caps lvl ti rev caps rs)) = true.
Proof.
  intros PR. induction caps as [|c caps IH]; intros rs HT HR F; [exact F|].
  assert (HT' : has_cap CapTI caps = true -> has_cap CapTI (caps_of sc) = true)
    by (intros H; apply HT; now apply has_cap_cons_r).
  assert (HR' : has_cap CapRev caps = true -> has_cap CapRev (caps_of sc) = true)
    by (intros H; apply HR; now apply has_cap_cons_r).
  destruct c; cbn [process_caps].
  - destruct ti as [[|]|]; [now apply IH | | exact F].
    assert (AF : authenticity_failed sc = true).
    { unfold authenticity_failed, identity_failed. rewrite (HT eq_refl), PR. now rewrite orb_true_r. }
    pose proof (set_auth_truthful lvl sc rs AF F) as F'.
    destruct (is_critical_failure (auth_action rs) true); [exact F'|]. now apply IH.
  - destruct rev as [ok|]; [|exact F].
    assert (F' : forallb (res_truthful lvl sc) (rs ++ [mk_res TRev (l_rev lvl) (negb ok)]) = true).
    { rewrite forallb_app, F. cbn [forallb andb]. rewrite andb_true_r.
      unfold res_truthful. cbn [r_type r_action r_failed act_of]. unfold revocation_failed.
      rewrite (HR eq_refl), PR. destruct (l_rev lvl), ok; reflexivity. }
    destruct (is_critical_failure (l_rev lvl) (negb ok)); [exact F'|]. now apply IH.
  - now apply IH.
Qed.

(* which result types the plugin stage adds: only revocation results, and none
   unless the revocation capability is asked *)
Lemma set_auth_types rs : map r_type (set_auth_failed rs) = map r_type rs.
Proof.
  induction rs as [|r rs IH]; [reflexivity|]. cbn [set_auth_failed].
  destruct (vtype_eqb (r_type r) TAuth) eqn:E; cbn [map r_type]; [|now rewrite IH].
  apply vtype_eqb_eq in E. now rewrite E.
Qed.

Lemma process_caps_types lvl ti rev caps : forall rs,
  exists k, map r_type (snd (process_caps lvl ti rev caps rs)) = map r_type rs ++ repeat TRev k
            /\ (has_cap CapRev caps = false -> k = 0%nat).
Proof.
  induction caps as [|c caps IH]; intros rs.
  - exists 0%nat. cbn. now rewrite app_nil_r.
  - destruct c; cbn [process_caps].
    + destruct ti as [[|]|].
      * apply IH.
      * destruct (is_critical_failure (auth_action rs) true).
        -- exists 0%nat. cbn [snd repeat]. now rewrite app_nil_r, set_auth_types.
        -- destruct (IH (set_auth_failed rs)) as (k & E & Z). exists k. now rewrite E, set_auth_types.
      * exists 0%nat. cbn. now rewrite app_nil_r.
    + destruct rev as [ok|].
      * destruct (is_critical_failure (l_rev lvl) (negb ok)).
        -- exists 1%nat. cbn [snd]. rewrite map_app. split; [reflexivity | discriminate].
        -- destruct (IH (rs ++ [mk_res TRev (l_rev lvl) (negb ok)])) as (k & E & _). exists (S k).
           rewrite E, map_app, <- app_assoc. split; [reflexivity | discriminate].
      * exists 0%nat. cbn [snd repeat]. rewrite app_nil_r. split; [reflexivity | discriminate].
    + destruct (IH rs) as (k & E & Z). exists k. split; [exact E | exact Z].
Qed.

(* ================================================================== *)
(* D. decomposition of a run                                           *)
(* ================================================================== *)

Definition obs_bad : obs := mk_obs (EResult TIntegrity) [mk_res TIntegrity Enforce true] false [] None.
Definition integ_res : result := mk_res TIntegrity Enforce false.

(* processSignature from "verify x509 trust store based authenticity" on *)
Definition after_native (lvl : level) (sc : scenario) (caps : list cap) (gets : list string) (plugin : bool) : obs :=
  match native lvl sc caps with
  | (ENone, rs4, called) =>
      let to_verify := caps_to_verify lvl caps in
      match to_verify with
      | _ :: _ =>
          let exec := Some (to_verify, other_keys sc) in
          match s_presp sc with
          | PErr => mk_obs EOther rs4 called gets exec
          | PResp processed ti rev =>
              let '(e, rs5) := process_plugin_response crit_processed lvl sc to_verify processed ti rev rs4 in
              mk_obs e rs5 called gets exec
          end
      | [] =>
          if negb plugin && any_critical_attribute sc
          then mk_obs EInconclusive rs4 called gets None
          else mk_obs ENone rs4 called gets None
      end
  | (e, rs, called) => mk_obs e rs called gets None
  end.

Lemma run_unfold lvl sc :
  verify_core lvl sc =
  if s_integrity_ok sc then
    match discover sc with
    | DErr e gets => mk_obs e [integ_res] false gets None
    | DNoPlugin => after_native lvl sc [] [] false
    | DPlugin n vc => after_native lvl sc vc [n] true
    end
  else obs_bad.
Proof.
  unfold verify_core, process_signature, process_signature_gen, after_native.
  destruct (s_integrity_ok sc); cbn [negb]; [|reflexivity].
  destruct (discover sc); reflexivity.
Qed.

Lemma run_decomp lvl sc :
  (s_integrity_ok sc = false /\ verify_core lvl sc = obs_bad)
  \/ (s_integrity_ok sc = true /\ s_nonstring_crit sc || plugin_unusable sc = true
      /\ exists e gets, (e = EInconclusive \/ e = EOther) /\ verify_core lvl sc = mk_obs e [integ_res] false gets None)
  \/ (s_integrity_ok sc = true /\ s_nonstring_crit sc = false /\ plugin_unusable sc = false
      /\ exists gets, verify_core lvl sc = after_native lvl sc (caps_of sc) gets (plugin_demanded sc)).
Proof.
  rewrite (run_unfold lvl sc). pose proof (discover_spec sc) as DS.
  destruct (s_integrity_ok sc); [|left; auto]. right.
  destruct (discover sc) as [e gets| |n vc].
  - left. destruct DS as [NE PU]. repeat split; [exact PU|]. eauto.
  - right. destruct DS as (PD & NS & UC). unfold plugin_unusable, caps_of. rewrite PD, NS, UC.
    repeat split. eauto.
  - right. destruct DS as (UC & PD & NS & _). unfold plugin_unusable, caps_of. rewrite PD, NS, UC.
    repeat split. eauto.
Qed.

(* ================================================================== *)
(* E. what a run does, as functions of the scenario                    *)
(* ================================================================== *)

Section AfterNative.
  Variables (lvl : level) (sc : scenario) (caps : list cap) (gets : list string) (plugin : bool).
  Let hT := has_cap CapTI caps.
  Let hR := has_cap CapRev caps.
  Let tv := caps_to_verify lvl caps.

  Lemma after_native_called :
    o_rev_called (after_native lvl sc caps gets plugin) = (pre_ok lvl sc hT && native_rev lvl hR).
  Proof.
    destruct (native_parts lvl sc caps) as (_ & C & _). fold hT hR in C. rewrite <- C.
    unfold after_native. destruct (native lvl sc caps) as [[e rs] called]. cbn [snd].
    destruct e; try reflexivity.
    destruct (caps_to_verify lvl caps); [destruct (negb plugin && any_critical_attribute sc); reflexivity|].
    destruct (s_presp sc) as [|p ti rev]; [reflexivity|].
    destruct (process_plugin_response crit_processed lvl sc (c :: l) p ti rev rs). reflexivity.
  Qed.

  Lemma after_native_exec :
    o_exec (after_native lvl sc caps gets plugin)
    = if native_ok lvl sc hT hR && nonempty tv then Some (tv, other_keys sc) else None.
  Proof.
    destruct (native_parts lvl sc caps) as (E & _). fold hT hR in E. rewrite <- E.
    unfold after_native, tv. destruct (native lvl sc caps) as [[e rs] called]. cbn [fst].
    destruct e; try reflexivity. cbn [err_eqb andb].
    destruct (caps_to_verify lvl caps); [destruct (negb plugin && any_critical_attribute sc); reflexivity|].
    cbn [nonempty].
    destruct (s_presp sc) as [|p ti rev]; [reflexivity|].
    destruct (process_plugin_response crit_processed lvl sc (c :: l) p ti rev rs). reflexivity.
  Qed.

  Lemma after_native_accepted :
    accepted (after_native lvl sc caps gets plugin)
    = native_ok lvl sc hT hR
      && match tv with
         | [] => negb (negb plugin && any_critical_attribute sc)
         | _ :: _ =>
             match s_presp sc with
             | PErr => false
             | PResp p ti rev =>
                 crit_processed sc p
                 && caps_fine (has_cap CapTI tv) (has_cap CapRev tv) ti rev (l_auth lvl) (l_rev lvl)
             end
         end.
  Proof.
    destruct (native_parts lvl sc caps) as (E & _ & AA & _). fold hT hR in E. rewrite <- E.
    unfold after_native, tv, accepted. destruct (native lvl sc caps) as [[e rs] called]. cbn [fst snd] in *.
    destruct e; try reflexivity. cbn [err_eqb andb].
    destruct (caps_to_verify lvl caps) as [|c l];
      [destruct (negb plugin && any_critical_attribute sc); reflexivity|].
    destruct (s_presp sc) as [|p ti rev]; [reflexivity|].
    unfold process_plugin_response. destruct (crit_processed sc p); cbn [negb andb]; [|reflexivity].
    pose proof (process_caps_accept lvl ti rev (c :: l) rs) as PA. rewrite AA in PA.
    destruct (process_caps lvl ti rev (c :: l) rs) as [e rs5]. exact PA.
  Qed.

  (* result types: those of the native stage, then revocation results of the plugin stage *)
  Lemma after_native_types :
    exists k, map r_type (o_results (after_native lvl sc caps gets plugin))
              = native_types lvl sc hT hR ++ repeat TRev k
              /\ (has_cap CapRev tv = false -> k = 0%nat)
              /\ (o_exec (after_native lvl sc caps gets plugin) = None -> k = 0%nat).
  Proof.
    destruct (native_parts lvl sc caps) as (_ & _ & _ & _ & T & _). fold hT hR in T. rewrite <- T.
    unfold after_native, tv. destruct (native lvl sc caps) as [[e rs] called]. cbn [fst snd].
    assert (Z : forall o, o_results o = rs ->
                exists k, map r_type (o_results o) = map r_type rs ++ repeat TRev k
                          /\ (has_cap CapRev (caps_to_verify lvl caps) = false -> k = 0%nat)
                          /\ (o_exec o = None -> k = 0%nat))
      by (intros o ->; exists 0%nat; cbn; now rewrite app_nil_r).
    destruct e; try (apply Z; reflexivity).
    destruct (caps_to_verify lvl caps) as [|c l] eqn:TV;
      [destruct (negb plugin && any_critical_attribute sc); apply Z; reflexivity|].
    destruct (s_presp sc) as [|p ti rev]; [apply Z; reflexivity|].
    unfold process_plugin_response. destruct (negb (crit_processed sc p)); [apply Z; reflexivity|].
    destruct (process_caps_types lvl ti rev (c :: l) rs) as (k & Ek & Zk).
    destruct (process_caps lvl ti rev (c :: l) rs) as [e rs5]. exists k. cbn [snd o_results o_exec] in *.
    repeat split; auto. discriminate.
  Qed.
End AfterNative.

(* the same with caps = the capabilities of the usable plugin: truthful results *)
Lemma after_native_truthful lvl sc gets plugin : s_integrity_ok sc = true ->
  forallb (res_truthful lvl sc) (o_results (after_native lvl sc (caps_of sc) gets plugin)) = true.
Proof.
  intros IO.
  destruct (native_parts lvl sc (caps_of sc)) as (_ & _ & _ & F & _).
  assert (F0 : forallb (res_truthful lvl sc) (snd (fst (native lvl sc (caps_of sc)))) = true).
  { rewrite forallb_forall in *. intros r HIn. apply (nat_res_truthful lvl sc r IO). now apply F. }
  clear F. unfold after_native. destruct (native lvl sc (caps_of sc)) as [[e rs] called]. cbn [fst snd] in F0.
  destruct e; try exact F0.
  destruct (caps_to_verify lvl (caps_of sc)) as [|c l] eqn:TV;
    [destruct (negb plugin && any_critical_attribute sc); exact F0|].
  destruct (s_presp sc) as [|p ti rev] eqn:PR; [exact F0|].
  unfold process_plugin_response. destruct (negb (crit_processed sc p)); [exact F0|].
  assert (HT : has_cap CapTI (c :: l) = true -> has_cap CapTI (caps_of sc) = true)
    by (rewrite <- TV, ctv_TI; auto).
  assert (HR : has_cap CapRev (c :: l) = true -> has_cap CapRev (caps_of sc) = true)
    by (rewrite <- TV, ctv_Rev; intros H; apply andb_true_iff in H; tauto).
  pose proof (process_caps_truthful lvl sc p ti rev PR (c :: l) rs HT HR F0) as F1.
  destruct (process_caps lvl ti rev (c :: l) rs) as [e rs5]. exact F1.
Qed.

(* ---------- the acceptance rule, without input contract ---------- *)
Lemma not_demanded_has sc : plugin_demanded sc = false ->
  has_cap CapTI (caps_of sc) = false /\ has_cap CapRev (caps_of sc) = false.
Proof. intros H. rewrite (not_demanded_caps sc H). auto. Qed.

Theorem exact_all lvl sc : accepted (verify_core lvl sc) = negb (should_fail_impl lvl sc).
Proof.
  destruct (run_decomp lvl sc) as [[IO ->] | [(IO & PU & e & gets & NE & ->) | (IO & NS & PU & gets & ->)]].
  - unfold should_fail_impl. rewrite IO. reflexivity.
  - unfold should_fail_impl, plugin_or_attribute_problem. rewrite IO, PU.
    destruct NE as [-> | ->]; reflexivity.
  - rewrite after_native_accepted.
    pose proof (caps_of_no_other sc) as NO.
    pose proof (ctv_TI lvl (caps_of sc)) as TI. pose proof (ctv_Rev lvl (caps_of sc)) as RV.
    pose proof (no_other_nonempty _ (ctv_no_other lvl _ NO)) as NE. rewrite TI, RV in NE.
    pose proof (not_demanded_has sc) as ND.
    unfold should_fail_impl, plugin_or_attribute_problem, plugin_exec_problem, nothing_processes, enforced_failure,
      authenticity_failed, identity_failed, revocation_failed, asked, native_ok, pre_ok, native_rev,
      native_auth_failed_with, na0, caps_fine, any_critical_attribute, has_critical, skipb in *.
    rewrite IO, NS, PU.
    destruct lvl as [la lt le lr]. cbn [l_auth l_ts l_exp l_rev] in *.
    destruct (caps_to_verify _ (caps_of sc)) as [|c l]; [|rewrite TI, RV]; clear TI RV NO; cbn [nonempty] in NE.
    all: destruct (plugin_demanded sc); [clear ND | destruct (ND eq_refl) as [HT HR]; rewrite HT, HR in *; clear ND HT HR].
    all: destruct (s_presp sc) as [|p ti rev]; [|generalize (crit_processed sc p); intros cp].
    all: destruct (other_crit sc); destruct (s_minver_attr sc).
    all: revert NE.
    all: generalize (s_auth sc =? 0)%N (s_identity_ok sc) (s_expired sc) (s_ts_ok sc) (s_rev_ok sc)
           (has_cap CapTI (caps_of sc)) (has_cap CapRev (caps_of sc)).
    all: intros a0 idn ex ts rv hT hR NE.
    all: destruct hT, hR, lr; cbn in NE; try discriminate NE; clear; apply Bool.eqb_prop; enum_all.
Qed.

(* ---------- monotonicity, without input contract ---------- *)
Lemma pap_mono_all l1 l2 sc : action_le (l_rev l1) (l_rev l2) = true ->
  plugin_or_attribute_problem l2 sc = true -> plugin_or_attribute_problem l1 sc = true.
Proof.
  pose proof (caps_of_no_other sc) as NO.
  pose proof (ctv_TI l1 (caps_of sc)) as TI1. pose proof (ctv_Rev l1 (caps_of sc)) as RV1.
  pose proof (no_other_nonempty _ (ctv_no_other l1 _ NO)) as NE1. rewrite TI1, RV1 in NE1.
  pose proof (ctv_TI l2 (caps_of sc)) as TI2. pose proof (ctv_Rev l2 (caps_of sc)) as RV2.
  pose proof (no_other_nonempty _ (ctv_no_other l2 _ NO)) as NE2. rewrite TI2, RV2 in NE2.
  pose proof (not_demanded_has sc) as ND.
  unfold plugin_or_attribute_problem, plugin_exec_problem, nothing_processes, asked, skipb in *.
  destruct l1 as [a1 t1 e1 r1], l2 as [a2 t2 e2 r2]. cbn [l_rev] in *.
  destruct (caps_to_verify {| l_auth := a1; l_ts := t1; l_exp := e1; l_rev := r1 |} (caps_of sc)) as [|c1 v1];
    [|rewrite TI1, RV1]; clear TI1 RV1; cbn [nonempty] in NE1.
  all: destruct (caps_to_verify {| l_auth := a2; l_ts := t2; l_exp := e2; l_rev := r2 |} (caps_of sc)) as [|c2 v2];
    [|rewrite TI2, RV2]; clear TI2 RV2 NO; cbn [nonempty] in NE2.
  all: destruct (plugin_demanded sc); [clear ND | destruct (ND eq_refl) as [HT HR]; rewrite HT, HR in *; clear ND HT HR].
  all: destruct (s_presp sc) as [|p ti rev]; [|generalize (crit_processed sc p); intros cp].
  all: revert NE1 NE2.
  all: generalize (s_nonstring_crit sc) (plugin_unusable sc) (has_critical sc)
         (has_cap CapTI (caps_of sc)) (has_cap CapRev (caps_of sc)).
  all: intros ns pu hc hT hR NE1 NE2 LE.
  all: destruct hT, hR, r1, r2; cbn in NE1, NE2, LE; try discriminate NE1; try discriminate NE2; try discriminate LE.
  all: clear; apply implb_elim; enum_all.
Qed.

Lemma sfi_mono_all l1 l2 sc : level_le l1 l2 = true ->
  should_fail_impl l2 sc = true -> should_fail_impl l1 sc = true.
Proof.
  intros LE. unfold level_le in LE. rewrite !andb_true_iff in LE. destruct LE as [[[LA LT] LX] LR].
  unfold should_fail_impl, enforced_failure. rewrite !orb_true_iff.
  intros [[I | P] | [[[A | X] | T] | R]].
  - auto.
  - left. right. eapply pap_mono_all; eassumption.
  - right. left. left. left. eapply enforced_mono; eassumption.
  - right. left. left. right. eapply enforced_mono; eassumption.
  - right. left. right. eapply enforced_mono; eassumption.
  - right. right. eapply enforced_mono; eassumption.
Qed.

Theorem monotone_all l1 l2 sc : level_le l1 l2 = true ->
  accepted (verify_core l1 sc) = true -> accepted (verify_core l2 sc) = true.
Proof.
  intros LE. rewrite !exact_all, !negb_true_iff.
  intros H. destruct (should_fail_impl l2 sc) eqn:E; [|reflexivity].
  rewrite (sfi_mono_all l1 l2 sc LE E) in H. discriminate.
Qed.

Theorem monotone_named_all ov sc ls lp la :
  level_for "strict" ov = Some ls -> level_for "permissive" ov = Some lp -> level_for "audit" ov = Some la ->
  (accepted (verify_core ls sc) = true -> accepted (verify_core lp sc) = true)
  /\ (accepted (verify_core lp sc) = true -> accepted (verify_core la sc) = true).
Proof.
  intros S P A. split; apply monotone_all.
  - eapply named_order; [left; split; reflexivity | exact S | exact P].
  - eapply named_order; [right; left; split; reflexivity | exact P | exact A].
Qed.

(* ---------- which validations are performed (functional characterisation) ---------- *)
Definition hasTI (sc : scenario) : bool := has_cap CapTI (caps_of sc).
Definition hasRev (sc : scenario) : bool := has_cap CapRev (caps_of sc).

(* integrity passed and plugin discovery did not end the run *)
Definition discovery_ok (sc : scenario) : bool :=
  s_integrity_ok sc && negb (s_nonstring_crit sc) && negb (plugin_unusable sc).

(* the validation of type t is performed by notation itself *)
Definition performed (lvl : level) (sc : scenario) (t : vtype) : bool :=
  match t with
  | TIntegrity => true
  | TAuth => discovery_ok sc
  | TExpiry => discovery_ok sc && reach_exp lvl sc (hasTI sc)
  | TTimestamp => discovery_ok sc && reach_ts lvl sc (hasTI sc)
  | TRev => discovery_ok sc && pre_ok lvl sc (hasTI sc) && native_rev lvl (hasRev sc)
  end.

(* the verification plugin is executed *)
Definition plugin_run (lvl : level) (sc : scenario) : bool :=
  discovery_ok sc && native_ok lvl sc (hasTI sc) (hasRev sc) && nonempty (asked lvl sc).

Definition run_types (lvl : level) (sc : scenario) : list vtype :=
  TIntegrity :: filter (performed lvl sc) [TAuth; TExpiry; TTimestamp; TRev].

Theorem rev_called_exact lvl sc : o_rev_called (verify_core lvl sc) = performed lvl sc TRev.
Proof.
  unfold performed, discovery_ok.
  destruct (run_decomp lvl sc) as [[IO ->] | [(IO & PU & e & gets & NE & ->) | (IO & NS & PU & gets & ->)]].
  - rewrite IO. reflexivity.
  - rewrite IO. cbn [o_rev_called andb]. apply orb_true_iff in PU. destruct PU as [-> | ->]; cbn; now rewrite ?andb_false_r.
  - rewrite after_native_called, IO, NS, PU. reflexivity.
Qed.

Theorem exec_exact lvl sc :
  o_exec (verify_core lvl sc) = if plugin_run lvl sc then Some (asked lvl sc, other_keys sc) else None.
Proof.
  unfold plugin_run, discovery_ok.
  destruct (run_decomp lvl sc) as [[IO ->] | [(IO & PU & e & gets & NE & ->) | (IO & NS & PU & gets & ->)]].
  - rewrite IO. reflexivity.
  - rewrite IO. cbn [o_exec andb]. apply orb_true_iff in PU. destruct PU as [-> | ->]; cbn; now rewrite ?andb_false_r.
  - rewrite after_native_exec, IO, NS, PU. reflexivity.
Qed.

Theorem truthful_all lvl sc : forallb (res_truthful lvl sc) (o_results (verify_core lvl sc)) = true.
Proof.
  destruct (run_decomp lvl sc) as [[IO ->] | [(IO & PU & e & gets & NE & ->) | (IO & NS & PU & gets & ->)]].
  - cbn. unfold res_truthful. cbn. rewrite IO. reflexivity.
  - cbn. unfold res_truthful. cbn. rewrite IO. reflexivity.
  - now apply after_native_truthful.
Qed.

Theorem types_all lvl sc :
  exists k, map r_type (o_results (verify_core lvl sc)) = run_types lvl sc ++ repeat TRev k
            /\ (has_cap CapRev (asked lvl sc) = false -> k = 0%nat)
            /\ (o_exec (verify_core lvl sc) = None -> k = 0%nat).
Proof.
  unfold run_types, performed, discovery_ok.
  destruct (run_decomp lvl sc) as [[IO ->] | [(IO & PU & e & gets & NE & ->) | (IO & NS & PU & gets & ->)]].
  - exists 0%nat. rewrite IO. split; [reflexivity | auto].
  - exists 0%nat. rewrite IO. split; [|auto]. cbn [andb].
    apply orb_true_iff in PU. destruct PU as [-> | ->]; cbn; rewrite ?andb_false_r; reflexivity.
  - destruct (after_native_types lvl sc (caps_of sc) gets (plugin_demanded sc)) as (k & E & Z).
    exists k. split; [|exact Z]. rewrite E, IO, NS, PU. unfold native_types, hasTI, hasRev. cbn [negb andb filter].
    unfold reach_ts.
    destruct (reach_exp lvl sc (has_cap CapTI (caps_of sc))); cbn [andb app];
      destruct (negb (enforced (l_exp lvl) (s_expired sc))); cbn [andb app];
      destruct (pre_ok lvl sc (has_cap CapTI (caps_of sc)) && native_rev lvl (has_cap CapRev (caps_of sc))); reflexivity.
Qed.

(* ---------- corollaries in the words of the property ---------- *)

Lemma in_run_types lvl sc t : In t (run_types lvl sc) <-> t = TIntegrity \/ performed lvl sc t = true.
Proof.
  unfold run_types. cbn [In]. rewrite filter_In. cbn [In]. split.
  - intros [<- | [_ P]]; auto.
  - intros [-> | P]; [auto|]. destruct t; auto 10. 
Qed.

Lemma in_repeat_rev t k : In t (repeat TRev k) -> t = TRev.
Proof. intros H. now apply repeat_spec in H. Qed.

(* a validation notation performs itself is in the outcome; and, apart from the plugin's
   revocation verdicts, nothing else is *)
Theorem performed_reported lvl sc t :
  (performed lvl sc t = true -> exists r, In r (o_results (verify_core lvl sc)) /\ r_type r = t)
  /\ ((exists r, In r (o_results (verify_core lvl sc)) /\ r_type r = t) ->
      performed lvl sc t = true
      \/ (t = TRev /\ plugin_run lvl sc = true /\ In CapRev (asked lvl sc))).
Proof.
  destruct (types_all lvl sc) as (k & E & Z1 & Z2). split.
  - intros P. assert (HIn : In t (map r_type (o_results (verify_core lvl sc)))).
    { rewrite E. apply in_or_app. left. apply in_run_types. auto. }
    apply in_map_iff in HIn. destruct HIn as (r & T & HIn). eauto.
  - intros (r & HIn & T). assert (H : In t (map r_type (o_results (verify_core lvl sc)))).
    { apply in_map_iff. eauto. }
    rewrite E in H. apply in_app_or in H. destruct H as [H | H].
    + apply in_run_types in H. destruct H as [-> | P]; auto.
    + pose proof (in_repeat_rev _ _ H) as ->. right. split; [reflexivity|].
      destruct (has_cap CapRev (asked lvl sc)) eqn:HC; [|rewrite (Z1 eq_refl) in H; destruct H].
      split; [|now apply has_cap_In].
      destruct (plugin_run lvl sc) eqn:PR; [reflexivity|]. exfalso.
      pose proof (exec_exact lvl sc) as EX. rewrite PR in EX. rewrite (Z2 EX) in H. destruct H.
Qed.

Definition native_failed_fact (sc : scenario) (t : vtype) : bool :=
  match t with
  | TIntegrity => negb (s_integrity_ok sc)
  | TAuth => native_auth_failed sc
  | TExpiry => s_expired sc
  | TTimestamp => negb (s_ts_ok sc)
  | TRev => negb (s_rev_ok sc)
  end.

Lemma truthful_in lvl sc r : In r (o_results (verify_core lvl sc)) -> res_truthful lvl sc r = true.
Proof. intros H. pose proof (truthful_all lvl sc) as F. rewrite forallb_forall in F. now apply F. Qed.

(* whenever notation performs a validation whose action is log and it fails, the failure is in the
   outcome, marked failed, with action log — whether the run is accepted or rejected later on *)
Theorem log_reported_always lvl sc t :
  t <> TIntegrity -> performed lvl sc t = true -> act_of lvl t = Log -> native_failed_fact sc t = true ->
  In (mk_res t Log true) (o_results (verify_core lvl sc)).
Proof.
  intros NT P A F. destruct (proj1 (performed_reported lvl sc t) P) as (r & HIn & T).
  pose proof (truthful_in lvl sc r HIn) as TR. unfold res_truthful in TR. apply andb_true_iff in TR.
  destruct TR as [TA TF]. apply action_eqb_eq in TA. rewrite T, A in TA.
  assert (FF : r_failed r = true).
  { rewrite T in TF. destruct t; cbn in F.
    - congruence.
    - apply andb_true_iff in TF. destruct TF as [_ TF]. rewrite F in TF. exact TF.
    - apply Bool.eqb_prop in TF. congruence.
    - apply Bool.eqb_prop in TF. congruence.
    - apply Bool.eqb_prop in TF. rewrite TF. unfold revocation_failed.
      cbn in P. unfold native_rev, hasRev in P. rewrite !andb_true_iff, !negb_true_iff in P.
      destruct P as [_ [_ HR]]. now rewrite HR. }
  destruct r as [t' a' f']. cbn in *. subst. exact HIn.
Qed.

Theorem results_truthful lvl sc r : In r (o_results (verify_core lvl sc)) ->
  r_action r = act_of lvl (r_type r)
  /\ (r_type r = TIntegrity -> r_failed r = negb (s_integrity_ok sc))
  /\ (r_type r = TExpiry -> r_failed r = s_expired sc)
  /\ (r_type r = TTimestamp -> r_failed r = negb (s_ts_ok sc))
  /\ (r_type r = TRev -> r_failed r = revocation_failed sc)
  /\ (r_type r = TAuth -> (r_failed r = true -> authenticity_failed sc = true)
                          /\ (native_auth_failed sc = true -> r_failed r = true)).
Proof.
  intros HIn. pose proof (truthful_in lvl sc r HIn) as TR. unfold res_truthful in TR.
  apply andb_true_iff in TR. destruct TR as [TA TF]. apply action_eqb_eq in TA.
  split; [exact TA|].
  destruct (r_type r); (split; [intros T | split; [intros T | split; [intros T | split; intros T]]]);
    try discriminate T; try (now apply Bool.eqb_prop in TF).
  apply andb_true_iff in TF. destruct TF as [TF1 TF2]. split; intros F; rewrite F in *; assumption.
Qed.

Theorem skip_all lvl sc : l_rev lvl = Skip ->
  o_rev_called (verify_core lvl sc) = false
  /\ (forall cs attrs, o_exec (verify_core lvl sc) = Some (cs, attrs) -> ~ In CapRev cs)
  /\ (forall r, In r (o_results (verify_core lvl sc)) -> r_type r <> TRev).
Proof.
  intros SK.
  assert (NR : forall h, native_rev lvl h = false) by (intros h; unfold native_rev, skipb; now rewrite SK).
  assert (AR : has_cap CapRev (asked lvl sc) = false).
  { unfold asked. rewrite ctv_Rev. unfold skipb. rewrite SK. now rewrite andb_false_r. }
  split; [|split].
  - rewrite rev_called_exact. cbn. rewrite NR. now rewrite andb_false_r.
  - intros cs attrs E. rewrite exec_exact in E. destruct (plugin_run lvl sc); [|discriminate].
    injection E as <- _. intros H. apply has_cap_In in H. congruence.
  - intros r HIn T.
    destruct (proj2 (performed_reported lvl sc TRev)) as [P | (_ & _ & H)]; [eauto | |].
    + cbn in P. rewrite NR, andb_false_r in P. discriminate.
    + apply has_cap_In in H. congruence.
Qed.

(* a declared revocation capability: the validator is never consulted (no contract) *)
Theorem rev_capability_not_consulted lvl sc : hasRev sc = true -> o_rev_called (verify_core lvl sc) = false.
Proof.
  intros H. rewrite rev_called_exact. cbn. unfold native_rev. rewrite H. cbn. now rewrite !andb_false_r.
Qed.

Theorem plugin_request_all lvl sc cs attrs :
  o_exec (verify_core lvl sc) = Some (cs, attrs) ->
  cs = asked lvl sc /\ cs <> [] /\ attrs = other_keys sc.
Proof.
  intros E. rewrite exec_exact in E. destruct (plugin_run lvl sc) eqn:PR; [|discriminate].
  injection E as <- <-. repeat split.
  unfold plugin_run in PR. rewrite !andb_true_iff in PR. destruct PR as [_ NE].
  destruct (asked lvl sc); [discriminate | discriminate].
Qed.

Theorem actions_all lvl sc :
  Forall (fun r => r_action r = act_of lvl (r_type r)) (o_results (verify_core lvl sc)).
Proof. apply Forall_forall. intros r HIn. exact (proj1 (results_truthful lvl sc r HIn)). Qed.

(* ================================================================== *)
(* F. the reasons of the property text, spelled out                    *)
(* ================================================================== *)

(* the demand itself is malformed: header not critical, not a string, or blank *)
Definition Demand_malformed (sc : scenario) : Prop :=
  s_plugin_attr sc = ANotCritical \/ s_plugin_attr sc = ANotString
  \/ exists n, s_plugin_attr sc = AStr n /\ blank n = true.
(* the demanded minimum version is malformed: not critical, not a string, blank or not SemVer *)
Definition Minver_malformed (sc : scenario) : Prop :=
  s_minver_attr sc = ANotCritical \/ s_minver_attr sc = ANotString
  \/ exists v, s_minver_attr sc = AStr v /\ (blank v = true \/ s_minver_valid sc = false).
(* missing: no plugin manager, not installed, or it does not answer get-plugin-metadata *)
Definition Plugin_missing (sc : scenario) : Prop :=
  s_pm sc = PMNil \/ s_pm sc = PMNotInstalled \/ s_pm sc = PMMetaErr.
(* too old: its version is not SemVer or below the demanded minimum *)
Definition Plugin_too_old (sc : scenario) : Prop :=
  exists vv ge caps, s_pm sc = PMPlugin vv ge caps /\ (vv = false \/ ge = false).
(* lacks verification capabilities *)
Definition Plugin_lacks_capabilities (sc : scenario) : Prop :=
  exists vv ge caps, s_pm sc = PMPlugin vv ge caps /\ ~ In CapTI caps /\ ~ In CapRev caps.

Lemma vcaps_nil caps : verification_caps caps = [] <-> ~ In CapTI caps /\ ~ In CapRev caps.
Proof.
  induction caps as [|c caps IH]; cbn [verification_caps filter In]; [tauto|].
  fold (verification_caps caps).
  destruct c; split; try discriminate; try (intros [H1 H2]; exfalso; tauto).
  - intros H. apply IH in H. destruct H as [H1 H2]. split; intros [X|X]; try discriminate X; tauto.
  - intros [H1 H2]. apply IH. tauto.
Qed.

Theorem plugin_unusable_iff sc :
  plugin_unusable sc = true <->
  plugin_demanded sc = true
  /\ (Demand_malformed sc \/ Minver_malformed sc \/ Plugin_missing sc \/ Plugin_too_old sc
      \/ Plugin_lacks_capabilities sc).
Proof.
  unfold plugin_unusable, plugin_demanded, usable_caps, attr_malformed,
    Demand_malformed, Minver_malformed, Plugin_missing, Plugin_too_old, Plugin_lacks_capabilities.
  destruct (s_plugin_attr sc) as [| | |n] eqn:PA.
  - cbn. split; [discriminate | intros [H _]; discriminate].
  - cbn. split; [intros _; split; auto | reflexivity].
  - cbn. split; [intros _; split; auto | reflexivity].
  - cbn [andb]. destruct (blank n) eqn:BN.
    { cbn. split; [intros _; split; [reflexivity | left; right; right; eauto] | reflexivity]. }
    destruct (s_minver_attr sc) as [| | |v] eqn:MA.
    2,3: cbn; split; [intros _; split; [reflexivity | right; left; auto] | reflexivity].
    2: destruct (blank v) eqn:BV;
         [cbn; split; [intros _; split; [reflexivity | right; left; right; right; eauto] | reflexivity]|];
       destruct (s_minver_valid sc) eqn:MV; cbn [negb];
         [|cbn; split; [intros _; split; [reflexivity | right; left; right; right; eauto] | reflexivity]].
    all: destruct (s_pm sc) as [| | |vv ge caps] eqn:PM.
    all: try (cbn; split; [intros _; split; [reflexivity | right; right; left; auto] | reflexivity]).
    all: destruct vv; [|cbn; split; [intros _; split; [reflexivity | right; right; right; left; eauto 8] | reflexivity]].
    all: destruct ge; [|cbn; split; [intros _; split; [reflexivity | right; right; right; left; eauto 8] | reflexivity]].
    all: destruct (verification_caps caps) eqn:VC.
    all: try (cbn; split; [intros _; split; [reflexivity|]; right; right; right; right;
                           exists true, true, caps; split; [reflexivity | now apply vcaps_nil] | reflexivity]).
    all: cbn; split; [discriminate|]; intros [_ H]; exfalso.
    all: destruct H as [[H|[H|(n0 & H & B)]] | [[H|[H|(v0 & H & B)]] | [[H|[H|H]] | [(a & b & c0 & H & B) | (a & b & c0 & H & B)]]]];
      try discriminate H.
    all: try (injection H as <-; congruence).
    all: try (injection H as <-; destruct B; congruence).
    all: try (injection H as <- <- <-; destruct B; discriminate).
    all: try (injection H as <- <- <-; apply vcaps_nil in B; congruence).
Qed.

Lemma forallb_false_ex {A} (f : A -> bool) l : forallb f l = false <-> exists x, In x l /\ f x = false.
Proof.
  induction l as [|x l IH]; cbn; [split; [discriminate | intros (x & [] & _)]|].
  rewrite andb_false_iff, IH. split.
  - intros [H | (y & HIn & H)]; eauto.
  - intros (y & [<- | HIn] & H); eauto.
Qed.

Lemma mem_str_false k l : mem_str k l = false <-> ~ In k l.
Proof.
  split.
  - intros H HIn. assert (X : mem_str k l = true)
      by (unfold mem_str; apply existsb_exists; exists k; split; [exact HIn | apply String.eqb_refl]).
    congruence.
  - intros H. destruct (mem_str k l) eqn:E; [|reflexivity]. apply mem_str_In in E. contradiction.
Qed.

Theorem plugin_exec_problem_iff lvl sc :
  plugin_exec_problem lvl sc = true <->
  asked lvl sc <> []
  /\ (s_presp sc = PErr
      \/ exists p ti rev, s_presp sc = PResp p ti rev
           /\ ((exists k, In k (other_crit sc) /\ ~ In k p)
               \/ (In CapTI (asked lvl sc) /\ ti = None)
               \/ (In CapRev (asked lvl sc) /\ rev = None))).
Proof.
  unfold plugin_exec_problem. destruct (asked lvl sc) as [|c tv] eqn:AS.
  - split; [discriminate | intros [H _]; congruence].
  - rewrite <- AS. destruct (s_presp sc) as [|p ti rev].
    + split; [intros _; split; [rewrite AS; discriminate | auto] | reflexivity].
    + rewrite !orb_true_iff, !andb_true_iff, negb_true_iff, !has_cap_In.
      unfold crit_processed. rewrite forallb_false_ex. split.
      * intros H. split; [rewrite AS; discriminate|]. right. exists p, ti, rev. split; [reflexivity|].
        destruct H as [[(k & HIn & M) | [HC N]] | [HC N]].
        -- left. exists k. split; [exact HIn | now apply mem_str_false].
        -- right. left. split; [exact HC | destruct ti; [discriminate | reflexivity]].
        -- right. right. split; [exact HC | destruct rev; [discriminate | reflexivity]].
      * intros [_ [H | (p' & ti' & rev' & E & H)]]; [discriminate|]. injection E as <- <- <-.
        destruct H as [(k & HIn & M) | [[HC ->] | [HC ->]]].
        -- left. left. exists k. split; [exact HIn | now apply mem_str_false].
        -- left. right. auto.
        -- right. auto.
Qed.

(* no plugin is demanded and the signature carries a critical extended attribute *)
Theorem no_plugin_critical_iff lvl sc :
  negb (plugin_demanded sc) && nothing_processes lvl sc = true <->
  s_plugin_attr sc = AAbsent
  /\ (other_crit sc <> [] \/ (s_minver_attr sc <> AAbsent /\ s_minver_attr sc <> ANotCritical)).
Proof.
  unfold nothing_processes, has_critical, asked.
  destruct (plugin_demanded sc) eqn:PD.
  - cbn. split; [discriminate|]. intros [H _]. unfold plugin_demanded in PD. rewrite H in PD. discriminate.
  - rewrite (not_demanded_caps sc PD). cbn [negb andb caps_to_verify filter nonempty]. rewrite andb_true_r.
    assert (PA : s_plugin_attr sc = AAbsent)
      by (unfold plugin_demanded in PD; destruct (s_plugin_attr sc); [reflexivity | discriminate..]).
    rewrite orb_true_iff. split.
    + intros [H | H]; (split; [exact PA|]).
      * left. destruct (other_crit sc); [discriminate | discriminate].
      * right. destruct (s_minver_attr sc); try discriminate H; split; discriminate.
    + intros [_ [H | [H1 H2]]].
      * left. destruct (other_crit sc); [congruence | reflexivity].
      * right. destruct (s_minver_attr sc); try reflexivity; congruence.
Qed.

(* ================================================================== *)
(* G. the oracle for EVERY input (the contract wf_sc is not needed)     *)
(* ================================================================== *)

(* the reported types: those notation performs, then the plugin's revocation verdicts *)
Definition types_ok (lvl : level) (sc : scenario) (o : obs) : bool :=
  let ts := map r_type (o_results o) in
  let n := List.length (run_types lvl sc) in
  list_eqb vtype_eqb (firstn n ts) (run_types lvl sc)
  && forallb (vtype_eqb TRev) (skipn n ts)
  && (negb (nonempty (skipn n ts)) || (has_cap CapRev (asked lvl sc) && negb (is_none (o_exec o)))).

(* stated on observations only: what is performed, what is asked of the plugin, truthful results *)
Definition spec_extra_obs (lvl : level) (sc : scenario) (o : obs) : bool :=
  Bool.eqb (o_rev_called o) (performed lvl sc TRev)
  && opt_exec_eqb (o_exec o) (if plugin_run lvl sc then Some (asked lvl sc, other_keys sc) else None)
  && forallb (res_truthful lvl sc) (o_results o)
  && types_ok lvl sc o.

Definition spec_all (i : input) (o : option obs) : bool :=
  match get_level (i_level i) (i_override i), o with
  | inr (_, enf), Some ob =>
      let lvl := level_of enf in
      (if wf i then spec_ok_obs lvl (i_sc i) ob
       else Bool.eqb (negb (accepted ob)) (should_fail_full lvl (i_sc i)))
      && spec_extra_obs lvl (i_sc i) ob
  | _, _ => spec_ok i o
  end.

Definition run_all (cs : list case) : list (N * N * N) :=
  run_cases c_id
    (fun c => opt_eqb obs_eqb (model (c_in c)) (c_obs c))
    (fun c => spec_all (c_in c) (c_obs c))
    (fun c => fp (c_in c)) cs.

Lemma cap_eqb_eq a b : cap_eqb a b = true <-> a = b.
Proof. destruct a, b; cbn; split; congruence. Qed.

Lemma opt_exec_eqb_refl x : opt_exec_eqb x x = true.
Proof.
  destruct x as [[cs attrs]|]; [|reflexivity]. cbn.
  rewrite (proj2 (list_eqb_spec _ cap_eqb_eq cs cs) eq_refl), str_list_eqb_refl. reflexivity.
Qed.

Lemma types_ok_model lvl sc : types_ok lvl sc (verify_core lvl sc) = true.
Proof.
  destruct (types_all lvl sc) as (k & E & Z1 & Z2). unfold types_ok. rewrite E.
  rewrite firstn_app, Nat.sub_diag, firstn_all, firstn_O, app_nil_r.
  rewrite skipn_app, Nat.sub_diag, skipn_all, skipn_O. cbn [app].
  rewrite (proj2 (list_eqb_spec _ vtype_eqb_eq _ _) eq_refl). cbn [andb].
  assert (F : forallb (vtype_eqb TRev) (repeat TRev k) = true)
    by (apply forallb_forall; intros x H; apply repeat_spec in H; now subst).
  rewrite F. cbn [andb].
  destruct k; [reflexivity|]. cbn [repeat nonempty negb orb].
  destruct (has_cap CapRev (asked lvl sc)); [|now specialize (Z1 eq_refl)].
  destruct (o_exec (verify_core lvl sc)); [reflexivity | now specialize (Z2 eq_refl)].
Qed.

Lemma spec_extra_model lvl sc : spec_extra_obs lvl sc (verify_core lvl sc) = true.
Proof.
  unfold spec_extra_obs. rewrite rev_called_exact, exec_exact, truthful_all, types_ok_model, opt_exec_eqb_refl.
  now rewrite Bool.eqb_reflx.
Qed.

Theorem model_spec_all_partial i : fp i = 0%N -> spec_all i (model i) = true.
Proof.
  intros F. unfold spec_all, spec_ok, model. unfold fp in F.
  destruct (get_level (i_level i) (i_override i)) as [e|[nm enf]]; [reflexivity|].
  destruct (String.eqb (i_level i) "skip") eqn:SK; [reflexivity|].
  rewrite spec_extra_model, andb_true_r.
  assert (FB : f12b (level_of enf) (i_sc i) && negb (should_fail_impl (level_of enf) (i_sc i)) = false)
    by (destruct (f12b (level_of enf) (i_sc i) && negb (should_fail_impl (level_of enf) (i_sc i))); [discriminate F | reflexivity]).
  destruct (wf i) eqn:W; [exact (spec_ok_obs_partial _ _ W FB)|].
  rewrite exact_all, negb_involutive. revert FB.
  unfold should_fail_full, should_fail_impl, plugin_or_attribute_problem, f12b.
  generalize (s_integrity_ok (i_sc i)) (s_nonstring_crit (i_sc i)) (plugin_unusable (i_sc i))
    (enforced_failure (level_of enf) (i_sc i)) (plugin_exec_problem (level_of enf) (i_sc i))
    (nothing_processes (level_of enf) (i_sc i)) (plugin_demanded (i_sc i)).
  intros io ns pu ef pe np dem. destruct io, ns, pu, ef, pe, np, dem; cbn; congruence.
Qed.

(* ---------- forms used by props/C02_Property.v ---------- *)
Lemma exact_all_iff lvl sc :
  accepted (verify_core lvl sc) = false <->
  s_integrity_ok sc = false \/ enforced_failure lvl sc = true \/ plugin_or_attribute_problem lvl sc = true.
Proof.
  rewrite exact_all, <- should_fail_impl_iff. destruct (should_fail_impl lvl sc); cbn; split; congruence.
Qed.

Lemma problem_parts lvl sc :
  plugin_or_attribute_problem lvl sc = true <->
  s_nonstring_crit sc = true \/ plugin_unusable sc = true \/ plugin_exec_problem lvl sc = true
  \/ negb (plugin_demanded sc) && nothing_processes lvl sc = true.
Proof. unfold plugin_or_attribute_problem. rewrite !orb_true_iff. tauto. Qed.

(* ---------- the earlier statements (with their contract wf_sc) re-derived from the
   contract-free ones: same statements, proofs that do not go through C02_Core.core_ok ---------- *)
Lemma exact_thm_s : forall lvl sc, wf_sc sc = true ->
  (accepted (verify_core lvl sc) = false <->
   s_integrity_ok sc = false \/ enforced_failure lvl sc = true \/ plugin_or_attribute_problem lvl sc = true).
Proof. intros lvl sc _. apply exact_all_iff. Qed.

Lemma exact_partial_s lvl sc : wf_sc sc = true -> f12b lvl sc = false ->
  (accepted (verify_core lvl sc) = false <-> should_fail_full lvl sc = true).
Proof.
  intros _ F. rewrite (full_vs_impl lvl sc F), exact_all.
  destruct (should_fail_impl lvl sc); cbn; split; congruence.
Qed.

Lemma critical_processed_partial_s lvl sc : wf_sc sc = true ->
  f12b lvl sc = false -> accepted (verify_core lvl sc) = true ->
  s_nonstring_crit sc = false
  /\ (other_crit sc <> [] ->
      exists processed ti rev cs attrs,
        s_presp sc = PResp processed ti rev
        /\ o_exec (verify_core lvl sc) = Some (cs, attrs)
        /\ forall k, In k (other_crit sc) -> In k processed).
Proof.
  intros _ F A.
  pose proof (exact_all lvl sc) as E. rewrite A in E. symmetry in E. apply negb_true_iff in E.
  unfold should_fail_impl, plugin_or_attribute_problem in E. rewrite !orb_false_iff in E.
  destruct E as [[IO [[[NS PU] PE] NP]] EF]. split; [exact NS|]. intros OC.
  assert (AN : nonempty (asked lvl sc) = true).
  { unfold f12b in F. destruct (plugin_demanded sc); cbn in F, NP.
    - unfold nothing_processes, has_critical in F. destruct (other_crit sc); [congruence|]. cbn in F.
      now apply negb_false_iff in F.
    - unfold nothing_processes, has_critical in NP. destruct (other_crit sc); [congruence|]. cbn in NP.
      now apply negb_false_iff in NP. }
  assert (PR : plugin_run lvl sc = true).
  { unfold plugin_run, discovery_ok. rewrite AN, NS, PU, andb_true_r. apply negb_false_iff in IO. rewrite IO. cbn [negb andb].
    (* accepted: the native stage passed *)
    destruct (run_decomp lvl sc) as [[IO' _] | [(_ & PU' & _) | (_ & _ & _ & gets & EQ)]]; [congruence | |].
    - rewrite NS, PU in PU'. discriminate.
    - rewrite EQ, after_native_accepted in A. apply andb_true_iff in A. exact (proj1 A). }
  pose proof (exec_exact lvl sc) as EX. rewrite PR in EX.
  unfold plugin_exec_problem in PE. destruct (asked lvl sc) as [|c tv] eqn:AS; [discriminate|].
  destruct (s_presp sc) as [|processed ti rev]; [discriminate|].
  rewrite !orb_false_iff in PE. destruct PE as [[CP _] _]. apply negb_false_iff in CP.
  exists processed, ti, rev, (c :: tv), (other_keys sc). repeat split; [exact EX|].
  intros k HIn. unfold crit_processed in CP. rewrite forallb_forall in CP. apply mem_str_In. now apply CP.
Qed.

Lemma log_does_not_fail_s lvl sc : wf_sc sc = true ->
  (l_auth lvl <> Enforce -> forall n b,
     accepted (verify_core lvl (set_identity b (set_auth n sc))) = accepted (verify_core lvl sc))
  /\ (l_exp lvl <> Enforce -> forall b,
     accepted (verify_core lvl (set_expired b sc)) = accepted (verify_core lvl sc))
  /\ (l_ts lvl <> Enforce -> forall b,
     accepted (verify_core lvl (set_ts_ok b sc)) = accepted (verify_core lvl sc))
  /\ (l_rev lvl <> Enforce -> forall b,
     accepted (verify_core lvl (set_rev_ok b sc)) = accepted (verify_core lvl sc)).
Proof.
  intros _. repeat split; intros NE; intros; rewrite !exact_all.
  - now rewrite sfi_not_enforced_auth.
  - now rewrite sfi_not_enforced_expiry.
  - now rewrite sfi_not_enforced_ts.
  - now rewrite sfi_not_enforced_rev.
Qed.

Lemma skip_not_performed_s lvl sc : wf_sc sc = true -> l_rev lvl = Skip ->
  o_rev_called (verify_core lvl sc) = false
  /\ (forall cs attrs, o_exec (verify_core lvl sc) = Some (cs, attrs) -> ~ In CapRev cs)
  /\ (forall r, In r (o_results (verify_core lvl sc)) -> r_type r <> TRev).
Proof. intros _. apply skip_all. Qed.

Lemma capability_replaces_s : forall lvl sc caps, usable_caps sc = Some caps ->
  (has_cap CapTI caps = true ->
     (forall b, verify_core lvl (set_identity b sc) = verify_core lvl sc)
     /\ identity_failed sc = match s_presp sc with PResp _ (Some false) _ => true | _ => false end)
  /\ (has_cap CapRev caps = true ->
     (forall b, verify_core lvl (set_rev_ok b sc) = verify_core lvl sc)
     /\ (wf_sc sc = true -> o_rev_called (verify_core lvl sc) = false)
     /\ revocation_failed sc = match s_presp sc with PResp _ _ (Some false) => true | _ => false end).
Proof.
  intros lvl sc caps U. split; intros H.
  - split; [intros b; exact (replaces_identity lvl sc caps b U H) | exact (proj1 (replaces_verdict sc caps U) H)].
  - split; [intros b; exact (replaces_revocation lvl sc caps b U H)|].
    split; [| exact (proj2 (replaces_verdict sc caps U) H)].
    intros _. apply rev_capability_not_consulted. unfold hasRev, caps_of. now rewrite U.
Qed.

Lemma plugin_request_s lvl sc cs attrs : wf_sc sc = true ->
  o_exec (verify_core lvl sc) = Some (cs, attrs) ->
  cs = asked lvl sc /\ cs <> [] /\ attrs = other_keys sc.
Proof. intros _. apply plugin_request_all. Qed.

Lemma monotone_s l1 l2 sc : wf_sc sc = true -> level_le l1 l2 = true ->
  accepted (verify_core l1 sc) = true -> accepted (verify_core l2 sc) = true.
Proof. intros _. apply monotone_all. Qed.

Lemma monotone_named_s ov sc ls lp la : wf_sc sc = true ->
  level_for "strict" ov = Some ls -> level_for "permissive" ov = Some lp -> level_for "audit" ov = Some la ->
  (accepted (verify_core ls sc) = true -> accepted (verify_core lp sc) = true)
  /\ (accepted (verify_core lp sc) = true -> accepted (verify_core la sc) = true).
Proof. intros _. apply monotone_named_all. Qed.
