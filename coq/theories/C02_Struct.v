(* C02_Struct.v — property C02, audit round: facts about VerifyCore.process_signature
   proved STRUCTURALLY (induction over the capability list, case analysis of the
   native stage), hence for EVERY scenario: the input contract [wf_sc] (each
   verification capability listed at most once) of C02_Core.core_ok is not needed.

   Contents
     A. capability lists: membership after the skip filter, emptiness
     B. process_caps (processPluginResponse's loop): when it accepts, what it reports
     C. the native stage: when it passes, whether the validator is consulted, what it reports
     D. decomposition of a run (integrity / discovery / native stage / plugin stage)
     E. the theorems: exact acceptance rule and monotonicity without contract, which
        validations are performed (functional, not only safety), every reported result is
        truthful — in rejected runs too —, logged failures are reported whenever performed,
        the reasons of the property text spelled out. *)
From NV Require Import Base Regex Generated C02_Levels VerifyCore C02_Model C02_Core C02_Proofs.
Open Scope string_scope.
Open Scope list_scope.

(* ================================================================== *)
(* A. capability lists                                                 *)
(* ================================================================== *)

Definition skipb (lvl : level) : bool := action_eqb (l_rev lvl) Skip.

Lemma ctv_TI lvl caps : has_cap CapTI (caps_to_verify lvl caps) = has_cap CapTI caps.
Proof.
  unfold has_cap, caps_to_verify. destruct (action_eqb (l_rev lvl) Skip); cbn;
    induction caps as [|[] caps IH]; cbn; rewrite ?IH; reflexivity.
Qed.

Lemma ctv_Rev lvl caps : has_cap CapRev (caps_to_verify lvl caps) = has_cap CapRev caps && negb (skipb lvl).
Proof.
  unfold has_cap, caps_to_verify, skipb. destruct (action_eqb (l_rev lvl) Skip); cbn;
    induction caps as [|[] caps IH]; cbn; rewrite ?IH; cbn; rewrite ?andb_true_r, ?andb_false_r; reflexivity.
Qed.

Definition no_other (l : list cap) : Prop := Forall (fun c => c <> CapOther) l.

Lemma no_other_nonempty l : no_other l -> nonempty l = has_cap CapTI l || has_cap CapRev l.
Proof.
  intros F. destruct l as [|c l]; [reflexivity|]. inversion F as [|? ? Hc _]; subst.
  destruct c; try congruence; unfold has_cap; cbn; now rewrite ?orb_true_r.
Qed.

Lemma ctv_no_other lvl l : no_other l -> no_other (caps_to_verify lvl l).
Proof.
  unfold no_other, caps_to_verify. intros F. rewrite Forall_forall in *. intros c H.
  apply filter_In in H. now apply F.
Qed.

Lemma caps_of_no_other sc : no_other (caps_of sc).
Proof.
  unfold caps_of, usable_caps, no_other.
  assert (N : Forall (fun c => c <> CapOther) (@nil cap)) by constructor.
  destruct (s_plugin_attr sc) as [| | |name]; try exact N.
  destruct (blank name); [exact N|].
  destruct (attr_malformed (s_minver_attr sc)); [exact N|].
  destruct (match s_minver_attr sc with AStr _ => negb (s_minver_valid sc) | _ => false end); [exact N|].
  destruct (s_pm sc) as [| | |[] [] caps]; try exact N.
  destruct (verification_caps caps) eqn:E; [exact N|]. rewrite <- E. apply vcaps_no_other.
Qed.

(* ================================================================== *)
(* B. process_caps                                                     *)
(* ================================================================== *)

Lemma auth_action_set rs : auth_action (set_auth_failed rs) = auth_action rs.
Proof.
  induction rs as [|r rs IH]; [reflexivity|]. cbn [set_auth_failed auth_action].
  destruct (vtype_eqb (r_type r) TAuth) eqn:E; cbn [auth_action r_type r_action vtype_eqb]; [reflexivity|].
  rewrite E. exact IH.
Qed.

Lemma auth_action_app_rev rs a f : auth_action (rs ++ [mk_res TRev a f]) = auth_action rs.
Proof.
  induction rs as [|r rs IH]; [reflexivity|]. cbn [app auth_action].
  destruct (vtype_eqb (r_type r) TAuth); [reflexivity | exact IH].
Qed.

(* the verdicts asked for are all there and none of them is an enforced failure *)
Definition caps_fine (hT hR : bool) (ti rev : option bool) (aa lr : action) : bool :=
  (negb hT || match ti with Some true => true | Some false => negb (is_critical_failure aa true) | None => false end)
  && (negb hR || match rev with Some ok => negb (is_critical_failure lr (negb ok)) | None => false end).

Ltac fin_caps caps :=
  unfold caps_fine; cbn [negb orb andb is_critical_failure];
  generalize (existsb (cap_eqb CapTI) caps) (existsb (cap_eqb CapRev) caps);
  let hT := fresh "hT" in let hR := fresh "hR" in
  intros hT hR; destruct hT, hR; cbn [negb orb andb]; rewrite ?andb_false_r, ?andb_true_r; reflexivity.

Lemma process_caps_accept lvl ti rev caps : forall rs,
  err_eqb (fst (process_caps lvl ti rev caps rs)) ENone
  = caps_fine (has_cap CapTI caps) (has_cap CapRev caps) ti rev (auth_action rs) (l_rev lvl).
Proof.
  unfold has_cap. induction caps as [|c caps IH]; intros rs; [reflexivity|].
  destruct c; cbn [process_caps existsb cap_eqb orb].
  - destruct ti as [[|]|].
    + rewrite IH. fin_caps caps.
    + destruct (auth_action rs) eqn:AA; cbn [is_critical_failure fst err_eqb].
      * fin_caps caps.
      * rewrite IH, auth_action_set, AA. fin_caps caps.
      * rewrite IH, auth_action_set, AA. fin_caps caps.
    + fin_caps caps.
  - destruct rev as [ok|].
    + destruct (is_critical_failure (l_rev lvl) (negb ok)) eqn:CF; cbn [fst err_eqb].
      * unfold caps_fine. rewrite CF. cbn. now rewrite andb_false_r.
      * rewrite IH, auth_action_app_rev. unfold caps_fine. rewrite CF. cbn.
        now rewrite andb_true_r, orb_true_r, andb_true_r.
    + unfold caps_fine. cbn. now rewrite andb_false_r.
  - apply IH.
Qed.

(* ================================================================== *)
(* C. the native stage                                                 *)
(* ================================================================== *)

Definition na0 (sc : scenario) : bool := negb (s_auth sc =? 0)%N.

(* the authenticity validation as notation itself performs it: trust store
   authenticity and, unless a plugin capability replaces it, trusted identity *)
Definition native_auth_failed_with (sc : scenario) (hT : bool) : bool :=
  na0 sc || (negb hT && negb (s_identity_ok sc)).

(* no enforced failure among authenticity, expiry, authentic timestamp *)
Definition pre_ok (lvl : level) (sc : scenario) (hT : bool) : bool :=
  negb (enforced (l_auth lvl) (native_auth_failed_with sc hT))
  && negb (enforced (l_exp lvl) (s_expired sc))
  && negb (enforced (l_ts lvl) (negb (s_ts_ok sc))).

(* revocation is notation's own business: not skipped, not taken over by the plugin *)
Definition native_rev (lvl : level) (hR : bool) : bool := negb (skipb lvl) && negb hR.

Definition native_ok (lvl : level) (sc : scenario) (hT hR : bool) : bool :=
  pre_ok lvl sc hT && negb (native_rev lvl hR && enforced (l_rev lvl) (negb (s_rev_ok sc))).

Definition reach_exp (lvl : level) (sc : scenario) (hT : bool) : bool :=
  negb (enforced (l_auth lvl) (native_auth_failed_with sc hT)).
Definition reach_ts (lvl : level) (sc : scenario) (hT : bool) : bool :=
  reach_exp lvl sc hT && negb (enforced (l_exp lvl) (s_expired sc)).

Definition native_types (lvl : level) (sc : scenario) (hT hR : bool) : list vtype :=
  [TIntegrity; TAuth]
  ++ (if reach_exp lvl sc hT then [TExpiry] else [])
  ++ (if reach_ts lvl sc hT then [TTimestamp] else [])
  ++ (if pre_ok lvl sc hT && native_rev lvl hR then [TRev] else []).

(* a result of the native stage: action of the level, outcome = the native fact *)
Definition nat_res_ok (lvl : level) (sc : scenario) (hT hR : bool) (r : result) : bool :=
  action_eqb (r_action r) (act_of lvl (r_type r))
  && match r_type r with
     | TIntegrity => negb (r_failed r)
     | TAuth => Bool.eqb (r_failed r) (native_auth_failed_with sc hT)
     | TExpiry => Bool.eqb (r_failed r) (s_expired sc)
     | TTimestamp => Bool.eqb (r_failed r) (negb (s_ts_ok sc))
     | TRev => Bool.eqb (r_failed r) (negb (s_rev_ok sc)) && native_rev lvl hR
     end.

Definition native_check (lvl : level) (sc : scenario) (caps : list cap) : bool :=
  let hT := has_cap CapTI caps in
  let hR := has_cap CapRev caps in
  let '(e, rs, called) := native lvl sc caps in
  Bool.eqb (err_eqb e ENone) (native_ok lvl sc hT hR)
  && Bool.eqb called (pre_ok lvl sc hT && native_rev lvl hR)
  && action_eqb (auth_action rs) (l_auth lvl)
  && forallb (nat_res_ok lvl sc hT hR) rs
  && list_eqb vtype_eqb (map r_type rs) (native_types lvl sc hT hR)
  && match e with
     | ENone => true
     | EResult t => existsb (fun r => vtype_eqb (r_type r) t && action_eqb (r_action r) Enforce && r_failed r) rs
     | _ => false
     end.

Lemma native_check_ok lvl sc caps : native_check lvl sc caps = true.
Proof.
  destruct lvl as [la lt le lr].
  unfold native_check, native, native_types, native_ok, nat_res_ok, reach_ts, reach_exp, pre_ok, native_rev,
    native_auth_failed_with, na0, skipb.
  cbn [l_auth l_ts l_exp l_rev].
  generalize (s_auth sc =? 0)%N (s_identity_ok sc) (s_expired sc) (s_ts_ok sc) (s_rev_ok sc)
    (has_cap CapTI caps) (has_cap CapRev caps).
  intros a0 idn ex ts rv hT hR. enum_all.
Qed.

Section NativeFacts.
  Variables (lvl : level) (sc : scenario) (caps : list cap).
  Let hT := has_cap CapTI caps.
  Let hR := has_cap CapRev caps.

  Lemma native_parts :
    err_eqb (fst (fst (native lvl sc caps))) ENone = native_ok lvl sc hT hR
    /\ snd (native lvl sc caps) = (pre_ok lvl sc hT && native_rev lvl hR)
    /\ auth_action (snd (fst (native lvl sc caps))) = l_auth lvl
    /\ forallb (nat_res_ok lvl sc hT hR) (snd (fst (native lvl sc caps))) = true
    /\ map r_type (snd (fst (native lvl sc caps))) = native_types lvl sc hT hR
    /\ match fst (fst (native lvl sc caps)) with
       | ENone => True
       | EResult t => exists r, In r (snd (fst (native lvl sc caps))) /\ r_type r = t /\ r_action r = Enforce /\ r_failed r = true
       | _ => False
       end.
  Proof.
    pose proof (native_check_ok lvl sc caps) as H. unfold native_check in H. fold hT hR in H.
    destruct (native lvl sc caps) as [[e rs] called]. cbn [fst snd].
    rewrite !andb_true_iff in H. destruct H as [[[[[H1 H2] H3] H4] H5] H6].
    apply Bool.eqb_prop in H1, H2. apply action_eqb_eq in H3.
    apply (list_eqb_spec _ vtype_eqb_eq) in H5.
    repeat split; try assumption.
    destruct e as [|t| |]; try exact I; try discriminate.
    apply existsb_exists in H6. destruct H6 as (r & HIn & P). rewrite !andb_true_iff in P.
    destruct P as [[T A] F]. apply vtype_eqb_eq in T. apply action_eqb_eq in A. eauto.
  Qed.
End NativeFacts.
