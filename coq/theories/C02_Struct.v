(* C02_Struct.v — property C02, audit round: facts about VerifyCore.process_signature
   proved STRUCTURALLY (induction over the capability list, case analysis of the
   native stage), hence for EVERY scenario: the input contract [wf_sc] (each
   verification capability listed at most once) of C02_Core.core_ok is not needed.

   Contents
     A. capability lists: membership after the skip filter, emptiness
     B. process_caps (processPluginResponse's loop): when it accepts, what it reports
     C. the native stage: when it passes, whether the validator is consulted, what it reports
     D. decomposition of a run (integrity / discovery / native stage / plugin stage)
     E. the theorems: exact acceptance rule and monotonicity without contract, which
        validations are performed (functional, not only safety), every reported result is
        truthful — in rejected runs too —, logged failures are reported whenever performed,
        the reasons of the property text spelled out. *)
From NV Require Import Base Regex Generated C02_Levels VerifyCore C02_Model C02_Core C02_Proofs.
Open Scope string_scope.
Open Scope list_scope.

(* ================================================================== *)
(* A. capability lists                                                 *)
(* ================================================================== *)

Definition skipb (lvl : level) : bool := action_eqb (l_rev lvl) Skip.

Lemma ctv_TI lvl caps : has_cap CapTI (caps_to_verify lvl caps) = has_cap CapTI caps.
Proof.
  unfold has_cap, caps_to_verify. destruct (action_eqb (l_rev lvl) Skip); cbn;
    induction caps as [|[] caps IH]; cbn; rewrite ?IH; reflexivity.
Qed.

Lemma ctv_Rev lvl caps : has_cap CapRev (caps_to_verify lvl caps) = has_cap CapRev caps && negb (skipb lvl).
Proof.
  unfold has_cap, caps_to_verify, skipb. destruct (action_eqb (l_rev lvl) Skip); cbn;
    induction caps as [|[] caps IH]; cbn; rewrite ?IH; cbn; rewrite ?andb_true_r, ?andb_false_r; reflexivity.
Qed.

Definition no_other (l : list cap) : Prop := Forall (fun c => c <> CapOther) l.

Lemma no_other_nonempty l : no_other l -> nonempty l = has_cap CapTI l || has_cap CapRev l.
Proof.
  intros F. destruct l as [|c l]; [reflexivity|]. inversion F as [|? ? Hc _]; subst.
  destruct c; try congruence; unfold has_cap; cbn; now rewrite ?orb_true_r.
Qed.

Lemma ctv_no_other lvl l : no_other l -> no_other (caps_to_verify lvl l).
Proof.
  unfold no_other, caps_to_verify. intros F. rewrite Forall_forall in *. intros c H.
  apply filter_In in H. now apply F.
Qed.

Lemma caps_of_no_other sc : no_other (caps_of sc).
Proof.
  unfold caps_of, usable_caps, no_other.
  assert (N : Forall (fun c => c <> CapOther) (@nil cap)) by constructor.
  destruct (s_plugin_attr sc) as [| | |name]; try exact N.
  destruct (blank name); [exact N|].
  destruct (attr_malformed (s_minver_attr sc)); [exact N|].
  destruct (match s_minver_attr sc with AStr _ => negb (s_minver_valid sc) | _ => false end); [exact N|].
  destruct (s_pm sc) as [| | |[] [] caps]; try exact N.
  destruct (verification_caps caps) eqn:E; [exact N|]. rewrite <- E. apply vcaps_no_other.
Qed.

(* ================================================================== *)
(* B. process_caps                                                     *)
(* ================================================================== *)

Lemma auth_action_set rs : auth_action (set_auth_failed rs) = auth_action rs.
Proof.
  induction rs as [|r rs IH]; [reflexivity|]. cbn [set_auth_failed auth_action].
  destruct (vtype_eqb (r_type r) TAuth) eqn:E; cbn [auth_action r_type r_action vtype_eqb]; [reflexivity|].
  rewrite E. exact IH.
Qed.

Lemma auth_action_app_rev rs a f : auth_action (rs ++ [mk_res TRev a f]) = auth_action rs.
Proof.
  induction rs as [|r rs IH]; [reflexivity|]. cbn [app auth_action].
  destruct (vtype_eqb (r_type r) TAuth); [reflexivity | exact IH].
Qed.

(* the verdicts asked for are all there and none of them is an enforced failure *)
Definition caps_fine (hT hR : bool) (ti rev : option bool) (aa lr : action) : bool :=
  (negb hT || match ti with Some true => true | Some false => negb (is_critical_failure aa true) | None => false end)
  && (negb hR || match rev with Some ok => negb (is_critical_failure lr (negb ok)) | None => false end).

Ltac fin_caps caps :=
  unfold caps_fine; cbn [negb orb andb is_critical_failure];
  generalize (existsb (cap_eqb CapTI) caps) (existsb (cap_eqb CapRev) caps);
  let hT := fresh "hT" in let hR := fresh "hR" in
  intros hT hR; destruct hT, hR; cbn [negb orb andb]; rewrite ?andb_false_r, ?andb_true_r; reflexivity.

Lemma process_caps_accept lvl ti rev caps : forall rs,
  err_eqb (fst (process_caps lvl ti rev caps rs)) ENone
  = caps_fine (has_cap CapTI caps) (has_cap CapRev caps) ti rev (auth_action rs) (l_rev lvl).
Proof.
  unfold has_cap. induction caps as [|c caps IH]; intros rs; [reflexivity|].
  destruct c; cbn [process_caps existsb cap_eqb orb].
  - destruct ti as [[|]|].
    + rewrite IH. fin_caps caps.
    + destruct (auth_action rs) eqn:AA; cbn [is_critical_failure fst err_eqb].
      * fin_caps caps.
      * rewrite IH, auth_action_set, AA. fin_caps caps.
      * rewrite IH, auth_action_set, AA. fin_caps caps.
    + fin_caps caps.
  - destruct rev as [ok|].
    + destruct (is_critical_failure (l_rev lvl) (negb ok)) eqn:CF; cbn [fst err_eqb].
      * unfold caps_fine. rewrite CF. cbn. now rewrite andb_false_r.
      * rewrite IH, auth_action_app_rev. unfold caps_fine. rewrite CF. cbn.
        now rewrite andb_true_r, orb_true_r, andb_true_r.
    + unfold caps_fine. cbn. now rewrite andb_false_r.
  - apply IH.
Qed.

(* ================================================================== *)
(* C. the native stage                                                 *)
(* ================================================================== *)

Definition na0 (sc : scenario) : bool := negb (s_auth sc =? 0)%N.

(* the authenticity validation as notation itself performs it: trust store
   authenticity and, unless a plugin capability replaces it, trusted identity *)
Definition native_auth_failed_with (sc : scenario) (hT : bool) : bool :=
  na0 sc || (negb hT && negb (s_identity_ok sc)).

(* no enforced failure among authenticity, expiry, authentic timestamp *)
Definition pre_ok (lvl : level) (sc : scenario) (hT : bool) : bool :=
  negb (enforced (l_auth lvl) (native_auth_failed_with sc hT))
  && negb (enforced (l_exp lvl) (s_expired sc))
  && negb (enforced (l_ts lvl) (negb (s_ts_ok sc))).

(* revocation is notation's own business: not skipped, not taken over by the plugin *)
Definition native_rev (lvl : level) (hR : bool) : bool := negb (skipb lvl) && negb hR.

Definition native_ok (lvl : level) (sc : scenario) (hT hR : bool) : bool :=
  pre_ok lvl sc hT && negb (native_rev lvl hR && enforced (l_rev lvl) (negb (s_rev_ok sc))).

Definition reach_exp (lvl : level) (sc : scenario) (hT : bool) : bool :=
  negb (enforced (l_auth lvl) (native_auth_failed_with sc hT)).
Definition reach_ts (lvl : level) (sc : scenario) (hT : bool) : bool :=
  reach_exp lvl sc hT && negb (enforced (l_exp lvl) (s_expired sc)).

Definition native_types (lvl : level) (sc : scenario) (hT hR : bool) : list vtype :=
  [TIntegrity; TAuth]
  ++ (if reach_exp lvl sc hT then [TExpiry] else [])
  ++ (if reach_ts lvl sc hT then [TTimestamp] else [])
  ++ (if pre_ok lvl sc hT && native_rev lvl hR then [TRev] else []).

(* a result of the native stage: action of the level, outcome = the native fact *)
Definition nat_res_ok (lvl : level) (sc : scenario) (hT hR : bool) (r : result) : bool :=
  action_eqb (r_action r) (act_of lvl (r_type r))
  && match r_type r with
     | TIntegrity => negb (r_failed r)
     | TAuth => Bool.eqb (r_failed r) (native_auth_failed_with sc hT)
     | TExpiry => Bool.eqb (r_failed r) (s_expired sc)
     | TTimestamp => Bool.eqb (r_failed r) (negb (s_ts_ok sc))
     | TRev => Bool.eqb (r_failed r) (negb (s_rev_ok sc)) && native_rev lvl hR
     end.

Definition native_check (lvl : level) (sc : scenario) (caps : list cap) : bool :=
  let hT := has_cap CapTI caps in
  let hR := has_cap CapRev caps in
  let '(e, rs, called) := native lvl sc caps in
  Bool.eqb (err_eqb e ENone) (native_ok lvl sc hT hR)
  && Bool.eqb called (pre_ok lvl sc hT && native_rev lvl hR)
  && action_eqb (auth_action rs) (l_auth lvl)
  && forallb (nat_res_ok lvl sc hT hR) rs
  && list_eqb vtype_eqb (map r_type rs) (native_types lvl sc hT hR)
  && match e with
     | ENone => true
     | EResult t => existsb (fun r => vtype_eqb (r_type r) t && action_eqb (r_action r) Enforce && r_failed r) rs
     | _ => false
     end.

Lemma native_check_ok lvl sc caps : native_check lvl sc caps = true.
Proof.
  destruct lvl as [la lt le lr].
  unfold native_check, native, native_types, native_ok, nat_res_ok, reach_ts, reach_exp, pre_ok, native_rev,
    native_auth_failed_with, na0, skipb.
  cbn [l_auth l_ts l_exp l_rev].
  generalize (s_auth sc =? 0)%N (s_identity_ok sc) (s_expired sc) (s_ts_ok sc) (s_rev_ok sc)
    (has_cap CapTI caps) (has_cap CapRev caps).
  intros a0 idn ex ts rv hT hR. enum_all.
Qed.

Section NativeFacts.
  Variables (lvl : level) (sc : scenario) (caps : list cap).
  Let hT := has_cap CapTI caps.
  Let hR := has_cap CapRev caps.

  Lemma native_parts :
    err_eqb (fst (fst (native lvl sc caps))) ENone = native_ok lvl sc hT hR
    /\ snd (native lvl sc caps) = (pre_ok lvl sc hT && native_rev lvl hR)
    /\ auth_action (snd (fst (native lvl sc caps))) = l_auth lvl
    /\ forallb (nat_res_ok lvl sc hT hR) (snd (fst (native lvl sc caps))) = true
    /\ map r_type (snd (fst (native lvl sc caps))) = native_types lvl sc hT hR
    /\ match fst (fst (native lvl sc caps)) with
       | ENone => True
       | EResult t => exists r, In r (snd (fst (native lvl sc caps))) /\ r_type r = t /\ r_action r = Enforce /\ r_failed r = true
       | _ => False
       end.
  Proof.
    pose proof (native_check_ok lvl sc caps) as H. unfold native_check in H. fold hT hR in H.
    destruct (native lvl sc caps) as [[e rs] called]. cbn [fst snd].
    rewrite !andb_true_iff in H. destruct H as [[[[[H1 H2] H3] H4] H5] H6].
    apply Bool.eqb_prop in H1, H2. apply action_eqb_eq in H3.
    apply (list_eqb_spec _ vtype_eqb_eq) in H5.
    repeat split; try assumption.
    destruct e as [|t| |]; try exact I; try discriminate.
    apply existsb_exists in H6. destruct H6 as (r & HIn & P). rewrite !andb_true_iff in P.
    destruct P as [[T A] F]. apply vtype_eqb_eq in T. apply action_eqb_eq in A. eauto.
  Qed.
End NativeFacts.

(* ---------- every reported result is truthful ---------- *)
Definition native_auth_failed (sc : scenario) : bool :=
  native_auth_failed_with sc (has_cap CapTI (caps_of sc)).

(* a reported result carries the action of the level, and its outcome is the fact:
   expiry, authentic timestamp, revocation (native or plugin verdict, whoever owns it) exactly;
   authenticity: reported failed only if it failed, and always when notation's own part failed *)
Definition res_truthful (lvl : level) (sc : scenario) (r : result) : bool :=
  action_eqb (r_action r) (act_of lvl (r_type r))
  && match r_type r with
     | TIntegrity => Bool.eqb (r_failed r) (negb (s_integrity_ok sc))
     | TAuth => implb (r_failed r) (authenticity_failed sc) && implb (native_auth_failed sc) (r_failed r)
     | TExpiry => Bool.eqb (r_failed r) (s_expired sc)
     | TTimestamp => Bool.eqb (r_failed r) (negb (s_ts_ok sc))
     | TRev => Bool.eqb (r_failed r) (revocation_failed sc)
     end.

Lemma nat_res_truthful lvl sc r : s_integrity_ok sc = true ->
  nat_res_ok lvl sc (has_cap CapTI (caps_of sc)) (has_cap CapRev (caps_of sc)) r = true ->
  res_truthful lvl sc r = true.
Proof.
  intros IO. unfold nat_res_ok, res_truthful, native_auth_failed, authenticity_failed, identity_failed,
    revocation_failed, native_auth_failed_with, native_rev, na0. rewrite IO.
  destruct r as [t a f]. cbn [r_type r_action r_failed].
  generalize (s_auth sc =? 0)%N (s_identity_ok sc) (s_expired sc) (s_ts_ok sc) (s_rev_ok sc)
    (has_cap CapTI (caps_of sc)) (has_cap CapRev (caps_of sc)) (skipb lvl)
    (match s_presp sc with PResp _ (Some false) _ => true | _ => false end)
    (match s_presp sc with PResp _ _ (Some false) => true | _ => false end)
    (action_eqb a (act_of lvl t)).
  intros a0 idn ex ts rv hT hR sk pti prv ae.
  destruct t, ae, f, a0, idn, ex, ts, rv, hT, hR, sk, pti, prv; cbn; congruence.
Qed.

Lemma set_auth_truthful lvl sc rs : authenticity_failed sc = true ->
  forallb (res_truthful lvl sc) rs = true -> forallb (res_truthful lvl sc) (set_auth_failed rs) = true.
Proof.
  intros AF. induction rs as [|r rs IH]; cbn [set_auth_failed forallb]; [auto|].
  rewrite andb_true_iff. intros [H1 H2].
  destruct (vtype_eqb (r_type r) TAuth) eqn:E; cbn [forallb]; rewrite andb_true_iff; split; auto.
  apply vtype_eqb_eq in E. unfold res_truthful in *. cbn [r_type r_action r_failed]. rewrite E in H1.
  rewrite AF. apply andb_true_iff in H1. destruct H1 as [A _]. rewrite A.
  destruct (native_auth_failed sc); reflexivity.
Qed.

Lemma has_cap_cons_r c x l : has_cap c l = true -> has_cap c (x :: l) = true.
Proof. unfold has_cap. cbn. intros ->. now rewrite orb_true_r. Qed.

Lemma process_caps_truthful lvl sc p ti rev : s_presp sc = PResp p ti rev ->
  forall caps rs,
    (has_cap CapTI caps = true -> has_cap CapTI (caps_of sc) = true) ->
    (has_cap CapRev caps = true -> has_cap CapRev (caps_of sc) = true) ->
    forallb (res_truthful lvl sc) rs = true ->
    forallb (res_truthful lvl sc) (snd (process_caps lvl ti rev caps rs)) = true.
Proof.
  intros PR. induction caps as [|c caps IH]; intros rs HT HR F; [exact F|].
  assert (HT' : has_cap CapTI caps = true -> has_cap CapTI (caps_of sc) = true)
    by (intros H; apply HT; now apply has_cap_cons_r).
  assert (HR' : has_cap CapRev caps = true -> has_cap CapRev (caps_of sc) = true)
    by (intros H; apply HR; now apply has_cap_cons_r).
  destruct c; cbn [process_caps].
  - destruct ti as [[|]|]; [now apply IH | | exact F].
    assert (AF : authenticity_failed sc = true).
    { unfold authenticity_failed, identity_failed. rewrite (HT eq_refl), PR. now rewrite orb_true_r. }
    pose proof (set_auth_truthful lvl sc rs AF F) as F'.
    destruct (is_critical_failure (auth_action rs) true); [exact F'|]. now apply IH.
  - destruct rev as [ok|]; [|exact F].
    assert (F' : forallb (res_truthful lvl sc) (rs ++ [mk_res TRev (l_rev lvl) (negb ok)]) = true).
    { rewrite forallb_app, F. cbn [forallb andb]. rewrite andb_true_r.
      unfold res_truthful. cbn [r_type r_action r_failed act_of]. unfold revocation_failed.
      rewrite (HR eq_refl), PR. destruct (l_rev lvl), ok; reflexivity. }
    destruct (is_critical_failure (l_rev lvl) (negb ok)); [exact F'|]. now apply IH.
  - now apply IH.
Qed.

(* which result types the plugin stage adds: only revocation results, and none
   unless the revocation capability is asked *)
Lemma set_auth_types rs : map r_type (set_auth_failed rs) = map r_type rs.
Proof.
  induction rs as [|r rs IH]; [reflexivity|]. cbn [set_auth_failed].
  destruct (vtype_eqb (r_type r) TAuth) eqn:E; cbn [map r_type]; [|now rewrite IH].
  apply vtype_eqb_eq in E. now rewrite E.
Qed.

Lemma process_caps_types lvl ti rev caps : forall rs,
  exists k, map r_type (snd (process_caps lvl ti rev caps rs)) = map r_type rs ++ repeat TRev k
            /\ (has_cap CapRev caps = false -> k = 0%nat).
Proof.
  induction caps as [|c caps IH]; intros rs.
  - exists 0%nat. cbn. now rewrite app_nil_r.
  - destruct c; cbn [process_caps].
    + destruct ti as [[|]|].
      * apply IH.
      * destruct (is_critical_failure (auth_action rs) true).
        -- exists 0%nat. cbn [snd repeat]. now rewrite app_nil_r, set_auth_types.
        -- destruct (IH (set_auth_failed rs)) as (k & E & Z). exists k. now rewrite E, set_auth_types.
      * exists 0%nat. cbn. now rewrite app_nil_r.
    + destruct rev as [ok|].
      * destruct (is_critical_failure (l_rev lvl) (negb ok)).
        -- exists 1%nat. cbn [snd]. rewrite map_app. split; [reflexivity | discriminate].
        -- destruct (IH (rs ++ [mk_res TRev (l_rev lvl) (negb ok)])) as (k & E & _). exists (S k).
           rewrite E, map_app, <- app_assoc. split; [reflexivity | discriminate].
      * exists 0%nat. cbn [snd repeat]. rewrite app_nil_r. split; [reflexivity | discriminate].
    + destruct (IH rs) as (k & E & Z). exists k. split; [exact E | exact Z].
Qed.

(* ================================================================== *)
(* D. decomposition of a run                                           *)
(* ================================================================== *)

Definition obs_bad : obs := mk_obs (EResult TIntegrity) [mk_res TIntegrity Enforce true] false [] None.
Definition integ_res : result := mk_res TIntegrity Enforce false.

(* processSignature from "verify x509 trust store based authenticity" on *)
Definition after_native (lvl : level) (sc : scenario) (caps : list cap) (gets : list string) (plugin : bool) : obs :=
  match native lvl sc caps with
  | (ENone, rs4, called) =>
      let to_verify := caps_to_verify lvl caps in
      match to_verify with
      | _ :: _ =>
          let exec := Some (to_verify, other_keys sc) in
          match s_presp sc with
          | PErr => mk_obs EOther rs4 called gets exec
          | PResp processed ti rev =>
              let '(e, rs5) := process_plugin_response crit_processed lvl sc to_verify processed ti rev rs4 in
              mk_obs e rs5 called gets exec
          end
      | [] =>
          if negb plugin && any_critical_attribute sc
          then mk_obs EInconclusive rs4 called gets None
          else mk_obs ENone rs4 called gets None
      end
  | (e, rs, called) => mk_obs e rs called gets None
  end.

Lemma run_cases lvl sc :
  verify_core lvl sc =
  if s_integrity_ok sc then
    match discover sc with
    | DErr e gets => mk_obs e [integ_res] false gets None
    | DNoPlugin => after_native lvl sc [] [] false
    | DPlugin n vc => after_native lvl sc vc [n] true
    end
  else obs_bad.
Proof.
  unfold verify_core, process_signature, process_signature_gen, after_native.
  destruct (s_integrity_ok sc); cbn [negb]; [|reflexivity].
  destruct (discover sc); reflexivity.
Qed.

Lemma run_decomp lvl sc :
  (s_integrity_ok sc = false /\ verify_core lvl sc = obs_bad)
  \/ (s_integrity_ok sc = true /\ s_nonstring_crit sc || plugin_unusable sc = true
      /\ exists e gets, (e = EInconclusive \/ e = EOther) /\ verify_core lvl sc = mk_obs e [integ_res] false gets None)
  \/ (s_integrity_ok sc = true /\ s_nonstring_crit sc = false /\ plugin_unusable sc = false
      /\ exists gets, verify_core lvl sc = after_native lvl sc (caps_of sc) gets (plugin_demanded sc)).
Proof.
  rewrite (run_cases lvl sc). pose proof (discover_spec sc) as DS.
  destruct (s_integrity_ok sc); [|left; auto]. right.
  destruct (discover sc) as [e gets| |n vc].
  - left. destruct DS as [NE PU]. repeat split; [exact PU|]. eauto.
  - right. destruct DS as (PD & NS & UC). unfold plugin_unusable, caps_of. rewrite PD, NS, UC.
    repeat split. eauto.
  - right. destruct DS as (UC & PD & NS & _). unfold plugin_unusable, caps_of. rewrite PD, NS, UC.
    repeat split. eauto.
Qed.
