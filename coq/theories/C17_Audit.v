(* C17_Audit.v — lemmas added by the theorem audit (docs/audit/C17.md):
   converse directions, exhaustive classification of the result, the verdict on
   a metadata reply rule by rule, calls whose process never ran, the name check
   against the FILE name, the wiring io.Copy -> LimitedWriter -> executor error,
   the time bound instantiated at the configuration CLIPlugin really uses. *)
From NV Require Import Base Generated C17_Model C17_Proofs.

Local Open Scope N_scope.

(* ------------------------------------------------------------------ *)
(* the plugin's own error is returned ONLY when it printed it          *)
(* ------------------------------------------------------------------ *)

Lemma stderr_result_req : forall e c m md,
  stderr_result e = RReq c m md -> structured e c m md.
Proof.
  intros [|code msg d] c m md H; cbn in H; [discriminate|].
  destruct (String.eqb code "" && String.eqb msg "" && is_none d) eqn:E; [discriminate|].
  inversion H; subst. split; [reflexivity|].
  destruct (String.eqb_spec c ""); [|tauto]. destruct (String.eqb_spec m ""); [|tauto].
  destruct md; [right; right; discriminate | discriminate E].
Qed.

Lemma request_error_only : forall i c m md,
  p_result (model_p i) = RReq c m md ->
  started i = true /\ exec_failed i = true /\ captured_stderr i <> 0
  /\ structured (i_stderr i) c m md.
Proof.
  intros i c m md H. rewrite model_p_result in H.
  assert (Hr : run_result i = RReq c m md).
  { destruct (i_file i); try exact H; discriminate H. }
  clear H. unfold run_result in Hr.
  destruct (exec_failed i) eqn:Ef.
  - destruct (captured_stderr i =? 0) eqn:E0; [discriminate|].
    apply N.eqb_neq in E0.
    assert (Hst : started i = true).
    { unfold captured_stderr in E0. destruct (started i); [reflexivity | now elim E0]. }
    split; [exact Hst|]. split; [reflexivity|]. split; [exact E0|]. now apply stderr_result_req.
  - destruct (i_stdout i) as [|mm]; [discriminate|].
    destruct (is_metadata (i_cmd i)); [|discriminate].
    destruct (validate mm); [destruct (String.eqb (m_name mm) (i_name i))|]; discriminate.
Qed.

(* ------------------------------------------------------------------ *)
(* validate: the first rule that fails, rule by rule                   *)
(* ------------------------------------------------------------------ *)

Lemma validate_rules : forall m,
  (m_name m = "" -> validate m = 1)
  /\ (m_name m <> "" -> m_desc m = "" -> validate m = 2)
  /\ (m_name m <> "" -> m_desc m <> "" -> m_ver m = "" -> validate m = 3)
  /\ (m_name m <> "" -> m_desc m <> "" -> m_ver m <> "" -> m_url m = "" -> validate m = 4)
  /\ (m_name m <> "" -> m_desc m <> "" -> m_ver m <> "" -> m_url m <> "" -> m_caps m = [] -> validate m = 5)
  /\ (m_name m <> "" -> m_desc m <> "" -> m_ver m <> "" -> m_url m <> "" -> m_caps m <> [] ->
      m_cvs m = [] -> validate m = 6)
  /\ (m_name m <> "" -> m_desc m <> "" -> m_ver m <> "" -> m_url m <> "" -> m_caps m <> [] ->
      m_cvs m <> [] -> ~ In contract_version (m_cvs m) -> validate m = 7)
  /\ (validate m <= 7).
Proof.
  intros [n d v u cs cv]. unfold validate. cbn [m_name m_desc m_ver m_url m_caps m_cvs].
  destruct (String.eqb_spec n ""); [repeat split; try reflexivity; try (intros; congruence); lia|].
  destruct (String.eqb_spec d ""); [repeat split; try reflexivity; try (intros; congruence); lia|].
  destruct (String.eqb_spec v ""); [repeat split; try reflexivity; try (intros; congruence); lia|].
  destruct (String.eqb_spec u ""); [repeat split; try reflexivity; try (intros; congruence); lia|].
  destruct cs as [|c cs]; [repeat split; try reflexivity; try (intros; congruence); lia|].
  destruct cv as [|c' cv]; [repeat split; try reflexivity; try (intros; congruence); lia|].
  destruct (mem_str contract_version (c' :: cv)) eqn:E.
  - apply mem_str_In in E. repeat split; try (intros; congruence); try lia; try (intros; tauto).
  - repeat split; try reflexivity; try (intros; congruence); lia.
Qed.

(* any single missing field (or an unsupported contract version) is fatal,
   whatever the other fields say *)
Lemma validate_rejects : forall m,
  m_name m = "" \/ m_desc m = "" \/ m_ver m = "" \/ m_url m = "" \/ m_caps m = [] \/ m_cvs m = []
  \/ ~ In contract_version (m_cvs m) ->
  validate m <> 0.
Proof.
  intros m H E. apply validate_ok_iff in E. destruct E as (H1 & H2 & H3 & H4 & H5 & H6 & H7).
  destruct H as [H|[H|[H|[H|[H|[H|H]]]]]]; congruence || tauto.
Qed.

(* ------------------------------------------------------------------ *)
(* the verdict when the executor did not fail                          *)
(* ------------------------------------------------------------------ *)

Lemma run_verdict : forall i,
  exec_failed i = false ->
  p_result (model_p i) =
  match i_stdout i with
  | SBad => RMalformed 8
  | SGood m =>
      match i_cmd i with
      | GetMetadata =>
          match validate m with
          | 0 => if String.eqb (m_name m) (i_name i) then ROk else RName
          | k => RMalformed k
          end
      | _ => ROk
      end
  end.
Proof.
  intros i Ef. rewrite model_p_result.
  pose proof Ef as Ef'. apply exec_failed_false_iff in Ef' as (Hst & _).
  apply started_iff in Hst as [Hf _]. rewrite Hf.
  unfold run_result. rewrite Ef. destruct (i_stdout i) as [|m]; [reflexivity|].
  destruct (i_cmd i); reflexivity.
Qed.

(* every result the model can produce, and when *)
Lemma result_classes : forall i,
  let r := p_result (model_p i) in
  ((i_file i = FMissing \/ i_file i = FDir) /\ r = RNew)
  \/ ((i_file i = FExec \/ i_file i = FNoExec) /\ exec_failed i = true /\
      ((captured_stderr i = 0 /\ r = RExec)
       \/ (captured_stderr i <> 0 /\ exists c m md, structured (i_stderr i) c m md /\ r = RReq c m md)
       \/ (captured_stderr i <> 0 /\ (forall c m md, ~ structured (i_stderr i) c m md) /\ r = RMalformed 0)))
  \/ (i_file i = FExec /\ exec_failed i = false /\
      (r = ROk \/ r = RName \/ r = RMalformed 8
       \/ exists k, 1 <= k <= 7 /\ i_cmd i = GetMetadata /\ r = RMalformed k)).
Proof.
  intros i. cbn zeta.
  destruct (i_file i) eqn:Hf.
  3,4: left; split; [tauto | rewrite model_p_result, Hf; reflexivity].
  all: right.
  all: destruct (exec_failed i) eqn:Ef.
  - left. split; [tauto|]. split; [reflexivity|].
    destruct (error_kind i (or_introl Hf) Ef) as (E1 & E2 & E3).
    destruct (N.eq_dec (captured_stderr i) 0) as [H0|H0]; [left; split; [exact H0 | now apply E1]|].
    right. destruct (i_stderr i) as [|c m md] eqn:He.
    + right. split; [exact H0|].
      assert (Hno : forall c m md, ~ structured ENotJson c m md) by (intros c m md [H _]; discriminate H).
      split; [exact Hno | now apply E3].
    + destruct (String.eqb c "" && String.eqb m "" && is_none md) eqn:E.
      * right. apply incomplete_true in E as (-> & -> & ->). split; [exact H0|].
        assert (Hno : forall c m md, ~ structured (EJson "" "" None) c m md).
        { intros c m md [H [H1|[H1|H1]]]; inversion H; subst; now elim H1. }
        split; [exact Hno | now apply E3].
      * left. split; [exact H0|]. exists c, m, md.
        assert (Hs : structured (EJson c m md) c m md).
        { split; [reflexivity|].
          destruct (String.eqb_spec c ""); [|tauto]. destruct (String.eqb_spec m ""); [|tauto].
          destruct md; [right; right; discriminate | discriminate E]. }
        split; [exact Hs | now apply E2].
  - right. split; [reflexivity|]. split; [reflexivity|].
    rewrite (run_verdict i Ef).
    destruct (i_stdout i) as [|m]; [tauto|].
    destruct (i_cmd i) eqn:Hc; try tauto.
    destruct (validate m) as [|p] eqn:Ev.
    + destruct (String.eqb (m_name m) (i_name i)); tauto.
    + right; right; right. exists (N.pos p). split; [|split; reflexivity].
      destruct (validate_rules m) as (_ & _ & _ & _ & _ & _ & _ & Hle). rewrite Ev in Hle. lia.
  - left. split; [tauto|]. split; [reflexivity|].
    destruct (error_kind i (or_intror Hf) Ef) as (E1 & _ & _).
    left. assert (H0 : captured_stderr i = 0) by (unfold captured_stderr, started; now rewrite Hf).
    split; [exact H0 | now apply E1].
  - exfalso. apply exec_failed_false_iff in Ef as (Hst & _). apply started_iff in Hst as [H _]. congruence.
Qed.

(* ------------------------------------------------------------------ *)
(* calls whose process never ran                                       *)
(* ------------------------------------------------------------------ *)

Lemma not_started : forall i,
  (i_file i = FExec \/ i_file i = FNoExec) -> started i = false ->
  p_result (model_p i) = RExec /\ p_argv (model_p i) = None.
Proof.
  intros i Hf Hst. rewrite model_p_argv, Hst. split; [|reflexivity].
  assert (Ef : exec_failed i = true) by (unfold exec_failed; now rewrite Hst).
  destruct (error_kind i Hf Ef) as (E1 & _). apply E1. unfold captured_stderr. now rewrite Hst.
Qed.

Lemma new_refused : forall i,
  (i_file i = FMissing \/ i_file i = FDir) -> model_p i = mk_pobs RNew true None.
Proof. intros i [H|H]; unfold model_p; now rewrite H. Qed.

(* the process that ran was given the command of the call *)
Lemma argv_is_command : forall i a,
  p_argv (model_p i) = Some a -> a = cmd_arg (i_cmd i) /\ started i = true.
Proof.
  intros i a H. rewrite model_p_argv in H. destruct (started i); [|discriminate].
  inversion H. tauto.
Qed.

Lemma cmd_arg_injective : forall c c', cmd_arg c = cmd_arg c' -> c = c'.
Proof. intros [] []; cbn; intros H; try reflexivity; discriminate H. Qed.

(* ------------------------------------------------------------------ *)
(* the name check: against the constructor's name, not the file name   *)
(* ------------------------------------------------------------------ *)

Definition set_base (i : pinput) (b : string) : pinput :=
  mk_pinput (i_cmd i) (i_name i) b (i_file i) (i_exit i) (i_sleep i) (i_desc i) (i_deadline i)
            (i_stdout_len i) (i_stdout i) (i_stderr_len i) (i_stderr i) (i_bound i)
            (i_request_large i) (i_reads_stdin i) (i_child_holds_stdin i).

Lemma frame_base : forall i b, model_p (set_base i b) = model_p i.
Proof. intros [] b. reflexivity. Qed.

(* the request side plays no part: size of the request, a plugin that does not
   read it, a descendant that keeps the stdin pipe *)
Definition set_stdin (i : pinput) (large reads holds : bool) : pinput :=
  mk_pinput (i_cmd i) (i_name i) (i_base i) (i_file i) (i_exit i) (i_sleep i) (i_desc i) (i_deadline i)
            (i_stdout_len i) (i_stdout i) (i_stderr_len i) (i_stderr i) (i_bound i) large reads holds.

Lemma frame_stdin : forall i large reads holds,
  model_p (set_stdin i large reads holds) = model_p i /\
  wf_p (set_stdin i large reads holds) = wf_p i /\
  forall o, spec_p (set_stdin i large reads holds) o = spec_p i o.
Proof. intros [] large reads holds. repeat split. Qed.

Lemma bin_name_injective : forall a b, bin_name a = bin_name b -> a = b.
Proof. intros a b H. unfold bin_name in H. cbn in H. now inversion H. Qed.

(* when the CLIPlugin was made the way CLIManager.Get and Install make it
   (path = .../notation-<name>), the accepted metadata names the file *)
Lemma name_is_file_name : forall i,
  i_cmd i = GetMetadata -> i_base i = bin_name (i_name i) ->
  p_result (model_p i) = ROk ->
  exists m, i_stdout i = SGood m /\ bin_name (m_name m) = i_base i.
Proof.
  intros i Hc Hb H. apply model_ok_iff in H as (_ & _ & _ & _ & _ & _ & m & Hm & Hmeta).
  exists m. split; [exact Hm|]. destruct (Hmeta Hc) as [_ Hn]. now rewrite Hn, Hb.
Qed.

Definition witness_meta : meta :=
  mk_meta "foo" "d" "1.0.0" "https://x" ["SIGNATURE_GENERATOR.RAW"] ["1.0"].
Definition witness_name_vs_file : pinput :=
  mk_pinput GetMetadata "foo" "notation-bar" FExec 0 0 None None 120 (SGood witness_meta) 0 ENotJson 9000 false true false.

(* without that convention it does not: NewCLIPlugin(ctx, "foo", ".../notation-bar") *)
Lemma name_vs_file_refuted :
  exists i m, wf_p i = true /\ i_cmd i = GetMetadata /\ i_stdout i = SGood m
              /\ model_p i = mk_pobs ROk true (Some "get-plugin-metadata")
              /\ i_base i <> bin_name (m_name m).
Proof.
  exists witness_name_vs_file, witness_meta. repeat split; try reflexivity. discriminate.
Qed.

(* and the plugin that truthfully reports the name of its file is refused *)
Lemma name_of_file_refused_refuted :
  exists i m, i_cmd i = GetMetadata /\ i_stdout i = SGood m /\ i_base i = bin_name (m_name m)
              /\ meta_complete m /\ p_result (model_p i) = RName.
Proof.
  exists (mk_pinput GetMetadata "foo" "notation-bar" FExec 0 0 None None 120
            (SGood (mk_meta "bar" "d" "1.0.0" "https://x" ["SIGNATURE_GENERATOR.RAW"] ["1.0"])) 0 ENotJson 9000 false true false).
  eexists. repeat split; try reflexivity; try discriminate.
  cbn. left. reflexivity.
Qed.

(* ------------------------------------------------------------------ *)
(* wiring: the cap on both streams, for every chunking of the output   *)
(* ------------------------------------------------------------------ *)
Local Open Scope Z_scope.

Lemma zmax_cap : Z.max 0 (Z.of_N cap) = Z.of_N cap.
Proof. apply Z.max_r. apply N2Z.is_nonneg. Qed.

Lemma copy_fails_cap : forall (n : N) chunks,
  all_pos chunks -> zsum chunks = Z.of_N n ->
  copy_fails (Z.of_N cap) chunks = (cap <? n)%N.
Proof.
  intros n chunks Hpos Hs. rewrite (copy_fails_iff _ _ Hpos), zmax_cap, Hs.
  destruct (N.ltb_spec cap n); [apply Z.ltb_lt | apply Z.ltb_ge]; lia.
Qed.

(* the model's executor error, with the two cap tests replaced by the outcome
   of the copy loops over ANY chunking of what the plugin printed *)
Lemma exec_failed_wiring : forall i co ce,
  all_pos co -> all_pos ce ->
  zsum co = Z.of_N (i_stdout_len i) -> zsum ce = Z.of_N (i_stderr_len i) ->
  exec_failed i =
    (negb (started i) || proc_killed i || negb (i_exit i =? 0)%N
     || copy_fails (Z.of_N cap) co || copy_fails (Z.of_N cap) ce
     || io_expired (host_of i) (beh_of i))
  /\ (started i = true ->
      Z.of_N (captured_stderr i) = c_written (model_c (mk_cinput (Z.of_N cap) ce))).
Proof.
  intros i co ce Hco Hce So Se. split.
  - rewrite (copy_fails_cap _ _ Hco So), (copy_fails_cap _ _ Hce Se). reflexivity.
  - intros Hst. unfold captured_stderr. rewrite Hst.
    destruct (copy_cap (Z.of_N cap) ce Hce) as (_ & H & _). cbn zeta in H.
    rewrite H, zmax_cap, Se. lia.
Qed.

(* what the host holds of either stream: never more than the cap *)
Lemma streams_within_cap : forall chunks,
  all_pos chunks ->
  let r := model_c (mk_cinput (Z.of_N cap) chunks) in
  c_written r <= Z.of_N cap
  /\ (zsum chunks <= Z.of_N cap -> c_written r = zsum chunks /\ c_err r = CNil)
  /\ (Z.of_N cap < zsum chunks -> c_written r = Z.of_N cap /\ c_err r <> CNil).
Proof.
  intros chunks Hpos. cbn zeta.
  destruct (copy_cap (Z.of_N cap) chunks Hpos) as (H1 & H2 & H3 & _). cbn zeta in *.
  rewrite zmax_cap in *. repeat split; try lia.
  - now apply H3.
  - intros E. apply H3 in E. lia.
Qed.

(* after the copy has failed nothing more is taken: every later write of the
   same LimitedWriter is refused or (if budget is left) the loop is not running;
   in particular the budget left is 0 whenever the limit was positive *)
Lemma copy_failed_exhausted : forall L chunks,
  0 <= L -> all_pos chunks ->
  c_err (model_c (mk_cinput L chunks)) <> CNil -> c_left (model_c (mk_cinput L chunks)) = 0.
Proof.
  intros L chunks HL Hpos He.
  destruct (copy_cap L chunks Hpos) as (H1 & H2 & H3 & H4). cbn zeta in *.
  assert (~ zsum chunks <= Z.max 0 L) by (intros E; apply H3 in E; congruence). lia.
Qed.

(* ------------------------------------------------------------------ *)
(* the time bound at the configuration CLIPlugin uses                  *)
(* ------------------------------------------------------------------ *)
Local Open Scope N_scope.

Definition cli_host (done : time) : hostcfg := mk_hostcfg true done (Some plugin_wait_delay).

Lemma host_of_cli : forall i, host_of i = cli_host (opt_time (i_deadline i)).
Proof. reflexivity. Qed.

Lemma cli_bounded : forall b tc,
  exists r, t_return (cli_host (Fin tc)) b = Fin r /\ r <= tc + b_lat b + plugin_wait_delay.
Proof. intros b tc. now apply (bounded_after_cancel (cli_host (Fin tc)) b plugin_wait_delay tc). Qed.

Lemma cli_bounded_exit : forall b done te,
  b_exit b = Fin te ->
  exists r, t_return (cli_host done) b = Fin r /\ r <= te + plugin_wait_delay.
Proof. intros b done te H. now apply (bounded_after_exit (cli_host done) b plugin_wait_delay te). Qed.

(* the bound is reached (so it cannot be replaced by a smaller one) *)
Lemma cli_bound_tight : forall tc,
  t_return (cli_host (Fin tc)) (mk_beh Never Never 0) = Fin (tc + plugin_wait_delay).
Proof.
  intros tc. unfold t_return, t_pipes, t_io_deadline, t_end, killed, cli_host, tmax, tmin, tlt, tle, tadd. cbn.
  repeat match goal with
         | |- context [N.leb ?a ?b] => destruct (N.leb_spec a b); cbn
         end; try reflexivity; try (f_equal; lia); lia.
Qed.

(* what the property does not promise: no cancellation, no bound *)
Lemma cli_no_cancel_no_bound :
  t_return (cli_host Never) (mk_beh Never (Fin 0) 0) = Never.
Proof. reflexivity. Qed.

(* the process model: for every input, the call is back WaitDelay after the
   context was done, and WaitDelay after the process exited *)
Lemma model_return_bound : forall i,
  exists r, t_return (host_of i) (beh_of i) = Fin r
            /\ r <= i_sleep i + plugin_wait_delay
            /\ (forall d, i_deadline i = Some d -> r <= d + plugin_wait_delay).
Proof.
  intros i.
  destruct (cli_bounded_exit (beh_of i) (opt_time (i_deadline i)) (i_sleep i) eq_refl) as (r & Hr & Hle).
  rewrite host_of_cli. exists r. split; [exact Hr|]. split; [exact Hle|].
  intros d Hd. rewrite Hd in Hr. cbn [opt_time] in Hr.
  destruct (cli_bounded (beh_of i) d) as (r' & Hr' & Hle'). rewrite Hr in Hr'. inversion Hr'; subst.
  cbn in Hle'. lia.
Qed.
