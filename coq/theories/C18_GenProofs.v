(* C18_GenProofs.v — the GoLite translations of the function bodies listed in
   harness/cmd/vh-gen/targets_c18.go (theories/C18_Gen.v, regenerated from /repo by
   `vh-gen` on every run, docs/GOLITE.md) against the hand-written C18 model
   (C18_Model.v). Every theorem quantifies over ALL inputs of the generated
   function; oracles (the plugin's four commands, parseCertChain, generateSignature,
   generateSignatureEnvelope, the descriptor generator) are universally quantified
   functions, and where the model speaks about their answers the theorem carries the
   hypothesis "the oracle answered what the model's input says it answered".
   The statements are repeated in props/C18_Generated.v ([exact] + Print Assumptions). *)
From Coq Require Import List Bool String Ascii NArith ZArith Lia.
From NV Require Import Base GoLib C18_Json C18_Model C18_Proofs C18_Audit C18_Gen.
Import ListNotations.
Local Open Scope string_scope.
Local Open Scope list_scope.

(* ---------- small tools ---------- *)

Lemma eqb_sym_false a b : String.eqb a b = false -> String.eqb b a = false.
Proof. rewrite String.eqb_sym. auto. Qed.

(* case analysis on every comparison of the string [s] with a closed string: in the equal
   case [s] is replaced by the literal and the goal is decided by computation *)
Ltac split_str s :=
  repeat match goal with
  | |- context [String.eqb s ?c] =>
      let E := fresh "E" in
      destruct (String.eqb s c) eqn:E;
      [apply String.eqb_eq in E; subst s; vm_compute; reflexivity
      |try rewrite (eqb_sym_false _ _ E)]
  | |- context [String.eqb ?c s] =>
      let E := fresh "E" in
      destruct (String.eqb c s) eqn:E;
      [apply String.eqb_eq in E; subst s; vm_compute; reflexivity
      |try rewrite (eqb_sym_false _ _ E)]
  end.

Lemma map_get_in {V} k (v : V) m : map_get String.eqb k m = Some v -> In (k, v) m.
Proof.
  induction m as [|[k' v'] m IH]; cbn; [discriminate|].
  destruct (String.eqb k k') eqn:E.
  - apply String.eqb_eq in E. subst. intros H. inversion H. subst. left. reflexivity.
  - intros H. right. apply IH. exact H.
Qed.

Lemma map_entries_iff (m : amap) k v :
  In (k, v) (map_entries String.eqb m) <-> map_get String.eqb k m = Some v.
Proof.
  split.
  - apply map_entries_in. apply string_eqb_spec'.
  - intros H. apply map_get_in. rewrite (map_get_entries String.eqb string_eqb_spec'). exact H.
Qed.

Lemma mem_str_keys k (m : amap) :
  mem_str k (map fst m) = existsb (fun kv => String.eqb k (fst kv)) m.
Proof. unfold mem_str. induction m as [|[k' v'] m IH]; [reflexivity|]. cbn. rewrite IH. reflexivity. Qed.

Lemma nodup_keys_unique (m : amap) : nodup_keys m = map_unique String.eqb m.
Proof.
  induction m as [|[k v] m IH]; [reflexivity|].
  cbn [nodup_keys map_unique]. rewrite IH, mem_str_keys. reflexivity.
Qed.

(* ================================================================================
   1. The descriptor checks: content.Equal, isDescriptorSubset, isPayloadDescriptorValid
   ================================================================================ *)

(* what the signer looks at in a descriptor (C18_Json.dsc); Go's map is GoLib's
   association list, looked up like Base.lookup (map_get_lookup) *)
Definition dsc_of (b : v1_Descriptor) : dsc :=
  mk_dsc (Descriptor_MediaType b) (Descriptor_Digest b) (Descriptor_Size b) (Descriptor_Annotations b).

(* the model's input [i] requests the descriptor [a]; the requested annotations are the
   entries a Go `range` over a.Annotations visits (each key once) *)
Definition requests (i : input) (a : v1_Descriptor) : Prop :=
  i_dmt i = Descriptor_MediaType a /\ i_ddg i = Descriptor_Digest a /\ i_dsz i = Descriptor_Size a /\
  i_dann i = map_entries String.eqb (Descriptor_Annotations a).

Definition with_desc (i : input) (a : v1_Descriptor) : input :=
  mk_input (i_blob i) (i_mt i) (i_mt_ok i) (i_keyid i)
           (Descriptor_MediaType a) (Descriptor_Digest a) (Descriptor_Size a)
           (map_entries String.eqb (Descriptor_Annotations a))
           (i_meta i) (i_dk i) (i_gs i) (i_ge i).

Lemma requests_with_desc i a : requests (with_desc i a) a /\ wf (with_desc i a) = true.
Proof.
  split; [repeat split|].
  unfold wf. cbn. rewrite nodup_keys_unique. apply (map_entries_unique_keys String.eqb string_eqb_spec').
Qed.

(* a descriptor whose annotation list has distinct keys (what a Go map is) is requested by
   the input that lists exactly those annotations *)
Lemma requests_unique i a :
  i_dmt i = Descriptor_MediaType a -> i_ddg i = Descriptor_Digest a -> i_dsz i = Descriptor_Size a ->
  i_dann i = Descriptor_Annotations a -> wf i = true -> requests i a.
Proof.
  intros H1 H2 H3 H4 W. repeat split; try assumption.
  rewrite H4. symmetry. apply map_entries_unique.
  rewrite <- nodup_keys_unique, <- H4. exact W.
Qed.

Theorem gen_Equal_equiv i a b :
  requests i a -> gen_content_Equal a b = content_equal i (dsc_of b).
Proof.
  intros (H1 & H2 & H3 & _). unfold gen_content_Equal, content_equal, dsc_of.
  cbn [d_mt d_dg d_sz]. rewrite H1, H2, H3.
  destruct (String.eqb (Descriptor_MediaType a) (Descriptor_MediaType b));
  destruct (String.eqb (Descriptor_Digest a) (Descriptor_Digest b));
  destruct (Z.eqb (Descriptor_Size a) (Descriptor_Size b)); reflexivity.
Qed.

Lemma subset_loop nd : forall l,
  gen_signer_isDescriptorSubset_loop1 nd l = ann_subset l (Descriptor_Annotations nd).
Proof.
  unfold ann_subset.
  induction l as [|[k v] l IH]; [reflexivity|].
  cbn [gen_signer_isDescriptorSubset_loop1 forallb fst snd].
  unfold map_get_ok. rewrite map_get_lookup.
  destruct (lookup k (Descriptor_Annotations nd)) as [v2|]; cbn [negb orb andb]; [|reflexivity].
  destruct (String.eqb v v2); cbn [negb andb]; [exact IH|reflexivity].
Qed.

Theorem gen_isDescriptorSubset_equiv i a b :
  requests i a ->
  gen_signer_isDescriptorSubset a b = content_equal i (dsc_of b) && ann_subset (i_dann i) (d_ann (dsc_of b)).
Proof.
  intros R. unfold gen_signer_isDescriptorSubset. rewrite ?(gen_Equal_equiv i a b R), ?subset_loop.
  destruct R as (_ & _ & _ & H4). rewrite H4. cbn [dsc_of d_ann].
  destruct (content_equal i (dsc_of b));
    destruct (ann_subset (map_entries String.eqb (Descriptor_Annotations a)) (Descriptor_Annotations b)); reflexivity.
Qed.

Theorem gen_isPayloadDescriptorValid_equiv i a b :
  requests i a -> gen_signer_isPayloadDescriptorValid a b = payload_desc_valid i (dsc_of b).
Proof.
  intros R. unfold gen_signer_isPayloadDescriptorValid, payload_desc_valid.
  rewrite ?(gen_Equal_equiv i a b R), ?(gen_isDescriptorSubset_equiv i a b R).
  destruct (content_equal i (dsc_of b)); destruct (ann_subset (i_dann i) (d_ann (dsc_of b))); reflexivity.
Qed.

(* the declarative reading, on the Go values themselves (clauses 4 and 5 of the property) *)
Theorem gen_isPayloadDescriptorValid_spec a b :
  gen_signer_isPayloadDescriptorValid a b = true <->
  Descriptor_MediaType a = Descriptor_MediaType b /\ Descriptor_Digest a = Descriptor_Digest b /\
  Descriptor_Size a = Descriptor_Size b /\
  forall k v, map_get String.eqb k (Descriptor_Annotations a) = Some v ->
              map_get String.eqb k (Descriptor_Annotations b) = Some v.
Proof.
  set (i := with_desc (mk_input false "" false "" "" "" 0 [] MErr DKErr GSErr GEErr) a).
  rewrite (gen_isPayloadDescriptorValid_equiv i a b (proj1 (requests_with_desc _ a))).
  unfold payload_desc_valid, content_equal. subst i. cbn [with_desc i_dmt i_ddg i_dsz i_dann dsc_of d_mt d_dg d_sz d_ann].
  rewrite !andb_true_iff, !String.eqb_eq, Z.eqb_eq, ann_subset_spec.
  split.
  - intros [[[H1 H2] H3] [_ H4]]. repeat split; try assumption.
    intros k v Hk. rewrite map_get_lookup. apply H4. apply map_entries_iff. exact Hk.
  - intros (H1 & H2 & H3 & H4). repeat split; try assumption.
    intros k v Hk. rewrite <- map_get_lookup. apply H4. apply map_entries_iff. exact Hk.
Qed.

(* ================================================================================
   2. Key spec / hash codecs: proto.DecodeKeySpec, EncodeKeySpec, HashAlgorithmFromKeySpec,
      KeySpec.SignatureAlgorithm, Algorithm.Hash (notation-core-go), signer.getDescriptor
   ================================================================================ *)

(* signature.KeySpec{Type, Size} <-> the model's kspec; KeyTypeRSA = 1, KeyTypeEC = 2 *)
Definition ktype_code (t : ktype) : Z := match t with KRSA => 1 | KEC => 2 end.
Definition ks_of (k : kspec) : algorithm_KeySpec := mk_KeySpec (ktype_code (fst k)) (Z.of_N (snd k)).
(* every Go value: a type outside {1, 2} is no key spec of the model; a negative size is read
   as 0 (no key spec has that size either) *)
Definition kspec_of (ks : algorithm_KeySpec) : option kspec :=
  if (KeySpec_Type ks =? 1)%Z then Some (KRSA, Z.to_N (KeySpec_Size ks))
  else if (KeySpec_Type ks =? 2)%Z then Some (KEC, Z.to_N (KeySpec_Size ks))
  else None.

Lemma kspec_of_ks_of k : kspec_of (ks_of k) = Some k.
Proof. destruct k as [[|] n]; unfold kspec_of, ks_of; cbn; rewrite N2Z.id; reflexivity. Qed.

Definition ks_zero : algorithm_KeySpec := mk_KeySpec 0 0.
Definition err_unknown_keyspec : err := Err "errors" "unknown key spec" [].
Definition err_invalid_keyspec : err := Err "fmt" "invalid KeySpec %q" [].

(* the three tables of the model, as one table over arbitrary (type, size) *)
Definition ks_row (t : ktype) (n : N) : option (string * string * alg) :=
  match t with
  | KEC => if (n =? 256)%N then Some ("EC-256", "SHA-256", ES256)
           else if (n =? 384)%N then Some ("EC-384", "SHA-384", ES384)
           else if (n =? 521)%N then Some ("EC-521", "SHA-512", ES512) else None
  | KRSA => if (n =? 2048)%N then Some ("RSA-2048", "SHA-256", PS256)
            else if (n =? 3072)%N then Some ("RSA-3072", "SHA-384", PS384)
            else if (n =? 4096)%N then Some ("RSA-4096", "SHA-512", PS512) else None
  end.

Lemma ks_row_tables t n :
  encode_keyspec (t, n) = option_map (fun r => fst (fst r)) (ks_row t n) /\
  hash_of_keyspec (t, n) = option_map (fun r => snd (fst r)) (ks_row t n) /\
  alg_of_keyspec (t, n) = option_map snd (ks_row t n).
Proof.
  destruct t; (destruct n as [|p]; [repeat split; reflexivity|]);
  repeat (destruct p as [p|p|]; try (repeat split; reflexivity)).
Qed.

Lemma to_N_neq z p : z <> Zpos p -> (Z.to_N z =? Npos p)%N = false.
Proof.
  intros H. apply N.eqb_neq. intros E. apply H.
  destruct z; cbn in E; try discriminate. inversion E. reflexivity.
Qed.

(* case analysis on every comparison of the integer [x] with a closed integer *)
Ltac split_z x :=
  repeat match goal with
  | |- context [Z.eqb x ?c] =>
      destruct (Z.eqb_spec x c); [subst x; try (vm_compute; reflexivity)|]
  end.

Theorem gen_DecodeKeySpec_equiv s :
  gen_proto_DecodeKeySpec s
  = match decode_keyspec s with
    | Some k => (ks_of k, None)
    | None => (ks_zero, Some err_unknown_keyspec)
    end.
Proof. unfold gen_proto_DecodeKeySpec, decode_keyspec. split_str s. reflexivity. Qed.

Definition model_row (ks : algorithm_KeySpec) : option (string * string * alg) :=
  match kspec_of ks with Some k => ks_row (fst k) (snd k) | None => None end.

Lemma model_row_tables ks :
  match kspec_of ks with Some k => encode_keyspec k | None => None end
    = option_map (fun r => fst (fst r)) (model_row ks) /\
  match kspec_of ks with Some k => hash_of_keyspec k | None => None end
    = option_map (fun r => snd (fst r)) (model_row ks) /\
  match kspec_of ks with Some k => alg_of_keyspec k | None => None end
    = option_map snd (model_row ks).
Proof.
  unfold model_row. destruct (kspec_of ks) as [[t n]|]; [apply ks_row_tables|repeat split; reflexivity].
Qed.

(* one lemma for the four functions that switch on (Type, Size): on every Go key spec the
   function returns [f row] on the six rows of the table and [d] elsewhere *)
Lemma model_row_cases ks :
  (exists t n r, ks = mk_KeySpec (ktype_code t) (Z.of_N n) /\ ks_row t n = Some r /\ model_row ks = Some r)
  \/ model_row ks = None.
Proof.
  destruct ks as [t z]. unfold model_row, kspec_of. cbn [KeySpec_Type KeySpec_Size].
  destruct (Z.eqb_spec t 1) as [->|N1]; [|destruct (Z.eqb_spec t 2) as [->|N2]; [|right; reflexivity]].
  - cbn [fst snd]. destruct (ks_row KRSA (Z.to_N z)) as [r|] eqn:E; [|right; reflexivity].
    left. exists KRSA, (Z.to_N z), r. repeat split; try assumption.
    cbn [ktype_code]. f_equal. unfold ks_row in E.
    destruct z; cbn in E; try discriminate. reflexivity.
  - cbn [fst snd]. destruct (ks_row KEC (Z.to_N z)) as [r|] eqn:E; [|right; reflexivity].
    left. exists KEC, (Z.to_N z), r. repeat split; try assumption.
    cbn [ktype_code]. f_equal. unfold ks_row in E.
    destruct z; cbn in E; try discriminate. reflexivity.
Qed.

Ltac ks_default :=
  unfold model_row, kspec_of; cbn -[Z.to_N N.eqb];
  repeat match goal with
  | H : ?z <> Zpos ?p |- context [(Z.to_N ?z =? N.pos ?p)%N] => rewrite (to_N_neq z p H)
  end.

Theorem gen_EncodeKeySpec_equiv ks :
  gen_proto_EncodeKeySpec ks
  = match (match kspec_of ks with Some k => encode_keyspec k | None => None end) with
    | Some s => (s, None)
    | None => ("", Some err_invalid_keyspec)
    end.
Proof.
  rewrite (proj1 (model_row_tables ks)).
  destruct ks as [t z]. unfold gen_proto_EncodeKeySpec, model_row, kspec_of. cbn [KeySpec_Type KeySpec_Size].
  split_z t; split_z z; ks_default; reflexivity.
Qed.

Theorem gen_HashAlgorithmFromKeySpec_equiv ks :
  gen_proto_HashAlgorithmFromKeySpec ks
  = match (match kspec_of ks with Some k => hash_of_keyspec k | None => None end) with
    | Some s => (s, None)
    | None => ("", Some err_invalid_keyspec)
    end.
Proof.
  rewrite (proj1 (proj2 (model_row_tables ks))).
  destruct ks as [t z]. unfold gen_proto_HashAlgorithmFromKeySpec, model_row, kspec_of.
  cbn [KeySpec_Type KeySpec_Size].
  split_z t; split_z z; ks_default; reflexivity.
Qed.

(* signature.Algorithm: AlgorithmPS256 = 1 .. AlgorithmES512 = 6, 0 = none *)
Definition alg_code (a : option alg) : Z :=
  match a with
  | Some PS256 => 1 | Some PS384 => 2 | Some PS512 => 3
  | Some ES256 => 4 | Some ES384 => 5 | Some ES512 => 6
  | None => 0
  end.

Theorem gen_SignatureAlgorithm_equiv ks :
  gen_algorithm_KeySpec_SignatureAlgorithm ks
  = alg_code (match kspec_of ks with Some k => alg_of_keyspec k | None => None end).
Proof.
  rewrite (proj2 (proj2 (model_row_tables ks))).
  destruct ks as [t z]. unfold gen_algorithm_KeySpec_SignatureAlgorithm, model_row, kspec_of.
  cbn [KeySpec_Type KeySpec_Size].
  split_z t; split_z z; ks_default; reflexivity.
Qed.

(* crypto.Hash: SHA256 = 5, SHA384 = 6, SHA512 = 7 *)
Definition hash_code (bits : N) : Z :=
  if (bits =? 256)%N then 5 else if (bits =? 384)%N then 6 else if (bits =? 512)%N then 7 else 0.

Theorem gen_Algorithm_Hash_equiv a :
  gen_algorithm_Algorithm_Hash (alg_code a)
  = hash_code (match a with Some x => hash_bits x | None => 0%N end).
Proof. destruct a as [[]|]; reflexivity. Qed.

(* every integer that is not one of the six algorithms has no hash *)
Theorem gen_Algorithm_Hash_other z :
  (forall a, z <> alg_code (Some a)) -> gen_algorithm_Algorithm_Hash z = 0%Z.
Proof.
  intros H. unfold gen_algorithm_Algorithm_Hash.
  split_z z; try reflexivity;
  match goal with
  | |- _ => exfalso; first [apply (H PS256); reflexivity | apply (H PS384); reflexivity | apply (H PS512); reflexivity
                           | apply (H ES256); reflexivity | apply (H ES384); reflexivity | apply (H ES512); reflexivity]
  end.
Qed.

(* the digest algorithm SignBlob hands to the descriptor generator (the model's o_digest_alg) *)
Definition digest_name (bits : N) : option string :=
  if (bits =? 256)%N then Some "sha256" else if (bits =? 384)%N then Some "sha384"
  else if (bits =? 512)%N then Some "sha512" else None.

Definition desc_zero : v1_Descriptor := mk_Descriptor "" "" 0 [] [] [] PNil "".
Definition err_unknown_hash : err := Err "fmt" "unknown hashing algo %v" [].

Theorem gen_getDescriptor_equiv ks genDesc :
  gen_signer_getDescriptor ks genDesc
  = match digest_name (match kspec_of ks with Some k => bits_of k | None => 0%N end) with
    | Some d => genDesc d
    | None => (desc_zero, Some err_unknown_hash)
    end.
Proof.
  unfold gen_signer_getDescriptor. rewrite gen_SignatureAlgorithm_equiv, gen_Algorithm_Hash_equiv.
  unfold bits_of.
  destruct (kspec_of ks) as [k|]; [|reflexivity].
  destruct (alg_of_keyspec k) as [[]|]; reflexivity.
Qed.

(* C18_codecs, transported: a name the translated DecodeKeySpec accepts is one of the six, the
   translated EncodeKeySpec gives it back, and the translated hash / algorithm functions succeed *)
Theorem gen_codecs_roundtrip s :
  snd (gen_proto_DecodeKeySpec s) = None ->
  In s ["RSA-2048"; "RSA-3072"; "RSA-4096"; "EC-256"; "EC-384"; "EC-521"] /\
  gen_proto_EncodeKeySpec (fst (gen_proto_DecodeKeySpec s)) = (s, None) /\
  (exists h, gen_proto_HashAlgorithmFromKeySpec (fst (gen_proto_DecodeKeySpec s)) = (h, None)) /\
  gen_algorithm_KeySpec_SignatureAlgorithm (fst (gen_proto_DecodeKeySpec s)) <> 0%Z.
Proof.
  rewrite gen_DecodeKeySpec_equiv. destruct (decode_keyspec s) as [k|] eqn:D; [|discriminate].
  intros _. cbn [fst]. destruct (codecs s k D) as (Hin & He & h & a & Hh & Ha & _).
  rewrite gen_EncodeKeySpec_equiv, gen_HashAlgorithmFromKeySpec_equiv, gen_SignatureAlgorithm_equiv,
          kspec_of_ks_of, He, Hh, Ha.
  repeat split; try assumption; [exists h; reflexivity|destruct a; discriminate].
Qed.

(* ================================================================================
   3. Payload type, the descriptor the signer signs itself, capabilities
   ================================================================================ *)

Definition err_ctype : err := Err "fmt" "payload content type %q not supported" [].

(* envelope.ValidatePayloadContentType: nil exactly for the Notary payload type (the model's
   check [String.eqb (ge_ctype f) payload_type] of gen_envelope, [r_ctype] of ret_ok);
   None = the Go code dereferences a nil *signature.Payload *)
Theorem gen_ValidatePayloadContentType_equiv p :
  gen_envelope_ValidatePayloadContentType p
  = match ptr_val p with
    | Some v => Some (if String.eqb (Payload_ContentType v) payload_type then None else Some err_ctype)
    | None => None
    end.
Proof.
  unfold gen_envelope_ValidatePayloadContentType, payload_type.
  destruct (ptr_val p) as [v|]; [|reflexivity].
  destruct (String.eqb (Payload_ContentType v) _); reflexivity.
Qed.

Theorem gen_ValidatePayloadContentType_nil_iff p :
  gen_envelope_ValidatePayloadContentType p = Some None <->
  exists v, ptr_val p = Some v /\ Payload_ContentType v = payload_type.
Proof.
  rewrite gen_ValidatePayloadContentType_equiv. destruct (ptr_val p) as [v|].
  - destruct (String.eqb_spec (Payload_ContentType v) payload_type) as [E|N]; split.
    + intros _. exists v. auto.
    + reflexivity.
    + discriminate.
    + intros (v' & Hv & E). inversion Hv. subst. contradiction.
  - split; [discriminate|]. intros (v & Hv & _). discriminate.
Qed.

(* envelope.SanitizeTargetArtifact keeps what the signer looks at and nothing else: the
   payload GenericSigner.Sign builds carries exactly the requested descriptor (the model's
   built_ret: r_mt, r_dg, r_sz, r_ann of the request, r_clean) *)
Theorem gen_SanitizeTargetArtifact_spec a :
  dsc_of (gen_envelope_SanitizeTargetArtifact a) = dsc_of a /\
  Descriptor_URLs (gen_envelope_SanitizeTargetArtifact a) = [] /\
  Descriptor_Data (gen_envelope_SanitizeTargetArtifact a) = [] /\
  ptr_val (Descriptor_Platform (gen_envelope_SanitizeTargetArtifact a)) = None /\
  Descriptor_ArtifactType (gen_envelope_SanitizeTargetArtifact a) = "".
Proof. repeat split. Qed.

Theorem gen_Sanitize_built_ret i a al :
  requests i a -> wf i = true ->
  ret_ok i al (built_ret i al) = true /\
  r_mt (built_ret i al) = Descriptor_MediaType (gen_envelope_SanitizeTargetArtifact a) /\
  r_dg (built_ret i al) = Descriptor_Digest (gen_envelope_SanitizeTargetArtifact a) /\
  r_sz (built_ret i al) = Descriptor_Size (gen_envelope_SanitizeTargetArtifact a) /\
  r_ann (built_ret i al) = map_entries String.eqb (Descriptor_Annotations (gen_envelope_SanitizeTargetArtifact a)).
Proof.
  intros (H1 & H2 & H3 & H4) W. split; [apply ret_ok_built; exact W|].
  cbn. auto.
Qed.

(* what the signer builds itself passes the check it applies to a plugin's envelope *)
Theorem gen_Sanitize_valid a :
  gen_signer_isPayloadDescriptorValid a (gen_envelope_SanitizeTargetArtifact a) = true.
Proof. apply gen_isPayloadDescriptorValid_spec. cbn. auto. Qed.

(* GetMetadataResponse.HasCapability *)
Lemma HasCapability_loop c l :
  gen_plugin_GetMetadataResponse_HasCapability_loop1 c l = mem_str c l.
Proof.
  unfold mem_str. induction l as [|x l IH]; [reflexivity|].
  cbn [gen_plugin_GetMetadataResponse_HasCapability_loop1 existsb].
  rewrite ?(String.eqb_sym x c). destruct (String.eqb c x); [reflexivity|exact IH].
Qed.

Theorem gen_HasCapability_equiv resp c :
  gen_plugin_GetMetadataResponse_HasCapability resp c
  = (String.eqb c "" || mem_str c (GetMetadataResponse_Capabilities resp)).
Proof.
  unfold gen_plugin_GetMetadataResponse_HasCapability. rewrite HasCapability_loop.
  destruct (String.eqb c ""); reflexivity.
Qed.

(* the model's view of a (non-nil) metadata answer *)
Definition cap_raw : string := "SIGNATURE_GENERATOR.RAW".
Definition cap_env : string := "SIGNATURE_GENERATOR.ENVELOPE".
Definition meta_of (m : plugin_GetMetadataResponse) : meta :=
  MCaps (mem_str cap_raw (GetMetadataResponse_Capabilities m))
        (mem_str cap_env (GetMetadataResponse_Capabilities m)).

(* ================================================================================
   4. The plugin as oracles: describeKey, getKeySpec, pluginPrimitiveSigner.Sign,
      PluginSigner.Sign, PluginSigner.SignBlob
   ================================================================================ *)

Definition err_nil_meta : err := Err "errors" "plugin returned an empty get-plugin-metadata response" [].
Definition err_nil_dk : err := Err "errors" "plugin returned an empty describe-key response" [].
Definition err_nil_gs : err := Err "errors" "plugin returned an empty generate-signature response" [].
Definition err_keyid : err := Err "fmt" "keyID in describeKey response %q does not match request %q" [].
Definition err_keyid2 : err := Err "fmt" "keyID in generateSignature response %q does not match request %q" [].
Definition err_nocap : err := Err "fmt" "plugin does not have signing capabilities" [].
Definition err_wrap (x : err) : err := Err "fmt" "failed to sign with the plugin %s: %w" [x].

(* the error value of the Go code that stands for a class of the model; [pe] = the error
   the plugin itself answered with (passed through untouched) *)
Definition err_of_class (c : eclass) (pe : option err) : option err :=
  match c with
  | EMeta | EDescribe | EGenSig | EChainParse => pe
  | ENilMeta => Some err_nil_meta
  | ENilDK => Some err_nil_dk
  | ENilGS => Some err_nil_gs
  | EKeyId => Some err_keyid
  | EKeyId2 => Some err_keyid2
  | EKeySpec => Some err_unknown_keyspec
  | ENoCap => Some err_nocap
  | EOther => Some err_invalid_keyspec
  | _ => None
  end.

Section Oracles.
Variable P C : Type.   (* plugin.SignPlugin, x509.Certificate: opaque *)
Variable DK : ptr plugin_DescribeKeyRequest -> ptr plugin_DescribeKeyResponse * option err.
Variable GM : ptr plugin_GetMetadataRequest -> ptr plugin_GetMetadataResponse * option err.
Variable GS : ptr plugin_GenerateSignatureRequest -> ptr plugin_GenerateSignatureResponse * option err.
Variable parse : list (list Z) -> list C * option err.

Notation describeKey := (gen_signer_PluginSigner_describeKey DK P).
Notation getKeySpec := (gen_signer_PluginSigner_getKeySpec DK P).
Notation primSign := (gen_signer_pluginPrimitiveSigner_Sign GS P C parse).

Definition dk_request (s : signer_PluginSigner P) (cfg : list (string * string)) : ptr plugin_DescribeKeyRequest :=
  PNew (mk_DescribeKeyRequest "1.0" (PluginSigner_keyID P s) cfg).

(* describeKey: an answer without an error is non-nil (fix 0b937c8) *)
Theorem gen_describeKey_spec s cfg :
  describeKey s cfg
  = let '(resp, e) := DK (dk_request s cfg) in
    match e with
    | Some x => (PNil, Some x)
    | None => match ptr_val resp with
              | Some _ => (resp, None)
              | None => (PNil, Some err_nil_dk)
              end
    end.
Proof.
  unfold gen_signer_PluginSigner_describeKey, dk_request.
  destruct (DK _) as [resp [x|]]; cbn [is_none negb]; [reflexivity|].
  destruct (ptr_val resp); reflexivity.
Qed.

(* getKeySpec on ALL answers of the plugin: it never panics (Some), passes the plugin's
   error through, refuses a nil answer, a foreign key id, an unknown key spec name *)
Theorem gen_getKeySpec_spec s cfg :
  getKeySpec s cfg
  = Some (let '(resp, e) := DK (dk_request s cfg) in
          match e with
          | Some x => (ks_zero, Some x)
          | None =>
              match ptr_val resp with
              | None => (ks_zero, Some err_nil_dk)
              | Some r =>
                  if String.eqb (PluginSigner_keyID P s) (DescribeKeyResponse_KeyID r)
                  then match decode_keyspec (DescribeKeyResponse_KeySpec r) with
                       | Some k => (ks_of k, None)
                       | None => (ks_zero, Some err_unknown_keyspec)
                       end
                  else (ks_zero, Some err_keyid)
              end
          end).
Proof.
  unfold gen_signer_PluginSigner_getKeySpec. rewrite gen_describeKey_spec.
  destruct (DK _) as [resp [x|]]; cbn [is_none negb ptr_val]; [reflexivity|].
  destruct (ptr_val resp) as [r|] eqn:E; cbn [is_none negb ptr_val]; [|reflexivity].
  rewrite E.
  destruct (String.eqb (PluginSigner_keyID P s) (DescribeKeyResponse_KeyID r)); cbn [negb]; [|reflexivity].
  rewrite gen_DecodeKeySpec_equiv. reflexivity.
Qed.

Theorem gen_getKeySpec_total s cfg : getKeySpec s cfg <> None.
Proof. rewrite gen_getKeySpec_spec. discriminate. Qed.

(* "the oracle answered what the model's input says describe-key answered" *)
Definition dk_agrees (n : nils) (i : input) (ans : ptr plugin_DescribeKeyResponse * option err) : Prop :=
  if n_dk n then ptr_val (fst ans) = None /\ snd ans = None
  else match i_dk i with
       | DKErr => snd ans <> None
       | DKAns kid ks =>
           snd ans = None /\
           exists r, ptr_val (fst ans) = Some r /\
                     DescribeKeyResponse_KeyID r = kid /\ DescribeKeyResponse_KeySpec r = ks
       end.

(* the outcome of getKeySpec as the model's get_keyspec_n describes it *)
Definition ks_outcome (m : eclass + kspec) (pe : option err) : algorithm_KeySpec * option err :=
  match m with
  | inl c => (ks_zero, err_of_class c pe)
  | inr k => (ks_of k, None)
  end.

Theorem gen_getKeySpec_equiv n i s cfg :
  PluginSigner_keyID P s = i_keyid i ->
  dk_agrees n i (DK (dk_request s cfg)) ->
  getKeySpec s cfg = Some (ks_outcome (get_keyspec_n n i) (snd (DK (dk_request s cfg)))).
Proof.
  intros Hk A. rewrite gen_getKeySpec_spec. f_equal.
  unfold dk_agrees, get_keyspec_n, get_keyspec in *.
  destruct (DK (dk_request s cfg)) as [resp e]. cbn [fst snd] in *.
  destruct (n_dk n).
  - destruct A as [A1 A2]. subst e. rewrite A1. reflexivity.
  - destruct (i_dk i) as [|kid ks].
    + destruct e as [x|]; [reflexivity|contradiction].
    + destruct A as (-> & r & -> & <- & <-). rewrite Hk.
      destruct (String.eqb (i_keyid i) (DescribeKeyResponse_KeyID r)); cbn [negb]; [|reflexivity].
      destruct (decode_keyspec (DescribeKeyResponse_KeySpec r)); reflexivity.
Qed.

(* ---------- pluginPrimitiveSigner.Sign ---------- *)

Definition gs_request (s : signer_pluginPrimitiveSigner P) (payload : list Z) (ksn hn : string)
  : ptr plugin_GenerateSignatureRequest :=
  PNew (mk_GenerateSignatureRequest "1.0" (pluginPrimitiveSigner_keyID P s) ksn hn payload
                                    (pluginPrimitiveSigner_pluginConfig P s)).

(* on ALL key specs, answers of generate-signature and of parseCertChain *)
Theorem gen_primSign_spec s payload :
  primSign s payload
  = match model_row (pluginPrimitiveSigner_keySpec P s) with
    | None => ([], [], Some err_invalid_keyspec)
    | Some (ksn, hn, _) =>
        let '(resp, e) := GS (gs_request s payload ksn hn) in
        match e with
        | Some x => ([], [], Some x)
        | None =>
            match ptr_val resp with
            | None => ([], [], Some err_nil_gs)
            | Some r =>
                if String.eqb (pluginPrimitiveSigner_keyID P s) (GenerateSignatureResponse_KeyID r)
                then let '(certs, pe) := parse (GenerateSignatureResponse_CertificateChain r) in
                     match pe with
                     | Some x => ([], [], Some x)
                     | None => (GenerateSignatureResponse_Signature r, certs, None)
                     end
                else ([], [], Some err_keyid2)
            end
        end
    end.
Proof.
  unfold gen_signer_pluginPrimitiveSigner_Sign, gs_request.
  rewrite gen_EncodeKeySpec_equiv, gen_HashAlgorithmFromKeySpec_equiv.
  destruct (model_row_tables (pluginPrimitiveSigner_keySpec P s)) as (-> & -> & _).
  destruct (model_row (pluginPrimitiveSigner_keySpec P s)) as [[[ksn hn] a]|];
    cbn [option_map fst snd is_none negb]; [|reflexivity].
  destruct (GS _) as [resp [x|]]; cbn [is_none negb]; [reflexivity|].
  destruct (ptr_val resp) as [r|]; [|reflexivity].
  cbn [GenerateSignatureRequest_KeyID].
  destruct (String.eqb (pluginPrimitiveSigner_keyID P s) (GenerateSignatureResponse_KeyID r)); cbn [negb]; [|reflexivity].
  destruct (parse _) as [certs [x|]]; reflexivity.
Qed.

(* the part of the model's gen_signature_n that pluginPrimitiveSigner.Sign decides: which
   request is sent (o_gs_req) and the errors EOther / ENilGS / EGenSig / EKeyId2 / EChainParse *)
Definition prim_sign (n : nils) (i : input) (k : kspec) : option eclass * option (string * string) :=
  match encode_keyspec k, hash_of_keyspec k with
  | Some ksn, Some hn =>
      let req := Some (ksn, hn) in
      if n_gs n then (Some ENilGS, req)
      else match i_gs i with
           | GSErr => (Some EGenSig, req)
           | GSAns f =>
               if negb (String.eqb (i_keyid i) (gs_keyid f)) then (Some EKeyId2, req)
               else if negb (gs_chain_parse f) then (Some EChainParse, req)
               else (None, req)
           end
  | _, _ => (Some EOther, None)
  end.

(* what notation-core-go does with the signature and the chain afterwards (not translated) *)
Definition core_checks (i : input) (f : gsfacts) (a : alg) : result :=
  if gs_sig_empty f then RErr ECore
  else if (gs_chain_len f =? 0)%N then RErr ECore
  else if negb (gs_chain_valid f) then RErr ECore
  else if negb (opt_eqb alg_eqb (gs_leaf_alg f) (Some a)) then RErr ECore
  else if negb (gs_sig_ok f) then RErr EVerify
  else RSig false (Some (built_ret i a)).

(* the model's gen_signature_n factors through prim_sign *)
Theorem gen_signature_n_factor n i k :
  i_mt_ok i = true ->
  gen_signature_n n i k
  = (match fst (prim_sign n i k) with
     | Some c => RErr c
     | None => match i_gs i, alg_of_keyspec k with
               | GSAns f, Some a => core_checks i f a
               | _, _ => RErr EOther
               end
     end, snd (prim_sign n i k)).
Proof.
  intros Hmt. destruct k as [t sz]. unfold gen_signature_n, gen_signature, prim_sign, core_checks.
  rewrite Hmt. cbn [negb].
  destruct (ks_row_tables t sz) as (-> & -> & ->).
  destruct (ks_row t sz) as [[[ksn hn] a]|]; cbn [option_map fst snd].
  - destruct (n_gs n); [reflexivity|].
    destruct (i_gs i) as [|f]; [reflexivity|].
    destruct (negb (String.eqb (i_keyid i) (gs_keyid f))); [reflexivity|].
    destruct (negb (gs_chain_parse f)); [reflexivity|]. cbn [fst snd].
    destruct (gs_sig_empty f); [reflexivity|].
    destruct (gs_chain_len f =? 0)%N; [reflexivity|].
    destruct (negb (gs_chain_valid f)); [reflexivity|].
    destruct (negb (opt_eqb alg_eqb (gs_leaf_alg f) (Some a))); [reflexivity|].
    destruct (negb (gs_sig_ok f)); reflexivity.
  - destruct (n_gs n); reflexivity.
Qed.

(* "the oracles answered what the model's input says generate-signature answered and what
   crypto/x509 says about the answered chain" *)
Definition gs_agrees (n : nils) (i : input) (ans : ptr plugin_GenerateSignatureResponse * option err) : Prop :=
  if n_gs n then ptr_val (fst ans) = None /\ snd ans = None
  else match i_gs i with
       | GSErr => snd ans <> None
       | GSAns f =>
           snd ans = None /\
           exists r, ptr_val (fst ans) = Some r /\
                     GenerateSignatureResponse_KeyID r = gs_keyid f /\
                     is_none (snd (parse (GenerateSignatureResponse_CertificateChain r))) = gs_chain_parse f
       end.

Theorem gen_primSign_equiv n i k s payload :
  kspec_of (pluginPrimitiveSigner_keySpec P s) = Some k ->
  pluginPrimitiveSigner_keyID P s = i_keyid i ->
  (forall ksn hn, snd (prim_sign n i k) = Some (ksn, hn) -> gs_agrees n i (GS (gs_request s payload ksn hn))) ->
  match fst (prim_sign n i k) with
  | Some c =>
      exists pe, err_of_class c pe <> None /\ primSign s payload = ([], [], err_of_class c pe)
  | None =>
      exists ksn hn r certs,
        snd (prim_sign n i k) = Some (ksn, hn) /\
        ptr_val (fst (GS (gs_request s payload ksn hn))) = Some r /\
        parse (GenerateSignatureResponse_CertificateChain r) = (certs, None) /\
        primSign s payload = (GenerateSignatureResponse_Signature r, certs, None)
  end.
Proof.
  intros Hk Hid A. rewrite gen_primSign_spec. unfold model_row. rewrite Hk.
  destruct k as [t sz]. cbn [fst snd]. unfold prim_sign in *.
  destruct (ks_row_tables t sz) as (E1 & E2 & _). rewrite E1, E2 in *. clear E1 E2.
  destruct (ks_row t sz) as [[[ksn hn] a]|]; cbn [option_map fst snd] in *.
  2:{ exists None. split; [discriminate|reflexivity]. }
  unfold gs_agrees in A.
  destruct (n_gs n).
  - specialize (A ksn hn eq_refl). cbn [fst snd].
    destruct (GS (gs_request s payload ksn hn)) as [resp e]. cbn [fst snd] in A. destruct A as [A1 A2].
    subst e. rewrite A1. exists None. split; [discriminate|reflexivity].
  - destruct (i_gs i) as [|f].
    + specialize (A ksn hn eq_refl). cbn [fst snd].
      destruct (GS (gs_request s payload ksn hn)) as [resp [x|]]; cbn [fst snd] in A; [|contradiction].
      exists (Some x). split; [discriminate|reflexivity].
    + destruct (negb (String.eqb (i_keyid i) (gs_keyid f))) eqn:Ek.
      * specialize (A ksn hn eq_refl). cbn [fst snd].
        destruct (GS (gs_request s payload ksn hn)) as [resp e]. cbn [fst snd] in A.
        destruct A as (-> & r & -> & Hr & _). rewrite Hid, Hr.
        apply negb_true_iff in Ek. rewrite Ek.
        exists None. split; [discriminate|reflexivity].
      * destruct (negb (gs_chain_parse f)) eqn:Ec.
        -- specialize (A ksn hn eq_refl). cbn [fst snd].
           destruct (GS (gs_request s payload ksn hn)) as [resp e]. cbn [fst snd] in A.
           destruct A as (-> & r & -> & Hr & Hp). rewrite Hid, Hr.
           apply negb_false_iff in Ek. rewrite Ek.
           apply negb_true_iff in Ec. rewrite Ec in Hp.
           destruct (parse _) as [certs [x|]]; cbn in Hp; [|discriminate].
           exists (Some x). split; [discriminate|reflexivity].
        -- cbn [fst snd]. specialize (A ksn hn eq_refl).
           exists ksn, hn.
           destruct (GS (gs_request s payload ksn hn)) as [resp e]. cbn [fst snd] in A |- *.
           destruct A as (-> & r & Hv & Hr & Hp). rewrite Hv, Hid, Hr.
           apply negb_false_iff in Ek. rewrite Ek.
           apply negb_false_iff in Ec. rewrite Ec in Hp.
           destruct (parse _) as [certs [x|]] eqn:Ep; cbn in Hp; [discriminate|].
           exists r, certs. rewrite Ep. repeat split; reflexivity.
Qed.

(* ---------- PluginSigner.Sign / SignBlob ---------- *)

Notation sres := (list Z * ptr (signature_SignerInfo C) * option err)%type.
Variable GSE : ptr (signer_PluginSigner P) -> v1_Descriptor -> notation_go_SignerSignOptions C -> sres.
Variable GSG : ptr (signer_PluginSigner P) -> v1_Descriptor -> notation_go_SignerSignOptions C ->
               algorithm_KeySpec -> ptr plugin_GetMetadataResponse -> list (string * string) -> sres.

Notation Sign := (gen_signer_PluginSigner_Sign DK GM P C GSE GSG).
Notation SignBlob := (gen_signer_PluginSigner_SignBlob DK GM P C GSE GSG).

Definition fail (x : option err) : sres := ([], PNil, x).
(* Sign wraps the errors of its sub-procedures, SignBlob does not *)
Definition wrap_res (r : sres) : sres :=
  match r with
  | (sig, si, Some x) => fail (Some (err_wrap x))
  | (sig, si, None) => (sig, si, None)
  end.

Definition merged (s : signer_PluginSigner P) (opts : notation_go_SignerSignOptions C) : list (string * string) :=
  gen_signer_PluginSigner_mergeConfig P s (SignerSignOptions_PluginConfig C opts).
Definition gm_request s opts : ptr plugin_GetMetadataRequest := PNew (mk_GetMetadataRequest (merged s opts)).

(* the value getKeySpec returns (gen_getKeySpec_spec) *)
Definition getKeySpec_val s cfg : algorithm_KeySpec * option err :=
  let '(resp, e) := DK (dk_request s cfg) in
  match e with
  | Some x => (ks_zero, Some x)
  | None =>
      match ptr_val resp with
      | None => (ks_zero, Some err_nil_dk)
      | Some r =>
          if String.eqb (PluginSigner_keyID P s) (DescribeKeyResponse_KeyID r)
          then match decode_keyspec (DescribeKeyResponse_KeySpec r) with
               | Some k => (ks_of k, None)
               | None => (ks_zero, Some err_unknown_keyspec)
               end
          else (ks_zero, Some err_keyid)
      end
  end.

Lemma getKeySpec_is_val s cfg : getKeySpec s cfg = Some (getKeySpec_val s cfg).
Proof. apply gen_getKeySpec_spec. Qed.

(* Sign on ALL answers: it never panics; the metadata answer is checked for nil before it is
   read; the raw capability is looked at first; errors of the sub-procedures are wrapped *)
Theorem gen_Sign_spec s desc opts :
  Sign s desc opts
  = Some (let '(m, e) := GM (gm_request s opts) in
          match e with
          | Some x => fail (Some x)
          | None =>
              match ptr_val m with
              | None => fail (Some err_nil_meta)
              | Some mv =>
                  match meta_of mv with
                  | MCaps true _ =>
                      match getKeySpec_val s (merged s opts) with
                      | (_, Some x) => fail (Some (err_wrap x))
                      | (ks, None) => wrap_res (GSG (PNew s) desc opts ks m (merged s opts))
                      end
                  | MCaps false true => wrap_res (GSE (PNew s) desc opts)
                  | _ => fail (Some err_nocap)
                  end
              end
          end).
Proof.
  unfold gen_signer_PluginSigner_Sign, gm_request, merged, meta_of, fail, wrap_res.
  destruct (GM _) as [m [x|]]; cbn [is_none negb]; [reflexivity|].
  destruct (ptr_val m) as [mv|]; [|reflexivity].
  rewrite !gen_HasCapability_equiv. change (String.eqb cap_raw "") with false. change (String.eqb cap_env "") with false.
  cbn [orb]. fold cap_raw cap_env.
  destruct (mem_str cap_raw (GetMetadataResponse_Capabilities mv)).
  - rewrite getKeySpec_is_val.
    destruct (getKeySpec_val _ _) as [ks [x|]]; cbn [is_none negb olist]; [reflexivity|].
    destruct (GSG _ _ _ _ _ _) as [[sig si] [x|]]; reflexivity.
  - destruct (mem_str cap_env (GetMetadataResponse_Capabilities mv)); [|reflexivity].
    destruct (GSE _ _ _) as [[sig si] [x|]]; reflexivity.
Qed.

Theorem gen_Sign_total s desc opts : Sign s desc opts <> None.
Proof. rewrite gen_Sign_spec. discriminate. Qed.

Theorem gen_SignBlob_spec s gd opts :
  SignBlob s gd opts
  = Some (let '(m, e) := GM (gm_request s opts) in
          match e with
          | Some x => fail (Some x)
          | None =>
              match ptr_val m with
              | None => fail (Some err_nil_meta)
              | Some mv =>
                  match getKeySpec_val s (merged s opts) with
                  | (_, Some x) => fail (Some x)
                  | (ks, None) =>
                      match gen_signer_getDescriptor ks gd with
                      | (_, Some x) => fail (Some x)
                      | (desc, None) =>
                          match meta_of mv with
                          | MCaps true _ => GSG (PNew s) desc opts ks m (merged s opts)
                          | MCaps false true => GSE (PNew s) desc opts
                          | _ => fail (Some err_nocap)
                          end
                      end
                  end
              end
          end).
Proof.
  unfold gen_signer_PluginSigner_SignBlob, gm_request, merged, meta_of, fail.
  destruct (GM _) as [m [x|]]; cbn [is_none negb]; [reflexivity|].
  destruct (ptr_val m) as [mv|]; [|reflexivity].
  rewrite getKeySpec_is_val.
  destruct (getKeySpec_val _ _) as [ks [x|]]; cbn [is_none negb]; [reflexivity|].
  destruct (gen_signer_getDescriptor ks gd) as [desc [x|]]; cbn [is_none negb]; [reflexivity|].
  rewrite !gen_HasCapability_equiv. change (String.eqb cap_raw "") with false. change (String.eqb cap_env "") with false.
  cbn [orb]. fold cap_raw cap_env.
  destruct (mem_str cap_raw (GetMetadataResponse_Capabilities mv)); [reflexivity|].
  destruct (mem_str cap_env (GetMetadataResponse_Capabilities mv)); reflexivity.
Qed.

Theorem gen_SignBlob_total s gd opts : SignBlob s gd opts <> None.
Proof. rewrite gen_SignBlob_spec. discriminate. Qed.

(* "the oracle answered what the model's input says get-plugin-metadata answered" *)
Definition gm_agrees (n : nils) (i : input) (ans : ptr plugin_GetMetadataResponse * option err) : Prop :=
  if n_meta n then ptr_val (fst ans) = None /\ snd ans = None
  else match i_meta i with
       | MErr => snd ans <> None
       | MCaps raw env =>
           snd ans = None /\ exists mv, ptr_val (fst ans) = Some mv /\ meta_of mv = MCaps raw env
       end.

Lemma getKeySpec_val_model n i s cfg :
  PluginSigner_keyID P s = i_keyid i ->
  dk_agrees n i (DK (dk_request s cfg)) ->
  getKeySpec_val s cfg = ks_outcome (get_keyspec_n n i) (snd (DK (dk_request s cfg))).
Proof.
  intros Hk A. pose proof (gen_getKeySpec_equiv n i s cfg Hk A) as H.
  rewrite getKeySpec_is_val in H. inversion H. reflexivity.
Qed.

Lemma dk_class_has_error n i ans c :
  dk_agrees n i ans -> get_keyspec_n n i = inl c -> err_of_class c (snd ans) <> None.
Proof.
  unfold dk_agrees, get_keyspec_n, get_keyspec. destruct (n_dk n).
  - intros _ H. inversion H. discriminate.
  - destruct (i_dk i) as [|kid ks].
    + intros A H. inversion H. exact A.
    + intros _. destruct (negb (String.eqb (i_keyid i) kid)).
      * intros H. inversion H. discriminate.
      * destruct (decode_keyspec ks); intros H; inversion H. discriminate.
Qed.

(* Sign, in the shape of the Sign branch of the model's model_n: an error class of the model
   is the Go error that stands for it; gen_signature_n is the oracle generateSignature run with
   the DECODED key spec; gen_envelope_n is the oracle generateSignatureEnvelope *)
Theorem gen_Sign_equiv n i s desc opts :
  PluginSigner_keyID P s = i_keyid i ->
  gm_agrees n i (GM (gm_request s opts)) ->
  dk_agrees n i (DK (dk_request s (merged s opts))) ->
  Sign s desc opts
  = Some (if n_meta n then fail (Some err_nil_meta)
          else match i_meta i with
               | MErr => fail (snd (GM (gm_request s opts)))
               | MCaps raw env =>
                   if raw then
                     match get_keyspec_n n i with
                     | inl c => fail (option_map err_wrap (err_of_class c (snd (DK (dk_request s (merged s opts))))))
                     | inr k => wrap_res (GSG (PNew s) desc opts (ks_of k) (fst (GM (gm_request s opts))) (merged s opts))
                     end
                   else if env then wrap_res (GSE (PNew s) desc opts)
                   else fail (Some err_nocap)
               end).
Proof.
  intros Hk Am Ad. rewrite gen_Sign_spec. f_equal.
  rewrite (getKeySpec_val_model n i s _ Hk Ad).
  pose proof (fun c => dk_class_has_error n i _ c Ad) as Hc.
  unfold gm_agrees in Am. destruct (GM (gm_request s opts)) as [m e]. cbn [fst snd] in *.
  destruct (n_meta n).
  - destruct Am as [-> ->]. reflexivity.
  - destruct (i_meta i) as [|raw env].
    + destruct e as [x|]; [reflexivity|contradiction].
    + destruct Am as (-> & mv & -> & ->).
      destruct raw.
      * destruct (get_keyspec_n n i) as [c|k]; cbn [ks_outcome]; [|reflexivity].
        specialize (Hc c eq_refl).
        destruct (err_of_class c _); [reflexivity|contradiction].
      * destruct env; reflexivity.
Qed.

(* a decoded key spec always has a digest algorithm for the descriptor generator *)
Lemma decoded_digest n i k :
  get_keyspec_n n i = inr k -> exists d, digest_name (bits_of k) = Some d.
Proof.
  unfold get_keyspec_n. destruct (n_dk n); [discriminate|]. intros H.
  destruct (get_keyspec_inr i k H) as (ks & _ & D).
  destruct (decode_alg ks k D) as (_ & _ & a & _ & _ & Ha).
  unfold bits_of. rewrite Ha. destruct a; cbn; eauto.
Qed.

(* SignBlob, in the shape of the SignBlob branch of model_n; [gd] is the caller's descriptor
   generator: it is handed the digest algorithm of the DECODED key spec (o_digest_alg) *)
Theorem gen_SignBlob_equiv n i s gd opts :
  PluginSigner_keyID P s = i_keyid i ->
  gm_agrees n i (GM (gm_request s opts)) ->
  dk_agrees n i (DK (dk_request s (merged s opts))) ->
  SignBlob s gd opts
  = Some (if n_meta n then fail (Some err_nil_meta)
          else match i_meta i with
               | MErr => fail (snd (GM (gm_request s opts)))
               | MCaps raw env =>
                   match get_keyspec_n n i with
                   | inl c => fail (err_of_class c (snd (DK (dk_request s (merged s opts)))))
                   | inr k =>
                       match digest_name (bits_of k) with
                       | None => fail (Some err_unknown_hash)
                       | Some d =>
                           match gd d with
                           | (_, Some x) => fail (Some x)
                           | (desc, None) =>
                               if raw then GSG (PNew s) desc opts (ks_of k) (fst (GM (gm_request s opts))) (merged s opts)
                               else if env then GSE (PNew s) desc opts
                               else fail (Some err_nocap)
                           end
                       end
                   end
               end).
Proof.
  intros Hk Am Ad. rewrite gen_SignBlob_spec. f_equal.
  rewrite (getKeySpec_val_model n i s _ Hk Ad).
  pose proof (fun c => dk_class_has_error n i _ c Ad) as Hc.
  unfold gm_agrees in Am. destruct (GM (gm_request s opts)) as [m e]. cbn [fst snd] in *.
  destruct (n_meta n).
  - destruct Am as [-> ->]. reflexivity.
  - destruct (i_meta i) as [|raw env].
    + destruct e as [x|]; [reflexivity|contradiction].
    + destruct Am as (-> & mv & -> & ->).
      destruct (get_keyspec_n n i) as [c|k]; cbn [ks_outcome].
      * specialize (Hc c eq_refl). destruct (err_of_class c _); [reflexivity|contradiction].
      * rewrite gen_getDescriptor_equiv, kspec_of_ks_of.
        destruct (digest_name (bits_of k)) as [d|]; [|reflexivity].
        destruct (gd d) as [desc [x|]]; [reflexivity|].
        destruct raw; [reflexivity|]. destruct env; reflexivity.
Qed.

Lemma get_keyspec_n_inr n i k :
  get_keyspec_n n i = inr k ->
  n_dk n = false /\ exists ks, i_dk i = DKAns (i_keyid i) ks /\ decode_keyspec ks = Some k.
Proof.
  unfold get_keyspec_n. destruct (n_dk n); [discriminate|]. intros H.
  split; [reflexivity|]. apply get_keyspec_inr. exact H.
Qed.

Lemma wrap_res_nil r sig si : wrap_res r = (sig, si, None) -> r = (sig, si, None).
Proof. destruct r as [[a b] [x|]]; cbn; [discriminate|auto]. Qed.

(* The property, on the code as translated (clauses 7, 9, 10 at the level of Sign): whatever
   the plugin answers, Sign does not panic, and it returns a signature (nil error) only if
   get-plugin-metadata answered a non-nil response with a signing capability and
   - raw capability: describe-key answered (non-nil) for the REQUESTED key id with one of the
     six key spec names, and the signature is what generateSignature returned for that key spec;
   - envelope capability only: the signature is what generateSignatureEnvelope returned. *)
Theorem gen_Sign_signature_only n i s desc opts sig si :
  PluginSigner_keyID P s = i_keyid i ->
  gm_agrees n i (GM (gm_request s opts)) ->
  dk_agrees n i (DK (dk_request s (merged s opts))) ->
  Sign s desc opts = Some (sig, si, None) ->
  n_meta n = false /\
  exists raw env, i_meta i = MCaps raw env /\
    ((raw = true /\ n_dk n = false /\
      exists ks k, i_dk i = DKAns (i_keyid i) ks /\ decode_keyspec ks = Some k /\
                   GSG (PNew s) desc opts (ks_of k) (fst (GM (gm_request s opts))) (merged s opts) = (sig, si, None))
     \/ (raw = false /\ env = true /\ GSE (PNew s) desc opts = (sig, si, None))).
Proof.
  intros Hk Am Ad. rewrite (gen_Sign_equiv n i s desc opts Hk Am Ad). intros H. injection H as H'.
  destruct (n_meta n) eqn:Nm; [discriminate|]. split; [reflexivity|].
  unfold gm_agrees in Am. rewrite Nm in Am.
  destruct (i_meta i) as [|raw env].
  - exfalso. inversion H'. congruence.
  - exists raw, env. split; [reflexivity|]. destruct raw.
    + left. destruct (get_keyspec_n n i) as [c|k] eqn:G.
      * exfalso. pose proof (dk_class_has_error n i _ c Ad G) as Hc.
        destruct (err_of_class c _); [discriminate|contradiction].
      * destruct (get_keyspec_n_inr n i k G) as (Hn & ks & E & D).
        split; [reflexivity|]. split; [exact Hn|]. exists ks, k.
        split; [exact E|]. split; [exact D|]. apply wrap_res_nil. exact H'.
    + right. destruct env; [|discriminate]. split; [reflexivity|]. split; [reflexivity|].
      apply wrap_res_nil. exact H'.
Qed.

(* the same for SignBlob: describe-key is asked whatever the capability, and the descriptor
   that is signed is the one the caller's generator returned for the digest algorithm of the
   decoded key spec *)
Theorem gen_SignBlob_signature_only n i s gd opts sig si :
  PluginSigner_keyID P s = i_keyid i ->
  gm_agrees n i (GM (gm_request s opts)) ->
  dk_agrees n i (DK (dk_request s (merged s opts))) ->
  SignBlob s gd opts = Some (sig, si, None) ->
  n_meta n = false /\ n_dk n = false /\
  exists raw env ks k d desc,
    i_meta i = MCaps raw env /\
    i_dk i = DKAns (i_keyid i) ks /\ decode_keyspec ks = Some k /\
    digest_name (bits_of k) = Some d /\ gd d = (desc, None) /\
    ((raw = true /\
      GSG (PNew s) desc opts (ks_of k) (fst (GM (gm_request s opts))) (merged s opts) = (sig, si, None))
     \/ (raw = false /\ env = true /\ GSE (PNew s) desc opts = (sig, si, None))).
Proof.
  intros Hk Am Ad. rewrite (gen_SignBlob_equiv n i s gd opts Hk Am Ad). intros H. injection H as H'.
  destruct (n_meta n) eqn:Nm; [discriminate|]. split; [reflexivity|].
  unfold gm_agrees in Am. rewrite Nm in Am.
  destruct (i_meta i) as [|raw env].
  - exfalso. inversion H'. congruence.
  - destruct (get_keyspec_n n i) as [c|k] eqn:G.
    + exfalso. pose proof (dk_class_has_error n i _ c Ad G) as Hc.
      inversion H'. congruence.
    + destruct (get_keyspec_n_inr n i k G) as (Hn & ks & E & D). split; [exact Hn|].
      destruct (digest_name (bits_of k)) as [d|] eqn:Dd; [|discriminate].
      destruct (gd d) as [desc [x|]] eqn:Gd; [discriminate|].
      exists raw, env, ks, k, d, desc.
      split; [reflexivity|]. split; [exact E|]. split; [exact D|]. split; [exact Dd|]. split; [exact Gd|].
      destruct raw; [left; split; [reflexivity|exact H']|].
      right. destruct env; [|discriminate]. split; [reflexivity|]. split; [reflexivity|]. exact H'.
Qed.

(* ---------- composition with the model: signature or error, like model_n ----------
   A Go result agrees with a result of the model when both are a signature (nil error) or both
   are an error. If the two sub-procedures that are not translated (oracles) agree with the
   model's gen_signature_n / gen_envelope_n, then the translated Sign / SignBlob agree with
   the model's model_n: the dispatch, the key id / key spec checks and the nil checks of the
   code are those of the model. *)
Definition res_agrees (r : sres) (m : result) : Prop :=
  match m with
  | RSig _ _ => snd r = None
  | RErr _ => snd r <> None
  | RPanic => False
  end.

Lemma res_agrees_wrap r m : res_agrees r m -> res_agrees (wrap_res r) m.
Proof. destruct r as [[a b] [x|]], m; cbn; intros H; try exact H; try discriminate. Qed.

Theorem gen_Sign_model n i s desc opts :
  i_blob i = false ->
  PluginSigner_keyID P s = i_keyid i ->
  gm_agrees n i (GM (gm_request s opts)) ->
  dk_agrees n i (DK (dk_request s (merged s opts))) ->
  (forall k, get_keyspec_n n i = inr k ->
     res_agrees (GSG (PNew s) desc opts (ks_of k) (fst (GM (gm_request s opts))) (merged s opts))
                (fst (gen_signature_n n i k))) ->
  res_agrees (GSE (PNew s) desc opts) (gen_envelope_n n i) ->
  exists r, Sign s desc opts = Some r /\ res_agrees r (o_res (model_n n i)).
Proof.
  intros Hb Hk Am Ad HG HE. rewrite (gen_Sign_equiv n i s desc opts Hk Am Ad).
  eexists. split; [reflexivity|]. unfold model_n. rewrite Hb.
  destruct (n_meta n) eqn:Nm; [cbn; discriminate|].
  unfold gm_agrees in Am. rewrite Nm in Am.
  destruct (i_meta i) as [|raw env]; [exact Am|].
  destruct raw.
  - destruct (get_keyspec_n n i) as [c|k] eqn:G.
    + cbn. pose proof (dk_class_has_error n i _ c Ad G) as Hc.
      destruct (err_of_class c _); [discriminate|contradiction].
    + specialize (HG k eq_refl). destruct (gen_signature_n n i k) as [r q]. cbn [fst o_res] in *.
      apply res_agrees_wrap. exact HG.
  - destruct env; [|cbn; discriminate]. cbn [o_res]. apply res_agrees_wrap. exact HE.
Qed.

Theorem gen_SignBlob_model n i s gd opts :
  i_blob i = true ->
  PluginSigner_keyID P s = i_keyid i ->
  gm_agrees n i (GM (gm_request s opts)) ->
  dk_agrees n i (DK (dk_request s (merged s opts))) ->
  (forall d, snd (gd d) = None) ->                       (* the caller's generator succeeds *)
  (forall k d, get_keyspec_n n i = inr k -> digest_name (bits_of k) = Some d ->
     res_agrees (GSG (PNew s) (fst (gd d)) opts (ks_of k) (fst (GM (gm_request s opts))) (merged s opts))
                (fst (gen_signature_n n i k)) /\
     res_agrees (GSE (PNew s) (fst (gd d)) opts) (gen_envelope_n n i)) ->
  exists r, SignBlob s gd opts = Some r /\ res_agrees r (o_res (model_n n i)).
Proof.
  intros Hb Hk Am Ad Hgd HS. rewrite (gen_SignBlob_equiv n i s gd opts Hk Am Ad).
  eexists. split; [reflexivity|]. unfold model_n. rewrite Hb.
  destruct (n_meta n) eqn:Nm; [cbn; discriminate|].
  unfold gm_agrees in Am. rewrite Nm in Am.
  destruct (i_meta i) as [|raw env]; [exact Am|].
  destruct (get_keyspec_n n i) as [c|k] eqn:G.
  - cbn. pose proof (dk_class_has_error n i _ c Ad G) as Hc.
    destruct (err_of_class c _); [discriminate|contradiction].
  - destruct (decoded_digest n i k G) as [d Dd]. rewrite Dd.
    specialize (HS k d eq_refl Dd). specialize (Hgd d).
    destruct (gd d) as [desc e]. cbn [fst snd] in *. subst e.
    destruct HS as [HG HE].
    destruct raw.
    + destruct (gen_signature_n n i k) as [r q]. exact HG.
    + destruct env; [exact HE|cbn; discriminate].
Qed.

(* C18_signature_iff_accepted, transported: when no command answers nil and the sub-procedures
   agree with the model, the translated Sign returns a signature exactly for the accepted
   plugin answers ([accepts]) *)
Theorem gen_Sign_accepts i s desc opts :
  i_blob i = false ->
  PluginSigner_keyID P s = i_keyid i ->
  gm_agrees no_nils i (GM (gm_request s opts)) ->
  dk_agrees no_nils i (DK (dk_request s (merged s opts))) ->
  (forall k, get_keyspec i = inr k ->
     res_agrees (GSG (PNew s) desc opts (ks_of k) (fst (GM (gm_request s opts))) (merged s opts))
                (fst (gen_signature i k))) ->
  res_agrees (GSE (PNew s) desc opts) (gen_envelope i) ->
  ((exists sig si, Sign s desc opts = Some (sig, si, None)) <-> accepts i = true).
Proof.
  intros Hb Hk Am Ad HG HE.
  destruct (gen_Sign_model no_nils i s desc opts Hb Hk Am Ad HG HE) as (r & Hr & Ha).
  rewrite model_n_no_nils in Ha. rewrite Hr. rewrite <- sig_iff.
  destruct r as [[sig si] e]. unfold res_agrees in Ha. cbn [snd] in Ha.
  destruct (o_res (model i)) as [same rf|c|]; [| |contradiction].
  - subst e. split; eauto.
  - split; [intros (a & b & H); inversion H; congruence|intros (a & b & H); discriminate].
Qed.

End Oracles.

(* ================================================================================
   5. The model's generateSignatureEnvelope (gen_envelope), with the two decisions that are
      translated put at the places where the Go code calls them. generateSignatureEnvelope
      itself is outside the subset (json.Marshal / json.Unmarshal into a struct, a write
      through the receiver): the echo / parse / verify / unmarshal / unknown-member steps stay
      tied to the code by the correspondence harness only.
   ================================================================================ *)

(* a Go descriptor with the decoded part [d] (the other fields are not looked at) *)
Definition desc_of_dsc (d : dsc) : v1_Descriptor :=
  mk_Descriptor (d_mt d) (d_dg d) (d_sz d) [] (d_ann d) [] PNil "".

Lemma dsc_of_desc_of_dsc d : dsc_of (desc_of_dsc d) = d.
Proof. destruct d; reflexivity. Qed.

Theorem gen_envelope_via_generated i a f content :
  requests i a -> i_ge i = GEAns f ->
  gen_envelope i
  = if negb (String.eqb (ge_type f) (i_mt i)) then RErr EEcho
    else if negb (i_mt_ok i) then RErr EFormat
    else if negb (ge_parse f) then RErr EParse
    else if negb (ge_verify f) then RErr EVerify
    else match gen_envelope_ValidatePayloadContentType (PNew (mk_Payload (ge_ctype f) content)) with
         | Some None =>
             match ge_payload f with
             | None => RErr EUnmarshal
             | Some j =>
                 match dec_payload j with
                 | None => RErr EUnmarshal
                 | Some d =>
                     if negb (gen_signer_isPayloadDescriptorValid a (desc_of_dsc d)) then RErr EDescChanged
                     else match unknown_attrs j with
                          | [] => RSig true None
                          | _ => RErr EUnknownAttr
                          end
                 end
             end
         | _ => RErr ECtype
         end.
Proof.
  intros R E. unfold gen_envelope. rewrite E.
  rewrite gen_ValidatePayloadContentType_equiv. cbn [ptr_val Payload_ContentType].
  destruct (negb (String.eqb (ge_type f) (i_mt i))); [reflexivity|].
  destruct (negb (i_mt_ok i)); [reflexivity|].
  destruct (negb (ge_parse f)); [reflexivity|].
  destruct (negb (ge_verify f)); [reflexivity|].
  destruct (String.eqb (ge_ctype f) payload_type); cbn [negb]; [|reflexivity].
  destruct (ge_payload f) as [j|]; [|reflexivity].
  destruct (dec_payload j) as [d|]; [|reflexivity].
  rewrite (gen_isPayloadDescriptorValid_equiv i a _ R), dsc_of_desc_of_dsc. reflexivity.
Qed.

(* C18_envelope, clauses 3-5, on the translated checks: an envelope the model returns has
   passed the translated payload-type check and the translated descriptor check *)
Theorem gen_envelope_sig_checked i a f content same rf :
  requests i a -> i_ge i = GEAns f -> gen_envelope i = RSig same rf ->
  gen_envelope_ValidatePayloadContentType (PNew (mk_Payload (ge_ctype f) content)) = Some None /\
  exists j d, ge_payload f = Some j /\ dec_payload j = Some d /\
              gen_signer_isPayloadDescriptorValid a (desc_of_dsc d) = true.
Proof.
  intros R E. rewrite (gen_envelope_via_generated i a f content R E).
  destruct (negb (String.eqb (ge_type f) (i_mt i))); [discriminate|].
  destruct (negb (i_mt_ok i)); [discriminate|].
  destruct (negb (ge_parse f)); [discriminate|].
  destruct (negb (ge_verify f)); [discriminate|].
  destruct (gen_envelope_ValidatePayloadContentType _) as [[x|]|]; [discriminate| |discriminate].
  destruct (ge_payload f) as [j|] eqn:Ej; [|discriminate].
  destruct (dec_payload j) as [d|] eqn:Ed; [|discriminate].
  destruct (gen_signer_isPayloadDescriptorValid a (desc_of_dsc d)) eqn:Ev; cbn [negb]; [|discriminate].
  intros _. split; [reflexivity|]. exists j, d. repeat split; assumption.
Qed.
