(* C09_Model.v — model of trust policy document validation in notation-go.
   Definitions only. Mirrors, statement by statement,

     verifier/trustpolicy/oci.go    OCIDocument.Validate, validateRegistryScopes,
                                    validateRegistryScopeFormat
     verifier/trustpolicy/blob.go   BlobDocument.Validate   (after fix 81abfe4)
     verifier/trustpolicy/trustpolicy.go
                                    validatePolicyCore, validateTrustStore,
                                    validateTrustedIdentities, validateOverlappingDNs,
                                    isValidTrustStoreType
                                    (GetVerificationLevel is C02_Levels.get_level)
     internal/file/file.go          IsValidFileName             (after fix 7fbf478)
     internal/pkix/pkix.go          ParseDistinguishedName, IsSubsetDN  (C04_DN)
     verifier/verifier.go           NewVerifierWithOptions: the nil checks (trust
                                    store, both documents) and the two Validate
                                    calls; the deprecated wrappers New and
                                    NewWithOptions ([ctor], [construct])

   Constants: the level tables, validation types/actions, store types, the two
   timestamp options and the three regular expressions come from Generated.v
   (regenerated from /repo on every run). The supported versions ("1.0"), the
   wildcard "*" and the identity prefix "x509.subject" are not in Generated.v
   and are written here by hand.

   Errors are observed as a class (which rule fired), not as text. The four
   errors GetVerificationLevel can raise for an override entry are one class
   (EOverride): the override is a Go map, so with several bad entries the
   entry reported first is not determined. *)
From NV Require Import Base Regex Generated C02_Levels C04_DN.
Open Scope string_scope.
Open Scope list_scope.

(* ---------- documents ---------- *)

Record sigver := mk_sv {
  sv_level : string;
  sv_override : amap;        (* Go map: unique keys (input contract [wf]) *)
  sv_ts : string }.          (* verifyTimestamp *)

Record stmt := mk_stmt {
  s_name : string;
  s_sv : sigver;
  s_stores : list string;
  s_ids : list string;
  s_scopes : list string;    (* registryScopes; OCI only (blob: []) *)
  s_global : bool }.         (* globalPolicy; blob only (OCI: false) *)

Record doc := mk_doc { d_version : string; d_stmts : list stmt }.

Inductive kind := OCI | Blob.

(* which rule rejected *)
Inductive errc :=
| EOk
| ENil | EVersionEmpty | EVersionUnsupported | ENoStatements | EDupName
| ENameEmpty | ELevelEmpty | ELevelUnknown | ESkipCustom | EOverride | ETimestamp
| ESkipWithStores | EMissingStoresOrIds
| EStoreMalformed | EStoreType | EStoreName
| EIdWildcardMixed | EIdEmpty | EIdNoSep | EIdNoValue | EIdDN | EIdOverlap
| EScopesZero | EScopeWildcardMixed | EScopeWildcardIn | EScopeInvalid | EScopeDup
| EGlobalMulti | EGlobalSkip
| EStoreNil | EBothNil
| EOther.                    (* an error text the harness could not classify *)

(* sequencing of checks with early return *)
Definition andthen (e k : errc) : errc := match e with EOk => k | _ => e end.
Notation "e ;; k" := (andthen e k) (at level 61, right associativity).

Definition supported_versions : list string := ["1.0"].
Definition wildcard : string := "*".
Definition x509_subject : string := "x509.subject".

Definition is_empty {A} (l : list A) : bool := match l with [] => true | _ => false end.

(* ---------- trust stores ---------- *)

(* file.IsValidFileName *)
Definition is_valid_file_name (s : string) : bool :=
  if String.eqb s "." || String.eqb s ".." then false
  else matches gen_re_filename s.

(* validateTrustStore *)
Fixpoint validate_trust_store (stores : list string) : errc :=
  match stores with
  | [] => EOk
  | st :: rest =>
      match cut_byte ":" st with
      | None => EStoreMalformed
      | Some (ty, nm) =>
          if negb (mem_str ty gen_store_types) then EStoreType
          else if negb (is_valid_file_name nm) then EStoreName
          else validate_trust_store rest
      end
  end.

(* ---------- trusted identities ---------- *)

(* the loop of validateTrustedIdentities: the first error, or the parsed
   x509.subject identities in order *)
Fixpoint ids_loop (ids : list string) : errc + list amap :=
  match ids with
  | [] => inr []
  | id :: rest =>
      if String.eqb id "" then inl EIdEmpty
      else if String.eqb id wildcard then ids_loop rest
      else match cut_byte ":" id with
           | None => inl EIdNoSep
           | Some (p, v) =>
               if String.eqb p x509_subject then
                 if String.eqb v "" then inl EIdNoValue
                 else match parse_distinguished_name v with
                      | DErr _ => inl EIdDN
                      | DOk m =>
                          match ids_loop rest with
                          | inl e => inl e
                          | inr l => inr (m :: l)
                          end
                      end
               else ids_loop rest
           end
  end.

Definition indexed {A} (l : list A) : list (nat * A) := combine (seq 0 (List.length l)) l.

(* validateOverlappingDNs: some i <> j with IsSubsetDN(dn_i, dn_j) *)
Definition overlapping (dns : list amap) : bool :=
  existsb (fun ia => existsb (fun jb =>
    negb (Nat.eqb (fst ia) (fst jb)) && is_subset_dn (snd ia) (snd jb)) (indexed dns)) (indexed dns).

Definition validate_trusted_identities (ids : list string) : errc :=
  if Nat.ltb 1 (List.length ids) && mem_str wildcard ids then EIdWildcardMixed
  else match ids_loop ids with
       | inl e => e
       | inr dns => if overlapping dns then EIdOverlap else EOk
       end.

(* ---------- validatePolicyCore ---------- *)

Definition level_errc (e : level_error) : errc :=
  match e with
  | ErrEmptyLevel => ELevelEmpty
  | ErrUnknownLevel => ELevelUnknown
  | ErrSkipCustom => ESkipCustom
  | _ => EOverride
  end.

Definition ts_ok (ts : string) : bool :=
  String.eqb ts "" || String.eqb ts gen_option_always || String.eqb ts gen_option_after_cert_expiry.

Definition validate_policy_core (name : string) (sv : sigver) (stores ids : list string) : errc :=
  if String.eqb name "" then ENameEmpty
  else match get_level (sv_level sv) (sv_override sv) with
       | inl e => level_errc e
       | inr (lname, _) =>
           if negb (ts_ok (sv_ts sv)) then ETimestamp
           else if String.eqb lname "skip" then
             (if negb (is_empty stores) || negb (is_empty ids) then ESkipWithStores else EOk)
           else if is_empty stores || is_empty ids then EMissingStoresOrIds
           else validate_trust_store stores ;; validate_trusted_identities ids
       end.

Definition core_of (s : stmt) : errc :=
  validate_policy_core (s_name s) (s_sv s) (s_stores s) (s_ids s).

(* ---------- registry scopes (OCI) ---------- *)

(* validateRegistryScopeFormat *)
Definition validate_scope_format (sc : string) : errc :=
  if Nat.ltb 1 (String.length sc) && contains_byte "*" sc then EScopeWildcardIn
  else match cut_byte "/" sc with
       | None => EScopeInvalid
       | Some (d, r) =>
           if String.eqb d "" || String.eqb r "" || negb (matches gen_re_domain d)
              || negb (matches gen_re_repository r)
           then EScopeInvalid else EOk
       end.

Fixpoint scopes_inner (scs : list string) : errc :=
  match scs with
  | [] => EOk
  | sc :: rest =>
      (if String.eqb sc wildcard then EOk else validate_scope_format sc) ;; scopes_inner rest
  end.

Fixpoint scopes_loop (ss : list stmt) : errc :=
  match ss with
  | [] => EOk
  | s :: rest =>
      if is_empty (s_scopes s) then EScopesZero
      else if Nat.ltb 1 (List.length (s_scopes s)) && mem_str wildcard (s_scopes s)
      then EScopeWildcardMixed
      else scopes_inner (s_scopes s) ;; scopes_loop rest
  end.

(* some count of registryScopeCount exceeds 1 *)
Fixpoint has_dup (l : list string) : bool :=
  match l with
  | [] => false
  | x :: r => mem_str x r || has_dup r
  end.

Definition validate_registry_scopes (ss : list stmt) : errc :=
  scopes_loop ss ;; (if has_dup (flat_map s_scopes ss) then EScopeDup else EOk).

(* ---------- the two Validate methods ---------- *)

Fixpoint oci_loop (ss : list stmt) (names : list string) : errc :=
  match ss with
  | [] => EOk
  | s :: rest =>
      if mem_str (s_name s) names then EDupName
      else core_of s ;; oci_loop rest (s_name s :: names)
  end.

Definition validate_oci (d : doc) : errc :=
  if String.eqb (d_version d) "" then EVersionEmpty
  else if negb (mem_str (d_version d) supported_versions) then EVersionUnsupported
  else if is_empty (d_stmts d) then ENoStatements
  else oci_loop (d_stmts d) [] ;; validate_registry_scopes (d_stmts d).

Fixpoint blob_loop (ss : list stmt) (names : list string) (found_global : bool) : errc :=
  match ss with
  | [] => EOk
  | s :: rest =>
      if mem_str (s_name s) names then EDupName
      else core_of s ;;
           (if s_global s then
              if found_global then EGlobalMulti
              else if String.eqb (sv_level (s_sv s)) "skip" then EGlobalSkip
              else blob_loop rest (s_name s :: names) true
            else blob_loop rest (s_name s :: names) found_global)
  end.

Definition validate_blob (d : doc) : errc :=
  if String.eqb (d_version d) "" then EVersionEmpty
  else if negb (mem_str (d_version d) supported_versions) then EVersionUnsupported
  else if is_empty (d_stmts d) then ENoStatements
  else blob_loop (d_stmts d) [] false.

Definition validate (k : kind) (d : doc) : errc :=
  match k with OCI => validate_oci d | Blob => validate_blob d end.

(* Validate on a possibly nil pointer *)
Definition validate_ptr (k : kind) (d : option doc) : errc :=
  match d with None => ENil | Some d => validate k d end.

(* the document decoded from JSON: "null" leaves the zero document *)
Definition validate_json (k : kind) (d : option doc) : errc :=
  match d with None => validate k (mk_doc "" []) | Some d => validate k d end.

(* verifier.NewVerifierWithOptions with a non-nil trust store: nil checks and
   the two Validate calls, OCI first (setRevocation with default options does
   not fail) *)
Definition new_verifier (oci blob : option doc) : errc :=
  match oci, blob with
  | None, None => EBothNil
  | _, _ =>
      (match oci with Some d => validate OCI d | None => EOk end) ;;
      (match blob with Some d => validate Blob d | None => EOk end)
  end.

(* the ways a verifier is constructed from documents held in memory
   (verifier/verifier.go). All of them end in NewVerifierWithOptions:
     New(oci, store, pm)                  = NewVerifierWithOptions(store, {OCITrustPolicy: oci})
     NewWithOptions(oci, store, pm, opts) = opts.OCITrustPolicy = oci (whatever opts carried
                                            there before - the decoy - is overwritten);
                                            NewVerifierWithOptions(store, opts)
   and NewVerifierWithOptions refuses a nil trust store before anything else. *)
Inductive ctor :=
| CtorOptions                              (* NewVerifierWithOptions(store, {oci, blob}) *)
| CtorNilStore                             (* NewVerifierWithOptions(nil, {oci, blob}) *)
| CtorNew                                  (* New(oci, store, nil): no blob document can be given *)
| CtorWithOptions (decoy : option doc).    (* NewWithOptions(oci, store, nil, {decoy, blob}) *)

Definition new_verifier_store (store_nil : bool) (oci blob : option doc) : errc :=
  if store_nil then EStoreNil else new_verifier oci blob.

Definition construct (c : ctor) (oci blob : option doc) : errc :=
  match c with
  | CtorOptions => new_verifier_store false oci blob
  | CtorNilStore => new_verifier_store true oci blob
  | CtorNew => new_verifier_store false oci None
  | CtorWithOptions _ => new_verifier_store false oci blob
  end.

(* ---------- the level a statement yields ---------- *)

(* a verification level as observed: its name and, for the validation types in
   the order of ValidationTypes, one letter per action ('-' = absent) *)
Definition action_letter (o : option string) : string :=
  match o with
  | None => "-"
  | Some a => if String.eqb a "enforce" then "e" else if String.eqb a "log" then "l"
              else if String.eqb a "skip" then "s" else "?"
  end.

Definition enf_code (enf : amap) : string :=
  String.concat "" (map (fun t => action_letter (lookup t enf)) gen_validation_types).

Definition level_obs (s : stmt) : option (string * string) :=
  match get_level (sv_level (s_sv s)) (sv_override (s_sv s)) with
  | inl _ => None
  | inr (n, enf) => Some (n, enf_code enf)
  end.

(* ---------- cases ---------- *)

Record input := mk_input_c {
  i_kind : kind;
  i_doc : option doc;        (* the document under test (None = nil pointer) *)
  i_other : option doc;      (* the document of the other kind handed to the
                                constructor together with it *)
  i_ctor : ctor }.           (* which constructor builds the verifier *)

(* the ordinary case: NewVerifierWithOptions with a trust store *)
Definition mk_input (k : kind) (d o : option doc) : input := mk_input_c k d o CtorOptions.

Record obs := mk_obs {
  o_val : errc;              (* Validate on the Go struct *)
  o_json : errc;             (* Validate on the struct decoded from JSON text *)
  o_new : errc;              (* NewVerifierWithOptions *)
  o_levels : list (option (string * string)) }.
                             (* GetVerificationLevel of every statement, when
                                Validate accepted the struct; [] otherwise *)

Definition oci_of (i : input) := match i_kind i with OCI => i_doc i | Blob => i_other i end.
Definition blob_of (i : input) := match i_kind i with OCI => i_other i | Blob => i_doc i end.

Definition other_kind (k : kind) : kind := match k with OCI => Blob | Blob => OCI end.

(* what the harness observes, written with the specification functions *)
Definition model_spec (i : input) : obs :=
  let v := validate_ptr (i_kind i) (i_doc i) in
  mk_obs v (validate_json (i_kind i) (i_doc i)) (construct (i_ctor i) (oci_of i) (blob_of i))
    (match v, i_doc i with EOk, Some d => map level_obs (d_stmts d) | _, _ => [] end).

(* the same function with every Validate evaluated once (vm_compute shares a
   let-bound value); [model = model_spec] is lemma model_is_spec *)
Definition model (i : input) : obs :=
  let v := validate_ptr (i_kind i) (i_doc i) in
  let vj := match i_doc i with None => validate (i_kind i) (mk_doc "" []) | Some _ => v end in
  let vd := match i_doc i with None => EOk | Some _ => v end in
  let vo := match i_other i with None => EOk | Some d => validate (other_kind (i_kind i)) d end in
  let nv := match i_ctor i with
            | CtorOptions | CtorWithOptions _ =>
                match i_doc i, i_other i with
                | None, None => EBothNil
                | _, _ => match i_kind i with OCI => vd ;; vo | Blob => vo ;; vd end
                end
            | c => construct c (oci_of i) (blob_of i)
            end in
  mk_obs v vj nv
    (match v, i_doc i with EOk, Some d => map level_obs (d_stmts d) | _, _ => [] end).

(* ---------- the declarative rules, as a boolean checker ----------
   One clause per rule of the property text, no order, no early return. It is
   written without reference to the functions above (it shares only the leaf
   predicates: regex matching, DN parsing, DN inclusion, string tests). *)

Definition override_entry_ok (kv : string * string) : bool :=
  mem_str (fst kv) gen_validation_types && mem_str (snd kv) gen_validation_actions
  && negb (String.eqb (fst kv) "integrity")
  && (negb (String.eqb (snd kv) "skip") || String.eqb (fst kv) "revocation").

Definition level_ok_b (sv : sigver) : bool :=
  mem_str (sv_level sv) (map fst gen_levels)
  && (is_empty (sv_override sv)
      || (negb (String.eqb (sv_level sv) "skip") && forallb override_entry_ok (sv_override sv))).

Definition store_ok_b (st : string) : bool :=
  match cut_byte ":" st with
  | None => false
  | Some (ty, nm) =>
      mem_str ty gen_store_types && negb (String.eqb nm ".") && negb (String.eqb nm "..")
      && matches gen_re_filename nm
  end.

(* the value of an x509.subject identity *)
Definition x509_value (id : string) : option string :=
  match cut_byte ":" id with
  | Some (p, v) => if String.eqb p x509_subject then Some v else None
  | None => None
  end.

Definition id_ok_b (id : string) : bool :=
  negb (String.eqb id "")
  && (String.eqb id wildcard
      || match cut_byte ":" id with
         | None => false
         | Some (p, v) =>
             negb (String.eqb p x509_subject)
             || (negb (String.eqb v "")
                 && match parse_distinguished_name v with DOk _ => true | DErr _ => false end)
         end).

Definition dn_maps (ids : list string) : list amap :=
  flat_map (fun id =>
    match x509_value id with
    | Some v => match parse_distinguished_name v with DOk m => [m] | DErr _ => [] end
    | None => []
    end) ids.

Definition no_overlap_b (dns : list amap) : bool :=
  forallb (fun ia => forallb (fun jb =>
    Nat.eqb (fst ia) (fst jb) || negb (is_subset_dn (snd ia) (snd jb))) (indexed dns)) (indexed dns).

(* the wildcard stands alone *)
Definition lone_wildcard_b (l : list string) : bool :=
  negb (mem_str wildcard l) || Nat.eqb (List.length l) 1.

Definition stmt_ok_b (s : stmt) : bool :=
  negb (String.eqb (s_name s) "")
  && level_ok_b (s_sv s)
  && ts_ok (sv_ts (s_sv s))
  && (if String.eqb (sv_level (s_sv s)) "skip"
      then is_empty (s_stores s) && is_empty (s_ids s)
      else negb (is_empty (s_stores s)) && negb (is_empty (s_ids s))
           && forallb store_ok_b (s_stores s)
           && lone_wildcard_b (s_ids s) && forallb id_ok_b (s_ids s)
           && no_overlap_b (dn_maps (s_ids s))).

Definition scope_ok_b (sc : string) : bool :=
  String.eqb sc wildcard
  || (negb (contains_byte "*" sc)
      && match cut_byte "/" sc with
         | None => false
         | Some (d, r) =>
             negb (String.eqb d "") && negb (String.eqb r "")
             && matches gen_re_domain d && matches gen_re_repository r
         end).

Definition stmt_scopes_ok_b (s : stmt) : bool :=
  negb (is_empty (s_scopes s)) && lone_wildcard_b (s_scopes s) && forallb scope_ok_b (s_scopes s).

Definition doc_common_ok_b (d : doc) : bool :=
  mem_str (d_version d) supported_versions
  && negb (is_empty (d_stmts d))
  && negb (has_dup (map s_name (d_stmts d)))
  && forallb stmt_ok_b (d_stmts d).

Definition wellformed_b (k : kind) (d : doc) : bool :=
  doc_common_ok_b d
  && match k with
     | OCI => forallb stmt_scopes_ok_b (d_stmts d)
              && negb (has_dup (flat_map s_scopes (d_stmts d)))
     | Blob => Nat.leb (List.length (filter s_global (d_stmts d))) 1
               && forallb (fun s => negb (s_global s) || negb (String.eqb (sv_level (s_sv s)) "skip"))
                    (d_stmts d)
     end.

(* ---------- input contract ---------- *)

Definition ascii_only (s : string) : bool := forallb (fun c => (c <? 128)%N) (bytes s).

Fixpoint unique_keys (m : amap) : bool :=
  match m with
  | [] => true
  | (k, _) :: r => negb (existsb (fun kv => String.eqb k (fst kv)) r) && unique_keys r
  end.

(* the override is a Go map (unique keys); identity strings are ASCII (limit
   of the byte-level model of go-ldap's ParseDN in C04_DN) *)
Definition stmt_in_contract (s : stmt) : bool :=
  unique_keys (sv_override (s_sv s)) && forallb ascii_only (s_ids s).

Definition doc_in_contract (d : option doc) : bool :=
  match d with None => true | Some d => forallb stmt_in_contract (d_stmts d) end.

Definition wf (i : input) : bool := doc_in_contract (i_doc i) && doc_in_contract (i_other i).

(* ---------- the property oracle, on observations only ---------- *)

Definition is_ok (e : errc) : bool := match e with EOk => true | _ => false end.

Definition accept_expected (k : kind) (d : option doc) : bool :=
  match d with None => false | Some d => wellformed_b k d end.

(* a yielded level enforces integrity unless the statement is skip, and
   GetVerificationLevel did not fail *)
Definition level_integrity_ok (s : stmt) (l : option (string * string)) : bool :=
  match l with
  | None => false
  | Some (_, code) =>
      String.eqb (sv_level (s_sv s)) "skip"
      || match code with String c _ => Ascii.eqb c "e" | EmptyString => false end
  end.

Fixpoint levels_ok (ss : list stmt) (ls : list (option (string * string))) : bool :=
  match ss, ls with
  | [], [] => true
  | s :: ss', l :: ls' => level_integrity_ok s l && levels_ok ss' ls'
  | _, _ => false
  end.

(* a verifier is constructed iff at least one document is given and every
   given document obeys the rules *)
Definition new_expected (i : input) (acc_doc : bool) : bool :=
  match i_doc i, i_other i with
  | None, None => false
  | None, Some o => wellformed_b (other_kind (i_kind i)) o
  | Some _, None => acc_doc
  | Some _, Some o => acc_doc && wellformed_b (other_kind (i_kind i)) o
  end.

(* the same for every constructor: nothing is constructed without a trust
   store; New hands over the OCI document only *)
Definition construct_expected (i : input) (acc_doc : bool) : bool :=
  match i_ctor i with
  | CtorOptions | CtorWithOptions _ => new_expected i acc_doc
  | CtorNilStore => false
  | CtorNew => match oci_of i with None => false | Some d => wellformed_b OCI d end
  end.

(* hand-written alphabets (NOT taken from Generated.v): what an accepted store
   name and an accepted scope may consist of, whatever the regular
   expressions of the source say now *)
Definition fn_byte_b (c : N) : bool :=
  ((48 <=? c) && (c <=? 57) || (65 <=? c) && (c <=? 90) || (97 <=? c) && (c <=? 122)
   || (c =? 95) || (c =? 45) || (c =? 46))%N.

Definition safe_component_b (nm : string) : bool :=
  negb (String.eqb nm "") && negb (String.eqb nm ".") && negb (String.eqb nm "..")
  && forallb fn_byte_b (bytes nm).

(* domain[:port]: letters, digits, '-', '.', ':' *)
Definition domain_byte_b (c : N) : bool :=
  ((48 <=? c) && (c <=? 57) || (65 <=? c) && (c <=? 90) || (97 <=? c) && (c <=? 122)
   || (c =? 45) || (c =? 46) || (c =? 58))%N.

(* repository path: lower-case letters, digits, '.', '_', '-', '/' *)
Definition repo_byte_b (c : N) : bool :=
  ((48 <=? c) && (c <=? 57) || (97 <=? c) && (c <=? 122)
   || (c =? 95) || (c =? 45) || (c =? 46) || (c =? 47))%N.

Definition store_safe_b (st : string) : bool :=
  match cut_byte ":" st with Some (_, nm) => safe_component_b nm | None => false end.

Definition scope_alpha_b (sc : string) : bool :=
  String.eqb sc wildcard
  || match cut_byte "/" sc with
     | Some (dm, r) => negb (String.eqb dm "") && negb (String.eqb r "")
                       && forallb domain_byte_b (bytes dm) && forallb repo_byte_b (bytes r)
     | None => false
     end.

Definition strings_safe_b (k : kind) (d : doc) : bool :=
  forallb (fun s => forallb store_safe_b (s_stores s)
                    && match k with OCI => forallb scope_alpha_b (s_scopes s) | Blob => true end)
          (d_stmts d).

(* which clause of the oracle fails first (0 = none): 1 accept/reject on the
   struct, 2 the JSON route, 3 construction of a verifier, 4 integrity of the
   yielded levels, 5 an accepted store name is not a safe path component or an
   accepted scope leaves the alphabet of repository paths *)
Definition fp (i : input) (o : obs) : N :=
  let a := accept_expected (i_kind i) (i_doc i) in
  if negb (Bool.eqb (is_ok (o_val o)) a) then 1
  else if negb (Bool.eqb (is_ok (o_json o)) a) then 2
  else if negb (Bool.eqb (is_ok (o_new o)) (construct_expected i a)) then 3
  else if is_ok (o_val o)
       && negb (match i_doc i with Some d => levels_ok (d_stmts d) (o_levels o) | None => false end)
  then 4
  else if is_ok (o_val o)
       && negb (match i_doc i with Some d => strings_safe_b (i_kind i) d | None => false end)
  then 5
  else 0.

Definition spec_ok (i : input) (o : obs) : bool := (fp i o =? 0)%N.

(* ---------- boolean equalities ---------- *)

Definition errc_tag (e : errc) : N :=
  match e with
  | EOk => 0 | ENil => 1 | EVersionEmpty => 2 | EVersionUnsupported => 3 | ENoStatements => 4
  | EDupName => 5 | ENameEmpty => 6 | ELevelEmpty => 7 | ELevelUnknown => 8 | ESkipCustom => 9
  | EOverride => 10 | ETimestamp => 11 | ESkipWithStores => 12 | EMissingStoresOrIds => 13
  | EStoreMalformed => 14 | EStoreType => 15 | EStoreName => 16 | EIdWildcardMixed => 17
  | EIdEmpty => 18 | EIdNoSep => 19 | EIdNoValue => 20 | EIdDN => 21 | EIdOverlap => 22
  | EScopesZero => 23 | EScopeWildcardMixed => 24 | EScopeWildcardIn => 25 | EScopeInvalid => 26
  | EScopeDup => 27 | EGlobalMulti => 28 | EGlobalSkip => 29 | EStoreNil => 30 | EBothNil => 31
  | EOther => 32
  end%N.

Definition errc_eqb (a b : errc) : bool := (errc_tag a =? errc_tag b)%N.

Definition lvl_eqb (a b : string * string) : bool :=
  String.eqb (fst a) (fst b) && String.eqb (snd a) (snd b).

Definition obs_eqb (a b : obs) : bool :=
  errc_eqb (o_val a) (o_val b) && errc_eqb (o_json a) (o_json b) && errc_eqb (o_new a) (o_new b)
  && list_eqb (opt_eqb lvl_eqb) (o_levels a) (o_levels b).

Record case := mk_case { c_id : N; c_in : input; c_obs : obs }.

Definition run (cs : list case) : list (N * N * N) :=
  run_cases c_id
    (fun c => obs_eqb (model (c_in c)) (c_obs c))
    (fun c => negb (wf (c_in c)) || spec_ok (c_in c) (c_obs c))
    (fun c => fp (c_in c) (c_obs c)) cs.
