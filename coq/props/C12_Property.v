(* C12 — No untrusted input or unusual configuration crashes the library; verification
   errors are reported consistently.
   Statements only; every proof is [exact <lemma of C12_Proofs>].

   What is proved here is the configuration x level x scenario lattice over every
   nil-able field of notation-go's own structures (model C12_Model.v, tied to /repo by the
   correspondence run). Quantifiers: every verifier construction (OCI document nil or not,
   blob document nil or not, trust store nil or not: [i_v], [i_ts_nil]), every level (the
   four named ones and every custom level), every plugin manager state including nil, every
   entry point ([i_entry]: verifier.Verify, VerifyBlob, SkipVerify, notation.Verify,
   notation.VerifyBlob, outcome.UserMetadata), every answer of the dependencies
   ([scenario]), every list of signatures of any length and every attempt limit (any Z).
   [wf] = two contracts only: a caller-supplied Verifier / BlobVerifier that returns no error
   returns an error-free outcome, and the policy documents are still as the constructor validated
   them. Since the fixes d78db00 and 686cc56 there is NO contract on the revocation validator or
   on the verification plugin any more: whatever they answer (a result vector of the wrong shape,
   (nil, nil) to get-plugin-metadata or verify-signature) the entry points return normally
   (C12_before_fix_d78db00_refuted, C12_before_fix_686cc56_refuted).
   Crash-freedom of the third-party decoders on arbitrary bytes is NOT a theorem: it is
   explored by the harness (evidence keys "exploration_..."). *)
From NV Require Import Base Regex Generated C12_Model C12_Proofs C12_Audit.

(* every entry point returns normally: no dereference of an absent value is reached, and
   UserMetadata() panics on none of the outcomes handed back *)
Theorem C12_no_panic : forall i, wf i = true ->
  model i <> OPanic /\
  forall f l outs e oc, model i = ORet f l outs e -> In (Some oc) outs -> oc_um oc <> UMPanic.
Proof. exact no_panic. Qed.
Print Assumptions C12_no_panic.

(* none of the outcomes handed back is a nil pointer *)
Theorem C12_no_nil_outcomes : forall i f l outs e,
  wf i = true -> model i = ORet f l outs e -> ~ In None outs.
Proof. exact no_nil_outcomes. Qed.
Print Assumptions C12_no_nil_outcomes.

(* every outcome carries the level of the statement that applies to ITS entry point, in its own
   document (OCI document for Verify / SkipVerify / notation.Verify, blob document for
   VerifyBlob / notation.VerifyBlob), whatever the other document says under the same name *)
Theorem C12_outcome_levels : forall i f lv outs e l o,
  model i = ORet f lv outs e -> sel_level i = Some l -> In (Some o) outs -> oc_level o = Some (name_of l).
Proof. exact outcome_levels. Qed.
Print Assumptions C12_outcome_levels.

(* verifier.Verify / VerifyBlob: no error <-> an outcome without error (which carries its
   level); an error returned after policy selection comes with an outcome whose Error is
   that very error *)
Theorem C12_consistent : forall i f l outs err,
  wf i = true -> i_entry i = EVerify \/ i_entry i = EVerifyBlob ->
  model i = ORet f l outs err ->
  (err = None <-> exists oc, outs = [Some oc] /\ oc_err oc = None) /\
  (forall e, err = Some e -> policy_selected i = true ->
     exists oc, outs = [Some oc] /\ oc_err oc = Some e /\ oc_same oc = true) /\
  (err = None -> exists oc, outs = [Some oc] /\ oc_same oc = true /\ oc_level oc <> None).
Proof. exact consistent_verifier. Qed.
Print Assumptions C12_consistent.

(* notation.Verify / notation.VerifyBlob: no error <-> exactly one outcome, without error;
   with an error no outcome and the zero descriptor are returned (the functions drop
   failed outcomes: that is what the code does) *)
Theorem C12_consistent_notation : forall i f l outs err,
  wf i = true -> i_entry i = ENVerify \/ i_entry i = ENVerifyBlob ->
  model i = ORet f l outs err ->
  (err = None <-> exists oc, outs = [Some oc] /\ oc_err oc = None) /\
  (err <> None -> outs = [] /\ f = false).
Proof. exact consistent_notation. Qed.
Print Assumptions C12_consistent_notation.

(* SkipVerify: an error <-> no level; skip is reported exactly for the skip level, without error *)
Theorem C12_consistent_skip_verify : forall v f l outs err,
  sel_wf (v_oci v) = true ->
  skip_verify v = ORet f l outs err ->
  outs = [] /\ (err = None <-> l <> None) /\ (f = true <-> l = Some NSkip) /\ (f = true -> err = None).
Proof. exact consistent_skip_verify. Qed.
Print Assumptions C12_consistent_skip_verify.

(* a skip-level statement still produces a usable outcome at every entry point *)
Theorem C12_skip_usable_oci : forall v sc,
  v_oci v = Some (SelLevel LSkip) ->
  verify_oci v sc = ORet false None [Some skip_out] None /\ skip_verify v = ORet true (Some NSkip) [] None.
Proof. exact skip_level_verify. Qed.
Print Assumptions C12_skip_usable_oci.

Theorem C12_skip_usable_blob : forall v sc,
  v_blob v = Some (SelLevel LSkip) -> verify_blob v sc = ORet false None [Some skip_out] None.
Proof. exact skip_level_verify_blob. Qed.
Print Assumptions C12_skip_usable_blob.

Theorem C12_skip_usable_notation_verify : forall v n,
  v_oci v = Some (SelLevel LSkip) -> n_repo_nil n = false -> (0 < n_max n)%Z ->
  nverify VLib v n = ORet false None [Some skip_out] None.
Proof. exact skip_level_nverify. Qed.
Print Assumptions C12_skip_usable_notation_verify.

Theorem C12_skip_usable_notation_verify_blob : forall v b sc,
  v_blob v = Some (SelLevel LSkip) -> b_reader_nil b = false -> s_sig sc <> SigEmpty ->
  b_ctype_bad b = false -> b_stype_bad b = false ->
  nverify_blob VLib v b sc = ORet false None [Some skip_out] None.
Proof. exact skip_level_nverify_blob. Qed.
Print Assumptions C12_skip_usable_notation_verify_blob.

(* an OCI verification through a blob-only verifier, a blob verification through an
   OCI-only verifier: an error, at every entry point *)
Theorem C12_wrong_kind_oci : forall v sc n,
  v_oci v = None ->
  verify_oci v sc = ORet false None [] (Some XNil) /\
  skip_verify v = ORet false None [] (Some XNil) /\
  (n_repo_nil n = false -> (0 < n_max n)%Z -> nverify VLib v n = ORet false None [] (Some XNil)).
Proof. exact wrong_kind_oci. Qed.
Print Assumptions C12_wrong_kind_oci.

Theorem C12_wrong_kind_blob : forall v sc b,
  v_blob v = None ->
  verify_blob v sc = ORet false None [] (Some XNil) /\
  (b_reader_nil b = false -> s_sig sc <> SigEmpty -> b_ctype_bad b = false -> b_stype_bad b = false ->
   nverify_blob VLib v b sc = ORet false None [] (Some XNil)).
Proof. exact wrong_kind_blob. Qed.
Print Assumptions C12_wrong_kind_blob.

(* a signature that demands a plugin, verified without plugin manager: inconclusive *)
Theorem C12_nil_plugin_manager : forall l sc,
  s_sig sc = SigOK -> s_pattr sc = PName -> s_nonstr_crit sc = false -> s_minver_bad sc = false ->
  process_signature l PMNil sc = PSRet (Some XInconclusive) true [(TInt, false)].
Proof. exact nil_plugin_manager. Qed.
Print Assumptions C12_nil_plugin_manager.

(* nil verifier / repository / reader handed to notation.Verify / VerifyBlob *)
Theorem C12_nil_arguments : forall v n b sc impl,
  nverify VNil v n = ORet false None [] (Some XNil) /\
  nverify_blob VNil v b sc = ORet false None [] (Some XNil) /\
  (impl <> VNil -> n_repo_nil n = true -> nverify impl v n = ORet false None [] (Some XNil)) /\
  (impl <> VNil -> b_reader_nil b = true -> nverify_blob impl v b sc = ORet false None [] (Some XNil)).
Proof. exact nil_arguments. Qed.
Print Assumptions C12_nil_arguments.

(* the code before fix 87f7f59 (SkipVerify without the nil test) and before fix 00e9a29
   (notation.VerifyBlob without the EnvelopeContent test) panicked; the code now does not *)
Theorem C12_before_fix_87f7f59_refuted :
  skip_verify_v0 v_blob_only = OPanic /\ skip_verify v_blob_only <> OPanic.
Proof. exact prefix_87f7f59_refuted. Qed.
Print Assumptions C12_before_fix_87f7f59_refuted.

Theorem C12_before_fix_00e9a29_refuted :
  nverify_blob_v0 VLib v_blob_skip b_good sc_good = OPanic /\
  nverify_blob VLib v_blob_skip b_good sc_good = ORet false None [Some skip_out] None.
Proof. exact prefix_00e9a29_refuted. Qed.
Print Assumptions C12_before_fix_00e9a29_refuted.

(* before fix d78db00 a revocation validator answering with a nil entry, or with another number
   of results than certificates, reached a dereference (revocationFinalResult); now such an answer
   is an ordinary revocation failure: under an enforcing level the outcome carries the error,
   under a logging level verification goes on with the failure recorded. The contract on the
   validator is no longer part of [wf]. *)
Theorem C12_before_fix_d78db00_refuted :
  native_v0 LStrict (sc_rev RevBadShape) [] = NPanic /\
  native LStrict (sc_rev RevBadShape) [] =
    NStop (XResult TRev) [(TInt, false); (TAuth, false); (TExp, false); (TTs, false); (TRev, true)] /\
  (exists o, model (i_base EVerifyBlob (v_strict PMNil) VLib (sc_rev RevBadShape)) = ORet false None [Some o] (Some (XResult TRev)) /\
             oc_err o = Some (XResult TRev)) /\
  (exists o, model (i_base EVerify (mk_v (Some (SelLevel LAudit)) None PMNil) VLib (sc_rev RevBadShape)) = ORet false None [Some o] None /\
             oc_results o = [(TInt, false); (TAuth, false); (TExp, false); (TTs, false); (TRev, true)]).
Proof. exact prefix_d78db00_refuted. Qed.
Print Assumptions C12_before_fix_d78db00_refuted.

(* before fix 686cc56 an in-process verification plugin answering (nil, nil) to get-plugin-metadata
   or to verify-signature reached a dereference (the contract was part of [wf]); now the first is an
   inconclusive verification and the second an ordinary plugin error, each with the outcome present
   and its error set. There is no contract on the verification plugin in [wf] any more. *)
Theorem C12_before_fix_686cc56_refuted :
  process_signature_v0 LStrict (PMPlugin MetaNil) (sc_plugin (PResp true (Some true) (Some true))) = PSPanic /\
  process_signature_v0 LStrict (PMPlugin (Meta true [CapTI])) (sc_plugin PRNil) = PSPanic /\
  (exists o, model (i_base EVerify (v_strict (PMPlugin MetaNil)) VLib (sc_plugin (PResp true (Some true) (Some true))))
               = ORet false None [Some o] (Some XInconclusive) /\ oc_err o = Some XInconclusive) /\
  (exists o, model (i_base EVerifyBlob (v_strict (PMPlugin (Meta true [CapTI]))) VLib (sc_plugin PRNil))
               = ORet false None [Some o] (Some XOther) /\ oc_err o = Some XOther).
Proof. exact prefix_686cc56_refuted. Qed.
Print Assumptions C12_before_fix_686cc56_refuted.

(* before fix a146158 (found by the GoLite translation of revocationFinalResult, props/C12_Generated.v) a
   nil entry among the server results of a revocation result reached a dereference; now it is skipped *)
Theorem C12_before_fix_a146158_refuted :
  native_v1 LStrict (sc_rev RevNilServer) [] = NPanic /\
  native LStrict (sc_rev RevNilServer) [] =
    NGo [(TInt, false); (TAuth, false); (TExp, false); (TTs, false); (TRev, false)] /\
  (exists o, model (i_base EVerify (v_strict PMNil) VLib (sc_rev RevNilServer)) = ORet false None [Some o] None /\
             oc_err o = None /\
             oc_results o = [(TInt, false); (TAuth, false); (TExp, false); (TTs, false); (TRev, false)]).
Proof. exact prefix_a146158_refuted. Qed.
Print Assumptions C12_before_fix_a146158_refuted.

(* [wf] cannot be weakened: each contract violated alone reaches a dereference *)
Theorem C12_contracts_needed :
  model (i_base ENVerifyBlob (v_strict PMNil) (VCustom None false) sc_good) = OPanic /\
  model (i_base EVerify (mk_v (Some SelBadLevel) None PMNil) VLib sc_good) = OPanic.
Proof. exact contracts_needed. Qed.
Print Assumptions C12_contracts_needed.

(* the level table of the model is the one of trustpolicy.go (regenerated on every run) *)
Theorem C12_levels_generated :
  [("strict", table LStrict); ("permissive", table LPermissive); ("audit", table LAudit); ("skip", table LSkip)]
  = gen_levels.
Proof. exact levels_generated. Qed.
Print Assumptions C12_levels_generated.

(* the boolean oracle evaluated on the implementation's observations is met by the model,
   and it accepts no panicking observation *)
Theorem C12_model_meets_oracle : forall i, wf i = true -> spec_ok i (model i) = true.
Proof. exact model_spec_ok. Qed.
Print Assumptions C12_model_meets_oracle.

Theorem C12_oracle_rejects_panics : forall i o, spec_ok i o = true ->
  o <> OPanic /\
  forall f l outs e oc, o = ORet f l outs e -> In (Some oc) outs -> oc_um oc <> UMPanic.
Proof. exact spec_ok_no_panic. Qed.
Print Assumptions C12_oracle_rejects_panics.

(* non-vacuity: a well-formed input on which notation.Verify succeeds with one outcome *)
Example C12_example :
  let i := i_base ENVerify (v_strict (PMPlugin (Meta true [CapTI; CapRev]))) VLib sc_good in
  wf i = true /\ exists o, model i = ORet true None [Some o] None /\ oc_err o = None.
Proof. exact wf_example. Qed.

(* ======== added by the theorem audit (docs/audit/C12.md) ======== *)

(* consistency needs NO input contract at the Verifier interface: whatever the injected
   components do, a call of verifier.Verify / VerifyBlob that returns at all returns a
   consistent (outcome, error) pair (the contracts [wf] only exclude the panics) *)
Theorem C12_consistent_unconditional : forall i f l outs err,
  i_entry i = EVerify \/ i_entry i = EVerifyBlob ->
  model i = ORet f l outs err ->
  (err = None <-> exists oc, outs = [Some oc] /\ oc_err oc = None) /\
  (forall e, err = Some e -> policy_selected i = true ->
     exists oc, outs = [Some oc] /\ oc_err oc = Some e /\ oc_same oc = true) /\
  (err = None -> exists oc, outs = [Some oc] /\ oc_same oc = true /\ oc_level oc <> None).
Proof. exact consistent_verifier_any. Qed.
Print Assumptions C12_consistent_unconditional.

(* notation.Verify / VerifyBlob: the only contract consistency needs is the one on a
   caller-supplied Verifier (no error => an error-free outcome) *)
Theorem C12_consistent_notation_unconditional : forall i f l outs err,
  impl_wf (i_impl i) = true -> i_entry i = ENVerify \/ i_entry i = ENVerifyBlob ->
  model i = ORet f l outs err ->
  (err = None <-> exists oc, outs = [Some oc] /\ oc_err oc = None) /\
  (err <> None -> outs = [] /\ f = false).
Proof. exact consistent_notation_any. Qed.
Print Assumptions C12_consistent_notation_unconditional.

(* ... and that contract is needed: an inconsistent custom verifier is handed through *)
Theorem C12_custom_contract_needed :
  let i := mk_input ENVerifyBlob false (mk_v None None PMNil) (VCustom (Some c_incons) false)
                    sc_good n_one b_good CCNone in
  impl_wf (i_impl i) = false /\
  exists o, model i = ORet true None [Some o] None /\ oc_err o = Some XOther.
Proof. exact custom_inconsistent_needed. Qed.
Print Assumptions C12_custom_contract_needed.

(* a caller-supplied verifier answering (nil, nil) makes notation.Verify return a nil
   outcome pointer: the contract of C12_no_nil_outcomes cannot be dropped *)
Theorem C12_no_nil_outcomes_contract_needed :
  model (i_base ENVerify (v_strict PMNil) (VCustom None false) sc_good) = ORet true None [None] None.
Proof. exact custom_nil_nil_verify. Qed.
Print Assumptions C12_no_nil_outcomes_contract_needed.

(* The clause "a verification failure after policy selection always comes with an outcome
   whose error is set" does NOT hold for notation.Verify / notation.VerifyBlob: with a
   statement selected (strict) and the single signature failing, both return the error and
   NO outcome, while verifier.Verify on the same signature returns the outcome with the error.
   (The functions are documented to return "the successful signature verification outcome";
   witnesses replayed on the real code: harness family "refuted".) *)
Theorem C12_failure_outcome_notation_refuted :
  (wf i_nverify_fail = true /\ sel_level i_nverify_fail = Some LStrict /\
   model i_nverify_fail = ORet false None [] (Some XFailed)) /\
  (wf i_nverify_blob_fail = true /\ sel_level i_nverify_blob_fail = Some LStrict /\
   model i_nverify_blob_fail = ORet false None [] (Some XOther)) /\
  (exists o, model (i_base EVerify (v_strict PMNil) VLib sc_badsig) = ORet false None [Some o] (Some (XResult TInt)) /\
             oc_err o = Some (XResult TInt)).
Proof. exact failure_outcome_notation_refuted. Qed.
Print Assumptions C12_failure_outcome_notation_refuted.

(* no runaway work in notation.Verify: signatures listed beyond MaxSignatureAttempts cannot
   influence the result (they are neither fetched nor verified), however many a registry lists *)
Theorem C12_attempts_bounded : forall impl v n, nverify impl v n = nverify impl v (n_trunc n).
Proof. exact attempts_bounded. Qed.
Print Assumptions C12_attempts_bounded.

(* a missing plugin manager, at the entry points: a signature that demands a plugin is
   inconclusive under every non-skip level (named or custom), with the outcome present ... *)
Theorem C12_nil_plugin_manager_entry : forall v sc l,
  v_pm v = PMNil -> is_skip l = false ->
  s_sig sc = SigOK -> s_pattr sc = PName -> s_nonstr_crit sc = false -> s_minver_bad sc = false ->
  let o := out_of (Some XInconclusive) true l [(TInt, false)] sc in
  (v_oci v = Some (SelLevel l) -> verify_oci v sc = ORet false None [Some o] (Some XInconclusive)) /\
  (v_blob v = Some (SelLevel l) -> verify_blob v sc = ORet false None [Some o] (Some XInconclusive)).
Proof. exact nil_pm_entry. Qed.
Print Assumptions C12_nil_plugin_manager_entry.

(* ... and no plugin is ever consulted: what a plugin would answer (even the contract-breaking
   (nil, nil)) is irrelevant, for every signature and level *)
Theorem C12_nil_plugin_manager_no_plugin : forall l sc r,
  process_signature l PMNil (set_presp sc r) = process_signature l PMNil sc.
Proof. exact nil_pm_plugin_irrelevant. Qed.
Print Assumptions C12_nil_plugin_manager_no_plugin.

Theorem C12_nil_plugin_manager_no_panic : forall l sc, process_signature l PMNil sc <> PSPanic.
Proof. exact nil_pm_no_panic. Qed.
Print Assumptions C12_nil_plugin_manager_no_panic.

(* ---------- non-vacuity: the hypotheses of the theorems above are met by concrete inputs ---------- *)
(* C12_consistent, first and third part; C12_outcome_levels *)
Example C12_example_verifier_ok :
  let i := i_base EVerify (v_strict PMNil) VLib sc_good in
  wf i = true /\ policy_selected i = true /\ sel_level i = Some LStrict /\
  exists o, model i = ORet false None [Some o] None /\ oc_err o = None /\ oc_level o = Some NStrict.
Proof. exact ex_verifier_ok. Qed.
(* C12_consistent, second part: an error after policy selection *)
Example C12_example_verifier_failure_after_selection :
  let i := i_base EVerifyBlob (v_strict PMNil) VLib sc_badsig in
  wf i = true /\ policy_selected i = true /\
  exists o, model i = ORet false None [Some o] (Some (XResult TInt)) /\ oc_err o = Some (XResult TInt) /\ oc_same o = true.
Proof. exact ex_verifier_fail_selected. Qed.
(* ... and an error before it (no statement applies): no outcome *)
Example C12_example_verifier_failure_before_selection :
  let i := i_base EVerify (v_none PMNil) VLib sc_good in
  wf i = true /\ policy_selected i = false /\ model i = ORet false None [] (Some XNoPolicy).
Proof. exact ex_verifier_fail_unselected. Qed.
(* C12_consistent_notation *)
Example C12_example_notation_blob_ok :
  let i := i_base ENVerifyBlob (v_strict PMNil) VLib sc_good in
  wf i = true /\ exists o, model i = ORet true None [Some o] None /\ oc_err o = None.
Proof. exact ex_notation_blob_ok. Qed.
(* C12_skip_usable_*, C12_consistent_skip_verify *)
Example C12_example_skip :
  let n := n_one in
  v_oci v_skip = Some (SelLevel LSkip) /\ v_blob v_skip = Some (SelLevel LSkip) /\
  n_repo_nil n = false /\ (0 < n_max n)%Z /\
  b_reader_nil b_good = false /\ s_sig sc_good <> SigEmpty /\ b_ctype_bad b_good = false /\ b_stype_bad b_good = false /\
  sel_wf (v_oci v_skip) = true /\ skip_verify v_skip = ORet true (Some NSkip) [] None.
Proof. exact ex_skip. Qed.
(* C12_wrong_kind_* *)
Example C12_example_wrong_kind :
  v_oci v_blob_only = None /\ v_blob v_oci_only = None /\
  model (i_base EVerify v_blob_only VLib sc_good) = ORet false None [] (Some XNil) /\
  model (i_base ENVerify v_blob_only VLib sc_good) = ORet false None [] (Some XNil) /\
  model (i_base EVerifyBlob v_oci_only VLib sc_good) = ORet false None [] (Some XNil) /\
  model (i_base ENVerifyBlob v_oci_only VLib sc_good) = ORet false None [] (Some XNil).
Proof. exact ex_wrong_kind. Qed.
(* C12_nil_plugin_manager*: a plugin-demanding signature, its plugin answer even breaking the contract *)
Example C12_example_nil_plugin_manager :
  let sc := sc_plugin PRNil in
  s_sig sc = SigOK /\ s_pattr sc = PName /\ s_nonstr_crit sc = false /\ s_minver_bad sc = false /\
  exists o, model (i_base EVerify (v_strict PMNil) VLib sc) = ORet false None [Some o] (Some XInconclusive) /\
            oc_err o = Some XInconclusive.
Proof. exact ex_nil_pm. Qed.
(* C12_attempts_bounded: a good signature behind the limit is not reached, within it it is *)
Example C12_example_attempts :
  let good_late := mk_nreq false 2 RefOK false false false [Sig sc_badsig; Sig sc_badsig; Sig sc_good] in
  let good_in_time := mk_nreq false 3 RefOK false false false [Sig sc_badsig; Sig sc_badsig; Sig sc_good] in
  nverify VLib (v_strict PMNil) good_late = ORet false None [] (Some XFailed) /\
  n_items (n_trunc good_late) = [Sig sc_badsig; Sig sc_badsig] /\
  exists o, nverify VLib (v_strict PMNil) good_in_time = ORet true None [Some o] None.
Proof. exact ex_attempts. Qed.
