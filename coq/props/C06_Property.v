(* C06 — Expiry and certificate validity are judged against the right clock.
   Statements only; every proof is [exact <lemma of C06_Proofs>].
   Quantifiers: every moment of verification, signing time, expiry, chain
   length and per-certificate window (all of [Z]), both schemes, every
   trustStores list and verifyTimestamp option, every combination of the oracle
   facts about the countersignature, every action of the two validations.
   [wf i] is the one input contract: every trust store value of the policy has
   a ':' separator (trust policy validation rejects the document otherwise). *)
From NV Require Import Base C06_Model C06_Proofs.
Local Open Scope Z_scope.

(* ---------- expiry: compared with the moment of verification ---------- *)

(* an expiry that is not after the moment of verification fails (equality included) *)
Theorem C06_expiry_fails : forall i e, i_expiry i = Some e -> e <= i_now i ->
  o_expiry (model i) = Some false.
Proof. exact expiry_fails. Qed.
Print Assumptions C06_expiry_fails.

(* no expiry, or an expiry after now: passes *)
Theorem C06_expiry_passes : forall i,
  (i_expiry i = None \/ exists e, i_expiry i = Some e /\ i_now i < e) ->
  o_expiry (model i) = Some true.
Proof. exact expiry_passes_thm. Qed.
Print Assumptions C06_expiry_passes.

(* the signing time plays no role in it *)
Theorem C06_expiry_ignores_signing_time : forall i t,
  o_expiry (model (with_sigtime i t)) = o_expiry (model i).
Proof. exact expiry_ignores_signing_time. Qed.
Print Assumptions C06_expiry_ignores_signing_time.

(* enforced and failed: verification stops there, rejected *)
Theorem C06_expiry_enforced_stops : forall i e,
  i_aexp i = Enforce -> i_expiry i = Some e -> e <= i_now i ->
  model i = mk_obs (Some false) None true.
Proof. exact expiry_enforced_stops. Qed.
Print Assumptions C06_expiry_enforced_stops.

(* otherwise the authentic-timestamp validation is performed and reported *)
Theorem C06_timestamp_reported : forall i,
  (i_aexp i = Log \/ o_expiry (model i) = Some true) ->
  o_ts (model i) = Some (verify_authentic_timestamp i).
Proof. exact expiry_not_stopping. Qed.
Print Assumptions C06_timestamp_reported.

(* ---------- signingAuthority: every certificate valid at the signing time ---------- *)

Theorem C06_sa : forall i, i_scheme i = SigningAuthority ->
  (verify_authentic_timestamp i = Passed <-> Forall (Valid_at (i_sigtime i)) (i_chain i)).
Proof. exact sa_iff. Qed.
Print Assumptions C06_sa.

(* a failure names the first certificate that was not valid at the signing time *)
Theorem C06_sa_names : forall i w, i_scheme i = SigningAuthority ->
  verify_authentic_timestamp i = Failed w ->
  exists k c, w = WSigTime (N.of_nat k) /\ nth_error (i_chain i) k = Some c /\
              ~ Valid_at (i_sigtime i) c /\
              Forall (Valid_at (i_sigtime i)) (firstn k (i_chain i)).
Proof. exact sa_names. Qed.
Print Assumptions C06_sa_names.

(* neither the moment of verification nor the policy's tsa stores, option or
   any countersignature matter *)
Theorem C06_sa_ignores_now_and_policy : forall i t stores o db k,
  i_scheme i = SigningAuthority ->
  verify_authentic_timestamp (with_now (with_policy i stores o db k) t) = verify_authentic_timestamp i.
Proof. exact sa_ignores_now_and_policy. Qed.
Print Assumptions C06_sa_ignores_now_and_policy.

(* ---------- notary.x509: the case split ---------- *)

(* "timestamp verification applies" is decidable: the two cases below are
   exhaustive and exclusive *)
Theorem C06_applies : forall i, (Applies i \/ ~ Applies i) /\ (applies i = true <-> Applies i).
Proof. intros i. split; [exact (applies_dec i) | exact (applies_iff i)]. Qed.
Print Assumptions C06_applies.

(* no tsa store listed, or afterCertExpiry with no certificate past notAfter:
   passes iff every certificate is valid at the moment of verification *)
Theorem C06_x509_no_tsa : forall i, wf i = true -> i_scheme i = X509 -> ~ Applies i ->
  (verify_authentic_timestamp i = Passed <-> Forall (Valid_at (i_now i)) (i_chain i)).
Proof. exact x509_no_tsa. Qed.
Print Assumptions C06_x509_no_tsa.

Theorem C06_x509_no_tsa_names : forall i w, wf i = true -> i_scheme i = X509 -> ~ Applies i ->
  verify_authentic_timestamp i = Failed w ->
  exists k c, nth_error (i_chain i) k = Some c /\
              Forall (Valid_at (i_now i)) (firstn k (i_chain i)) /\
              ((w = WNowBefore (N.of_nat k) /\ i_now i < nb c) \/
               (w = WNowAfter (N.of_nat k) /\ nb c <= i_now i /\ na c < i_now i)).
Proof. exact x509_no_tsa_names. Qed.
Print Assumptions C06_x509_no_tsa_names.

(* the signing time claimed by the signer plays no role under notary.x509 *)
Theorem C06_x509_ignores_signing_time : forall i t, i_scheme i = X509 ->
  verify_authentic_timestamp (with_sigtime i t) = verify_authentic_timestamp i.
Proof. exact x509_ignores_signing_time. Qed.
Print Assumptions C06_x509_ignores_signing_time.

(* timestamp verification applies: passes iff the envelope carries a
   countersignature over its signature value, issued by an unrevoked TSA
   chaining to the policy's tsa stores (all of which load), acceptable as a
   timestamping chain, whose range [genTime - accuracy, genTime + accuracy]
   lies inside every certificate's validity *)
Theorem C06_x509_tsa : forall i, wf i = true -> i_scheme i = X509 -> Applies i ->
  (verify_authentic_timestamp i = Passed <-> Token_ok i).
Proof. exact x509_tsa. Qed.
Print Assumptions C06_x509_tsa.

(* fail closed: anything missing is a failure, and the reason names a fact
   that is indeed violated *)
Theorem C06_fail_closed : forall i, wf i = true -> i_scheme i = X509 -> Applies i -> ~ Token_ok i ->
  exists w, verify_authentic_timestamp i = Failed w /\ why_ok i w = true.
Proof. exact fail_closed. Qed.
Print Assumptions C06_fail_closed.

(* one statement per step: the first missing fact decides the reason *)
Theorem C06_no_token : forall i, wf i = true -> i_scheme i = X509 -> Applies i ->
  k_present (i_tok i) = false -> verify_authentic_timestamp i = Failed WNoToken.
Proof. exact step_no_token. Qed.
Print Assumptions C06_no_token.

Theorem C06_unparsable : forall i, wf i = true -> i_scheme i = X509 -> Applies i ->
  k_present (i_tok i) = true -> k_parses (i_tok i) = false ->
  verify_authentic_timestamp i = Failed WParse.
Proof. exact step_unparsable. Qed.
Print Assumptions C06_unparsable.

Theorem C06_bad_tstinfo : forall i, wf i = true -> i_scheme i = X509 -> Applies i ->
  k_present (i_tok i) = true -> k_parses (i_tok i) = true -> k_info (i_tok i) = false ->
  verify_authentic_timestamp i = Failed WInfo.
Proof. exact step_bad_info. Qed.
Print Assumptions C06_bad_tstinfo.

Theorem C06_wrong_message : forall i, wf i = true -> i_scheme i = X509 -> Applies i ->
  k_present (i_tok i) = true -> k_parses (i_tok i) = true -> k_info (i_tok i) = true ->
  k_imprint (i_tok i) = false -> verify_authentic_timestamp i = Failed WImprint.
Proof. exact step_wrong_message. Qed.
Print Assumptions C06_wrong_message.

Theorem C06_store_error : forall i, wf i = true -> i_scheme i = X509 -> Applies i ->
  k_present (i_tok i) = true -> k_parses (i_tok i) = true -> k_info (i_tok i) = true ->
  k_imprint (i_tok i) = true ->
  all_load i = false -> verify_authentic_timestamp i = Failed WLoad.
Proof. exact step_store_error. Qed.
Print Assumptions C06_store_error.

Theorem C06_no_roots : forall i, wf i = true -> i_scheme i = X509 -> Applies i ->
  k_present (i_tok i) = true -> k_parses (i_tok i) = true -> k_info (i_tok i) = true ->
  k_imprint (i_tok i) = true ->
  all_load i = true -> some_root i = false -> verify_authentic_timestamp i = Failed WNoRoots.
Proof. exact step_no_roots. Qed.
Print Assumptions C06_no_roots.

Theorem C06_untrusted_tsa : forall i, wf i = true -> i_scheme i = X509 -> Applies i ->
  k_present (i_tok i) = true -> k_parses (i_tok i) = true -> k_info (i_tok i) = true ->
  k_imprint (i_tok i) = true -> all_load i = true -> some_root i = true ->
  k_verify (i_tok i) = false -> verify_authentic_timestamp i = Failed WVerify.
Proof. exact step_untrusted. Qed.
Print Assumptions C06_untrusted_tsa.

Theorem C06_mispurposed_tsa : forall i, wf i = true -> i_scheme i = X509 -> Applies i ->
  k_present (i_tok i) = true -> k_parses (i_tok i) = true -> k_info (i_tok i) = true ->
  k_imprint (i_tok i) = true -> all_load i = true -> some_root i = true ->
  k_verify (i_tok i) = true -> k_rules (i_tok i) = false ->
  verify_authentic_timestamp i = Failed WRules.
Proof. exact step_mispurposed. Qed.
Print Assumptions C06_mispurposed_tsa.

Theorem C06_outside_window : forall i, wf i = true -> i_scheme i = X509 -> Applies i ->
  k_present (i_tok i) = true -> k_parses (i_tok i) = true -> k_info (i_tok i) = true ->
  k_imprint (i_tok i) = true -> all_load i = true -> some_root i = true ->
  k_verify (i_tok i) = true -> k_rules (i_tok i) = true ->
  forall c, In c (i_chain i) ->
  ~ Inside (k_gen (i_tok i) - k_acc (i_tok i)) (k_gen (i_tok i) + k_acc (i_tok i)) c ->
  exists k, verify_authentic_timestamp i = Failed (WTsBefore k) \/
            verify_authentic_timestamp i = Failed (WTsAfter k).
Proof. exact step_window. Qed.
Print Assumptions C06_outside_window.

Theorem C06_tsa_revocation : forall i, wf i = true -> i_scheme i = X509 -> Applies i ->
  k_present (i_tok i) = true -> k_parses (i_tok i) = true -> k_info (i_tok i) = true ->
  k_imprint (i_tok i) = true -> all_load i = true -> some_root i = true ->
  k_verify (i_tok i) = true -> k_rules (i_tok i) = true ->
  Forall (Inside (k_gen (i_tok i) - k_acc (i_tok i)) (k_gen (i_tok i) + k_acc (i_tok i))) (i_chain i) ->
  rev_ok (k_rev (i_tok i)) = false ->
  verify_authentic_timestamp i = Failed WRevErr \/
  exists k, verify_authentic_timestamp i = Failed (WRevoked k) \/
            verify_authentic_timestamp i = Failed (WRevUnknown k).
Proof. exact step_revocation. Qed.
Print Assumptions C06_tsa_revocation.

(* a revoked TSA certificate is never reported as merely unknown / an error *)
Theorem C06_revoked_reported : forall i rs, wf i = true -> i_scheme i = X509 ->
  k_rev (i_tok i) = VRes rs -> In RRevoked rs ->
  forall w, verify_authentic_timestamp i = Failed w ->
  (forall k, w <> WRevUnknown k) /\ w <> WRevErr.
Proof. exact revoked_reported. Qed.
Print Assumptions C06_revoked_reported.

(* an unset verifyTimestamp is "always" *)
Theorem C06_unset_is_always : forall i, model (with_opt i OptUnset) = model (with_opt i OptAlways).
Proof. exact unset_is_always. Qed.
Print Assumptions C06_unset_is_always.

(* ---------- reasons and actions ---------- *)

Theorem C06_reason_truthful : forall i w, wf i = true ->
  verify_authentic_timestamp i = Failed w -> why_ok i w = true.
Proof. exact reason_truthful. Qed.
Print Assumptions C06_reason_truthful.

(* the action decides: rejected exactly on an enforced failure of one of the two *)
Theorem C06_rejected_iff : forall i,
  o_rejected (model i) = true <->
  (i_aexp i = Enforce /\ o_expiry (model i) = Some false) \/
  (i_ats i = Enforce /\ exists w, o_ts (model i) = Some (Failed w)).
Proof. exact rejected_iff. Qed.
Print Assumptions C06_rejected_iff.

(* the boolean oracle evaluated on the implementation's observations is met by
   the model on every well-formed input *)
Theorem C06_model_meets_oracle : forall i, wf i = true -> spec_ok i (model i) = true.
Proof. exact model_spec_ok. Qed.
Print Assumptions C06_model_meets_oracle.

(* ---------- non-vacuity ---------- *)

(* a leaf that expired 10 h ago (36000 s), under a policy with a tsa store and
   afterCertExpiry: timestamp verification applies; a token issued 20 h ago by
   a trusted, unrevoked TSA saves the signature; without the token it fails;
   without the tsa store the chain is judged now and fails *)
(* [ex_tok], [ex_in stores token]: see the end of C06_Model.v *)

Example C06_example_saved_by_timestamp :
  wf (ex_in ["ca:s"; "tsa:a"] ex_tok) = true /\ Applies (ex_in ["ca:s"; "tsa:a"] ex_tok) /\
  Token_ok (ex_in ["ca:s"; "tsa:a"] ex_tok) /\
  model (ex_in ["ca:s"; "tsa:a"] ex_tok) = mk_obs (Some true) (Some Passed) false.
Proof.
  split; [reflexivity|]. split; [now apply applies_iff|]. split; [now apply token_ok_iff | reflexivity].
Qed.

Example C06_example_no_token :
  model (ex_in ["ca:s"; "tsa:a"] (mk_token false false false false 0 0 false false VErr))
  = mk_obs (Some true) (Some (Failed WNoToken)) true.
Proof. reflexivity. Qed.

Example C06_example_no_tsa_store :
  ~ Applies (ex_in ["ca:s"] ex_tok) /\
  model (ex_in ["ca:s"] ex_tok) = mk_obs (Some true) (Some (Failed (WNowAfter 0))) true.
Proof. split; [|reflexivity]. intros H. apply applies_iff in H. discriminate. Qed.

(* signingAuthority: the same expired leaf passes, because it was valid at the signing time *)
Example C06_example_signing_authority :
  let i := mk_input 0 SigningAuthority (-80000) (Some 3600)
             [mk_cert (-360000) (-36000); mk_cert (-360000) 360000] ["signingAuthority:s"] OptUnset []
             (mk_token false false false false 0 0 false false VErr) Enforce Enforce in
  model i = mk_obs (Some true) (Some Passed) false /\
  model (with_sigtime i (-20000)) = mk_obs (Some true) (Some (Failed (WSigTime 0))) true.
Proof. split; reflexivity. Qed.

(* expiry exactly now fails *)
Example C06_example_expiry_now :
  model (mk_input 100 X509 0 (Some 100) [mk_cert (-5) 500] ["ca:s"] OptUnset []
           (mk_token false false false false 0 0 false false VErr) Log Log)
  = mk_obs (Some false) (Some Passed) false.
Proof. reflexivity. Qed.
