(* C06 — Expiry and certificate validity are judged against the right clock.
   Statements only; every proof is [exact <lemma of C06_Proofs>].
   Quantifiers: every moment of verification, signing time, expiry, chain
   length and per-certificate window (all of [Z]), both schemes, every
   trustStores list and verifyTimestamp option, every combination of the oracle
   facts about the countersignature, every action of the two validations.
   [wf i] is the one input contract: every trust store value of the policy has
   a ':' separator (trust policy validation rejects the document otherwise). *)
From NV Require Import Base C06_Model C06_Proofs C06_Audit.
Local Open Scope Z_scope.

(* ---------- expiry: compared with the moment of verification ---------- *)

(* an expiry that is not after the moment of verification fails (equality included) *)
Theorem C06_expiry_fails : forall i e, i_expiry i = Some e -> e <= i_now i ->
  o_expiry (model i) = Some false.
Proof. exact expiry_fails. Qed.
Print Assumptions C06_expiry_fails.

(* no expiry, or an expiry after now: passes *)
Theorem C06_expiry_passes : forall i,
  (i_expiry i = None \/ exists e, i_expiry i = Some e /\ i_now i < e) ->
  o_expiry (model i) = Some true.
Proof. exact expiry_passes_thm. Qed.
Print Assumptions C06_expiry_passes.

(* the signing time plays no role in it *)
Theorem C06_expiry_ignores_signing_time : forall i t,
  o_expiry (model (with_sigtime i t)) = o_expiry (model i).
Proof. exact expiry_ignores_signing_time. Qed.
Print Assumptions C06_expiry_ignores_signing_time.

(* enforced and failed: verification stops there, rejected *)
Theorem C06_expiry_enforced_stops : forall i e,
  i_aexp i = Enforce -> i_expiry i = Some e -> e <= i_now i ->
  model i = mk_obs (Some false) None true.
Proof. exact expiry_enforced_stops. Qed.
Print Assumptions C06_expiry_enforced_stops.

(* otherwise the authentic-timestamp validation is performed and reported *)
Theorem C06_timestamp_reported : forall i,
  (i_aexp i = Log \/ o_expiry (model i) = Some true) ->
  o_ts (model i) = Some (verify_authentic_timestamp i).
Proof. exact expiry_not_stopping. Qed.
Print Assumptions C06_timestamp_reported.

(* ---------- signingAuthority: every certificate valid at the signing time ---------- *)

Theorem C06_sa : forall i, i_scheme i = SigningAuthority ->
  (verify_authentic_timestamp i = Passed <-> Forall (Valid_at (i_sigtime i)) (i_chain i)).
Proof. exact sa_iff. Qed.
Print Assumptions C06_sa.

(* a failure names the first certificate that was not valid at the signing time *)
Theorem C06_sa_names : forall i w, i_scheme i = SigningAuthority ->
  verify_authentic_timestamp i = Failed w ->
  exists k c, w = WSigTime (N.of_nat k) /\ nth_error (i_chain i) k = Some c /\
              ~ Valid_at (i_sigtime i) c /\
              Forall (Valid_at (i_sigtime i)) (firstn k (i_chain i)).
Proof. exact sa_names. Qed.
Print Assumptions C06_sa_names.

(* neither the moment of verification nor the policy's tsa stores, option or
   any countersignature matter *)
Theorem C06_sa_ignores_now_and_policy : forall i t stores o db k,
  i_scheme i = SigningAuthority ->
  verify_authentic_timestamp (with_now (with_policy i stores o db k) t) = verify_authentic_timestamp i.
Proof. exact sa_ignores_now_and_policy. Qed.
Print Assumptions C06_sa_ignores_now_and_policy.

(* ---------- notary.x509: the case split ---------- *)

(* "timestamp verification applies" is decidable: the two cases below are
   exhaustive and exclusive *)
Theorem C06_applies : forall i, (Applies i \/ ~ Applies i) /\ (applies i = true <-> Applies i).
Proof. intros i. split; [exact (applies_dec i) | exact (applies_iff i)]. Qed.
Print Assumptions C06_applies.

(* no tsa store listed, or afterCertExpiry with no certificate past notAfter:
   passes iff every certificate is valid at the moment of verification *)
Theorem C06_x509_no_tsa : forall i, wf i = true -> i_scheme i = X509 -> ~ Applies i ->
  (verify_authentic_timestamp i = Passed <-> Forall (Valid_at (i_now i)) (i_chain i)).
Proof. exact x509_no_tsa. Qed.
Print Assumptions C06_x509_no_tsa.

Theorem C06_x509_no_tsa_names : forall i w, wf i = true -> i_scheme i = X509 -> ~ Applies i ->
  verify_authentic_timestamp i = Failed w ->
  exists k c, nth_error (i_chain i) k = Some c /\
              Forall (Valid_at (i_now i)) (firstn k (i_chain i)) /\
              ((w = WNowBefore (N.of_nat k) /\ i_now i < nb c) \/
               (w = WNowAfter (N.of_nat k) /\ nb c <= i_now i /\ na c < i_now i)).
Proof. exact x509_no_tsa_names. Qed.
Print Assumptions C06_x509_no_tsa_names.

(* the signing time claimed by the signer plays no role under notary.x509 *)
Theorem C06_x509_ignores_signing_time : forall i t, i_scheme i = X509 ->
  verify_authentic_timestamp (with_sigtime i t) = verify_authentic_timestamp i.
Proof. exact x509_ignores_signing_time. Qed.
Print Assumptions C06_x509_ignores_signing_time.

(* timestamp verification applies: passes iff the envelope carries a
   countersignature over its signature value, issued by an unrevoked TSA
   chaining to the policy's tsa stores (all of which load), acceptable as a
   timestamping chain, whose range [genTime - accuracy, genTime + accuracy]
   lies inside every certificate's validity *)
Theorem C06_x509_tsa : forall i, wf i = true -> i_scheme i = X509 -> Applies i ->
  (verify_authentic_timestamp i = Passed <-> Token_ok i).
Proof. exact x509_tsa. Qed.
Print Assumptions C06_x509_tsa.

(* fail closed: anything missing is a failure, and the reason names a fact
   that is indeed violated *)
Theorem C06_fail_closed : forall i, wf i = true -> i_scheme i = X509 -> Applies i -> ~ Token_ok i ->
  exists w, verify_authentic_timestamp i = Failed w /\ why_ok i w = true.
Proof. exact fail_closed. Qed.
Print Assumptions C06_fail_closed.

(* one statement per step: the first missing fact decides the reason *)
Theorem C06_no_token : forall i, wf i = true -> i_scheme i = X509 -> Applies i ->
  k_present (i_tok i) = false -> verify_authentic_timestamp i = Failed WNoToken.
Proof. exact step_no_token. Qed.
Print Assumptions C06_no_token.

Theorem C06_unparsable : forall i, wf i = true -> i_scheme i = X509 -> Applies i ->
  k_present (i_tok i) = true -> k_parses (i_tok i) = false ->
  verify_authentic_timestamp i = Failed WParse.
Proof. exact step_unparsable. Qed.
Print Assumptions C06_unparsable.

Theorem C06_bad_tstinfo : forall i, wf i = true -> i_scheme i = X509 -> Applies i ->
  k_present (i_tok i) = true -> k_parses (i_tok i) = true -> k_info (i_tok i) = false ->
  verify_authentic_timestamp i = Failed WInfo.
Proof. exact step_bad_info. Qed.
Print Assumptions C06_bad_tstinfo.

Theorem C06_wrong_message : forall i, wf i = true -> i_scheme i = X509 -> Applies i ->
  k_present (i_tok i) = true -> k_parses (i_tok i) = true -> k_info (i_tok i) = true ->
  k_imprint (i_tok i) = false -> verify_authentic_timestamp i = Failed WImprint.
Proof. exact step_wrong_message. Qed.
Print Assumptions C06_wrong_message.

Theorem C06_store_error : forall i, wf i = true -> i_scheme i = X509 -> Applies i ->
  k_present (i_tok i) = true -> k_parses (i_tok i) = true -> k_info (i_tok i) = true ->
  k_imprint (i_tok i) = true ->
  all_load i = false -> verify_authentic_timestamp i = Failed WLoad.
Proof. exact step_store_error. Qed.
Print Assumptions C06_store_error.

Theorem C06_no_roots : forall i, wf i = true -> i_scheme i = X509 -> Applies i ->
  k_present (i_tok i) = true -> k_parses (i_tok i) = true -> k_info (i_tok i) = true ->
  k_imprint (i_tok i) = true ->
  all_load i = true -> some_root i = false -> verify_authentic_timestamp i = Failed WNoRoots.
Proof. exact step_no_roots. Qed.
Print Assumptions C06_no_roots.

Theorem C06_untrusted_tsa : forall i, wf i = true -> i_scheme i = X509 -> Applies i ->
  k_present (i_tok i) = true -> k_parses (i_tok i) = true -> k_info (i_tok i) = true ->
  k_imprint (i_tok i) = true -> all_load i = true -> some_root i = true ->
  k_verify (i_tok i) = false -> verify_authentic_timestamp i = Failed WVerify.
Proof. exact step_untrusted. Qed.
Print Assumptions C06_untrusted_tsa.

Theorem C06_mispurposed_tsa : forall i, wf i = true -> i_scheme i = X509 -> Applies i ->
  k_present (i_tok i) = true -> k_parses (i_tok i) = true -> k_info (i_tok i) = true ->
  k_imprint (i_tok i) = true -> all_load i = true -> some_root i = true ->
  k_verify (i_tok i) = true -> k_rules (i_tok i) = false ->
  verify_authentic_timestamp i = Failed WRules.
Proof. exact step_mispurposed. Qed.
Print Assumptions C06_mispurposed_tsa.

Theorem C06_outside_window : forall i, wf i = true -> i_scheme i = X509 -> Applies i ->
  k_present (i_tok i) = true -> k_parses (i_tok i) = true -> k_info (i_tok i) = true ->
  k_imprint (i_tok i) = true -> all_load i = true -> some_root i = true ->
  k_verify (i_tok i) = true -> k_rules (i_tok i) = true ->
  forall c, In c (i_chain i) ->
  ~ Inside (k_gen (i_tok i) - k_acc (i_tok i)) (k_gen (i_tok i) + k_acc (i_tok i)) c ->
  exists k, verify_authentic_timestamp i = Failed (WTsBefore k) \/
            verify_authentic_timestamp i = Failed (WTsAfter k).
Proof. exact step_window. Qed.
Print Assumptions C06_outside_window.

Theorem C06_tsa_revocation : forall i, wf i = true -> i_scheme i = X509 -> Applies i ->
  k_present (i_tok i) = true -> k_parses (i_tok i) = true -> k_info (i_tok i) = true ->
  k_imprint (i_tok i) = true -> all_load i = true -> some_root i = true ->
  k_verify (i_tok i) = true -> k_rules (i_tok i) = true ->
  Forall (Inside (k_gen (i_tok i) - k_acc (i_tok i)) (k_gen (i_tok i) + k_acc (i_tok i))) (i_chain i) ->
  shape_ok (k_tsalen (i_tok i)) (k_rev (i_tok i)) = true ->   (* one non-nil result per TSA certificate: see C06_tsa_result_shape *)
  rev_ok (k_rev (i_tok i)) = false ->
  verify_authentic_timestamp i = Failed WRevErr \/
  exists k, verify_authentic_timestamp i = Failed (WRevoked k) \/
            verify_authentic_timestamp i = Failed (WRevUnknown k).
Proof. exact step_revocation. Qed.
Print Assumptions C06_tsa_revocation.

(* a revoked TSA certificate is never reported as merely unknown / an error *)
Theorem C06_revoked_reported : forall i rs, wf i = true -> i_scheme i = X509 ->
  k_rev (i_tok i) = VRes rs -> In RRevoked rs ->
  forall w, verify_authentic_timestamp i = Failed w ->
  (forall k, w <> WRevUnknown k) /\ w <> WRevErr.
Proof. exact revoked_reported. Qed.
Print Assumptions C06_revoked_reported.

(* an unset verifyTimestamp is "always" *)
Theorem C06_unset_is_always : forall i, model (with_opt i OptUnset) = model (with_opt i OptAlways).
Proof. exact unset_is_always. Qed.
Print Assumptions C06_unset_is_always.

(* ---------- reasons and actions ---------- *)

Theorem C06_reason_truthful : forall i w, wf i = true ->
  verify_authentic_timestamp i = Failed w -> why_ok i w = true.
Proof. exact reason_truthful. Qed.
Print Assumptions C06_reason_truthful.

(* the action decides: rejected exactly on an enforced failure of one of the two *)
Theorem C06_rejected_iff : forall i,
  o_rejected (model i) = true <->
  (i_aexp i = Enforce /\ o_expiry (model i) = Some false) \/
  (i_ats i = Enforce /\ exists w, o_ts (model i) = Some (Failed w)).
Proof. exact rejected_iff. Qed.
Print Assumptions C06_rejected_iff.

(* the boolean oracle evaluated on the implementation's observations is met by
   the model on every well-formed input *)
Theorem C06_model_meets_oracle : forall i, wf i = true -> spec_ok i (model i) = true.
Proof. exact model_spec_ok. Qed.
Print Assumptions C06_model_meets_oracle.

(* ---------- added by the theorem audit (docs/audit/C06.md) ---------- *)

(* THE STATEMENT, "passes only if", for EVERY input — no input contract, no
   hypothesis on the policy: whenever the authentic-timestamp validation
   passes, every certificate of the chain was valid at the trusted time of the
   case at hand (a trustStores value without separator can only make it fail) *)
Theorem C06_passes_only_if : forall i, verify_authentic_timestamp i = Passed ->
  (i_scheme i = SigningAuthority -> Forall (Valid_at (i_sigtime i)) (i_chain i)) /\
  (i_scheme i = X509 -> ~ Applies i -> Forall (Valid_at (i_now i)) (i_chain i)) /\
  (i_scheme i = X509 -> Applies i -> Token_ok i).
Proof. exact passes_only_if. Qed.
Print Assumptions C06_passes_only_if.

(* the whole property on the observation of Verify, both directions: the
   authenticTimestamp entry of the outcome is "passed" exactly when
   verification was not stopped by an enforced expiry failure and the chain was
   valid at the trusted time *)
Theorem C06_statement : forall i, wf i = true ->
  (o_ts (model i) = Some Passed <->
   ~ (i_aexp i = Enforce /\ exists e, i_expiry i = Some e /\ e <= i_now i) /\
   match i_scheme i with
   | SigningAuthority => Forall (Valid_at (i_sigtime i)) (i_chain i)
   | X509 => (~ Applies i /\ Forall (Valid_at (i_now i)) (i_chain i)) \/ (Applies i /\ Token_ok i)
   end).
Proof. exact statement. Qed.
Print Assumptions C06_statement.

(* the expiry entry is always there and is "failed" exactly when the expiry is
   not after the moment of verification *)
Theorem C06_expiry_iff : forall i,
  (o_expiry (model i) = Some false <-> exists e, i_expiry i = Some e /\ e <= i_now i) /\
  (o_expiry (model i) = Some true <-> forall e, i_expiry i = Some e -> i_now i < e).
Proof. exact expiry_iff. Qed.
Print Assumptions C06_expiry_iff.

(* end to end, no input contract: Verify returns no error under enforced
   actions only if the signature has not expired and the chain was valid at the
   trusted time *)
Theorem C06_accepted_only_if : forall i, i_aexp i = Enforce -> i_ats i = Enforce ->
  o_rejected (model i) = false ->
  (forall e, i_expiry i = Some e -> i_now i < e) /\
  (i_scheme i = SigningAuthority -> Forall (Valid_at (i_sigtime i)) (i_chain i)) /\
  (i_scheme i = X509 -> ~ Applies i -> Forall (Valid_at (i_now i)) (i_chain i)) /\
  (i_scheme i = X509 -> Applies i -> Token_ok i).
Proof. exact accepted_only_if. Qed.
Print Assumptions C06_accepted_only_if.

(* ... and, under the input contract, exactly then *)
Theorem C06_accepted_iff : forall i, wf i = true -> i_aexp i = Enforce -> i_ats i = Enforce ->
  (o_rejected (model i) = false <->
   (forall e, i_expiry i = Some e -> i_now i < e) /\
   match i_scheme i with
   | SigningAuthority => Forall (Valid_at (i_sigtime i)) (i_chain i)
   | X509 => (~ Applies i /\ Forall (Valid_at (i_now i)) (i_chain i)) \/ (Applies i /\ Token_ok i)
   end).
Proof. exact accepted_iff. Qed.
Print Assumptions C06_accepted_iff.

(* "timestamp verification applies" as the table of the quantifier: tsa store
   listed x verifyTimestamp {unset, always, afterCertExpiry with an expired chain} *)
Theorem C06_applies_cases : forall i,
  Applies i <->
  Lists_tsa (i_stores i) /\
  (i_opt i = OptUnset \/ i_opt i = OptAlways \/ (i_opt i = OptAfterCertExpiry /\ Expired_now i)).
Proof. exact applies_cases. Qed.
Print Assumptions C06_applies_cases.

(* the test the code performs (type of strings.Cut(value, ":") = "tsa", first
   hit wins) is "some value starts with tsa:" *)
Theorem C06_tsa_enabled_iff : forall i, wf i = true ->
  (tsa_in_policy (i_stores i) = Some true <-> Lists_tsa (i_stores i)) /\
  (tsa_in_policy (i_stores i) = Some false <-> ~ Lists_tsa (i_stores i)).
Proof. exact tsa_enabled_iff. Qed.
Print Assumptions C06_tsa_enabled_iff.

(* under the input contract the configuration error cannot occur *)
Theorem C06_no_config_error : forall i, wf i = true -> verify_authentic_timestamp i <> Failed WConfig.
Proof. exact no_config_error. Qed.
Print Assumptions C06_no_config_error.

(* ---------- what each validation depends on, and on nothing else ---------- *)

(* expiry: the moment of verification and the expiry time only (not the
   scheme, the chain, the signing time, the policy, the countersignature) *)
Theorem C06_expiry_depends_only_on : forall i i', i_now i = i_now i' -> i_expiry i = i_expiry i' ->
  o_expiry (model i) = o_expiry (model i').
Proof. exact expiry_clock. Qed.
Print Assumptions C06_expiry_depends_only_on.

(* signingAuthority: the signing time and the chain only *)
Theorem C06_sa_depends_only_on : forall i i',
  i_scheme i = SigningAuthority -> i_scheme i' = SigningAuthority ->
  i_sigtime i = i_sigtime i' -> i_chain i = i_chain i' ->
  verify_authentic_timestamp i = verify_authentic_timestamp i'.
Proof. exact sa_clock. Qed.
Print Assumptions C06_sa_depends_only_on.

(* notary.x509: never the signing time, the expiry or the actions *)
Theorem C06_x509_depends_only_on : forall i i', i_scheme i = X509 -> i_scheme i' = X509 ->
  i_now i = i_now i' -> i_chain i = i_chain i' -> i_stores i = i_stores i' -> i_opt i = i_opt i' ->
  i_tsadb i = i_tsadb i' -> i_tok i = i_tok i' ->
  verify_authentic_timestamp i = verify_authentic_timestamp i'.
Proof. exact x509_clock. Qed.
Print Assumptions C06_x509_depends_only_on.

(* timestamp verification does not apply: no countersignature, however good,
   and no content of the trust store changes the result — an expired chain is
   not saved by a token the policy did not ask for *)
Theorem C06_x509_no_tsa_ignores_token : forall i db k, wf i = true -> i_scheme i = X509 -> ~ Applies i ->
  verify_authentic_timestamp (with_policy i (i_stores i) (i_opt i) db k) = verify_authentic_timestamp i.
Proof. exact x509_no_tsa_ignores_token. Qed.
Print Assumptions C06_x509_no_tsa_ignores_token.

(* timestamp verification applies: the moment of verification plays no further role *)
Theorem C06_x509_tsa_ignores_now : forall i t, wf i = true -> i_scheme i = X509 ->
  Applies i -> Applies (with_now i t) ->
  verify_authentic_timestamp (with_now i t) = verify_authentic_timestamp i.
Proof. exact x509_tsa_ignores_now. Qed.
Print Assumptions C06_x509_tsa_ignores_now.

(* ---------- the last two steps name the certificate ---------- *)

(* the range is checked against the windows in chain order; the failure names
   the first certificate whose window does not contain it, and says on which side *)
Theorem C06_outside_window_names : forall i, wf i = true -> i_scheme i = X509 -> Applies i ->
  k_present (i_tok i) = true -> k_parses (i_tok i) = true -> k_info (i_tok i) = true ->
  k_imprint (i_tok i) = true -> all_load i = true -> some_root i = true ->
  k_verify (i_tok i) = true -> k_rules (i_tok i) = true ->
  ~ Forall (Inside (k_gen (i_tok i) - k_acc (i_tok i)) (k_gen (i_tok i) + k_acc (i_tok i))) (i_chain i) ->
  exists k c, nth_error (i_chain i) k = Some c /\
    Forall (Inside (k_gen (i_tok i) - k_acc (i_tok i)) (k_gen (i_tok i) + k_acc (i_tok i))) (firstn k (i_chain i)) /\
    ((verify_authentic_timestamp i = Failed (WTsBefore (N.of_nat k)) /\
        k_gen (i_tok i) - k_acc (i_tok i) < nb c) \/
     (verify_authentic_timestamp i = Failed (WTsAfter (N.of_nat k)) /\
        nb c <= k_gen (i_tok i) - k_acc (i_tok i) /\ na c < k_gen (i_tok i) + k_acc (i_tok i))).
Proof. exact step_window_names. Qed.
Print Assumptions C06_outside_window_names.

Theorem C06_tsa_revocation_error : forall i, wf i = true -> i_scheme i = X509 -> Applies i ->
  k_present (i_tok i) = true -> k_parses (i_tok i) = true -> k_info (i_tok i) = true ->
  k_imprint (i_tok i) = true -> all_load i = true -> some_root i = true ->
  k_verify (i_tok i) = true -> k_rules (i_tok i) = true ->
  Forall (Inside (k_gen (i_tok i) - k_acc (i_tok i)) (k_gen (i_tok i) + k_acc (i_tok i))) (i_chain i) ->
  k_rev (i_tok i) = VErr -> verify_authentic_timestamp i = Failed WRevErr.
Proof. exact step_rev_error. Qed.
Print Assumptions C06_tsa_revocation_error.

(* a revoked TSA certificate anywhere in the chain: "revoked", naming the first
   revoked one — whatever the other results are *)
Theorem C06_tsa_revoked_names : forall i, wf i = true -> i_scheme i = X509 -> Applies i ->
  k_present (i_tok i) = true -> k_parses (i_tok i) = true -> k_info (i_tok i) = true ->
  k_imprint (i_tok i) = true -> all_load i = true -> some_root i = true ->
  k_verify (i_tok i) = true -> k_rules (i_tok i) = true ->
  Forall (Inside (k_gen (i_tok i) - k_acc (i_tok i)) (k_gen (i_tok i) + k_acc (i_tok i))) (i_chain i) ->
  shape_ok (k_tsalen (i_tok i)) (k_rev (i_tok i)) = true ->
  forall rs, k_rev (i_tok i) = VRes rs -> In RRevoked rs ->
  exists k, nth_error rs k = Some RRevoked /\ ~ In RRevoked (firstn k rs) /\
            verify_authentic_timestamp i = Failed (WRevoked (N.of_nat k)).
Proof. exact step_revoked_names. Qed.
Print Assumptions C06_tsa_revoked_names.

(* none revoked, but not all OK / non-revokable: "unknown", naming the first such one *)
Theorem C06_tsa_unknown_names : forall i, wf i = true -> i_scheme i = X509 -> Applies i ->
  k_present (i_tok i) = true -> k_parses (i_tok i) = true -> k_info (i_tok i) = true ->
  k_imprint (i_tok i) = true -> all_load i = true -> some_root i = true ->
  k_verify (i_tok i) = true -> k_rules (i_tok i) = true ->
  Forall (Inside (k_gen (i_tok i) - k_acc (i_tok i)) (k_gen (i_tok i) + k_acc (i_tok i))) (i_chain i) ->
  shape_ok (k_tsalen (i_tok i)) (k_rev (i_tok i)) = true ->
  forall rs, k_rev (i_tok i) = VRes rs -> ~ In RRevoked rs ->
  ~ Forall (fun r => r = ROK \/ r = RNonRevokable) rs ->
  exists k r, nth_error rs k = Some r /\ r <> ROK /\ r <> RNonRevokable /\
              Forall (fun r => r = ROK \/ r = RNonRevokable) (firstn k rs) /\
              verify_authentic_timestamp i = Failed (WRevUnknown (N.of_nat k)).
Proof. exact step_unknown_names. Qed.
Print Assumptions C06_tsa_unknown_names.

(* ---------- "issued by an unrevoked TSA", no contract on the revocation validator ----------
   (/repo d78db00: checkRevocationResults before revocationFinalResult) *)

(* whatever the timestamping revocation validator answers: a pass means it
   reported exactly one result per certificate of the TSA chain, each of them
   OK or non-revokable — no hypothesis on the validator, none on the policy *)
Theorem C06_unrevoked_tsa : forall i, i_scheme i = X509 -> Applies i ->
  verify_authentic_timestamp i = Passed ->
  exists rs, k_rev (i_tok i) = VRes rs /\
    List.length rs = N.to_nat (k_tsalen (i_tok i)) /\
    forall j, (j < N.to_nat (k_tsalen (i_tok i)))%nat ->
      nth_error rs j = Some ROK \/ nth_error rs j = Some RNonRevokable.
Proof. exact unrevoked_tsa. Qed.
Print Assumptions C06_unrevoked_tsa.

(* an answer with fewer or more results than TSA certificates, or with a nil
   entry, never passes *)
Theorem C06_bad_shape_never_passes : forall i rs, i_scheme i = X509 -> Applies i ->
  k_rev (i_tok i) = VRes rs ->
  (N.of_nat (List.length rs) <> k_tsalen (i_tok i) \/ In RNil rs) ->
  verify_authentic_timestamp i <> Passed.
Proof. exact bad_shape_never_passes. Qed.
Print Assumptions C06_bad_shape_never_passes.

(* the step itself: the count is compared first, then the first nil entry is named *)
Theorem C06_tsa_result_shape : forall i, wf i = true -> i_scheme i = X509 -> Applies i ->
  k_present (i_tok i) = true -> k_parses (i_tok i) = true -> k_info (i_tok i) = true ->
  k_imprint (i_tok i) = true -> all_load i = true -> some_root i = true ->
  k_verify (i_tok i) = true -> k_rules (i_tok i) = true ->
  Forall (Inside (k_gen (i_tok i) - k_acc (i_tok i)) (k_gen (i_tok i) + k_acc (i_tok i))) (i_chain i) ->
  forall rs, k_rev (i_tok i) = VRes rs ->
  (N.of_nat (List.length rs) <> k_tsalen (i_tok i) -> verify_authentic_timestamp i = Failed WRevCount) /\
  (N.of_nat (List.length rs) = k_tsalen (i_tok i) -> In RNil rs ->
     exists k, nth_error rs k = Some RNil /\ ~ In RNil (firstn k rs) /\
               verify_authentic_timestamp i = Failed (WRevNil (N.of_nat k))).
Proof. exact step_shape. Qed.
Print Assumptions C06_tsa_result_shape.

(* the code reads the clock twice (verifyExpiry, then verifyTimestamp); with the
   expiry validation reading [te] and the other one [i_now i] nothing else
   changes: the expiry theorems hold of [te], the authentic-timestamp theorems
   of [i_now i] *)
Theorem C06_two_clock_reads : forall te i,
  model2 (i_now i) i = model i /\
  o_expiry (model2 te i) = o_expiry (model (with_now i te)) /\
  (o_ts (model2 te i) = None \/ o_ts (model2 te i) = Some (verify_authentic_timestamp i)) /\
  (o_ts (model2 te i) = None <-> i_aexp i = Enforce /\ exists e, i_expiry i = Some e /\ e <= te).
Proof. exact two_clock_reads. Qed.
Print Assumptions C06_two_clock_reads.

(* ---------- non-vacuity ---------- *)

(* a leaf that expired 10 h ago (36000 s), under a policy with a tsa store and
   afterCertExpiry: timestamp verification applies; a token issued 20 h ago by
   a trusted, unrevoked TSA saves the signature; without the token it fails;
   without the tsa store the chain is judged now and fails *)
(* [ex_tok], [ex_in stores token]: see the end of C06_Model.v *)

Example C06_example_saved_by_timestamp :
  wf (ex_in ["ca:s"; "tsa:a"] ex_tok) = true /\ Applies (ex_in ["ca:s"; "tsa:a"] ex_tok) /\
  Token_ok (ex_in ["ca:s"; "tsa:a"] ex_tok) /\
  model (ex_in ["ca:s"; "tsa:a"] ex_tok) = mk_obs (Some true) (Some Passed) false.
Proof.
  split; [reflexivity|]. split; [now apply applies_iff|]. split; [now apply token_ok_iff | reflexivity].
Qed.

Example C06_example_no_token :
  model (ex_in ["ca:s"; "tsa:a"] (mk_token false false false false 0 0 false false 2 VErr))
  = mk_obs (Some true) (Some (Failed WNoToken)) true.
Proof. reflexivity. Qed.

Example C06_example_no_tsa_store :
  ~ Applies (ex_in ["ca:s"] ex_tok) /\
  model (ex_in ["ca:s"] ex_tok) = mk_obs (Some true) (Some (Failed (WNowAfter 0))) true.
Proof. split; [|reflexivity]. intros H. apply applies_iff in H. discriminate. Qed.

(* signingAuthority: the same expired leaf passes, because it was valid at the signing time *)
Example C06_example_signing_authority :
  let i := mk_input 0 SigningAuthority (-80000) (Some 3600)
             [mk_cert (-360000) (-36000); mk_cert (-360000) 360000] ["signingAuthority:s"] OptUnset []
             (mk_token false false false false 0 0 false false 2 VErr) Enforce Enforce in
  model i = mk_obs (Some true) (Some Passed) false /\
  model (with_sigtime i (-20000)) = mk_obs (Some true) (Some (Failed (WSigTime 0))) true.
Proof. split; reflexivity. Qed.

(* expiry exactly now fails *)
Example C06_example_expiry_now :
  model (mk_input 100 X509 0 (Some 100) [mk_cert (-5) 500] ["ca:s"] OptUnset []
           (mk_token false false false false 0 0 false false 2 VErr) Log Log)
  = mk_obs (Some false) (Some Passed) false.
Proof. reflexivity. Qed.

(* ---------- non-vacuity of the step theorems (added by the audit) ----------
   [ex_in ["ca:s"; "tsa:a"] k] satisfies the common hypotheses (input contract,
   notary.x509, timestamp verification applies) for every token [k] *)
Example C06_example_common : forall k,
  wf (ex_in ["ca:s"; "tsa:a"] k) = true /\ i_scheme (ex_in ["ca:s"; "tsa:a"] k) = X509 /\
  Applies (ex_in ["ca:s"; "tsa:a"] k) /\
  all_load (ex_in ["ca:s"; "tsa:a"] k) = true /\ some_root (ex_in ["ca:s"; "tsa:a"] k) = true.
Proof.
  intros k. split; [reflexivity|]. split; [reflexivity|].
  split; [apply applies_iff; reflexivity|]. split; reflexivity.
Qed.

(* one token per step: the facts before the step hold, the step's fact does not *)
Example C06_example_unparsable :
  verify_authentic_timestamp (ex_in ["ca:s"; "tsa:a"] (mk_token true false false false 0 0 false false 2 VErr))
  = Failed WParse.
Proof. reflexivity. Qed.

Example C06_example_bad_tstinfo :
  verify_authentic_timestamp (ex_in ["ca:s"; "tsa:a"] (mk_token true true false false 0 0 false false 2 VErr))
  = Failed WInfo.
Proof. reflexivity. Qed.

Example C06_example_wrong_message :
  verify_authentic_timestamp (ex_in ["ca:s"; "tsa:a"] (mk_token true true true false 0 0 true true 2 (VRes [ROK; ROK])))
  = Failed WImprint.
Proof. reflexivity. Qed.

(* a listed tsa store the trust store cannot load / a tsa store without certificates *)
Example C06_example_store_error :
  wf (ex_in ["tsa:a"; "ca:s"; "tsa:zz"] ex_tok) = true /\ Applies (ex_in ["tsa:a"; "ca:s"; "tsa:zz"] ex_tok) /\
  all_load (ex_in ["tsa:a"; "ca:s"; "tsa:zz"] ex_tok) = false /\
  verify_authentic_timestamp (ex_in ["tsa:a"; "ca:s"; "tsa:zz"] ex_tok) = Failed WLoad.
Proof. split; [reflexivity|]. split; [apply applies_iff; reflexivity|]. split; reflexivity. Qed.

Example C06_example_no_roots :
  let i := with_policy (ex_in [] ex_tok) ["ca:s"; "tsa:e"] OptAfterCertExpiry [("e", SEmpty)] ex_tok in
  wf i = true /\ Applies i /\ all_load i = true /\ some_root i = false /\
  verify_authentic_timestamp i = Failed WNoRoots.
Proof.
  cbv zeta. split; [reflexivity|]. split; [apply applies_iff; reflexivity|].
  split; [reflexivity|]. split; reflexivity.
Qed.

Example C06_example_untrusted_tsa :
  verify_authentic_timestamp (ex_in ["ca:s"; "tsa:a"] (mk_token true true true true (-72000) 1 false false 2 (VRes [ROK; ROK])))
  = Failed WVerify.
Proof. reflexivity. Qed.

Example C06_example_mispurposed_tsa :
  verify_authentic_timestamp (ex_in ["ca:s"; "tsa:a"] (mk_token true true true true (-72000) 1 true false 2 (VRes [ROK; ROK])))
  = Failed WRules.
Proof. reflexivity. Qed.

(* the range against the leaf window [-360000, -36000]: after it, before it,
   and touching its end (genTime + accuracy = notAfter is still inside) *)
Example C06_example_outside_window :
  verify_authentic_timestamp (ex_in ["ca:s"; "tsa:a"] (mk_token true true true true (-30000) 1 true true 2 (VRes [ROK; ROK])))
  = Failed (WTsAfter 0) /\
  verify_authentic_timestamp (ex_in ["ca:s"; "tsa:a"] (mk_token true true true true (-400000) 1 true true 2 (VRes [ROK; ROK])))
  = Failed (WTsBefore 0) /\
  verify_authentic_timestamp (ex_in ["ca:s"; "tsa:a"] (mk_token true true true true (-36001) 1 true true 2 (VRes [ROK; ROK])))
  = Passed /\
  verify_authentic_timestamp (ex_in ["ca:s"; "tsa:a"] (mk_token true true true true (-36001) 2 true true 2 (VRes [ROK; ROK])))
  = Failed (WTsAfter 0).
Proof. repeat split. Qed.

(* revocation of the TSA chain: error; revoked (wins over an unknown in front
   of it); unknown; non-revokable counts as OK *)
Example C06_example_tsa_revocation :
  let tok v := mk_token true true true true (-72000) 1 true true 2 v in
  verify_authentic_timestamp (ex_in ["ca:s"; "tsa:a"] (tok VErr)) = Failed WRevErr /\
  verify_authentic_timestamp (ex_in ["ca:s"; "tsa:a"] (tok (VRes [ROK; RRevoked]))) = Failed (WRevoked 1) /\
  verify_authentic_timestamp (ex_in ["ca:s"; "tsa:a"] (tok (VRes [RUnknown; RRevoked]))) = Failed (WRevoked 1) /\
  verify_authentic_timestamp (ex_in ["ca:s"; "tsa:a"] (tok (VRes [RUnknown; ROK]))) = Failed (WRevUnknown 0) /\
  verify_authentic_timestamp (ex_in ["ca:s"; "tsa:a"] (tok (VRes [ROK; RNonRevokable]))) = Passed.
Proof. repeat split. Qed.

(* timestamp verification does not apply although a tsa store is listed:
   afterCertExpiry and nothing expired — a chain valid now passes without any
   token, a certificate not yet valid fails against now (it is not "expired") *)
Example C06_example_after_expiry_unexpired :
  let i w := mk_input 0 X509 (-80000) None [mk_cert w 36000; mk_cert (-360000) 360000]
               ["ca:s"; "tsa:a"] OptAfterCertExpiry [("a", SCerts)]
               (mk_token false false false false 0 0 false false 2 VErr) Enforce Enforce in
  wf (i (-36000)) = true /\ ~ Applies (i (-36000)) /\
  Forall (Valid_at 0) (i_chain (i (-36000))) /\
  model (i (-36000)) = mk_obs (Some true) (Some Passed) false /\
  ~ Applies (i 3600) /\ model (i 3600) = mk_obs (Some true) (Some (Failed (WNowBefore 0))) true.
Proof.
  assert (N : forall w, ~ Applies (mk_input 0 X509 (-80000) None [mk_cert w 36000; mk_cert (-360000) 360000]
               ["ca:s"; "tsa:a"] OptAfterCertExpiry [("a", SCerts)]
               (mk_token false false false false 0 0 false false 2 VErr) Enforce Enforce)).
  { intros w H. apply applies_iff in H. discriminate. }
  cbv zeta. split; [reflexivity|]. split; [apply N|]. split.
  - repeat constructor; unfold Valid_at; cbn; lia.
  - split; [reflexivity|]. split; [apply N | reflexivity].
Qed.

(* outside the input contract (a trustStores value without separator) the
   validation fails closed: configuration error, or the tsa stores do not load *)
Example C06_example_no_separator :
  wf (ex_in ["bad"; "tsa:a"] ex_tok) = false /\
  verify_authentic_timestamp (ex_in ["bad"; "tsa:a"] ex_tok) = Failed WConfig /\
  verify_authentic_timestamp (ex_in ["tsa:a"; "bad"] ex_tok) = Failed WLoad.
Proof. repeat split. Qed.

(* the equality boundaries (proved on the model; the code reads the wall clock,
   so the harness stays an hour away from those that involve "now"): a
   certificate is valid AT notBefore and AT notAfter, for each clock, and a
   certificate at notAfter = now is not "expired" for afterCertExpiry *)
Example C06_example_boundaries :
  let x now w opt := mk_input now X509 0 None [w] ["ca:s"; "tsa:a"] opt [("a", SCerts)]
                       (mk_token false false false false 0 0 false false 2 VErr) Enforce Enforce in
  let sa t w := mk_input 999 SigningAuthority t None [w] ["signingAuthority:s"] OptUnset []
                  (mk_token false false false false 0 0 false false 2 VErr) Enforce Enforce in
  verify_authentic_timestamp (x 100 (mk_cert (-5) 100) OptAfterCertExpiry) = Passed /\
  verify_authentic_timestamp (x 101 (mk_cert (-5) 100) OptAfterCertExpiry) = Failed WNoToken /\
  verify_authentic_timestamp (x (-5) (mk_cert (-5) 100) OptAfterCertExpiry) = Passed /\
  verify_authentic_timestamp (x (-6) (mk_cert (-5) 100) OptAfterCertExpiry) = Failed (WNowBefore 0) /\
  verify_authentic_timestamp (sa (-5) (mk_cert (-5) 100)) = Passed /\
  verify_authentic_timestamp (sa 100 (mk_cert (-5) 100)) = Passed /\
  verify_authentic_timestamp (sa (-6) (mk_cert (-5) 100)) = Failed (WSigTime 0) /\
  verify_authentic_timestamp (sa 101 (mk_cert (-5) 100)) = Failed (WSigTime 0).
Proof. repeat split. Qed.

(* the TSA chain has 2 certificates: an empty, a shorter and a longer answer
   and one with a nil entry fail (before d78db00 the first two passed and the
   third indexed out of range), even when a revoked result hides behind *)
Example C06_example_result_shape :
  let tok v := mk_token true true true true (-72000) 1 true true 2 v in
  verify_authentic_timestamp (ex_in ["ca:s"; "tsa:a"] (tok (VRes []))) = Failed WRevCount /\
  verify_authentic_timestamp (ex_in ["ca:s"; "tsa:a"] (tok (VRes [ROK]))) = Failed WRevCount /\
  verify_authentic_timestamp (ex_in ["ca:s"; "tsa:a"] (tok (VRes [ROK; ROK; ROK]))) = Failed WRevCount /\
  verify_authentic_timestamp (ex_in ["ca:s"; "tsa:a"] (tok (VRes [ROK; RNil]))) = Failed (WRevNil 1) /\
  verify_authentic_timestamp (ex_in ["ca:s"; "tsa:a"] (tok (VRes [RRevoked; RNil]))) = Failed (WRevNil 1) /\
  verify_authentic_timestamp (ex_in ["ca:s"; "tsa:a"] (tok (VRes [ROK; ROK]))) = Passed.
Proof. repeat split. Qed.
