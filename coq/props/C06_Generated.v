(* C06_Generated.v — the code's own functions against the C06 model.

   theories/C06_Gen.v is re-translated from the Go sources of /repo by `vh-gen`
   (GoLite, docs/GOLITE.md) on every run; the theorems below are about those
   generated definitions, for ALL their inputs. Proofs: theories/C06_GenProofs.v.

   Translated: verifier.verifyExpiry, verifyAuthenticTimestamp, verifyTimestamp,
   isTSATrustStoreInPolicy, loadX509TSATrustStores (+ loadX509TrustStoresWithType),
   checkRevocationResults, revocationFinalResult; tspclient-go Timestamp.BoundedAfter /
   BoundedBefore. Oracles (record [deps], quantified): time.Now, time.Time.Add,
   certificate fields, tspclient.ParseSignedToken, SignedToken.Info / Verify,
   TSTInfo.Validate, nx509.ValidateTimestampingCertChain, x509.NewCertPool; the
   trust store and the revocation validator are function parameters.
   [model_input D ..] computes the model's input (C06_Model.input) from the
   code's inputs and the oracles' answers; [res_rel] reads a Go error value as
   the model's result (class = format string of the return statement). *)
From Coq Require Import List Bool String Ascii NArith ZArith.
From NV Require Import Base GoLib C06_Model C06_Gen C06_GenProofs.
Import ListNotations.
Local Open Scope string_scope.
Local Open Scope Z_scope.

(* ---------- verifyExpiry: compared with time.Now(), nothing else ---------- *)

Theorem C06_gen_verifyExpiry_equiv : forall (D : deps) outcome env lvl,
  outcome_ok outcome env lvl ->
  g_verifyExpiry D outcome
  = Some (expiry_result lvl
            (if verify_expiry (d_now D)
                  (expiry_of (SignedAttributes_Expiry (SignerInfo_SignedAttributes _ (EnvelopeContent_SignerInfo _ env))))
             then None else Some expiry_err)).
Proof. exact g_verifyExpiry_equiv. Qed.
Print Assumptions C06_gen_verifyExpiry_equiv.

(* clause 1 of the property on the code's function: the expiry validation
   passes iff there is no expiry or time.Now() is before it (equality fails) *)
Theorem C06_gen_expiry_iff : forall (D : deps) outcome env lvl,
  outcome_ok outcome env lvl ->
  exists e, g_verifyExpiry D outcome = Some (expiry_result lvl e) /\
    let expiry := SignedAttributes_Expiry (SignerInfo_SignedAttributes _ (EnvelopeContent_SignerInfo _ env)) in
    (e = None <-> (expiry = time_zero \/ d_now D < expiry)).
Proof. exact g_verifyExpiry_iff. Qed.
Print Assumptions C06_gen_expiry_iff.

(* it panics exactly on a nil outcome / EnvelopeContent / VerificationLevel *)
Theorem C06_gen_verifyExpiry_panics : forall (now : Z) (C : Type) (outcome : ptr (notation_go_VerificationOutcome C)),
  gen_verifier_verifyExpiry now C outcome = None <->
  match ptr_val outcome with
  | None => True
  | Some o => ptr_val (VerificationOutcome_EnvelopeContent _ o) = None
              \/ ptr_val (VerificationOutcome_VerificationLevel _ o) = None
  end.
Proof. exact gen_verifyExpiry_none. Qed.
Print Assumptions C06_gen_verifyExpiry_panics.

(* ---------- isTSATrustStoreInPolicy = tsa_in_policy ---------- *)

Theorem C06_gen_isTSATrustStoreInPolicy_equiv : forall policy stores,
  match tsa_in_policy stores with
  | Some b => gen_verifier_isTSATrustStoreInPolicy policy stores = (b, None)
  | None => exists e, gen_verifier_isTSATrustStoreInPolicy policy stores = (false, Some e)
                      /\ err_typ e = "truststore.TrustStoreError"
  end.
Proof. exact gen_isTSA_equiv. Qed.
Print Assumptions C06_gen_isTSATrustStoreInPolicy_equiv.

(* ---------- the timestamp range of tspclient-go: [genTime - accuracy, genTime + accuracy] ---------- *)

Theorem C06_gen_BoundedAfter_equiv : forall add, (forall t d, add t d = t + d) -> forall ts u,
  gen_tspclient_go_Timestamp_BoundedAfter add ts u = (u <=? Timestamp_Value ts - Timestamp_Accuracy ts).
Proof. exact gen_BoundedAfter_equiv. Qed.
Print Assumptions C06_gen_BoundedAfter_equiv.

Theorem C06_gen_BoundedBefore_equiv : forall add, (forall t d, add t d = t + d) -> forall ts u,
  gen_tspclient_go_Timestamp_BoundedBefore add ts u = (Timestamp_Value ts + Timestamp_Accuracy ts <=? u).
Proof. exact gen_BoundedBefore_equiv. Qed.
Print Assumptions C06_gen_BoundedBefore_equiv.

(* ---------- checkRevocationResults = shape_check ---------- *)

Theorem C06_gen_checkRevocationResults_equiv : forall (C : Type) results (chain : list C),
  gen_verifier_checkRevocationResults C results chain
  = match shape_check (N.of_nat (List.length chain)) (VRes (map rres_of_ptr results)) with
    | None => None
    | Some w => Some (Err "fmt" (shape_fmt w) [])
    end.
Proof. exact gen_checkRevocationResults_equiv. Qed.
Print Assumptions C06_gen_checkRevocationResults_equiv.

(* ---------- revocationFinalResult ---------- *)

(* all inputs, including those on which the Go code panics (None) *)
Theorem C06_gen_revocationFinalResult_spec : forall (C : Type) (subjs : C -> string) results chain,
  gen_verifier_revocationFinalResult C subjs results chain
  = match gfold C subjs results chain (zrange_down (list_len results - 1) 0) (0, 0, "", false, "") with
    | Some st => Some (gfinish (list_len results) st)
    | None => None
    end.
Proof. exact gen_final_spec. Qed.
Print Assumptions C06_gen_revocationFinalResult_spec.

(* after checkRevocationResults passed: the verdict is the model's final_result *)
Theorem C06_gen_revocationFinalResult_equiv : forall (C : Type) (subjs : C -> string) results chain,
  in_contract C results chain ->
  exists z s, gen_verifier_revocationFinalResult C subjs results chain = Some (z, s)
              /\ rres_of z = fst (final_result (map rres_of_ptr results)).
Proof. exact gen_final_equiv. Qed.
Print Assumptions C06_gen_revocationFinalResult_equiv.

(* ---------- loadX509TSATrustStores = load_tsa ---------- *)

Theorem C06_gen_loadX509TSATrustStores_equiv :
  forall (C : Type) (store : string -> string -> list C * option err) db scheme policy stores,
    scheme = "notary.x509" -> store_agrees C store stores db ->
    match load_tsa stores [] db false with
    | None => exists cs e, gen_verifier_loadX509TSATrustStores C scheme policy stores store = (cs, Some e)
    | Some b => exists cs, gen_verifier_loadX509TSATrustStores C scheme policy stores store = (cs, None)
                           /\ (list_len cs =? 0) = negb b
    end.
Proof. exact gen_load_equiv. Qed.
Print Assumptions C06_gen_loadX509TSATrustStores_equiv.

(* the hypothesis [store_agrees] is satisfiable for every trust store *)
Theorem C06_gen_store_table_exists :
  forall (C : Type) (store : string -> string -> list C * option err) stores,
    store_agrees C store stores (db_of C store stores).
Proof. exact store_agrees_db_of. Qed.
Print Assumptions C06_gen_store_table_exists.

(* ---------- verifyTimestamp = verify_timestamp ---------- *)

Theorem C06_gen_verifyTimestamp_equiv : forall (D : deps), add_is_plus D ->
  forall policy stores sv (store : store_t D) (r : validator_t D) db outcome env lvl aexp ats,
    outcome_ok outcome env lvl ->
    let si := EnvelopeContent_SignerInfo _ env in
    scheme_str si = "notary.x509" ->
    store_agrees (d_C D) store stores db -> dep_contract D si ->
    exists e, g_verifyTimestamp D policy stores sv store r outcome = Some e
              /\ res_rel (validator_err D r si) (verify_timestamp (model_input D stores sv r db si aexp ats)) e.
Proof. exact g_verifyTimestamp_equiv. Qed.
Print Assumptions C06_gen_verifyTimestamp_equiv.

(* ---------- verifyAuthenticTimestamp = verify_authentic_timestamp ---------- *)

Theorem C06_gen_verifyAuthenticTimestamp_equiv : forall (D : deps), add_is_plus D ->
  forall policy stores sv (store : store_t D) (r : validator_t D) db outcome env lvl aexp ats,
    outcome_ok outcome env lvl ->
    let si := EnvelopeContent_SignerInfo _ env in
    (scheme_str si = "notary.x509" -> store_agrees (d_C D) store stores db /\ dep_contract D si) ->
    exists e, g_verifyAuthenticTimestamp D policy stores sv store r outcome = Some (ts_result lvl e)
              /\ res_rel (validator_err D r si) (verify_authentic_timestamp (model_input D stores sv r db si aexp ats)) e.
Proof. exact g_verifyAuthenticTimestamp_equiv. Qed.
Print Assumptions C06_gen_verifyAuthenticTimestamp_equiv.

(* ---------- the property's theorems transported onto the generated function ---------- *)

(* C06_passes_only_if: whatever the policy (no wf), a nil Error of the
   authenticTimestamp result means the chain was valid at the trusted time *)
Theorem C06_gen_passes_only_if : forall (D : deps), add_is_plus D ->
  forall policy stores sv (store : store_t D) (r : validator_t D) db outcome env lvl aexp ats,
    outcome_ok outcome env lvl ->
    let si := EnvelopeContent_SignerInfo _ env in
    let i := model_input D stores sv r db si aexp ats in
    (scheme_str si = "notary.x509" -> store_agrees (d_C D) store stores db /\ dep_contract D si) ->
    g_verifyAuthenticTimestamp D policy stores sv store r outcome = Some (ts_result lvl None) ->
    (scheme_str si <> "notary.x509" ->
     Forall (fun c => d_nbf D c <= SignedAttributes_SigningTime (SignerInfo_SignedAttributes _ si) <= d_naf D c)
            (SignerInfo_CertificateChain _ si)) /\
    (scheme_str si = "notary.x509" -> ~ Applies i ->
     Forall (fun c => d_nbf D c <= d_now D <= d_naf D c) (SignerInfo_CertificateChain _ si)) /\
    (scheme_str si = "notary.x509" -> Applies i -> Token_ok i).
Proof. intros D Hadd policy stores sv store r db outcome env lvl aexp ats Hout si i Hx. exact (g_passes_only_if D Hadd policy stores sv store r db outcome env lvl aexp ats Hout Hx). Qed.
Print Assumptions C06_gen_passes_only_if.

(* C06_sa: signing-authority signatures are judged at the signed signing time *)
Theorem C06_gen_sa_iff : forall (D : deps), add_is_plus D ->
  forall policy stores sv (store : store_t D) (r : validator_t D) outcome env lvl e,
    outcome_ok outcome env lvl ->
    let si := EnvelopeContent_SignerInfo _ env in
    scheme_str si <> "notary.x509" ->
    g_verifyAuthenticTimestamp D policy stores sv store r outcome = Some (ts_result lvl e) ->
    (e = None <->
     Forall (fun c => d_nbf D c <= SignedAttributes_SigningTime (SignerInfo_SignedAttributes _ si) <= d_naf D c)
            (SignerInfo_CertificateChain _ si)).
Proof.
  intros D Hadd policy stores sv store r outcome env lvl e Hout si Hn Hg.
  apply (g_sa_iff D Hadd policy stores sv store r [] outcome env lvl Enforce Enforce Hout); [|exact Hg|exact Hn].
  intros Hy. contradiction.
Qed.
Print Assumptions C06_gen_sa_iff.

(* C06_x509_no_tsa: timestamping does not apply -> judged at time.Now() *)
Theorem C06_gen_x509_no_tsa_iff : forall (D : deps), add_is_plus D ->
  forall policy stores sv (store : store_t D) (r : validator_t D) db outcome env lvl aexp ats e,
    outcome_ok outcome env lvl ->
    let si := EnvelopeContent_SignerInfo _ env in
    let i := model_input D stores sv r db si aexp ats in
    store_agrees (d_C D) store stores db -> dep_contract D si ->
    g_verifyAuthenticTimestamp D policy stores sv store r outcome = Some (ts_result lvl e) ->
    forallb (contains_byte colon) stores = true -> scheme_str si = "notary.x509" -> ~ Applies i ->
    (e = None <-> Forall (fun c => d_nbf D c <= d_now D <= d_naf D c) (SignerInfo_CertificateChain _ si)).
Proof.
  intros D Hadd policy stores sv store r db outcome env lvl aexp ats e Hout si i Hag Hc.
  exact (g_x509_no_tsa_iff D Hadd policy stores sv store r db outcome env lvl aexp ats Hout (fun _ => conj Hag Hc) e).
Qed.
Print Assumptions C06_gen_x509_no_tsa_iff.

(* C06_x509_tsa: timestamping applies -> passes iff the countersignature is good *)
Theorem C06_gen_x509_tsa_iff : forall (D : deps), add_is_plus D ->
  forall policy stores sv (store : store_t D) (r : validator_t D) db outcome env lvl aexp ats e,
    outcome_ok outcome env lvl ->
    let si := EnvelopeContent_SignerInfo _ env in
    let i := model_input D stores sv r db si aexp ats in
    store_agrees (d_C D) store stores db -> dep_contract D si ->
    g_verifyAuthenticTimestamp D policy stores sv store r outcome = Some (ts_result lvl e) ->
    forallb (contains_byte colon) stores = true -> scheme_str si = "notary.x509" -> Applies i ->
    (e = None <-> Token_ok i).
Proof.
  intros D Hadd policy stores sv store r db outcome env lvl aexp ats e Hout si i Hag Hc.
  exact (g_x509_tsa_iff D Hadd policy stores sv store r db outcome env lvl aexp ats Hout (fun _ => conj Hag Hc) e).
Qed.
Print Assumptions C06_gen_x509_tsa_iff.
