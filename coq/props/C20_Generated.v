(* C20_Generated.v — the GoLite translations of the function bodies of /repo that carry
   decisions of plugin installation (theories/C20_Gen.v, regenerated from /repo by `vh-gen`
   on every run, docs/GOLITE.md) against the hand-written C20 model, for ALL inputs.

     internal/semver.IsValid               = C20_Semver.sv_valid          (= the SemVer 2.0.0 grammar)
     internal/semver.ComparePluginVersion  = C20_Semver.compare_plugin_version
                                             (oracle: golang.org/x/mod/semver.Compare, hypothesis
                                             [compare_agrees]: on "v"+valid strings the sign of its
                                             answer is the model's mirror [xcompare] of it)
     plugin.validatePluginName             = C20_Model.valid_name
     plugin.parsePluginName                = C20_Model.pname_of
     plugin.binName                        = C20_Model.bin_name
     internal/slices.Contains[string]      = Base.mem_str
     plugin.validate                       = C20_Model.validate  (contract version "1.0" folded
                                             from notation-plugin-framework-go by the translator)

   and the property's replacement rule (C20_replace_rule) transported onto the translated
   ComparePluginVersion: C20_gen_replace_rule.

   Not translated (docs/audit/C20.md, section GoLite): the `switch` on the comparison result
   inside CLIManager.Install (not a separate function; [sign_of]/[cpv_abs] below read the pair
   (int, error) exactly as that switch does: error -> version error, < 0 -> downgrade,
   == 0 -> equal, else proceed), CLIPlugin.GetMetadata (the out-parameter of plugin.run),
   parsePluginFromDir (closure given to filepath.WalkDir), everything that touches the OS. *)
From Coq Require Import List Bool String Ascii NArith ZArith Lia.
From NV Require Import Base Regex Generated GoLib C20_Semver C20_Model C20_Proofs C20_Audit C20_Gen.
From NV Require C20_SemverProofs.
Import ListNotations.
Local Open Scope string_scope.
Local Open Scope list_scope.

(* ====================================================================== *)
(* 1. internal/semver                                                     *)
(* ====================================================================== *)

(* IsValid is the model's validity: the same regular expression (both are read off
   semVerRegEx of /repo on every run), matched by the same matcher *)
Theorem C20_gen_IsValid_equiv : forall s, gen_semver_IsValid s = sv_valid s.
Proof. intros s. reflexivity. Qed.
Print Assumptions C20_gen_IsValid_equiv.

(* transported C20_semver_valid_iff: the code's IsValid accepts exactly the SemVer 2.0.0 grammar *)
Corollary C20_gen_IsValid_grammar : forall s,
  gen_semver_IsValid s = true <->
  exists p, C20_SemverProofs.wf p /\ bytes s = C20_SemverProofs.render p.
Proof. intros s. rewrite C20_gen_IsValid_equiv. apply C20_SemverProofs.sv_valid_iff. Qed.
Print Assumptions C20_gen_IsValid_grammar.

Ltac isvalid_to_model :=
  repeat match goal with |- context [gen_semver_IsValid ?x] =>
    change (gen_semver_IsValid x) with (sv_valid x) end.

(* how CLIManager.Install reads the int of ComparePluginVersion: comp < 0, comp == 0, else *)
Definition sign_of (z : Z) : comparison := (z ?= 0)%Z.

(* the pair (int, error) as Install reads it: an error is the version error *)
Definition cpv_abs (r : Z * option err) : option comparison :=
  match snd r with Some _ => None | None => Some (sign_of (fst r)) end.

(* the oracle hypothesis: on valid versions, x/mod/semver.Compare("v"+v, "v"+w) has the sign the
   model's mirror of that function computes (nothing is assumed on other arguments) *)
Definition compare_agrees (gcmp : string -> string -> Z) : Prop :=
  forall v w, sv_valid v = true -> sv_valid w = true ->
    sign_of (gcmp (String.append "v" v) (String.append "v" w)) = xcompare (bytes v) (bytes w).

Theorem C20_gen_ComparePluginVersion_equiv : forall gcmp, compare_agrees gcmp ->
  forall v w, cpv_abs (gen_semver_ComparePluginVersion gcmp v w) = compare_plugin_version v w.
Proof.
  intros gcmp Hc v w. unfold gen_semver_ComparePluginVersion, compare_plugin_version.
  isvalid_to_model.
  destruct (sv_valid v) eqn:Hv; cbn [negb]; [|reflexivity].
  destruct (sv_valid w) eqn:Hw; cbn [negb]; [|reflexivity].
  unfold cpv_abs. cbn [fst snd]. f_equal. apply Hc; assumption.
Qed.
Print Assumptions C20_gen_ComparePluginVersion_equiv.

(* an error is returned exactly when one of the two strings is not a version, whatever the oracle *)
Theorem C20_gen_ComparePluginVersion_error_iff : forall gcmp v w,
  snd (gen_semver_ComparePluginVersion gcmp v w) <> None <-> sv_valid v && sv_valid w = false.
Proof.
  intros gcmp v w. unfold gen_semver_ComparePluginVersion. isvalid_to_model.
  destruct (sv_valid v); cbn [negb andb snd]; [|split; [reflexivity|discriminate]].
  destruct (sv_valid w); cbn [negb snd]; split; try reflexivity; try discriminate.
  intros H. exfalso. apply H. reflexivity.
Qed.
Print Assumptions C20_gen_ComparePluginVersion_error_iff.

(* transported C20_semver_compare_plugin_version: the code's comparison is SemVer 2.0.0 section 11 *)
Corollary C20_gen_ComparePluginVersion_precedence : forall gcmp, compare_agrees gcmp ->
  forall v w, cpv_abs (gen_semver_ComparePluginVersion gcmp v w)
              = if sv_valid v && sv_valid w then Some (prec_of v w) else None.
Proof.
  intros gcmp Hc v w. rewrite (C20_gen_ComparePluginVersion_equiv gcmp Hc).
  apply C20_SemverProofs.compare_plugin_version_spec.
Qed.
Print Assumptions C20_gen_ComparePluginVersion_precedence.

(* "comp > 0 and no error" is "strictly higher by semantic-version precedence" *)
Corollary C20_gen_ComparePluginVersion_higher : forall gcmp, compare_agrees gcmp ->
  forall v ev, cpv_abs (gen_semver_ComparePluginVersion gcmp v ev) = Some Gt <-> higher v ev.
Proof.
  intros gcmp Hc v ev. rewrite (C20_gen_ComparePluginVersion_precedence gcmp Hc).
  rewrite <- c20_sv_higher_iff. unfold sv_higher.
  destruct (sv_valid v && sv_valid ev); cbn [andb]; [|split; discriminate].
  destruct (prec_of v ev); split; intros H; try reflexivity; try discriminate; congruence.
Qed.
Print Assumptions C20_gen_ComparePluginVersion_higher.

(* the replacement rule of the property (C20_replace_rule) with the decision made by the translated
   ComparePluginVersion: a working plugin of the same name is replaced iff overwrite is set or the code's
   comparison of (new, existing) gives no error and > 0; without overwrite the refusal follows the code's
   switch: error -> version error, == 0 -> equal-version error, < 0 -> downgrade error *)
Theorem C20_gen_replace_rule : forall gcmp, compare_agrees gcmp ->
  forall tbl st src ow n v en ev st' r,
  source_ok src = true -> install tbl st src ow = (st', r) ->
  candidate tbl src = Some (n, v) -> existing tbl st n = Some (AOk en ev) ->
  let c := cpv_abs (gen_semver_ComparePluginVersion gcmp v ev) in
  (r_err r = None <-> (ow = true \/ c = Some Gt)) /\
  (ow = false ->
     (c = None -> r_err r = Some EVersion) /\
     (c = Some Eq -> r_err r = Some EEqual) /\
     (c = Some Lt -> r_err r = Some EDowngrade)).
Proof.
  intros gcmp Hc tbl st src ow n v en ev st' r Hs Hi Hcand Hex c.
  destruct (c20_replace_rule tbl st src ow n v en ev st' r Hs Hi Hcand Hex) as (Hiff & _ & Hrej).
  split.
  - rewrite Hiff. subst c. rewrite (C20_gen_ComparePluginVersion_higher gcmp Hc). reflexivity.
  - intros How. destruct (Hrej How) as (Hver & Hcmp).
    assert (Ec : c = if sv_valid v && sv_valid ev then Some (prec_of v ev) else None)
      by (subst c; apply (C20_gen_ComparePluginVersion_precedence gcmp Hc)).
    destruct (sv_valid v) eqn:Hv; [destruct (sv_valid ev) eqn:Hev|]; cbn [andb] in Ec, Hver.
    + destruct (C20_SemverProofs.valid_decodes v Hv) as (a & Ea).
      destruct (C20_SemverProofs.valid_decodes ev Hev) as (b & Eb).
      destruct (Hcmp a b eq_refl eq_refl Ea Eb) as (Heq & Hlt).
      unfold prec_of in Ec. rewrite Ea, Eb in Ec. rewrite Ec.
      split; [discriminate|]. split; intros H; injection H as H.
      * apply Heq. apply C20_SemverProofs.prec_cmp_eq_iff. exact H.
      * apply Hlt. apply C20_SemverProofs.prec_cmp_lt_iff. exact H.
    + rewrite Ec. split; [intros _; apply Hver; reflexivity|]. split; discriminate.
    + rewrite Ec. split; [intros _; apply Hver; reflexivity|]. split; discriminate.
Qed.
Print Assumptions C20_gen_replace_rule.

(* ====================================================================== *)
(* 2. plugin names                                                        *)
(* ====================================================================== *)

(* strings.ContainsAny for any set of bytes, byte by byte *)
Lemma str_contains_any_spec chars s :
  str_contains_any chars s = existsb (fun c => contains_byte c s) (list_ascii_of_string chars).
Proof.
  induction s as [|a s IH].
  - cbn [str_contains_any contains_byte]. induction (list_ascii_of_string chars) as [|c l IHl]; [reflexivity|exact IHl].
  - cbn [str_contains_any]. rewrite IH. clear IH.
    induction chars as [|c chars IHc]; [reflexivity|].
    cbn [list_ascii_of_string existsb]. rewrite <- IHc. cbn [contains_byte]. rewrite (Ascii.eqb_sym a c).
    destruct (Ascii.eqb c a), (contains_byte c s), (contains_byte a chars); reflexivity.
Qed.

Theorem C20_gen_validatePluginName_equiv : forall n,
  GoLib.is_none (gen_plugin_validatePluginName n) = valid_name n.
Proof.
  intros n. unfold gen_plugin_validatePluginName, valid_name. rewrite str_contains_any_spec.
  match goal with |- context [list_ascii_of_string ?x] =>
    let cs := eval vm_compute in (list_ascii_of_string x) in change (list_ascii_of_string x) with cs end.
  cbn [existsb]. unfold Ascii.zero.
  destruct (String.eqb n ""), (String.eqb n "."), (String.eqb n ".."),
    (contains_byte "/"%char n), (contains_byte "\"%char n),
    (contains_byte (Ascii false false false false false false false false) n); reflexivity.
Qed.
Print Assumptions C20_gen_validatePluginName_equiv.

(* validatePluginName returns nil exactly for a single path component *)
Corollary C20_gen_validatePluginName_accepts_iff : forall n,
  gen_plugin_validatePluginName n = None <->
  n <> "" /\ n <> "." /\ n <> ".." /\
  contains_byte "/"%char n = false /\ contains_byte "\"%char n = false /\ contains_byte Ascii.zero n = false.
Proof.
  intros n. pose proof (C20_gen_validatePluginName_equiv n) as H. unfold valid_name in H.
  rewrite <- !String.eqb_neq. rewrite <- !negb_true_iff.
  destruct (gen_plugin_validatePluginName n) as [e|]; cbn [GoLib.is_none] in H.
  - split; [discriminate|]. intros (A & B & C & D & E & F). rewrite A, B, C, D, E, F in H. discriminate.
  - split; [|reflexivity]. intros _. symmetry in H. rewrite !andb_true_iff in H. tauto.
Qed.
Print Assumptions C20_gen_validatePluginName_accepts_iff.

(* the pair (name, error) of parsePluginName as its callers read it *)
Definition pn_abs (r : string * option err) : option string :=
  match snd r with None => Some (fst r) | Some _ => None end.

Theorem C20_gen_parsePluginName_equiv : forall f,
  pn_abs (gen_plugin_parsePluginName f) = pname_of f.
Proof.
  intros f. unfold gen_plugin_parsePluginName, pname_of, str_cut_prefix, bin_prefix.
  change (String.length "notation-") with 9%nat.
  destruct (has_prefix "notation-" f); cbv zeta; cbn [negb orb]; [|reflexivity].
  rewrite C20_gen_validatePluginName_equiv.
  destruct (valid_name (drop 9 f)); reflexivity.
Qed.
Print Assumptions C20_gen_parsePluginName_equiv.

Theorem C20_gen_binName_equiv : forall n, gen_plugin_binName n = bin_name n.
Proof. intros n. reflexivity. Qed.
Print Assumptions C20_gen_binName_equiv.

(* the name under which Get looks a plugin up is read back by parsePluginName as that plugin, and a
   file name parsePluginName accepts is binName of a valid plugin name ("listed, fetched and
   uninstalled by its name": the directory and the executable are functions of the name, both ways) *)
Corollary C20_gen_name_roundtrip : forall f n,
  pn_abs (gen_plugin_parsePluginName f) = Some n <->
  f = gen_plugin_binName n /\ gen_plugin_validatePluginName n = None.
Proof.
  intros f n. rewrite C20_gen_parsePluginName_equiv. split.
  - intros H. split; [exact (pname_of_bin f n H)|].
    pose proof (C20_gen_validatePluginName_equiv n) as E. rewrite (pname_of_valid f n H) in E.
    destruct (gen_plugin_validatePluginName n); [discriminate|reflexivity].
  - intros [-> Hv]. pose proof (C20_gen_validatePluginName_equiv n) as E. rewrite Hv in E.
    cbn [GoLib.is_none] in E. unfold gen_plugin_binName, pname_of, bin_prefix.
    assert (Hp : forall p s, has_prefix p (String.append p s) = true /\ drop (String.length p) (String.append p s) = s).
    { induction p as [|a p IH]; intros s; [split; reflexivity|].
      cbn [has_prefix String.append String.length drop]. rewrite Ascii.eqb_refl. apply IH. }
    destruct (Hp "notation-" n) as [H1 H2]. rewrite H1. cbv zeta.
    change 9%nat with (String.length "notation-"). rewrite H2, <- E. reflexivity.
Qed.
Print Assumptions C20_gen_name_roundtrip.

(* ====================================================================== *)
(* 3. plugin.validate                                                     *)
(* ====================================================================== *)

Lemma Contains_loop v l : gen_slices_Contains_string_loop1 v l = mem_str v l.
Proof.
  unfold mem_str. induction l as [|x l IH]; [reflexivity|].
  cbn [gen_slices_Contains_string_loop1 existsb]. destruct (String.eqb v x); [reflexivity|exact IH].
Qed.

Theorem C20_gen_Contains_equiv : forall l v, gen_slices_Contains_string l v = mem_str v l.
Proof. intros l v. apply Contains_loop. Qed.
Print Assumptions C20_gen_Contains_equiv.

(* the decoded GetMetadataResponse as the model's raw metadata *)
Definition rm_of (m : plugin_GetMetadataResponse) : rawmeta :=
  RM (GetMetadataResponse_Name m) (GetMetadataResponse_Description m) (GetMetadataResponse_Version m)
     (GetMetadataResponse_URL m) (GetMetadataResponse_SupportedContractVersions m)
     (GetMetadataResponse_Capabilities m).

Theorem C20_gen_validate_equiv : forall m,
  GoLib.is_none (gen_plugin_validate m) = validate (rm_of m).
Proof.
  intros m. unfold gen_plugin_validate, validate, contract_version.
  rewrite !list_len_zero, C20_gen_Contains_equiv. destruct m as [nm ds vr ur cv cp].
  cbn [rm_of rm_name rm_desc rm_ver rm_url rm_contracts rm_caps
       GetMetadataResponse_Name GetMetadataResponse_Description GetMetadataResponse_Version
       GetMetadataResponse_URL GetMetadataResponse_SupportedContractVersions GetMetadataResponse_Capabilities].
  destruct (String.eqb nm ""), (String.eqb ds ""), (String.eqb vr ""), (String.eqb ur "");
    try reflexivity.
  destruct cp as [|c cp]; [reflexivity|]. destruct cv as [|x cv]; [reflexivity|].
  destruct (mem_str "1.0" (x :: cv)); reflexivity.
Qed.
Print Assumptions C20_gen_validate_equiv.

(* transported C20_validate_spec *)
Corollary C20_gen_validate_accepts_iff : forall m,
  gen_plugin_validate m = None <->
  GetMetadataResponse_Name m <> "" /\ GetMetadataResponse_Description m <> "" /\
  GetMetadataResponse_Version m <> "" /\ GetMetadataResponse_URL m <> "" /\
  GetMetadataResponse_Capabilities m <> [] /\
  In contract_version (GetMetadataResponse_SupportedContractVersions m).
Proof.
  intros m. pose proof (C20_gen_validate_equiv m) as E.
  pose proof (validate_spec (rm_of m)) as S. cbn [rm_of rm_name rm_desc rm_ver rm_url rm_contracts rm_caps] in S.
  rewrite <- S, <- E. destruct (gen_plugin_validate m); cbn [GoLib.is_none]; split; try reflexivity; discriminate.
Qed.
Print Assumptions C20_gen_validate_accepts_iff.

(* the place of validate in the model of Install: what a file content that prints the metadata m
   counts as in the table the model works on (tbl_of / mres_of) is decided by the code's validate *)
Corollary C20_gen_validate_in_model : forall m,
  mres_of (RJson (rm_of m))
  = if GoLib.is_none (gen_plugin_validate m)
    then MOk (GetMetadataResponse_Name m) (GetMetadataResponse_Version m) else MMalformed.
Proof. intros m. rewrite C20_gen_validate_equiv. reflexivity. Qed.
Print Assumptions C20_gen_validate_in_model.
