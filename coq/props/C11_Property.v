(* C11 — Signing an OCI artifact signs exactly what was resolved and changes nothing else.
   Statements only; every proof is [exact <lemma of C11_Proofs>].
   [sign_oci false tbl st c] is one notation.SignOCI call (the code now) by a caller with
   options [c] against a repository whose Resolve is [tbl], in a state [st] = (heap of
   the Go map objects that exist, signatures the repository holds); it returns the next
   state and the trace of the call (result, returned descriptors, arguments the
   repository and the signer received, deep). Quantifiers: every resolve table, every
   heap (any sharing of map objects between repository, descriptors and options), every
   option record, every answer of signer and repository, every iteration order of the
   metadata map; histories of any length. *)
From NV Require Import Base Generated C11_Model C11_Proofs C11_Audit.

(* --- signed: exactly the resolved descriptor plus the caller's metadata, with the
   caller's sign options; the reference was resolved once, after ParseReference; a digest
   reference equals the resolved digest --- *)
Theorem C11_signed : forall tbl st c st' t,
  sign_oci false tbl st c = (st', t) -> reached_signer (t_res t) = true ->
  exists d sc,
    lookup_tbl (eff_ref c) tbl = Some d
    /\ t_resolves t = [eff_ref c] /\ t_signs t = [sc]
    /\ dd_mt (sc_desc sc) = d_mt d /\ dd_dg (sc_desc sc) = d_dg d
    /\ dd_sz (sc_desc sc) = d_sz d /\ dd_rest (sc_desc sc) = d_rest d
    /\ (forall k, lookup k (dd_ann (sc_desc sc))
                  = union_lookup (aread (d_ann d) (s_heap st)) (meta_of c (s_heap st)) k)
    /\ (forall k, In k (map fst (meta_of c (s_heap st))) ->
                  reserved k = false /\ lookup k (aread (d_ann d) (s_heap st)) = None)
    /\ (meta_of c (s_heap st) = [] -> dd_ref (sc_desc sc) = aref_m (d_ann d))
    /\ sc_mt sc = ci_mt c /\ sc_expiry sc = ci_expiry c /\ sc_agent sc = ci_agent c
    /\ sc_pcfg sc = opt_mref (ci_pcfg c)
    /\ (eff_ref c = d_dg d \/ ci_isdigest c = false)
    /\ valid_mt (ci_mt c) = true.
Proof. exact signed. Qed.
Print Assumptions C11_signed.

(* the signer is called exactly in the calls that end in one of the classes after it *)
Theorem C11_signer_called_iff : forall tbl st c st' t,
  sign_oci false tbl st c = (st', t) -> (t_signs t <> [] <-> reached_signer (t_res t) = true).
Proof. exact signer_iff. Qed.
Print Assumptions C11_signer_called_iff.

(* --- pushed: on success the repository receives the signer's signature with the
   requested media type, the subject is the resolved descriptor (same map object,
   annotations as before the call), the manifest annotations are the thumbprints of the
   chain, the signing time, and the signer's plugin annotations, nothing else; the
   returned descriptors are the resolved one and the repository's; the repository holds
   exactly one more signature --- *)
Theorem C11_pushed : forall tbl st c st' t,
  sign_oci false tbl st c = (st', t) -> wf_call (s_heap st) tbl c = true ->
  t_res t = ROk \/ t_res t = RRefDel ->
  exists d sig si tm pc dg,
    lookup_tbl (eff_ref c) tbl = Some d
    /\ ci_sign c = SOk sig (Some si) /\ si_time si = Some tm
    /\ (ci_push c = PushOK dg /\ t_res t = ROk \/ ci_push c = PushRefDel dg /\ t_res t = RRefDel)
    /\ t_pushes t = [pc]
    /\ pc_mt pc = ci_mt c /\ pc_sig pc = sig
    /\ pc_subject pc = deep (s_heap st) d
    /\ lookup k_thumb (pc_ann pc) = Some (json_strs (si_chain si))
    /\ lookup k_created (pc_ann pc) = Some (rfc3339 tm)
    /\ (forall k, k <> k_thumb -> k <> k_created ->
                  lookup k (pc_ann pc) = lookup k (plugin_content c (s_heap st)))
    /\ t_art t = Some (deep (s_heap st) d) /\ t_sigdg t = dg
    /\ s_stored st' = (s_stored st ++ [mk_stored (ci_mt c) sig (forget (deep (s_heap st) d)) (pc_ann pc)])%list.
Proof. exact pushed. Qed.
Print Assumptions C11_pushed.

(* --- refuses: a digest reference that resolves to another digest; metadata under the
   reserved prefix; metadata that would overwrite an annotation of the artifact. Refused =
   an error, nothing signed, nothing pushed, nothing returned, the state unchanged. --- *)
Theorem C11_refuses_digest : forall tbl st c st' t d,
  sign_oci false tbl st c = (st', t) ->
  lookup_tbl (eff_ref c) tbl = Some d -> eff_ref c <> d_dg d -> ci_isdigest c = true ->
  (st' = st /\ t_signs t = [] /\ t_pushes t = [] /\ t_art t = None /\ reached_signer (t_res t) = false)
  /\ (validate c = None -> ci_repo_nil c = false -> t_res t = EDigestMismatch).
Proof. exact refuses_digest. Qed.
Print Assumptions C11_refuses_digest.

Theorem C11_refuses_reserved : forall tbl st c st' t d k,
  sign_oci false tbl st c = (st', t) ->
  lookup_tbl (eff_ref c) tbl = Some d ->
  In k (map fst (meta_of c (s_heap st))) -> reserved k = true ->
  (st' = st /\ t_signs t = [] /\ t_pushes t = [] /\ t_art t = None /\ reached_signer (t_res t) = false)
  /\ (validate c = None -> ci_repo_nil c = false -> (eff_ref c = d_dg d \/ ci_isdigest c = false) ->
      t_res t = EMetaReserved \/ t_res t = EMetaPresent).
Proof. exact refuses_reserved. Qed.
Print Assumptions C11_refuses_reserved.

Theorem C11_refuses_overwrite : forall tbl st c st' t d k,
  sign_oci false tbl st c = (st', t) ->
  lookup_tbl (eff_ref c) tbl = Some d ->
  In k (map fst (meta_of c (s_heap st))) -> lookup k (aread (d_ann d) (s_heap st)) <> None ->
  (st' = st /\ t_signs t = [] /\ t_pushes t = [] /\ t_art t = None /\ reached_signer (t_res t) = false)
  /\ (validate c = None -> ci_repo_nil c = false -> (eff_ref c = d_dg d \/ ci_isdigest c = false) ->
      t_res t = EMetaReserved \/ t_res t = EMetaPresent).
Proof. exact refuses_overwrite. Qed.
Print Assumptions C11_refuses_overwrite.

(* every call that does not reach the signer is a refusal in that sense; an unresolvable
   reference is one *)
Theorem C11_refusal_is_quiet : forall tbl st c st' t,
  sign_oci false tbl st c = (st', t) -> reached_signer (t_res t) = false ->
  st' = st /\ t_signs t = [] /\ t_pushes t = [] /\ t_art t = None /\ reached_signer (t_res t) = false.
Proof. exact not_reached_refused. Qed.
Print Assumptions C11_refusal_is_quiet.

Theorem C11_refuses_unresolved : forall tbl st c st' t,
  sign_oci false tbl st c = (st', t) -> lookup_tbl (eff_ref c) tbl = None ->
  st' = st /\ t_signs t = [] /\ t_pushes t = [] /\ t_art t = None /\ reached_signer (t_res t) = false.
Proof. exact refuses_unresolved. Qed.
Print Assumptions C11_refuses_unresolved.

(* --- and it refuses nothing else: a call with valid arguments whose reference resolves,
   whose digest reference (if it is one) equals the resolved digest, and whose metadata
   keys are neither reserved nor annotations of the artifact reaches the signer, and ends
   as the signer, the signing time and the repository decide ([outcome]) --- *)
Theorem C11_accepts : forall tbl st c st' t d,
  sign_oci false tbl st c = (st', t) ->
  validate c = None -> ci_repo_nil c = false ->
  lookup_tbl (eff_ref c) tbl = Some d ->
  (eff_ref c = d_dg d \/ ci_isdigest c = false) ->
  nodup_str (map fst (meta_of c (s_heap st))) = true ->
  (forall k, In k (map fst (meta_of c (s_heap st))) ->
             reserved k = false /\ lookup k (aread (d_ann d) (s_heap st)) = None) ->
  t_res t = outcome c /\ reached_signer (t_res t) = true.
Proof. exact accepts. Qed.
Print Assumptions C11_accepts.

(* the reserved prefix is a prefix test with the constant of /repo *)
Theorem C11_reserved_is_prefix : forall k,
  reserved k = existsb (fun p => has_prefix p k) gen_reserved_annotation_prefixes.
Proof. exact reserved_is_prefix. Qed.
Print Assumptions C11_reserved_is_prefix.

(* --- frame: whatever the outcome, no map object other than the signer's own
   PluginAnnotations() map is changed (so: the repository's maps, the annotation maps of
   the descriptors handed in, the caller's UserMetadata and PluginConfig), no object is
   added or removed, and the repository holds the same signatures or, exactly when the
   call reports the push, exactly one more --- *)
Theorem C11_frame : forall tbl st c st' t,
  sign_oci false tbl st c = (st', t) ->
  map fst (s_heap st') = map fst (s_heap st)
  /\ (forall a, ci_pa c <> PAMap a -> hget a (s_heap st') = hget a (s_heap st))
  /\ ((forall a, ci_pa c <> PAMap a) -> s_heap st' = s_heap st)
  /\ (s_stored st' = s_stored st /\ t_res t <> ROk /\ t_res t <> RRefDel
      \/ exists x, s_stored st' = (s_stored st ++ [x])%list /\ (t_res t = ROk \/ t_res t = RRefDel)).
Proof. exact frame. Qed.
Print Assumptions C11_frame.

(* what the repository resolves, deep (fields, map object, map content), is unchanged *)
Theorem C11_frame_view : forall tbl st c st' t ref d,
  sign_oci false tbl st c = (st', t) ->
  lookup_tbl ref tbl = Some d ->
  (forall a, ci_pa c = PAMap a -> d_ann d <> AShared a) ->
  deep (s_heap st') d = deep (s_heap st) d.
Proof. exact frame_view. Qed.
Print Assumptions C11_frame_view.

Theorem C11_frame_options : forall tbl st c st' t,
  sign_oci false tbl st c = (st', t) -> wf_call (s_heap st) tbl c = true ->
  meta_of c (s_heap st') = meta_of c (s_heap st)
  /\ (forall a, ci_pcfg c = Some a -> (forall b, ci_pa c = PAMap b -> b <> a) ->
                hget a (s_heap st') = hget a (s_heap st)).
Proof. exact frame_options. Qed.
Print Assumptions C11_frame_options.

(* over a history of any length and any options *)
Theorem C11_history_frame : forall tbl probes cs st o a,
  In o (run_calls false tbl probes st cs) ->
  (forall c, In c cs -> ci_pa c <> PAMap a) ->
  hget a (co_heap o) = hget a (s_heap st).
Proof. exact history_frame. Qed.
Print Assumptions C11_history_frame.

(* the frame statement is false of the code before fix 14156eb ([sign_oci true]): the
   resolved descriptor's map receives the metadata and the second call is refused *)
Theorem C11_frame_inplace_refuted :
  exists tbl st c,
    let r1 := sign_oci true tbl st c in
    let r2 := sign_oci true tbl (fst r1) c in
    t_res (snd r1) = ROk
    /\ (exists a, ci_pa c <> PAMap a /\ hget a (s_heap (fst r1)) <> hget a (s_heap st))
    /\ t_res (snd r2) = EMetaPresent.
Proof. exact inplace_refuted. Qed.
Print Assumptions C11_frame_inplace_refuted.

(* --- repeat: if a call succeeds, then any number of consecutive calls with the same
   options (same map objects, same answers of signer and repository) all succeed, with
   the same arguments to signer and repository and the same returned descriptors (the
   whole trace), and the heap stays what it was after the first --- *)
Theorem C11_repeat : forall tbl probes st c n,
  wf_call (s_heap st) tbl c = true ->
  t_res (snd (sign_oci false tbl st c)) = ROk ->
  Forall (fun o => co_trace o = snd (sign_oci false tbl st c)
                   /\ co_heap o = s_heap (fst (sign_oci false tbl st c)))
         (run_calls false tbl probes st (repeat c n)).
Proof. exact repeat_ok. Qed.
Print Assumptions C11_repeat.

(* the boolean oracle evaluated on the implementation's observations is met by the model
   on every well-formed history *)
Theorem C11_model_meets_oracle : forall i, wf i = true -> spec_ok i (model i) = true.
Proof. exact model_spec_ok. Qed.
Print Assumptions C11_model_meets_oracle.

(* ---------- non-vacuity ---------- *)

(* a tag whose descriptor carries an annotation (heap object 0, the repository's own
   map), metadata {k: v} (heap object 1): signed twice *)
Example C11_example_twice :
  let st := mk_state rf_heap [] in
  let r1 := sign_oci false rf_tbl st rf_call in
  let r2 := sign_oci false rf_tbl (fst r1) rf_call in
  wf_call rf_heap rf_tbl rf_call = true
  /\ t_res (snd r1) = ROk /\ t_res (snd r2) = ROk
  /\ s_heap (fst r2) = rf_heap /\ List.length (s_stored (fst r2)) = 2%nat
  /\ map (fun sc => dd_ann (sc_desc sc)) (t_signs (snd r2)) = [[("org.example.extra", "1"); ("k", "v")]]
  /\ map pc_ann (t_pushes (snd r2))
     = [[(k_thumb, "[""ab""]"); (k_created, "1970-01-01T00:00:00Z")]].
Proof. vm_compute. repeat split. Qed.

Example C11_example_prefix :
  reserved "io.cncf.notary" = true /\ reserved "io.cncf.notary.x" = true
  /\ reserved "io.cncf.notar" = false /\ reserved "xio.cncf.notary" = false.
Proof. vm_compute. repeat split. Qed.

Example C11_example_time : rfc3339 1759082096 = "2025-09-28T17:54:56Z" /\ rfc3339 951782400 = "2000-02-29T00:00:00Z".
Proof. vm_compute. split; reflexivity. Qed.

(* each refusal happens: a digest reference that resolves to another digest, a reserved
   key, a key that is an annotation of the artifact (same value), an unresolvable
   reference; the refused call leaves the state as it was *)
Example C11_example_refuses :
  let st := mk_state au_heap [] in
  t_res (snd (sign_oci false au_tbl st (au_call "sha256:bb" true (Some 1%N) PANone))) = EDigestMismatch
  /\ t_res (snd (sign_oci false au_tbl st (au_call "v1" false (Some 3%N) PANone))) = EMetaReserved
  /\ t_res (snd (sign_oci false au_tbl st (au_call "v1" false (Some 4%N) PANone))) = EMetaPresent
  /\ t_res (snd (sign_oci false au_tbl st (au_call "v9" false (Some 1%N) PANone))) = EResolve
  /\ fst (sign_oci false au_tbl st (au_call "v1" false (Some 3%N) PANone)) = st.
Proof. exact witness_refuses. Qed.

(* the contract [wf_call] / [wf] with a signer that has plugin annotations (heap object 2)
   is satisfiable: pushed with thumbprints and time replaced and "p" kept; object 2 is
   the one object that changes *)
Example C11_example_plugin_annotations :
  let st := mk_state au_heap [] in
  let c := au_call "v1" false (Some 1%N) (PAMap 2%N) in
  let r := sign_oci false au_tbl st c in
  wf_call au_heap au_tbl c = true /\ wf (mk_input au_heap au_tbl [] [c; c]) = true
  /\ t_res (snd r) = ROk
  /\ map pc_ann (t_pushes (snd r))
     = [[(k_thumb, "[""ab"",""cd""]"); ("p", "q"); (k_created, "2025-09-28T17:54:56Z")]]
  /\ hget 2%N (s_heap (fst r)) <> hget 2%N au_heap
  /\ (forall a, In a [0; 1; 3; 4; 5]%N -> hget a (s_heap (fst r)) = hget a au_heap)
  /\ reached_signer (t_res (snd r)) = true
  /\ t_res (snd r) = outcome c.
Proof. exact witness_plugin_annotations. Qed.
