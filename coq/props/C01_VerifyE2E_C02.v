(* C01_VerifyE2E_C02.v — verifier.Verify END TO END, with the oracles of props/C01_VerifyE2E.v
   INSTANTIATED by the other generated functions:

     ps   := C02's GoLite translation of ( *verifier).processSignature   (theories/C02_Gen.v;
             C02_gen_processSignature_is_model: it IS the VerifyCore model)
     gatp := C08's GoLite translation of ( *OCIDocument).GetApplicableTrustPolicy (theories/C08_Gen.v;
             C08_gen_OCI_GetApplicableTrustPolicy_equiv: it IS C08's selection model)

   All three bodies (Verify, processSignature, GetApplicableTrustPolicy) are re-translated from /repo
   on every run. Each generated file has its own copy of the record types; the instantiation goes
   through field-by-field copies ([o12]/[o21] outcome, [v12] verifier, [sv12] level statement,
   [od18]/[op81] document / statement: theories/C01_VerifyE2E_Compose.v). Statements only.

     O : C02_GenSig.oracles   the calls that leave processSignature (verifyIntegrity, trust stores,
                              authenticity, identities, expiry, timestamp, revocation validator,
                              plugin manager / plugin, semver.Compare, processPluginResponse)
     call_of O v sig opts pol the call of processSignature Verify makes for the selected statement
     Describes O K F          C02's hypotheses: every oracle answers like the model of it (facts F)
     core_rejects O K F       s_integrity_ok = false \/ an enforced validation failed \/ a plugin or
                              attribute problem: the right-hand side of C02_exact_all on the scenario
     ppr_frame O              processPluginResponse leaves outcome.Error alone *)
From Coq Require Import List Bool String Ascii NArith ZArith.
From NV Require Import Base Regex Generated GoLib C01_Model C01_Gen C01_GenProofs C01_VerifyE2E C01_VerifyE2E_Compose.
From NV Require VerifyCore C02_Model C02_Gen C02_GenSig C08_Gen C08_GenProofs C01_VerifyE2E_PSErr.
Import ListNotations.
Local Open Scope string_scope.
Local Open Scope list_scope.

Notation UNM := (list Z -> envelope_Payload -> envelope_Payload * option GoLib.err).
Notation GATP := (ptr trustpolicy_OCIDocument -> string -> ptr trustpolicy_OCITrustPolicy * option GoLib.err).

(* a frame property of C02's generated processSignature that C02's theorem does not state: on
   every path of the generated term the outcome keeps the Error it was handed (the function never
   assigns outcome.Error), whatever the oracles answer *)
Theorem C01_e2e_processSignature_keeps_error : forall (O : C02_GenSig.oracles) (K : C02_GenSig.call O) out e,
  C01_VerifyE2E_PSErr.ppr_frame O -> C02_GenSig.run O K = Some (out, e) ->
  C02_Gen.VerificationOutcome_Error (C02_GenSig.or_C O) out
  = C02_Gen.VerificationOutcome_Error (C02_GenSig.or_C O) (C02_GenSig.cl_outcome K).
Proof. exact C01_VerifyE2E_PSErr.processSignature_error_unchanged. Qed.
Print Assumptions C01_e2e_processSignature_keeps_error.

(* (c) THE COMPOSITION. For the selected statement and a level other than skip: the generated
   Verify over the generated processSignature does not panic, and it REJECTS IF AND ONLY IF the
   VerifyCore model rejects (C02_exact_all) or a post-check fails (payload does not decode, the
   signed descriptor is not the presented one, a required metadata pair is not signed) *)
Theorem C01_e2e_C02_rejects_iff : forall (O : C02_GenSig.oracles) (unm : UNM) (gatp : GATP) v desc sig opts pol F,
  Selected (C02_GenSig.or_C O) (C02_GenSig.or_PM O) gatp v opts pol ->
  skip_test (level_ptr (OCITrustPolicy_SignatureVerification pol)) = false ->
  C02_GenSig.Describes O (call_of O v sig opts pol) F ->
  C01_VerifyE2E_PSErr.ppr_frame O ->
  exists po e,
    Verify (C02_GenSig.or_C O) (C02_GenSig.or_PM O) gatp (ps_c02 O) unm v desc sig opts = Some (po, e)
    /\ (e <> None <->
        core_rejects O (call_of O v sig opts pol) F
        \/ ~ PostChecksPass (C02_GenSig.or_C O) unm
               (fst (ps_answer (C02_GenSig.or_C O) (C02_GenSig.or_PM O) (ps_c02 O) v sig opts pol))
               desc (VerifierVerifyOptions_UserMetadata opts)).
Proof. exact compose_rejects_iff_exact. Qed.
Print Assumptions C01_e2e_C02_rejects_iff.

(* the same without the frame hypothesis on processPluginResponse: the Error field left by
   processSignature appears as a third reason *)
Theorem C01_e2e_C02_rejects_iff_general : forall (O : C02_GenSig.oracles) (unm : UNM) (gatp : GATP) v desc sig opts pol F,
  Selected (C02_GenSig.or_C O) (C02_GenSig.or_PM O) gatp v opts pol ->
  skip_test (level_ptr (OCITrustPolicy_SignatureVerification pol)) = false ->
  C02_GenSig.Describes O (call_of O v sig opts pol) F ->
  let r := ps_answer (C02_GenSig.or_C O) (C02_GenSig.or_PM O) (ps_c02 O) v sig opts pol in
  exists po e,
    Verify (C02_GenSig.or_C O) (C02_GenSig.or_PM O) gatp (ps_c02 O) unm v desc sig opts = Some (po, e)
    /\ (e <> None <->
        core_rejects O (call_of O v sig opts pol) F
        \/ VerificationOutcome_Error (C02_GenSig.or_C O) (fst r) <> None
        \/ ~ PostChecksPass (C02_GenSig.or_C O) unm (fst r) desc (VerifierVerifyOptions_UserMetadata opts)).
Proof. exact compose_rejects_iff. Qed.
Print Assumptions C01_e2e_C02_rejects_iff_general.

(* success of the composed entry point: VerifyCore accepts — the envelope is intact
   (s_integrity_ok), no enforced validation failed, no plugin or attribute problem —, the outcome
   handed back is processSignature's with the envelope content verifyIntegrity produced, and the
   post-checks pass: the payload decodes, the signed target is the presented descriptor (digest,
   size, media type), every required metadata pair is a signed annotation *)
Theorem C01_e2e_C02_success : forall (O : C02_GenSig.oracles) (unm : UNM) (gatp : GATP) v desc sig opts pol F po,
  Selected (C02_GenSig.or_C O) (C02_GenSig.or_PM O) gatp v opts pol ->
  skip_test (level_ptr (OCITrustPolicy_SignatureVerification pol)) = false ->
  C02_GenSig.Describes O (call_of O v sig opts pol) F ->
  Verify (C02_GenSig.or_C O) (C02_GenSig.or_PM O) gatp (ps_c02 O) unm v desc sig opts = Some (po, None) ->
  let r := ps_answer (C02_GenSig.or_C O) (C02_GenSig.or_PM O) (ps_c02 O) v sig opts pol in
  ~ core_rejects O (call_of O v sig opts pol) F
  /\ VerifyCore.s_integrity_ok (C02_GenSig.scenario_of O (call_of O v sig opts pol) F) = true
  /\ po = PNew (fst r)
  /\ (exists env, ptr_val (C02_GenSig.ft_envp F) = Some env
                  /\ ptr_val (VerificationOutcome_EnvelopeContent (C02_GenSig.or_C O) (fst r))
                     = Some (ec21 (C02_GenSig.or_C O) env))
  /\ PostChecksPass (C02_GenSig.or_C O) unm (fst r) desc (VerifierVerifyOptions_UserMetadata opts).
Proof. exact compose_success. Qed.
Print Assumptions C01_e2e_C02_success.

(* "intact" from the bottom. When the verifyIntegrity oracle of C02's processSignature answers, on
   the call Verify makes, what C01's generated verifyIntegrity answers (C01_e2e_verifyIntegrity_equiv),
   success of the composed Verify means the model's [Intact] on facts defined from notation-core-go's
   two entry points: ParseEnvelope succeeded, Envelope.Verify returned no error, and the payload's
   content type is application/vnd.cncf.notary.payload.v1+json *)
Theorem C01_e2e_C02_success_intact :
  forall (O : C02_GenSig.oracles) (unm : UNM) (SE : Type) (parse : string -> list Z -> SE * option GoLib.err)
         (everify : ptr (signature_EnvelopeContent (C02_GenSig.or_C O)) * option GoLib.err)
         (gatp : GATP) v desc sig opts pol F po envp irp decode,
  Selected (C02_GenSig.or_C O) (C02_GenSig.or_PM O) gatp v opts pol ->
  skip_test (level_ptr (OCITrustPolicy_SignatureVerification pol)) = false ->
  C02_GenSig.Describes O (call_of O v sig opts pol) F ->
  let o0 := out0 (C02_GenSig.or_C O) sig (level_ptr (OCITrustPolicy_SignatureVerification pol)) in
  let mt := VerifierVerifyOptions_SignatureMediaType opts in
  gen_verifier_verifyIntegrity SE parse (C02_GenSig.or_C O) everify sig mt o0 = Some (envp, irp) ->
  C02_GenSig.or_integrity O sig mt (PNew (o12 (C02_GenSig.or_C O) o0))
  = (ptr_map (ec12 (C02_GenSig.or_C O)) envp, ptr_map vr12 irp) ->
  Verify (C02_GenSig.or_C O) (C02_GenSig.or_PM O) gatp (ps_c02 O) unm v desc sig opts = Some (po, None) ->
  Intact (integrity_facts SE parse (C02_GenSig.or_C O) everify mt sig decode).
Proof. exact compose_success_intact. Qed.
Print Assumptions C01_e2e_C02_success_intact.

(* (a) with BOTH oracles instantiated (selection: C08's generated function; processSignature: C02's):
   the generated Verify never panics, provided the oracles of processSignature answer like their
   models for the call Verify makes *)
Theorem C01_e2e_C02_C08_never_panics : forall (O : C02_GenSig.oracles) (unm : UNM) v desc sig opts,
  (forall pol, Selected (C02_GenSig.or_C O) (C02_GenSig.or_PM O) gatp_c08 v opts pol ->
               skip_test (level_ptr (OCITrustPolicy_SignatureVerification pol)) = false ->
               exists F, C02_GenSig.Describes O (call_of O v sig opts pol) F) ->
  Verify (C02_GenSig.or_C O) (C02_GenSig.or_PM O) gatp_c08 (ps_c02 O) unm v desc sig opts <> None.
Proof. exact compose_never_panics. Qed.
Print Assumptions C01_e2e_C02_C08_never_panics.

(* the statement Verify works with, under C08's generated selection, is a NEW copy of a statement
   of the verifier's own document, equal to it field by field (override maps equal as maps) *)
Theorem C01_e2e_C08_selected_statement : forall (O : C02_GenSig.oracles) v opts pol,
  Selected (C02_GenSig.or_C O) (C02_GenSig.or_PM O) gatp_c08 v opts pol ->
  exists d c s, ptr_val (verifier_ociTrustPolicyDoc (C02_GenSig.or_C O) (C02_GenSig.or_PM O) v) = Some d
                /\ pol = op81 c /\ In s (OCIDocument_TrustPolicies d)
                /\ C08_GenProofs.stmt_same (C08_GenProofs.stmt_of_oci c) (C08_GenProofs.stmt_of_oci (op18 s)).
Proof. exact compose_selected_is_document_statement. Qed.
Print Assumptions C01_e2e_C08_selected_statement.

(* ---------- non-vacuity: all three generated functions, run together ---------- *)
(* C02's example oracles (an intact envelope, an expired signature under the permissive level,
   no revocation validator), a verifier whose document has one statement for every repository *)
Example C01_e2e_C02_example :
  (* C08's generated selection picks the statement *)
  Selected unit unit gatp_c08 y_v (y_opts [("k1", "v1")]) y_pol
  (* C02's hypotheses hold of the call Verify makes, and processPluginResponse keeps the frame *)
  /\ C02_GenSig.Describes C02_GenSig.ex_O (call_of C02_GenSig.ex_O y_v [] (y_opts [("k1", "v1")]) y_pol) C02_GenSig.ex_F
  /\ C01_VerifyE2E_PSErr.ppr_frame C02_GenSig.ex_O
  (* the composed entry point accepts, with the five results of processSignature in the outcome *)
  /\ (exists o, Verify unit unit gatp_c08 (ps_c02 C02_GenSig.ex_O) y_unm y_v y_desc [] (y_opts [("k1", "v1")])
                = Some (PNew o, None)
                /\ List.length (VerificationOutcome_VerificationResults unit o) = 5%nat)
  (* and rejects the same signature for a descriptor of another size: the mismatch *)
  /\ (exists po, Verify unit unit gatp_c08 (ps_c02 C02_GenSig.ex_O) y_unm y_v (set_Descriptor_Size 529 y_desc) []
                   (y_opts [("k1", "v1")]) = Some (po, Some mismatch_err)).
Proof. exact compose_example. Qed.
