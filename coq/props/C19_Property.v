(* C19 — Stored signatures round-trip byte-for-byte and stay with their artifact.
   Statements only; every proof is [exact <lemma of C19_Proofs>].
   Quantifiers: every history (any length, any number of subjects) of
   PushSignature calls, direct pushes of arbitrary contents through oras
   (foreign referrers, hostile manifests), listings and fetches, on an
   initially empty OCI layout; wf = no length is negative.
   [state_after ops] is the store after the history; its entries are the
   contents stored so far (descriptor pushed, content as encoding/json reads
   it, successors indexed). Digests, media types and annotation strings are
   numbers standing injectively for byte strings (C19_Model.v header). *)
From Coq Require Import Permutation.
From NV Require Import Base Generated C19_Model C19_Proofs C19_Audit.
Open Scope list_scope.
Open Scope N_scope.

(* C19_refines (listing): after any history, listing the signatures of q either
   is refused because a manifest referring to q exceeds the manifest cap, or
   yields exactly — each once — the stored manifests of media type image /
   artifact manifest that parse, whose subject equals q on media type, digest
   AND size, and whose artifact type (config media type, resp. artifactType) is
   the notation type, each with the annotations of the manifest. *)
Theorem C19_listing_exact : forall ops q, forallb wf_op ops = true ->
  let st := state_after ops in
  ((exists e, In e st /\ oversize_referrer q e) -> fst (list_sigs st q) = LErr 1) /\
  (~ (exists e, In e st /\ oversize_referrer q e) ->
     exists its, fst (list_sigs st q) = LOk its /\
       NoDup (map item_dg its) /\
       forall it, In it its <-> exists e, In e st /\ sig_manifest_of q e /\ it = item_of e).
Proof. exact listing_exact. Qed.
Print Assumptions C19_listing_exact.

(* ... and each listed manifest was put by an operation of the history: a
   PushSignature for exactly that subject, carrying the pushed annotations plus
   the creation time, or a direct push of a signature manifest of that subject
   (or, degenerate, an envelope pushed under a manifest media type that reads
   as a signature manifest of that subject). Nothing else is ever listed. *)
Theorem C19_listing_sound : forall ops q its lg it, forallb wf_op ops = true ->
  list_sigs (state_after ops) q = (LOk its, lg) -> In it its ->
  i_at it = MT_NOTATION /\
  exists o, In o ops /\
    match o with
    | OpPush p =>
        (p_subj p = q /\ i_d it = man_desc p /\
         ensure_created (p_ann p) (p_now p) (p_cvalid p) = Some (i_ann it)) \/
        (i_d it = blob_desc p /\ sig_manifest_of q (env_entry p))
    | OpRaw d c => i_d it = d /\ sig_manifest_of q (mk_entry d c) /\ i_ann it = m_ann (c_m c)
    | _ => False
    end.
Proof. exact listing_sound. Qed.
Print Assumptions C19_listing_sound.

(* every stored content stems from an operation of the history *)
Theorem C19_provenance : forall ops e, In e (state_after ops) -> exists o, In o ops /\ entry_of_op o e.
Proof. exact provenance. Qed.
Print Assumptions C19_provenance.

(* C19_refines (round trip): a PushSignature that reported success (on a
   manifest digest new to the store: the manifest embeds the digest of a new
   envelope) reports the descriptors of what was pushed; whatever happens
   afterwards, every successful listing of its subject contains its manifest
   with the pushed annotations (plus only the creation time), and fetching
   that manifest returns the pushed envelope: same digest (bytes), media type
   and size, having fetched the manifest and the blob only. *)
Theorem C19_push_listed_roundtrip : forall ops1 p ops2 st1' bd md a,
  forallb wf_op (ops1 ++ OpPush p :: ops2) = true ->
  push_sig (state_after ops1) p = (st1', RPush 0 bd md a) ->
  lookup_dg (state_after ops1) (p_mdg p) = None -> p_mdg p <> p_bdg p -> p_mdg p <> DG_EMPTY ->
  let st := state_after (ops1 ++ OpPush p :: ops2) in
  bd = blob_desc p /\ md = man_desc p /\
  (forall kv, In kv (p_ann p) -> In kv a) /\
  (forall kv, In kv a -> In kv (p_ann p) \/ kv = (K_CREATED, p_now p)) /\
  (forall its lg, list_sigs st (p_subj p) = (LOk its, lg) -> In (I md MT_NOTATION a) its) /\
  ((p_msz p <= capM)%Z -> (c_sz (p_bc p) <= capB)%Z ->
     fetch_sig st md = (FOk (p_bdg p) bd, [p_mdg p; p_bdg p])).
Proof. exact push_listed. Qed.
Print Assumptions C19_push_listed_roundtrip.

(* C19_isolation: a stored content without subject, or whose subject differs
   from q in ONE field (digest, size or media type), or of another artifact
   type, or stored under another media type (index, docker manifest, blob),
   is never in the listing of q. *)
Theorem C19_isolation : forall ops q its lg e, forallb wf_op ops = true ->
  list_sigs (state_after ops) q = (LOk its, lg) -> In e (state_after ops) ->
  ( m_subject (c_m (e_c e)) = None
    \/ (exists s, m_subject (c_m (e_c e)) = Some s /\
                  (d_dg s <> d_dg q \/ d_sz s <> d_sz q \/ d_mt s <> d_mt q))
    \/ atype_of (d_mt (e_d e)) (e_c e) <> MT_NOTATION
    \/ (d_mt (e_d e) <> MT_IMAGE /\ d_mt (e_d e) <> MT_ARTIFACT) ) ->
  ~ In (dg_of e) (map item_dg its).
Proof. exact isolation_cases. Qed.
Print Assumptions C19_isolation.

(* C19_refused (fetch), on ANY store: another media type or a declared manifest
   size above the cap is refused with nothing fetched; a manifest with a blob
   count other than one, or whose blob declares a size above the blob cap, is
   refused having fetched the manifest only. *)
Theorem C19_refused_fetch : forall st d,
  (is_sigmt (d_mt d) = false -> fetch_sig st d = (FErr 1, [])) /\
  (is_sigmt (d_mt d) = true -> (capM < d_sz d)%Z -> fetch_sig st d = (FErr 2, [])) /\
  (forall c, is_sigmt (d_mt d) = true -> (d_sz d <= capM)%Z -> fetch_all st d = Some c ->
     parsed (d_mt d) c = true -> List.length (blobs_of (d_mt d) c) <> 1%nat ->
     fetch_sig st d = (FErr 5, [d_dg d])) /\
  (forall c b, is_sigmt (d_mt d) = true -> (d_sz d <= capM)%Z -> fetch_all st d = Some c ->
     parsed (d_mt d) c = true -> blobs_of (d_mt d) c = [b] -> (capB < d_sz b)%Z ->
     fetch_sig st d = (FErr 6, [d_dg d])).
Proof.
  intros st d. split; [apply fetch_refused_mt|]. split; [apply fetch_refused_manifest_cap|].
  split; [intros c; apply fetch_refused_count|intros c b; apply fetch_refused_blob_cap].
Qed.
Print Assumptions C19_refused_fetch.

(* conversely a fetch succeeds only within the caps, on a manifest with exactly
   one blob, returning that blob's descriptor and the bytes stored under its
   digest with its size *)
Theorem C19_fetch_ok_only : forall st d blob bd lg, fetch_sig st d = (FOk blob bd, lg) ->
  is_sigmt (d_mt d) = true /\ (d_sz d <= capM)%Z /\
  exists c, fetch_all st d = Some c /\ parsed (d_mt d) c = true /\ blobs_of (d_mt d) c = [bd] /\
    (d_sz bd <= capB)%Z /\ blob = d_dg bd /\ lg = [d_dg d; d_dg bd] /\
    exists cb, fetch_all st bd = Some cb /\ c_sz cb = d_sz bd.
Proof. exact fetch_ok_inv. Qed.
Print Assumptions C19_fetch_ok_only.

(* C19_refused (listing), on ANY store: a referrer of manifest type above the
   manifest cap makes the listing fail, and a listing never fetches a content
   whose node exceeds the cap *)
Theorem C19_refused_list : forall st q n,
  In n (predecessors st q) -> is_sigmt (d_mt n) = true -> (capM < d_sz n)%Z ->
  (exists e, fst (list_sigs st q) = LErr e) /\
  (forall g, In g (snd (list_sigs st q)) ->
     exists m, In m (predecessors st q) /\ g = d_dg m /\ (d_sz m <= capM)%Z).
Proof. exact list_refused. Qed.
Print Assumptions C19_refused_list.

(* the iteration order of Predecessors (a Go map) is immaterial *)
Theorem C19_order_irrelevant : forall st q ns ns', Permutation ns ns' ->
  ((exists e, fst (list_loop st q ns) = LErr e) <-> (exists e, fst (list_loop st q ns') = LErr e)) /\
  (forall its, fst (list_loop st q ns) = LOk its ->
     exists its', fst (list_loop st q ns') = LOk its' /\ Permutation its its').
Proof. exact list_loop_perm. Qed.
Print Assumptions C19_order_irrelevant.

(* the caps are those of registry/repository.go (Generated.v, from /repo) *)
Theorem C19_caps : capM = 4194304%Z /\ capB = 33554432%Z.
Proof. exact caps_values. Qed.
Print Assumptions C19_caps.

(* the model satisfies the property oracle used on the implementation. Since the
   audit the oracle also judges "a signature whose push reported success is in
   every later successful listing of its subject" at full strength; that clause
   is false in the squat states (KNOWN finding, footprint 1: props/C19_Audit.v,
   C19_pushed_but_not_listed_refuted, C19_model_meets_oracle_refuted), so the
   statement carries the hypothesis that excludes exactly those:
   [no_squat_history ops] = for every PushSignature of the history that reported
   success, the digest of its manifest is neither the envelope's nor that of
   "{}", and any content the store already held under it is this very manifest
   stored as an image manifest. (Before the audit: the ledger oracle without
   hypothesis — still proved, C19_Proofs.model_meets_ledger.) *)
Theorem C19_model_meets_oracle : forall i, wf i = true -> no_squat_history (i_ops i) ->
  spec_ok i (model i) = true.
Proof. exact model_meets_oracle. Qed.
Print Assumptions C19_model_meets_oracle.

Theorem C19_model_meets_ledger_oracle : forall i, wf i = true -> orc [] (i_ops i) (model i) = true.
Proof. exact model_meets_ledger. Qed.
Print Assumptions C19_model_meets_ledger_oracle.

(* ---------- the hypotheses are satisfiable: a concrete history ----------
   subject S = D 1 10 400; two signatures pushed for S and one for the
   variant of S with size 401; a foreign referrer of S with another config
   type; a notation manifest whose subject is the size variant but whose
   layer is S; a hostile notation manifest of S with two layers. *)
Definition S : desc := D 1 10 400.
Definition S' : desc := D 1 10 401.
Definition ex_ops : list op :=
  [ OpPush (P 8 20 (CO 500) S [(5,6)] 2 true 21 700);
    OpPush (P 9 22 (CB 300) S' [] 2 true 23 650);
    OpRaw (D 1 30 600) (C 600 true true true (M (Some S) (D 12 1 2) [D 8 20 500] 13 [] [] [(7,8)]));
    OpRaw (D 1 31 610) (C 610 true true true (M (Some S') (D 6 1 2) [S] 0 [] [] []));
    OpRaw (D 1 32 620) (C 620 true true true (M (Some S) (D 6 1 2) [D 8 20 500; D 9 22 300] 0 [] [] []));
    OpPush (P 8 24 (CO 510) S [(1,9)] 2 true 25 710) ].

Example ex_wf : forallb wf_op ex_ops = true.
Proof. reflexivity. Qed.

Example ex_listing_S :
  fst (list_sigs (state_after ex_ops) S) =
  LOk [ I (D 1 25 710) 6 [(1,9)]; I (D 1 32 620) 6 []; I (D 1 21 700) 6 [(1,2); (5,6)] ].
Proof. vm_compute. reflexivity. Qed.

Example ex_listing_S' :
  fst (list_sigs (state_after ex_ops) S') = LOk [ I (D 1 31 610) 6 []; I (D 1 23 650) 6 [(1,2)] ].
Proof. vm_compute. reflexivity. Qed.

Example ex_fetch_pushed :
  fetch_sig (state_after ex_ops) (D 1 21 700) = (FOk 20 (D 8 20 500), [21; 20]).
Proof. vm_compute. reflexivity. Qed.

Example ex_fetch_two_layers : fetch_sig (state_after ex_ops) (D 1 32 620) = (FErr 5, [32]).
Proof. vm_compute. reflexivity. Qed.

Example ex_fetch_declared_too_large :
  fetch_sig (state_after ex_ops) (D 1 21 4194305) = (FErr 2, []).
Proof. vm_compute. reflexivity. Qed.

(* the hypotheses of C19_push_listed_roundtrip hold for the first push *)
Example ex_roundtrip_hyps :
  exists st1', push_sig (state_after []) (P 8 20 (CO 500) S [(5,6)] 2 true 21 700)
               = (st1', RPush 0 (D 8 20 500) (D 1 21 700) [(1,2); (5,6)]) /\
  lookup_dg (state_after []) 21 = None.
Proof. eexists. split; vm_compute; reflexivity. Qed.

(* the hypothesis of C19_model_meets_oracle holds for ex_ops (its pushes are fresh) *)
Example ex_no_squat_history : no_squat_history ex_ops.
Proof. apply fresh_no_squat_history. apply freshb_sound. vm_compute. reflexivity. Qed.

(* an oversized referrer refuses the listing of its subject *)
Example ex_oversize :
  fst (list_sigs (state_after (ex_ops ++ [OpRaw (D 1 40 4194305)
        (C 4194305 true true true (M (Some S) (D 6 1 2) [D 8 20 500] 0 [] [] []))])) S) = LErr 1.
Proof. vm_compute. reflexivity. Qed.
