(* C11 — the clause "so signing the same reference again with the same options succeeds
   again", without taking the repository's answer as an input, and under transient faults.
   Statements only; every proof is [exact <lemma of C11_RegistryProofs>].

   In props/C11_Property.v the answer of Repository.PushSignature is an input of a call
   ([ci_push]). Here the repository is the client of registry/repository.go over a
   content-addressed store (C11_Registry): [sign_oci_reg tbl st bl fc] is one
   notation.SignOCI call through ONE client object, [bl] = the blob contents the store
   holds, [fc] = the caller's options, the digest oras.PackManifest will compute, and the
   fault of the call: None, or Some (k, FBefore | FAfter) = the k-th operation the client
   issues on the store during the call (0 Resolve, 1 Push envelope, 2 Exists config,
   then Push config if absent, then Push manifest) fails once, before or after taking
   effect. It returns the next state, the next store content, the trace, and the store
   operations with how each ended. The client has no state of its own: nothing but
   [st] (heap of map objects, signatures held) and [bl] is threaded from call to call.
   Quantifiers: every table, heap, options, store content, fault position and kind;
   histories of any length. *)
From NV Require Import Base Generated C11_Model C11_Proofs C11_Registry C11_RegistryProofs.

(* --- a call without a fault whose envelope bytes the store does not hold yet IS the
   call of C11_Property with the repository answering OK: C11_signed, C11_pushed,
   C11_frame apply to it, every store operation ends well (but the Resolve of a
   reference that does not resolve), and PushSignature never fails by itself --- *)
Theorem C11_healthy_call_pushes : forall tbl st bl fc st' bl' t ops,
  fc_fault fc = None -> ~ In (sig_of (fc_call fc)) bl ->
  sign_oci_reg tbl st bl fc = (st', bl', t, ops) ->
  sign_oci false tbl st (set_push (fc_call fc) (PushOK (fc_dg fc))) = (st', t)
  /\ t_res t <> EPush
  /\ (forall o x, In (o, x) ops ->
        x = OOk \/ (o = OResolve /\ x = ONatural /\ lookup_tbl (eff_ref (fc_call fc)) tbl = None)).
Proof. exact reg_healthy. Qed.
Print Assumptions C11_healthy_call_pushes.

(* --- frame under any fault: no map object other than the signer's own
   PluginAnnotations() map changes, none is added or removed; the repository holds the
   same signatures, or exactly one more: the one of this call (its envelope bytes, on the
   subject and with the annotations PushSignature was handed), and that only if the call
   reports success or the manifest Push failed AFTER taking effect; the store gains at
   most the envelope bytes and the empty config and loses nothing --- *)
Theorem C11_fault_frame : forall tbl st bl fc st' bl' t ops,
  sign_oci_reg tbl st bl fc = (st', bl', t, ops) ->
  let c := fc_call fc in
  map fst (s_heap st') = map fst (s_heap st)
  /\ (forall a, ci_pa c <> PAMap a -> hget a (s_heap st') = hget a (s_heap st))
  /\ ((forall a, ci_pa c <> PAMap a) -> s_heap st' = s_heap st)
  /\ (s_stored st' = s_stored st /\ t_res t <> ROk
      \/ exists pc, t_pushes t = [pc] /\ pc_sig pc = sig_of c
           /\ s_stored st' = (s_stored st ++ [sto_of pc])%list
           /\ (t_res t = ROk \/ t_res t = EPush /\ In (OPushMan, OInjAfter) ops))
  /\ (forall x, In x bl -> In x bl')
  /\ (forall x, In x bl' -> x = sig_of c \/ x = cfg_bytes \/ In x bl).
Proof. exact reg_frame. Qed.
Print Assumptions C11_fault_frame.

(* --- a call during which a store operation did not end well fails (reference not
   resolved / push failed), returns nothing, and adds no signature unless it was the
   manifest Push failing after its effect; a push failure always shows as a failed store
   operation; the only operation that fails without an injected fault, besides an
   unresolvable reference, is the Push of envelope bytes the store already held --- *)
Theorem C11_failed_call_is_quiet : forall tbl st bl fc st' bl' t ops,
  sign_oci_reg tbl st bl fc = (st', bl', t, ops) ->
  (all_ok ops = false ->
     (t_res t = EResolve \/ t_res t = EPush) /\ t_art t = None /\ t_sigdg t = ""%string
     /\ (s_stored st' = s_stored st \/ In (OPushMan, OInjAfter) ops))
  /\ (t_res t = EPush -> all_ok ops = false)
  /\ (forall x, In (OPushBlob, x) ops -> x = ONatural -> In (sig_of (fc_call fc)) bl).
Proof. exact reg_failed. Qed.
Print Assumptions C11_failed_call_is_quiet.

(* --- signing again: take options [c] with which a call succeeds when the repository
   answers OK (hypothesis 2-3; C11_Audit.accepts says when). Let the FIRST call through the
   client run under ANY fault [f] (none, any operation, before or after its effect).
   Then any number of further calls with the same options (same map objects), the signer
   returning envelope bytes the store does not hold ([rest]: bytes and manifest digest of
   each), ALL succeed: each has the trace [t1] of the successful call but for the bytes
   and the digest, leaves the heap of the successful call, adds exactly its own
   signature ([expect_ok]), and every store operation ends well. --- *)
Theorem C11_sign_again_after_fault : forall tbl probes cands h sp bl c dg f rest st1 t1,
  wf_call h tbl c = true ->
  sign_oci false tbl (mk_state h sp) (set_push c (PushOK dg)) = (st1, t1) -> t_res t1 = ROk ->
  NoDup (map fst rest) ->
  (forall s, In s (map fst rest) -> s <> sig_of c /\ s <> cfg_bytes /\ ~ In s bl) ->
  exists o1 os,
    run_fcalls tbl probes cands (mk_state h sp) bl (mk_fcall c dg f :: later_calls c rest) = o1 :: os
    /\ map fo_co os = expect_ok tbl probes t1 (s_heap st1) (co_stored (fo_co o1)) rest
    /\ Forall (fun o => all_ok (fo_ops o) = true) os.
Proof. exact retry_after_fault. Qed.
Print Assumptions C11_sign_again_after_fault.

(* --- the hypothesis "bytes the store does not hold" cannot be dropped: with a signer
   that returns the same envelope bytes, the second call with the same options on the
   healthy store fails (EPush: the store refuses the second Push of the blob with
   ErrAlreadyExists and PushSignature returns that error), nothing else changes. Observed
   on the real code (harness family "signer repeats its envelope bytes"). --- *)
Theorem C11_repeat_same_bytes_refuted :
  exists tbl st c dg,
    wf_call (s_heap st) tbl c = true /\
    let '(st1, bl1, t1, ops1) := sign_oci_reg tbl st [] (mk_fcall c dg None) in
    let '(st2, bl2, t2, ops2) := sign_oci_reg tbl st1 bl1 (mk_fcall c dg None) in
    t_res t1 = ROk /\ all_ok ops1 = true
    /\ t_res t2 = EPush /\ ops2 = [(OResolve, OOk); (OPushBlob, ONatural)]
    /\ s_stored st2 = s_stored st1 /\ s_heap st2 = s_heap st.
Proof. exact same_bytes_refuted. Qed.
Print Assumptions C11_repeat_same_bytes_refuted.

(* the boolean oracle for histories with faults, evaluated by the harness on what the
   implementation did, is met by the model on every well-formed history *)
Theorem C11_fault_model_meets_oracle : forall i, fwf i = true -> fspec_ok i (fmodel i) = true.
Proof. exact fmodel_spec_ok. Qed.
Print Assumptions C11_fault_model_meets_oracle.

(* ---------- non-vacuity ---------- *)

(* empty store; the Exists of the config fails in the first call; two further calls with
   new envelope bytes: EPush, then OK twice, 0 / 1 / 2 signatures, heap untouched; the
   second call uploads the config, the third finds it *)
Example C11_example_fault_then_twice :
  let obs := run_fcalls rf_tbl [] [] (mk_state rf_heap []) [] rf_fault_history in
  wf_call rf_heap rf_tbl rf_call = true
  /\ map (fun o => t_res (co_trace (fo_co o))) obs = [EPush; ROk; ROk]
  /\ map (fun o => List.length (co_stored (fo_co o))) obs = [0; 1; 2]%nat
  /\ map (fun o => co_heap (fo_co o)) obs = [rf_heap; rf_heap; rf_heap]
  /\ map fo_ops obs
     = [[(OResolve, OOk); (OPushBlob, OOk); (OExistsCfg, OInjBefore)];
        [(OResolve, OOk); (OPushBlob, OOk); (OExistsCfg, OOk); (OPushCfg, OOk); (OPushMan, OOk)];
        [(OResolve, OOk); (OPushBlob, OOk); (OExistsCfg, OOk); (OPushMan, OOk)]].
Proof. exact fault_witness. Qed.

(* --- referrers tag-schema fallback (registry without the Referrers API, one long-lived
   registry, several SignOCI on one artifact): [rc_sig] = the envelope bytes the signer
   returned, [rc_old_index] = the subject's referrers index before the call,
   [rc_del_fails] = the manifest DELETE fails during the call. The oracle [rspec_call]
   run on every observed call says: unless the call failed otherwise, the signature
   manifest is attached to the resolved subject, layers[0] is fetchable with exactly the
   signer's bytes, and nothing but the superseded index left the store; the healthy
   client [rmodel_call] meets it on every history --- *)
Theorem C11_referrers_fallback_envelope : forall c o,
  rspec_call c o = true -> ro_outcome o <> RFailed ->
  ro_attached o = true /\ ro_envelope o = Some (rc_sig c)
  /\ (forall d, In d (ro_removed o) -> rc_old_index c = Some d).
Proof. exact rspec_envelope. Qed.
Print Assumptions C11_referrers_fallback_envelope.

Theorem C11_referrers_fallback_model_ok : forall cs,
  rspec_calls cs (map rmodel_call cs) = true.
Proof. exact rmodel_spec_ok. Qed.
Print Assumptions C11_referrers_fallback_model_ok.
