(* C04 — Identity pinning matches only the signing certificate's own subject.
   Statements only; every proof is [exact <lemma of C04_Proofs / C04_RoundTrip>].

   verify_identities ids chain  models verifier.verifyX509TrustedIdentities on the
   trusted identities [ids] of the statement and the Subject.String() values
   [chain] of the certificates of the envelope (leaf first);
   parse_distinguished_name models pkix.ParseDistinguishedName byte by byte
   (go-ldap ParseDN included); [within i m] = every attribute of i occurs in m
   with an equal value (presence required); [render d] writes an abstract DN
   (list of (type, value), values over all 256 bytes) with a free style per
   attribute: S or ST, spaces around type and value, ',' or ';', per-byte
   escaping.  Quantifiers: all identity lists, all chains, all strings. *)
From NV Require Import Base C04_DN C04_Model C04_RoundTrip C04_Proofs.
From Coq Require Import Permutation.
Open Scope string_scope.

(* without a wildcard the check passes exactly when the LEAF subject can be
   interpreted, every listed identity can be interpreted, and for at least one
   x509.subject identity every attribute occurs with an equal value in the
   leaf subject *)
Theorem C04_match : forall ids leaf rest, mem_str wildcard ids = false ->
  (verify_identities ids (leaf :: rest) = VPass <->
   exists m, parse_distinguished_name leaf = DOk m /\
             (forall id, In id ids -> interpretable id) /\
             exists id v i, In id ids /\ x509_value id = Some v /\
                            parse_distinguished_name v = DOk i /\ within i m).
Proof. exact match_iff. Qed.
Print Assumptions C04_match.

(* IsSubsetDN is the presence-requiring subset relation (after fix 03c6882) *)
Theorem C04_subset : forall a b, is_subset_dn a b = true <-> within a b.
Proof. exact is_subset_dn_spec. Qed.
Print Assumptions C04_subset.

(* what an interpretable name is: unique attribute types, alias S resolved to
   ST, C / ST / O present and non-empty, no "=#" *)
Theorem C04_accepted_names : forall s m, parse_distinguished_name s = DOk m ->
  keys_unique m = true /\ no_S m = true /\ forallb (fun f => nonempty_at f m) mandatory = true
  /\ has_eqhash (list_ascii_of_string s) = false.
Proof. exact parse_accepts. Qed.
Print Assumptions C04_accepted_names.

(* never on the strength of an intermediate's or root's subject: the result is
   a function of the first certificate only *)
Theorem C04_leaf_only : forall ids leaf rest1 rest2,
  verify_identities ids (leaf :: rest1) = verify_identities ids (leaf :: rest2).
Proof. exact leaf_only. Qed.
Print Assumptions C04_leaf_only.

Theorem C04_leaf_only_verify : forall late log ids leaf rest1 rest2,
  model (IVerify late log ids (leaf :: rest1)) = model (IVerify late log ids (leaf :: rest2)).
Proof. exact leaf_only_model. Qed.
Print Assumptions C04_leaf_only_verify.

(* round trip: every rendering of a well-formed abstract DN — any attribute
   order, S or ST, any unescaped spacing, either separator, any escaping of the
   value bytes — is interpreted as exactly its attributes *)
Theorem C04_roundtrip : forall d, styled_wf d = true ->
  exists m, parse_distinguished_name (render d) = DOk m /\ same_attrs m (map snd d).
Proof. exact roundtrip. Qed.
Print Assumptions C04_roundtrip.

(* hence the verdict on rendered identities and a rendered leaf subject is the
   abstract subset test, whatever the styles *)
Theorem C04_abstract_verdict : forall ds l rest,
  Forall (fun d => styled_wf d = true) ds -> styled_wf l = true ->
  verify_identities (map id_of ds) (render l :: rest) =
  match ds with
  | [] => VNoX509
  | _ :: _ => if existsb (fun d => subset_decl (map snd d) (map snd l)) ds then VPass else VNoMatch
  end.
Proof. exact abstract_verdict. Qed.
Print Assumptions C04_abstract_verdict.

(* and is independent of attribute order, spacing and the S/ST alias, both in
   the identities and in the leaf subject *)
Theorem C04_order_alias_space : forall ds1 ds2 l1 l2 rest1 rest2,
  Forall (fun d => styled_wf d = true) ds1 -> Forall (fun d => styled_wf d = true) ds2 ->
  styled_wf l1 = true -> styled_wf l2 = true ->
  Forall2 (fun a b => Permutation (map snd a) (map snd b)) ds1 ds2 ->
  Permutation (map snd l1) (map snd l2) ->
  verify_identities (map id_of ds1) (render l1 :: rest1) = verify_identities (map id_of ds2) (render l2 :: rest2).
Proof. exact verdict_invariant. Qed.
Print Assumptions C04_order_alias_space.

(* fail closed: a leaf subject that cannot be interpreted *)
Theorem C04_fail_closed_leaf : forall ids leaf rest e, mem_str wildcard ids = false ->
  parse_distinguished_name leaf = DErr e -> is_pass (verify_identities ids (leaf :: rest)) = false.
Proof. exact fail_closed_leaf. Qed.
Print Assumptions C04_fail_closed_leaf.

(* fail closed: any listed identity that cannot be interpreted (no separator,
   empty x509.subject value, x509.subject value that is not a valid DN) *)
Theorem C04_fail_closed_identity : forall ids id chain, mem_str wildcard ids = false ->
  In id ids -> identity_ok id = false -> is_pass (verify_identities ids chain) = false.
Proof. exact fail_closed_identity. Qed.
Print Assumptions C04_fail_closed_identity.

Theorem C04_identity_ok_spec : forall id, identity_ok id = true <-> interpretable id.
Proof. exact identity_ok_spec. Qed.
Print Assumptions C04_identity_ok_spec.

(* fail closed: a policy without any x509.subject identity *)
Theorem C04_fail_closed_no_x509 : forall ids chain, mem_str wildcard ids = false ->
  (forall id, In id ids -> x509_value id = None) -> is_pass (verify_identities ids chain) = false.
Proof. exact fail_closed_no_x509. Qed.
Print Assumptions C04_fail_closed_no_x509.

(* the wildcard accepts every subject (also one that cannot be interpreted) *)
Theorem C04_wildcard : forall ids chain, mem_str wildcard ids = true -> verify_identities ids chain = VPass.
Proof. exact wildcard_accepts. Qed.
Print Assumptions C04_wildcard.

Theorem C04_lone_wildcard_verify : forall late log chain,
  model (IVerify late log [wildcard] chain) = OVerify VPass false.
Proof. exact lone_wildcard_model. Qed.
Print Assumptions C04_lone_wildcard_verify.

(* the native check is skipped only when a verification plugin owns
   trusted-identity verification; then the plugin's answer decides *)
Theorem C04_plugin_guard_native : forall rev pok log ids chain,
  model (IPlugin false rev pok log ids chain) = model (IVerify false log ids chain).
Proof. exact plugin_guard_native. Qed.
Print Assumptions C04_plugin_guard_native.

Theorem C04_plugin_guard_owned : forall rev pok log ids chain, validate_ids ids = WOk ->
  model (IPlugin true rev pok log ids chain) =
  OVerify (if pok then VPass else VPluginFail) (negb log && negb pok).
Proof. exact plugin_guard_owned. Qed.
Print Assumptions C04_plugin_guard_owned.

(* at level strict a failed identity check rejects the signature *)
Theorem C04_strict_rejects : forall ids chain v rej,
  model (IVerify true false ids chain) = OVerify v rej -> rej = negb (is_pass v).
Proof. exact strict_rejects. Qed.
Print Assumptions C04_strict_rejects.

(* the boolean oracle evaluated on the implementation's observations is met by
   the model on every well-formed input *)
Theorem C04_model_meets_oracle : forall i, wf i = true -> spec_ok i (model i) = true.
Proof. exact model_spec_ok. Qed.
Print Assumptions C04_model_meets_oracle.

(* ---------- non-vacuity ---------- *)

Definition ex_leaf := "CN=alice,O=Notary,ST=WA,C=US".
Definition ex_root := "CN=root,O=Verif CA,ST=WA,C=US".

(* permuted subset with alias and spacing: pass; the root's subject pinned: no match *)
Example C04_example_pass :
  verify_identities ["x509.subject: C = US ; S=WA, O=Notary"] [ex_leaf; ex_root] = VPass.
Proof. vm_compute. reflexivity. Qed.

Example C04_example_ca_subject :
  verify_identities ["x509.subject:C=US,ST=WA,O=Verif CA,CN=root"] [ex_leaf; ex_root] = VNoMatch.
Proof. vm_compute. reflexivity. Qed.

(* superset, one-character near miss, empty value vs absent attribute (F10 after the fix) *)
Example C04_example_superset :
  verify_identities ["x509.subject:C=US,ST=WA,O=Notary,CN=alice,OU=dev"] [ex_leaf] = VNoMatch.
Proof. vm_compute. reflexivity. Qed.

Example C04_example_near_miss :
  verify_identities ["x509.subject:C=US,ST=WA,O=Notar"] [ex_leaf] = VNoMatch.
Proof. vm_compute. reflexivity. Qed.

Example C04_example_empty_vs_absent :
  verify_identities ["x509.subject:OU=,C=US,ST=WA,O=Notary"] [ex_leaf] = VNoMatch.
Proof. vm_compute. reflexivity. Qed.

(* the hypotheses of the round trip are satisfiable by a non-trivial styled DN *)
Example C04_example_styled :
  let d := [(mk_astyle true true 1 0 2 1 [0; 2]%N, ("ST", "W,A")); (style0, ("O", " x\")); (style0, ("C", "US"))] in
  styled_wf d = true /\ render d = " S=  W\2cA ;O=\ x\\,C=US"
  /\ parse_distinguished_name (render d) = DOk [("C", "US"); ("O", " x\"); ("ST", "W,A")].
Proof. vm_compute. repeat split; reflexivity. Qed.

Example C04_example_wf :
  wf (IVerify false false ["x509.subject:C=US,ST=WA,O=Notary"] [ex_leaf; ex_root]) = true
  /\ model (IVerify false false ["x509.subject:C=US,ST=WA,O=Notary"] [ex_leaf; ex_root]) = OVerify VPass false.
Proof. vm_compute. split; reflexivity. Qed.
