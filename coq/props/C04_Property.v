(* C04 — Identity pinning matches only the signing certificate's own subject.
   Statements only; every proof is [exact <lemma of C04_Proofs / C04_RoundTrip>].

   verify_identities ids chain  models verifier.verifyX509TrustedIdentities on the
   trusted identities [ids] of the statement and the Subject.String() values
   [chain] of the certificates of the envelope (leaf first);
   parse_distinguished_name models pkix.ParseDistinguishedName byte by byte
   (go-ldap ParseDN included); [within i m] = every attribute of i occurs in m
   with an equal value (presence required); [render d] writes an abstract DN
   (list of (type, value), values over all 256 bytes) with a free style per
   attribute: S or ST, spaces around type and value, ',' or ';', per-byte
   escaping.  Quantifiers: all identity lists, all chains, all strings.

   Added by the theorem audit (docs/audit/C04.md; proofs in C04_Audit.v), after the
   first block: [pinned_match ids leaf] abbreviates the right-hand side of C04_match;
   [x509_maps ids] = the interpretations of the x509.subject identities of a list
   (C04_x509_maps_spec); [written_attrs s] = the attributes of a name AS WRITTEN
   (what go-ldap's ParseDN returns, in order, alias S resolved); [last_value k atts]
   = the value of the last attribute of type k; [earlier_empty atts] = a type written
   several times has an empty value everywhere but at its last occurrence. *)
From NV Require Import Base C04_DN C04_Model C04_RoundTrip C04_Proofs C04_Audit.
From Coq Require Import Permutation.
Open Scope string_scope.

(* without a wildcard the check passes exactly when the LEAF subject can be
   interpreted, every listed identity can be interpreted, and for at least one
   x509.subject identity every attribute occurs with an equal value in the
   leaf subject *)
Theorem C04_match : forall ids leaf rest, mem_str wildcard ids = false ->
  (verify_identities ids (leaf :: rest) = VPass <->
   exists m, parse_distinguished_name leaf = DOk m /\
             (forall id, In id ids -> interpretable id) /\
             exists id v i, In id ids /\ x509_value id = Some v /\
                            parse_distinguished_name v = DOk i /\ within i m).
Proof. exact match_iff. Qed.
Print Assumptions C04_match.

(* IsSubsetDN is the presence-requiring subset relation (after fix 03c6882) *)
Theorem C04_subset : forall a b, is_subset_dn a b = true <-> within a b.
Proof. exact is_subset_dn_spec. Qed.
Print Assumptions C04_subset.

(* what an interpretable name is: unique attribute types, alias S resolved to
   ST, C / ST / O present and non-empty, no "=#" *)
Theorem C04_accepted_names : forall s m, parse_distinguished_name s = DOk m ->
  keys_unique m = true /\ no_S m = true /\ forallb (fun f => nonempty_at f m) mandatory = true
  /\ has_eqhash (list_ascii_of_string s) = false.
Proof. exact parse_accepts. Qed.
Print Assumptions C04_accepted_names.

(* never on the strength of an intermediate's or root's subject: the result is
   a function of the first certificate only *)
Theorem C04_leaf_only : forall ids leaf rest1 rest2,
  verify_identities ids (leaf :: rest1) = verify_identities ids (leaf :: rest2).
Proof. exact leaf_only. Qed.
Print Assumptions C04_leaf_only.

Theorem C04_leaf_only_verify : forall late log ids leaf rest1 rest2,
  model (IVerify late log ids (leaf :: rest1)) = model (IVerify late log ids (leaf :: rest2)).
Proof. exact leaf_only_model. Qed.
Print Assumptions C04_leaf_only_verify.

(* round trip: every rendering of a well-formed abstract DN — any attribute
   order, S or ST, any unescaped spacing, either separator, any escaping of the
   value bytes — is interpreted as exactly its attributes *)
Theorem C04_roundtrip : forall d, styled_wf d = true ->
  exists m, parse_distinguished_name (render d) = DOk m /\ same_attrs m (map snd d).
Proof. exact roundtrip. Qed.
Print Assumptions C04_roundtrip.

(* hence the verdict on rendered identities and a rendered leaf subject is the
   abstract subset test, whatever the styles *)
Theorem C04_abstract_verdict : forall ds l rest,
  Forall (fun d => styled_wf d = true) ds -> styled_wf l = true ->
  verify_identities (map id_of ds) (render l :: rest) =
  match ds with
  | [] => VNoX509
  | _ :: _ => if existsb (fun d => subset_decl (map snd d) (map snd l)) ds then VPass else VNoMatch
  end.
Proof. exact abstract_verdict. Qed.
Print Assumptions C04_abstract_verdict.

(* and is independent of attribute order, spacing and the S/ST alias, both in
   the identities and in the leaf subject *)
Theorem C04_order_alias_space : forall ds1 ds2 l1 l2 rest1 rest2,
  Forall (fun d => styled_wf d = true) ds1 -> Forall (fun d => styled_wf d = true) ds2 ->
  styled_wf l1 = true -> styled_wf l2 = true ->
  Forall2 (fun a b => Permutation (map snd a) (map snd b)) ds1 ds2 ->
  Permutation (map snd l1) (map snd l2) ->
  verify_identities (map id_of ds1) (render l1 :: rest1) = verify_identities (map id_of ds2) (render l2 :: rest2).
Proof. exact verdict_invariant. Qed.
Print Assumptions C04_order_alias_space.

(* fail closed: a leaf subject that cannot be interpreted *)
Theorem C04_fail_closed_leaf : forall ids leaf rest e, mem_str wildcard ids = false ->
  parse_distinguished_name leaf = DErr e -> is_pass (verify_identities ids (leaf :: rest)) = false.
Proof. exact fail_closed_leaf. Qed.
Print Assumptions C04_fail_closed_leaf.

(* fail closed: any listed identity that cannot be interpreted (no separator,
   empty x509.subject value, x509.subject value that is not a valid DN) *)
Theorem C04_fail_closed_identity : forall ids id chain, mem_str wildcard ids = false ->
  In id ids -> identity_ok id = false -> is_pass (verify_identities ids chain) = false.
Proof. exact fail_closed_identity. Qed.
Print Assumptions C04_fail_closed_identity.

Theorem C04_identity_ok_spec : forall id, identity_ok id = true <-> interpretable id.
Proof. exact identity_ok_spec. Qed.
Print Assumptions C04_identity_ok_spec.

(* fail closed: a policy without any x509.subject identity *)
Theorem C04_fail_closed_no_x509 : forall ids chain, mem_str wildcard ids = false ->
  (forall id, In id ids -> x509_value id = None) -> is_pass (verify_identities ids chain) = false.
Proof. exact fail_closed_no_x509. Qed.
Print Assumptions C04_fail_closed_no_x509.

(* the wildcard accepts every subject (also one that cannot be interpreted) *)
Theorem C04_wildcard : forall ids chain, mem_str wildcard ids = true -> verify_identities ids chain = VPass.
Proof. exact wildcard_accepts. Qed.
Print Assumptions C04_wildcard.

Theorem C04_lone_wildcard_verify : forall late log chain,
  model (IVerify late log [wildcard] chain) = OVerify VPass false.
Proof. exact lone_wildcard_model. Qed.
Print Assumptions C04_lone_wildcard_verify.

(* the native check is skipped only when a verification plugin owns
   trusted-identity verification; then the plugin's answer decides *)
Theorem C04_plugin_guard_native : forall rev pok log ids chain,
  model (IPlugin false rev pok log ids chain) = model (IVerify false log ids chain).
Proof. exact plugin_guard_native. Qed.
Print Assumptions C04_plugin_guard_native.

Theorem C04_plugin_guard_owned : forall rev pok log ids chain, validate_ids ids = WOk ->
  model (IPlugin true rev pok log ids chain) =
  OVerify (if pok then VPass else VPluginFail) (negb log && negb pok).
Proof. exact plugin_guard_owned. Qed.
Print Assumptions C04_plugin_guard_owned.

(* at level strict a failed identity check rejects the signature *)
Theorem C04_strict_rejects : forall ids chain v rej,
  model (IVerify true false ids chain) = OVerify v rej -> rej = negb (is_pass v).
Proof. exact strict_rejects. Qed.
Print Assumptions C04_strict_rejects.

(* the boolean oracle evaluated on the implementation's observations is met by
   the model on every well-formed input *)
Theorem C04_model_meets_oracle : forall i, wf i = true -> spec_ok i (model i) = true.
Proof. exact model_spec_ok. Qed.
Print Assumptions C04_model_meets_oracle.

(* ====================================================================== *)
(* added by the theorem audit                                              *)
(* ====================================================================== *)

(* --- the clause at the observation point: the authenticity result of Verify --- *)

(* Verify reports authenticity "passed" exactly when the policy was accepted by
   NewVerifier (or put into the document afterwards), the signature is not
   rejected, and either the wildcard is listed or: the leaf subject can be
   interpreted, every listed identity can be interpreted, and every attribute
   of some x509.subject identity occurs with an equal value in the leaf subject *)
Theorem C04_verify_pass_iff : forall late log ids leaf rest rej,
  model (IVerify late log ids (leaf :: rest)) = OVerify VPass rej <->
  (late = true \/ validate_ids ids = WOk) /\ rej = false /\
  (mem_str wildcard ids = true \/
   exists m, parse_distinguished_name leaf = DOk m /\
             (forall id, In id ids -> interpretable id) /\
             exists id v i, In id ids /\ x509_value id = Some v /\
                            parse_distinguished_name v = DOk i /\ within i m).
Proof. exact model_pass_iff. Qed.
Print Assumptions C04_verify_pass_iff.

(* the same with a verification plugin named by the signature: the plugin's
   answer replaces the native check iff it owns trusted-identity verification *)
Theorem C04_plugin_pass_iff : forall ti rv pok log ids leaf rest rej,
  model (IPlugin ti rv pok log ids (leaf :: rest)) = OVerify VPass rej <->
  validate_ids ids = WOk /\ rej = false /\
  (if ti then pok = true else (mem_str wildcard ids = true \/ pinned_match ids leaf)).
Proof. exact plugin_pass_iff. Qed.
Print Assumptions C04_plugin_pass_iff.

(* --- policies accepted by NewVerifier: "the LONE wildcard" --- *)

Theorem C04_validated_wildcard_lone : forall ids,
  validate_ids ids = WOk -> mem_str wildcard ids = true -> ids = [wildcard].
Proof. exact validated_wildcard_lone. Qed.
Print Assumptions C04_validated_wildcard_lone.

Theorem C04_validated_interpretable : forall ids, validate_ids ids = WOk ->
  ids <> [] /\ forall id, In id ids -> id = wildcard \/ (id <> "" /\ interpretable id).
Proof. exact validated_interpretable. Qed.
Print Assumptions C04_validated_interpretable.

(* the complete result (error class included) whenever every identity can be interpreted *)
Theorem C04_verdict_interpretable : forall ids leaf rest,
  (forall id, In id ids -> interpretable id) ->
  verify_identities ids (leaf :: rest) =
  match x509_maps ids with
  | [] => VNoX509
  | _ :: _ =>
      match parse_distinguished_name leaf with
      | DErr e => VBadLeaf e
      | DOk m => if existsb (fun i => is_subset_dn i m) (x509_maps ids) then VPass else VNoMatch
      end
  end.
Proof. exact verdict_interpretable. Qed.
Print Assumptions C04_verdict_interpretable.

(* under an accepted policy the identity check never ends in an identity error *)
Theorem C04_validated_verdict : forall ids leaf rest, validate_ids ids = WOk ->
  (ids = [wildcard] /\ verify_identities ids (leaf :: rest) = VPass) \/
  (mem_str wildcard ids = false /\ (forall id, In id ids -> interpretable id) /\
   verify_identities ids (leaf :: rest) =
   match x509_maps ids with
   | [] => VNoX509
   | _ :: _ =>
       match parse_distinguished_name leaf with
       | DErr e => VBadLeaf e
       | DOk m => if existsb (fun i => is_subset_dn i m) (x509_maps ids) then VPass else VNoMatch
       end
   end).
Proof. exact validated_verdict. Qed.
Print Assumptions C04_validated_verdict.

Theorem C04_x509_maps_spec : forall ids i, In i (x509_maps ids) <->
  exists id v, In id ids /\ x509_value id = Some v /\ parse_distinguished_name v = DOk i.
Proof. exact in_x509_maps. Qed.
Print Assumptions C04_x509_maps_spec.

(* --- independence of the text: the verdict is a function of the INTERPRETATIONS ---
   any two identity lists whose x509.subject identities have the same readings
   (in any order, with repetitions, with foreign-prefix identities anywhere) and
   any two leaf subjects with the same reading get the same result; together
   with C04_roundtrip this contains C04_order_alias_space, and it holds for
   every text, not only for the renderer's *)
Theorem C04_verdict_by_reading : forall ids1 ids2 leaf1 leaf2 rest1 rest2 m1 m2,
  (forall id, In id ids1 -> interpretable id) -> (forall id, In id ids2 -> interpretable id) ->
  (forall i, In i (x509_maps ids1) -> exists j, In j (x509_maps ids2) /\ same_attrs i j) ->
  (forall j, In j (x509_maps ids2) -> exists i, In i (x509_maps ids1) /\ same_attrs i j) ->
  parse_distinguished_name leaf1 = DOk m1 -> parse_distinguished_name leaf2 = DOk m2 ->
  same_attrs m1 m2 ->
  verify_identities ids1 (leaf1 :: rest1) = verify_identities ids2 (leaf2 :: rest2).
Proof. exact verdict_by_reading. Qed.
Print Assumptions C04_verdict_by_reading.

(* --- subsets pass; supersets, near misses and CA subjects do not (abstract DNs) ---
   the check passes iff ALL attributes of some identity are attributes of the
   leaf subject (not the other way round, not a part of a value) *)
Theorem C04_abstract_pass_iff : forall ds l rest,
  Forall (fun d => styled_wf d = true) ds -> styled_wf l = true ->
  (verify_identities (map id_of ds) (render l :: rest) = VPass <->
   exists d, In d ds /\ incl (map snd d) (map snd l)) /\
  (verify_identities (map id_of ds) (render l :: rest) = VNoMatch <->
   ds <> [] /\ forall d, In d ds -> ~ incl (map snd d) (map snd l)).
Proof. exact abstract_pass_iff. Qed.
Print Assumptions C04_abstract_pass_iff.

(* --- which names can be interpreted (pkix.ParseDistinguishedName on the RDNs
   go-ldap returns): exactly those without "=#", that go-ldap reads, without
   multi-valued RDN, whose repeated types are empty everywhere but at the last
   occurrence, and whose C, ST (or S), O have a non-empty last value --- *)
Theorem C04_parse_accepts_iff : forall s,
  (exists m, parse_distinguished_name s = DOk m) <->
  has_eqhash (list_ascii_of_string s) = false /\
  exists rdns, parse_dn s = POk rdns /\
    Forall (fun rdn => (List.length rdn <= 1)%nat) rdns /\
    earlier_empty (map canon_attr (List.concat rdns)) /\
    forall f, In f mandatory ->
      exists v, last_value f (map canon_attr (List.concat rdns)) = Some v /\ v <> "".
Proof. exact parse_accepts_iff. Qed.
Print Assumptions C04_parse_accepts_iff.

(* the interpretation maps every type to its last written value *)
Theorem C04_parse_result : forall s m atts, parse_distinguished_name s = DOk m ->
  written_attrs s = Some atts -> forall k, lookup k m = last_value k atts.
Proof. exact parse_result. Qed.
Print Assumptions C04_parse_result.

Theorem C04_multi_valued_rejected : forall s rdns, parse_dn s = POk rdns ->
  Exists (fun rdn => (1 < List.length rdn)%nat) rdns ->
  exists e, parse_distinguished_name s = DErr e.
Proof. exact multi_valued_rejected. Qed.
Print Assumptions C04_multi_valued_rejected.

Theorem C04_duplicate_rejected : forall s atts l1 k v l2, written_attrs s = Some atts ->
  atts = (l1 ++ (k, v) :: l2)%list -> In k (map fst l2) -> v <> "" ->
  exists e, parse_distinguished_name s = DErr e.
Proof. exact duplicate_rejected. Qed.
Print Assumptions C04_duplicate_rejected.

Theorem C04_mandatory_rejected : forall s atts f, written_attrs s = Some atts -> In f mandatory ->
  (last_value f atts = None \/ last_value f atts = Some "") ->
  exists e, parse_distinguished_name s = DErr e.
Proof. exact mandatory_rejected. Qed.
Print Assumptions C04_mandatory_rejected.

(* "no duplicates" (anchor: DN parsing rules) holds when no empty value is
   written, and is FALSE in general: "CN=,CN=alice,C=US,ST=WA,O=Notary" is
   accepted and read as CN=alice (pkix.go tests the stored VALUE against "",
   not the presence of the key) *)
Theorem C04_unique_types_partial : forall s m atts, parse_distinguished_name s = DOk m ->
  written_attrs s = Some atts -> (forall k v, In (k, v) atts -> v <> "") -> NoDup (map fst atts).
Proof. exact unique_types_partial. Qed.
Print Assumptions C04_unique_types_partial.

Theorem C04_unique_types_refuted : exists s m atts, parse_distinguished_name s = DOk m /\
  written_attrs s = Some atts /\ ~ NoDup (map fst atts).
Proof. exact unique_types_refuted. Qed.
Print Assumptions C04_unique_types_refuted.

(* --- "every attribute of that identity", read on the attributes AS WRITTEN ---
   if the check passes without wildcard then for some listed x509.subject
   identity every attribute written in it with a non-empty value is written in
   the leaf subject with the same value; for empty-valued attributes this is
   false (witness: the identity above against the subject CN=alice,...) *)
Theorem C04_match_written_partial : forall ids leaf rest, mem_str wildcard ids = false ->
  verify_identities ids (leaf :: rest) = VPass ->
  exists id v atts latts, In id ids /\ x509_value id = Some v /\
    written_attrs v = Some atts /\ written_attrs leaf = Some latts /\
    forall k val, In (k, val) atts -> val <> "" -> In (k, val) latts.
Proof. exact match_written_partial. Qed.
Print Assumptions C04_match_written_partial.

Theorem C04_match_written_refuted : exists ids leaf,
  mem_str wildcard ids = false /\ verify_identities ids [leaf] = VPass /\
  forall id v atts latts, In id ids -> x509_value id = Some v ->
    written_attrs v = Some atts -> written_attrs leaf = Some latts ->
    exists k val, In (k, val) atts /\ ~ In (k, val) latts.
Proof. exact match_written_refuted. Qed.
Print Assumptions C04_match_written_refuted.

(* --- the identity check never clears a trust-store failure: when the chain is
   not rooted in the trust stores of the statement, authenticity does not pass
   whatever the identities are (the lone wildcard included) --- *)
Theorem C04_untrusted_never_passes : forall log ids chain v rej,
  model (IUntrusted log ids chain) = OVerify v rej -> is_pass v = false /\ rej = negb log.
Proof. exact untrusted_never_passes. Qed.
Print Assumptions C04_untrusted_never_passes.

Theorem C04_untrusted_result : forall log ids chain, validate_ids ids = WOk ->
  model (IUntrusted log ids chain) =
  if log then OVerify (if is_pass (verify_identities ids chain) then VStoreFail
                       else verify_identities ids chain) false
  else OVerify VStoreFail true.
Proof. exact untrusted_result. Qed.
Print Assumptions C04_untrusted_result.

(* ---------- non-vacuity ---------- *)

Definition ex_leaf := "CN=alice,O=Notary,ST=WA,C=US".
Definition ex_root := "CN=root,O=Verif CA,ST=WA,C=US".

(* permuted subset with alias and spacing: pass; the root's subject pinned: no match *)
Example C04_example_pass :
  verify_identities ["x509.subject: C = US ; S=WA, O=Notary"] [ex_leaf; ex_root] = VPass.
Proof. vm_compute. reflexivity. Qed.

Example C04_example_ca_subject :
  verify_identities ["x509.subject:C=US,ST=WA,O=Verif CA,CN=root"] [ex_leaf; ex_root] = VNoMatch.
Proof. vm_compute. reflexivity. Qed.

(* superset, one-character near miss, empty value vs absent attribute (F10 after the fix) *)
Example C04_example_superset :
  verify_identities ["x509.subject:C=US,ST=WA,O=Notary,CN=alice,OU=dev"] [ex_leaf] = VNoMatch.
Proof. vm_compute. reflexivity. Qed.

Example C04_example_near_miss :
  verify_identities ["x509.subject:C=US,ST=WA,O=Notar"] [ex_leaf] = VNoMatch.
Proof. vm_compute. reflexivity. Qed.

Example C04_example_empty_vs_absent :
  verify_identities ["x509.subject:OU=,C=US,ST=WA,O=Notary"] [ex_leaf] = VNoMatch.
Proof. vm_compute. reflexivity. Qed.

(* the hypotheses of the round trip are satisfiable by a non-trivial styled DN *)
Example C04_example_styled :
  let d := [(mk_astyle true true 1 0 2 1 [0; 2]%N, ("ST", "W,A")); (style0, ("O", " x\")); (style0, ("C", "US"))] in
  styled_wf d = true /\ render d = " S=  W\2cA ;O=\ x\\,C=US"
  /\ parse_distinguished_name (render d) = DOk [("C", "US"); ("O", " x\"); ("ST", "W,A")].
Proof. vm_compute. repeat split; reflexivity. Qed.

Example C04_example_wf :
  wf (IVerify false false ["x509.subject:C=US,ST=WA,O=Notary"] [ex_leaf; ex_root]) = true
  /\ model (IVerify false false ["x509.subject:C=US,ST=WA,O=Notary"] [ex_leaf; ex_root]) = OVerify VPass false.
Proof. vm_compute. split; reflexivity. Qed.

(* ---------- non-vacuity of the hypotheses of the theorems above (audit) ---------- *)

Definition ex_id := "x509.subject:C=US,ST=WA,O=Notary".

(* C04_fail_closed_leaf: leaf subjects that cannot be interpreted (no C/ST/O;
   a multi-valued RDN, as crypto/x509 prints two OUs; an unknown OID "=#") *)
Example C04_example_bad_leaf :
  mem_str wildcard [ex_id] = false
  /\ parse_distinguished_name "CN=alice" = DErr (EMissing "C")
  /\ verify_identities [ex_id] ["CN=alice"; ex_root] = VBadLeaf (EMissing "C")
  /\ parse_distinguished_name "OU=a+OU=b,O=Notary,ST=WA,C=US" = DErr EMulti
  /\ verify_identities [ex_id] ["OU=a+OU=b,O=Notary,ST=WA,C=US"] = VBadLeaf EMulti
  /\ verify_identities [ex_id] ["1.2.3.4=#0c0141,O=Notary,ST=WA,C=US"] = VBadLeaf EHash.
Proof. vm_compute. repeat split; reflexivity. Qed.

(* C04_fail_closed_identity: one uninterpretable identity AFTER a matching one, at any position *)
Example C04_example_bad_identity :
  identity_ok "x509.subject:CN=foo" = false /\ identity_ok "garbage" = false /\ identity_ok "x509.subject:" = false
  /\ verify_identities [ex_id] [ex_leaf] = VPass
  /\ verify_identities [ex_id; "x509.subject:CN=foo"] [ex_leaf] = VBadIdentity (EMissing "C")
  /\ verify_identities ["garbage"; ex_id] [ex_leaf] = VNoSep
  /\ verify_identities [ex_id; "foo:bar"; "x509.subject:"] [ex_leaf] = VEmptyValue.
Proof. vm_compute. repeat split; reflexivity. Qed.

(* C04_fail_closed_no_x509: the empty list and a list of foreign identities *)
Example C04_example_no_x509 :
  (forall id, In id ["foo:bar"; "oidc.subject:https://issuer/alice"] -> x509_value id = None)
  /\ verify_identities ["foo:bar"; "oidc.subject:https://issuer/alice"] [ex_leaf] = VNoX509
  /\ verify_identities [] [ex_leaf] = VNoX509.
Proof.
  split; [|vm_compute; split; reflexivity]. intros id [<-|[<-|[]]]; reflexivity.
Qed.

(* C04_wildcard: also a subject that cannot be interpreted; a mixed list is not accepted by NewVerifier *)
Example C04_example_wildcard :
  verify_identities [wildcard] ["CN=alice"] = VPass
  /\ validate_ids [wildcard] = WOk
  /\ validate_ids [wildcard; ex_id] = WWildcardMixed
  /\ validate_ids [ex_id] = WOk
  /\ model (IVerify false false [ex_id; wildcard] [ex_leaf]) = OConstruct WWildcardMixed.
Proof. vm_compute. repeat split; reflexivity. Qed.

(* C04_strict_rejects / C04_verify_pass_iff: a rejected and an accepted signature *)
Example C04_example_strict :
  model (IVerify true false ["x509.subject:C=US,ST=WA,O=Nope"] [ex_leaf; ex_root]) = OVerify VNoMatch true
  /\ model (IVerify true true ["x509.subject:C=US,ST=WA,O=Nope"] [ex_leaf; ex_root]) = OVerify VNoMatch false
  /\ model (IVerify false false [ex_id] [ex_leaf; ex_root]) = OVerify VPass false.
Proof. vm_compute. repeat split; reflexivity. Qed.

(* C04_plugin_guard_owned / C04_plugin_pass_iff: the plugin's verdict decides, in both directions *)
Example C04_example_plugin :
  validate_ids [ex_id] = WOk
  /\ model (IPlugin true false false false [ex_id] [ex_leaf]) = OVerify VPluginFail true
  /\ model (IPlugin true true true false ["x509.subject:C=US,ST=WA,O=Nope"] [ex_leaf]) = OVerify VPass false
  /\ model (IPlugin false true true false ["x509.subject:C=US,ST=WA,O=Nope"] [ex_leaf]) = OVerify VNoMatch true.
Proof. vm_compute. repeat split; reflexivity. Qed.

(* C04_order_alias_space: two different styled writings of the same identity and of the same subject *)
Example C04_example_invariance :
  let i1 := [(style0, ("C", "US")); (style0, ("ST", "WA")); (style0, ("O", "Notary"))] in
  let i2 := [(mk_astyle false true 1 1 0 2 [], ("O", "Notary")); (mk_astyle true false 0 1 1 0 [3; 0]%N, ("ST", "WA")); (style0, ("C", "US"))] in
  let l1 := [(style0, ("CN", "alice")); (style0, ("O", "Notary")); (style0, ("ST", "WA")); (style0, ("C", "US"))] in
  let l2 := [(style0, ("C", "US")); (mk_astyle true true 0 0 0 0 [], ("ST", "WA")); (style0, ("O", "Notary")); (mk_astyle false false 2 0 0 1 [2]%N, ("CN", "alice"))] in
  styled_wf i1 = true /\ styled_wf i2 = true /\ styled_wf l1 = true /\ styled_wf l2 = true
  /\ Permutation (map snd i1) (map snd i2) /\ Permutation (map snd l1) (map snd l2)
  /\ id_of i1 = "x509.subject:C=US,ST=WA,O=Notary"
  /\ id_of i2 = "x509.subject: O =Notary  ;S = \57A,C=US"
  /\ render l2 = "C=US,S=WA;O=Notary,  CN=\61lice "
  /\ verify_identities [id_of i1] [render l1] = VPass /\ verify_identities [id_of i2] [render l2; ex_root] = VPass.
Proof.
  cbv zeta. repeat split; try (vm_compute; reflexivity).
  - cbn [map snd]. eapply perm_trans; [apply perm_swap|]. eapply perm_trans; [apply perm_skip; apply perm_swap|]. apply perm_swap.
  - cbn [map snd]. apply Permutation_rev' || idtac.
    change (Permutation [("CN", "alice"); ("O", "Notary"); ("ST", "WA"); ("C", "US")] (rev [("CN", "alice"); ("O", "Notary"); ("ST", "WA"); ("C", "US")])).
    apply Permutation_rev.
Qed.

(* C04_verdict_by_reading: lists of different length and order, a foreign identity in one of them *)
Example C04_example_by_reading :
  let ids1 := ["foo:bar"; "x509.subject: C = US ; S=WA, O=Notary"; "x509.subject:C=FR,ST=IDF,O=Autre"] in
  let ids2 := ["x509.subject:O=Autre,C=FR,ST=IDF"; "x509.subject:O=Notary,ST=WA,C=US"; "x509.subject:C=US,ST=WA,O=Notary"] in
  (forall id, In id ids1 -> interpretable id) /\ (forall id, In id ids2 -> interpretable id)
  /\ x509_maps ids1 = [[("O", "Notary"); ("ST", "WA"); ("C", "US")]; [("O", "Autre"); ("ST", "IDF"); ("C", "FR")]]
  /\ x509_maps ids2 = [[("ST", "IDF"); ("C", "FR"); ("O", "Autre")]; [("C", "US"); ("ST", "WA"); ("O", "Notary")]; [("O", "Notary"); ("ST", "WA"); ("C", "US")]]
  /\ verify_identities ids1 [ex_leaf] = VPass /\ verify_identities ids2 ["C=US;S=WA;O=Notary;CN=alice"; ex_root] = VPass.
Proof.
  cbv zeta. split; [|split].
  - intros id [<-|[<-|[<-|[]]]]; apply identity_ok_spec; vm_compute; reflexivity.
  - intros id [<-|[<-|[<-|[]]]]; apply identity_ok_spec; vm_compute; reflexivity.
  - vm_compute. repeat split; reflexivity.
Qed.

(* C04_abstract_pass_iff: a strict subset passes, a superset and a one-character near miss do not *)
Example C04_example_subset_superset :
  let l := [(style0, ("CN", "alice")); (style0, ("O", "Notary")); (style0, ("ST", "WA")); (style0, ("C", "US"))] in
  let sub := [(style0, ("C", "US")); (style0, ("O", "Notary")); (style0, ("ST", "WA"))] in
  let sup := [(style0, ("OU", "dev")); (style0, ("CN", "alice")); (style0, ("O", "Notary")); (style0, ("ST", "WA")); (style0, ("C", "US"))] in
  let near := [(style0, ("C", "US")); (style0, ("O", "Notar")); (style0, ("ST", "WA"))] in
  Forall (fun d => styled_wf d = true) [sub; sup; near] /\ styled_wf l = true
  /\ verify_identities [id_of sub] [render l] = VPass
  /\ verify_identities [id_of sup] [render l] = VNoMatch
  /\ verify_identities [id_of near] [render l] = VNoMatch
  /\ verify_identities [id_of sup; id_of near; id_of sub] [render l] = VPass.
Proof. cbv zeta. split; [repeat constructor|]. vm_compute. repeat split; reflexivity. Qed.

(* C04_parse_accepts_iff and the rejection theorems: written attributes of accepted and refused names *)
Example C04_example_written :
  written_attrs " S = WA ;C=US,O=a\,b" = Some [("ST", "WA"); ("C", "US"); ("O", "a,b")]
  /\ parse_distinguished_name " S = WA ;C=US,O=a\,b" = DOk [("O", "a,b"); ("C", "US"); ("ST", "WA")]
  /\ parse_dn "C=US+ST=WA,O=x" = POk [[("C", "US"); ("ST", "WA")]; [("O", "x")]]
  /\ parse_distinguished_name "C=US+ST=WA,O=x" = DErr EMulti
  /\ written_attrs "CN=a,CN=,C=US,ST=WA,O=x" = Some [("CN", "a"); ("CN", ""); ("C", "US"); ("ST", "WA"); ("O", "x")]
  /\ parse_distinguished_name "CN=a,CN=,C=US,ST=WA,O=x" = DErr (EDup "CN")
  /\ parse_distinguished_name "C=US,S=WA,ST=WA,O=x" = DErr (EDup "ST")
  /\ written_attrs "C=US,O=x" = Some [("C", "US"); ("O", "x")]
  /\ parse_distinguished_name "C=US,O=x" = DErr (EMissing "ST")
  /\ parse_distinguished_name "C=US,ST=,O=x" = DErr (EMissing "ST").
Proof. vm_compute. repeat split; reflexivity. Qed.

(* C04_untrusted_*: matching identity, wildcard and non-matching identity over an untrusted chain *)
Example C04_example_untrusted :
  model (IUntrusted true [ex_id] [ex_leaf; ex_root]) = OVerify VStoreFail false
  /\ model (IUntrusted true [wildcard] [ex_leaf; ex_root]) = OVerify VStoreFail false
  /\ model (IUntrusted true ["x509.subject:C=US,ST=WA,O=Nope"] [ex_leaf; ex_root]) = OVerify VNoMatch false
  /\ model (IUntrusted false [ex_id] [ex_leaf; ex_root]) = OVerify VStoreFail true.
Proof. vm_compute. repeat split; reflexivity. Qed.
