(* C09_Generated.v — the code's own functions, as translated by GoLite
   (theories/C09_Gen.v, regenerated from /repo by `vh-gen` on every run,
   docs/GOLITE.md; targets in harness/cmd/vh-gen/targets_c09.go), against the
   hand-written C09 model (C09_Model.v, C02_Levels.v, C04_DN.v), and the
   theorems of C09_Property.v transported onto them.
   Statements only; the proofs are in theories/C09_GenProofs.v (compiled by make,
   re-checked whenever C09_Gen.v changes). Table: docs/audit/C09.md, "GoLite".

   Every theorem quantifies over ALL inputs of the generated function. A Go map
   argument is an arbitrary association list (any order, shadowed bindings
   allowed); the generated code ranges over [map_entries m] (each key once, with
   its first binding), so the model is applied to [map_entries m] where it
   iterates a map.
   Reading (definitions in C09_GenProofs.v):
     errc_of e         which rule fired: the class of the error's format string by the
                       phrase table of the correspondence harness (class_table); a pure
                       wrapper "...: %w" has the class of what it wraps; None = EOk
     lerr_ok x e       the error value x is the model's level error e
     level_rel p n enf the returned pointer holds a level named n whose enforcement map
                       equals enf (as a map)
     sv_lvl / sv_ov    level name / override (as the map it denotes) of a generated
                       SignatureVerification; sigver_of, stmt_of_oci / stmt_of_blob,
                       doc_of_oci / doc_of_blob: the generated records as model records
     parse_agrees f    the oracle pkix.ParseDistinguishedName answers like its model
                       (C04_DN.parse_distinguished_name): the only hypothesis about an oracle
     gen_level_sound, gen_yields_integrity, gen_store_safe, gen_stmt_ok, ts_known
                       what an accepted statement guarantees, on the generated records *)
From Coq Require Import List Bool String Ascii NArith ZArith.
From NV Require Import Base Regex Generated GoLib C02_Levels C04_DN C09_Model C09_Spec C09_Gen C09_GenProofs.
Import ListNotations.
Local Open Scope string_scope.
Local Open Scope list_scope.

(* ---------- isValidTrustStoreType ---------- *)

Theorem C09_gen_store_types_pinned : truststore_Types = gen_store_types.
Proof. exact gp_store_types_pinned. Qed.
Print Assumptions C09_gen_store_types_pinned.

Theorem C09_gen_isValidTrustStoreType_equiv :
  forall s, gen_trustpolicy_isValidTrustStoreType s = mem_str s gen_store_types.
Proof. exact gp_isValidTrustStoreType_equiv. Qed.
Print Assumptions C09_gen_isValidTrustStoreType_equiv.

(* ---------- file.IsValidFileName ---------- *)

Theorem C09_gen_IsValidFileName_equiv :
  forall s, gen_file_IsValidFileName s = is_valid_file_name s.
Proof. exact gp_IsValidFileName_equiv. Qed.
Print Assumptions C09_gen_IsValidFileName_equiv.

(* ---------- validateTrustStore ---------- *)

Theorem C09_gen_validateTrustStore_equiv :
  forall name stores,
    errc_of (gen_trustpolicy_validateTrustStore name stores) = validate_trust_store stores.
Proof. exact gp_validateTrustStore_equiv. Qed.
Print Assumptions C09_gen_validateTrustStore_equiv.

(* ---------- pkix.IsSubsetDN ---------- *)

Theorem C09_gen_IsSubsetDN_equiv :
  forall dn1 dn2, gen_pkix_IsSubsetDN dn1 dn2 = is_subset_dn dn1 dn2.
Proof. exact gp_IsSubsetDN_equiv. Qed.
Print Assumptions C09_gen_IsSubsetDN_equiv.

(* ---------- validateOverlappingDNs ---------- *)

Theorem C09_gen_validateOverlappingDNs_equiv :
  forall name pds,
    gen_trustpolicy_validateOverlappingDNs name pds
    = if overlapping (map parsedDN_ParsedMap pds) then Some overlap_err else None.
Proof. exact gp_validateOverlappingDNs_equiv. Qed.
Print Assumptions C09_gen_validateOverlappingDNs_equiv.

(* ---------- slices.Contains ---------- *)

Theorem C09_gen_Contains_equiv :
  forall l v, gen_slices_Contains_string l v = mem_str v l.
Proof. exact gp_Contains_equiv. Qed.
Print Assumptions C09_gen_Contains_equiv.

(* ---------- validateTrustedIdentities (oracle: pkix.ParseDistinguishedName) ---------- *)

Theorem C09_gen_validateTrustedIdentities_equiv :
  forall parse, parse_agrees parse ->
  forall name ids,
    errc_of (gen_trustpolicy_validateTrustedIdentities parse name ids) = validate_trusted_identities ids.
Proof. exact gp_validateTrustedIdentities_equiv. Qed.
Print Assumptions C09_gen_validateTrustedIdentities_equiv.

(* ---------- GetVerificationLevel ---------- *)

(* the table of levels the generated code searches is the table of Generated.v *)
Theorem C09_gen_levels_pinned :
  map (fun p => match ptr_val p with
                | Some l => (VerificationLevel_Name l, VerificationLevel_Enforcement l)
                | None => ("", [])
                end) trustpolicy_VerificationLevels = gen_levels.
Proof. exact gp_levels_pinned. Qed.
Print Assumptions C09_gen_levels_pinned.

Theorem C09_gen_GetVerificationLevel_equiv :
  forall sv,
    match get_level (sv_lvl sv) (sv_ov sv) with
    | inl e => exists x, gen_trustpolicy_SignatureVerification_GetVerificationLevel sv = Some (PNil, Some x)
                         /\ lerr_ok x e
    | inr (name, enf) => exists p, gen_trustpolicy_SignatureVerification_GetVerificationLevel sv = Some (p, None)
                                   /\ level_rel p name enf
    end.
Proof. exact gp_GetVerificationLevel_equiv. Qed.
Print Assumptions C09_gen_GetVerificationLevel_equiv.

(* ---------- validatePolicyCore ---------- *)

Theorem C09_gen_validatePolicyCore_equiv :
  forall parse, parse_agrees parse ->
  forall name sv stores ids,
    exists r, gen_trustpolicy_validatePolicyCore parse name sv stores ids = Some r
              /\ errc_of r = validate_policy_core name (sigver_of sv) stores ids.
Proof. exact gp_validatePolicyCore_equiv. Qed.
Print Assumptions C09_gen_validatePolicyCore_equiv.

(* for an override with unique keys (the model's input contract [wf]: it is a Go
   map) the entries are the list itself *)
Corollary C09_gen_override_entries_unique :
  forall sv, unique_keys (SignatureVerification_Override sv) = true ->
    sv_ov sv = SignatureVerification_Override sv.
Proof. exact gp_override_entries_unique. Qed.
Print Assumptions C09_gen_override_entries_unique.

(* ---------- validateRegistryScopeFormat / validateRegistryScopes ---------- *)

Theorem C09_gen_validateRegistryScopeFormat_equiv :
  forall sc, errc_of (gen_trustpolicy_validateRegistryScopeFormat sc) = validate_scope_format sc.
Proof. exact gp_validateRegistryScopeFormat_equiv. Qed.
Print Assumptions C09_gen_validateRegistryScopeFormat_equiv.

Theorem C09_gen_validateRegistryScopes_equiv :
  forall d, errc_of (gen_trustpolicy_validateRegistryScopes d) = validate_registry_scopes (d_stmts (doc_of_oci d)).
Proof. exact gp_validateRegistryScopes_equiv. Qed.
Print Assumptions C09_gen_validateRegistryScopes_equiv.

(* ---------- OCIDocument.Validate / BlobDocument.Validate ---------- *)

Theorem C09_gen_OCIDocument_Validate_equiv :
  forall parse, parse_agrees parse ->
  forall p, exists r, gen_trustpolicy_OCIDocument_Validate parse p = Some r
                      /\ errc_of r = validate_ptr OCI (option_map doc_of_oci (ptr_val p)).
Proof. exact gp_OCIDocument_Validate_equiv. Qed.
Print Assumptions C09_gen_OCIDocument_Validate_equiv.

Theorem C09_gen_BlobDocument_Validate_equiv :
  forall parse, parse_agrees parse ->
  forall p, exists r, gen_trustpolicy_BlobDocument_Validate parse p = Some r
                      /\ errc_of r = validate_ptr Blob (option_map doc_of_blob (ptr_val p)).
Proof. exact gp_BlobDocument_Validate_equiv. Qed.
Print Assumptions C09_gen_BlobDocument_Validate_equiv.

(* ---------- the property, transported onto the code as translated ---------- *)

(* Validate returns nil exactly for a non-nil document that obeys every rule
   (C09_ptr_iff of props/C09_Property.v), now a statement about the generated
   functions. The document is read through doc_of_oci / doc_of_blob (override
   maps as the maps they denote). *)
Corollary C09_gen_OCIDocument_Validate_accepts_iff :
  forall parse, parse_agrees parse ->
  forall p, gen_trustpolicy_OCIDocument_Validate parse p = Some None
            <-> exists dv, ptr_val p = Some dv /\ WellFormed OCI (doc_of_oci dv).
Proof. exact gp_OCIDocument_Validate_accepts_iff. Qed.
Print Assumptions C09_gen_OCIDocument_Validate_accepts_iff.

Corollary C09_gen_BlobDocument_Validate_accepts_iff :
  forall parse, parse_agrees parse ->
  forall p, gen_trustpolicy_BlobDocument_Validate parse p = Some None
            <-> exists dv, ptr_val p = Some dv /\ WellFormed Blob (doc_of_blob dv).
Proof. exact gp_BlobDocument_Validate_accepts_iff. Qed.
Print Assumptions C09_gen_BlobDocument_Validate_accepts_iff.

(* ---------- the verifyTimestamp option check inside validatePolicyCore ----------
   for EVERY oracle (no hypothesis about the parser): a statement that passes has
   a known option; an unknown option on a named statement whose level is accepted
   is rejected with the verifyTimestamp error *)
Theorem C09_gen_validatePolicyCore_timestamp_accepted :
  forall parse name sv stores ids,
    gen_trustpolicy_validatePolicyCore parse name sv stores ids = Some None ->
    ts_known (SignatureVerification_VerifyTimestamp sv).
Proof. exact gp_validatePolicyCore_timestamp_accepted. Qed.
Print Assumptions C09_gen_validatePolicyCore_timestamp_accepted.

Theorem C09_gen_validatePolicyCore_timestamp_rejected :
  forall parse name sv stores ids p,
    name <> "" ->
    gen_trustpolicy_SignatureVerification_GetVerificationLevel sv = Some (p, None) ->
    ~ ts_known (SignatureVerification_VerifyTimestamp sv) ->
    exists e, gen_trustpolicy_validatePolicyCore parse name sv stores ids = Some (Some e)
              /\ errc_of (Some e) = ETimestamp.
Proof. exact gp_validatePolicyCore_timestamp_rejected. Qed.
Print Assumptions C09_gen_validatePolicyCore_timestamp_rejected.

(* ---------- GetVerificationLevel and the 24 enforcement maps of C02_Levels ----------
   whatever the generated function returns without error is the skip level (only
   without override) or a level that enforces integrity and is one of the 24 maps;
   and each of the 24 maps is returned for some statement *)
Theorem C09_gen_GetVerificationLevel_sound :
  forall sv p,
    gen_trustpolicy_SignatureVerification_GetVerificationLevel sv = Some (p, None) ->
    exists l, ptr_val p = Some l /\ gen_level_sound sv l.
Proof. exact gp_GetVerificationLevel_sound. Qed.
Print Assumptions C09_gen_GetVerificationLevel_sound.

Theorem C09_gen_GetVerificationLevel_all_24 :
  forall lv, In lv all_24 ->
    exists sv p l, gen_trustpolicy_SignatureVerification_GetVerificationLevel sv = Some (p, None)
                   /\ ptr_val p = Some l /\ In (sv_lvl sv) base_names
                   /\ level_of (VerificationLevel_Enforcement l) = lv.
Proof. exact gp_GetVerificationLevel_all_24. Qed.
Print Assumptions C09_gen_GetVerificationLevel_all_24.

(* ---------- accepted documents (C09_integrity, C09_names_safe on the generated code) ----------
   every statement of a document the generated Validate accepts: the generated
   GetVerificationLevel succeeds on it with a level that enforces integrity unless
   the statement is skip; its verifyTimestamp option is known; every trust store
   is type:name with a type of truststore.Types and a safe single path component *)
Theorem C09_gen_OCIDocument_accepted_statements :
  forall parse, parse_agrees parse ->
  forall p dv, ptr_val p = Some dv ->
    gen_trustpolicy_OCIDocument_Validate parse p = Some None ->
    Forall (fun s => gen_stmt_ok (OCITrustPolicy_SignatureVerification s) (OCITrustPolicy_TrustStores s))
           (OCIDocument_TrustPolicies dv).
Proof. exact gp_OCIDocument_accepted_statements. Qed.
Print Assumptions C09_gen_OCIDocument_accepted_statements.

Theorem C09_gen_BlobDocument_accepted_statements :
  forall parse, parse_agrees parse ->
  forall p dv, ptr_val p = Some dv ->
    gen_trustpolicy_BlobDocument_Validate parse p = Some None ->
    Forall (fun s => gen_stmt_ok (BlobTrustPolicy_SignatureVerification s) (BlobTrustPolicy_TrustStores s))
           (BlobDocument_TrustPolicies dv).
Proof. exact gp_BlobDocument_accepted_statements. Qed.
Print Assumptions C09_gen_BlobDocument_accepted_statements.

(* the document-level rules of blob.go: at most one global statement, and it is not skip *)
Theorem C09_gen_BlobDocument_accepted_global :
  forall parse, parse_agrees parse ->
  forall p dv, ptr_val p = Some dv ->
    gen_trustpolicy_BlobDocument_Validate parse p = Some None ->
    (forall i j s t, nth_error (BlobDocument_TrustPolicies dv) i = Some s ->
                     nth_error (BlobDocument_TrustPolicies dv) j = Some t ->
                     BlobTrustPolicy_GlobalPolicy s = true -> BlobTrustPolicy_GlobalPolicy t = true -> i = j)
    /\ Forall (fun s => BlobTrustPolicy_GlobalPolicy s = true ->
                        SignatureVerification_VerificationLevel (BlobTrustPolicy_SignatureVerification s) <> "skip")
              (BlobDocument_TrustPolicies dv).
Proof. exact gp_BlobDocument_accepted_global. Qed.
Print Assumptions C09_gen_BlobDocument_accepted_global.

(* ---------- the constructors ----------
   verifier.NewVerifierWithOptions is outside the GoLite subset (interface nil test,
   verifier/verifier.go:150); its model [new_verifier] (nil checks, then the two
   Validate calls: C09_forced) succeeds exactly when a document is given and the
   GENERATED Validate returns nil on every document given *)
Theorem C09_gen_constructor_glue :
  forall parse, parse_agrees parse ->
  forall po pb,
    new_verifier (option_map doc_of_oci (ptr_val po)) (option_map doc_of_blob (ptr_val pb)) = EOk
    <-> (ptr_val po <> None \/ ptr_val pb <> None)
        /\ (ptr_val po <> None -> gen_trustpolicy_OCIDocument_Validate parse po = Some None)
        /\ (ptr_val pb <> None -> gen_trustpolicy_BlobDocument_Validate parse pb = Some None).
Proof. exact gp_constructor_glue. Qed.
Print Assumptions C09_gen_constructor_glue.

(* ---------- non-vacuity: the oracle hypothesis is satisfiable ---------- *)

(* the model of ParseDistinguishedName, packaged as an oracle, satisfies [parse_agrees] *)
Example C09_gen_parse_agrees_satisfiable : parse_agrees model_parse.
Proof. exact model_parse_agrees. Qed.

(* the generated Validate on concrete documents: the example of C09_Property.v is
   accepted; a global skip statement (F1) and the nil document are rejected *)
Example C09_gen_examples :
  gen_trustpolicy_OCIDocument_Validate model_parse (PNew ex_gen_oci) = Some None
  /\ errc_of_opt (gen_trustpolicy_BlobDocument_Validate model_parse (PNew ex_gen_blob_global_skip)) = Some EGlobalSkip
  /\ errc_of_opt (gen_trustpolicy_OCIDocument_Validate model_parse PNil) = Some ENil.
Proof. exact gen_examples. Qed.
