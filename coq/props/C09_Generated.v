(* C09_Generated.v — equivalence of the GoLite translations (theories/C09_Gen.v,
   regenerated from /repo by `vh-gen` on every run, docs/GOLITE.md) with the
   hand-written C09 model (C09_Model.v, C02_Levels.v, C04_DN.v).

   Every theorem quantifies over ALL inputs of the generated function. A Go map
   argument is an arbitrary association list (any order, shadowed bindings
   allowed); the generated code ranges over [map_entries m] (each key once, with
   its first binding), so the model is applied to [map_entries m] where it
   iterates a map. Errors are compared through an abstraction to the model's
   verdict: which rule fired (by the format string of the error).            *)
From Coq Require Import List Bool String Ascii NArith ZArith Lia.
From NV Require Import Base Regex Generated GoLib C02_Levels C04_DN C09_Model C09_Spec C09_Proofs C09_Audit C09_Gen.
Import ListNotations.
Local Open Scope string_scope.
Local Open Scope list_scope.

(* ---------- the abstraction of errors: which rule fired ----------
   The table of the correspondence harness (harness/cmd/vh-c09, c09Classes):
   the first phrase that occurs decides. It is applied to the error's own
   format string; an error whose own format names no rule and that wraps
   exactly one error (fmt.Errorf("...: %w", err)) has the class of what it
   wraps. *)
Definition class_table : list (string * errc) :=
  [("trust policy document cannot be nil", ENil);
   ("has empty version", EVersionEmpty);
   ("uses unsupported version", EVersionUnsupported);
   ("can not have zero trust policy statements", ENoStatements);
   ("use the same name", EDupName);
   ("is missing a name", ENameEmpty);
   ("signature verification level is empty or missing", ELevelEmpty);
   ("invalid signature verification level", ELevelUnknown);
   ("can't be used to customize signature verification", ESkipCustom);
   ("in custom signature verification is not supported", EOverride);
   ("can not be overridden in custom signature verification", EOverride);
   ("can not be skipped in custom signature verification", EOverride);
   ("verifyTimestamp must be", ETimestamp);
   ("is set to skip signature verification but configured with", ESkipWithStores);
   ("is either missing trust stores or trusted identities", EMissingStoresOrIds);
   ("has malformed trust store value", EStoreMalformed);
   ("uses an unsupported trust store type", EStoreType);
   ("uses an unsupported trust store name", EStoreName);
   ("uses a wildcard trusted identity", EIdWildcardMixed);
   ("has an empty trusted identity", EIdEmpty);
   ("missing separator", EIdNoSep);
   ("without an identity value", EIdNoValue);
   ("with invalid identity value", EIdDN);
   ("has overlapping x509 trustedIdentities", EIdOverlap);
   ("has zero registry scopes", EScopesZero);
   ("uses wildcard registry scope", EScopeWildcardMixed);
   ("with wild card(s) is not valid", EScopeWildcardIn);
   ("is not valid, make sure it is a fully qualified repository", EScopeInvalid);
   ("is present in multiple oci trust policy statements", EScopeDup);
   ("have globalPolicy set to true", EGlobalMulti);
   ("global blob trust policy statement cannot have verification level set to skip", EGlobalSkip)].

Fixpoint classify (t : list (string * errc)) (msg : string) : errc :=
  match t with
  | [] => EOther
  | (p, c) :: t' => if str_contains p msg then c else classify t' msg
  end.

Fixpoint errc_of_err (e : err) : errc :=
  match e with
  | Err _ f w =>
      match classify class_table f with
      | EOther => match w with [x] => errc_of_err x | _ => EOther end
      | c => c
      end
  end.

Definition errc_of (e : option err) : errc :=
  match e with None => EOk | Some x => errc_of_err x end.

(* which error of GetVerificationLevel an error value is *)
Definition lerr_table : list (string * level_error) :=
  [("signature verification level is empty or missing", ErrEmptyLevel);
   ("invalid signature verification level", ErrUnknownLevel);
   ("can't be used to customize signature verification", ErrSkipCustom);
   ("verification type %q in custom signature verification is not supported", ErrUnknownType);
   ("verification action %q in custom signature verification is not supported", ErrUnknownAction);
   ("can not be overridden in custom signature verification", ErrIntegrityOverride);
   ("can not be skipped in custom signature verification", ErrSkipNotRevocation)].

Fixpoint lerr_classify (t : list (string * level_error)) (f : string) : option level_error :=
  match t with
  | [] => None
  | (p, c) :: t' => if str_contains p f then Some c else lerr_classify t' f
  end.

Definition lerr_of (e : err) : option level_error := lerr_classify lerr_table (err_fmt e).

(* x is the error value the model's level error e stands for (and its class) *)
Definition lerr_ok (x : err) (e : level_error) : Prop :=
  lerr_of x = Some e /\ errc_of_err x = level_errc e.

(* ---------- small tools ---------- *)

Ltac case_const c x :=
  let E := fresh "E" in
  destruct (String.eqb c x) eqn:E; [apply String.eqb_eq in E; subst x|].

(* decide the comparisons between closed strings *)
Ltac ground_eqb :=
  repeat match goal with
  | |- context [String.eqb ?a ?b] =>
      let v := eval vm_compute in (String.eqb a b) in
      match v with
      | true => change (String.eqb a b) with true
      | false => change (String.eqb a b) with false
      end
  end; cbn [negb orb andb].

Lemma eqb_sym_false a b : String.eqb a b = false -> String.eqb b a = false.
Proof. rewrite String.eqb_sym. auto. Qed.

Ltac use_neq :=
  repeat match goal with
  | H : String.eqb ?c ?x = false |- context [String.eqb ?x ?c] => rewrite (eqb_sym_false _ _ H)
  end; cbn [orb negb].

Lemma forallb_ext_in {A} (f g : A -> bool) l :
  (forall x, In x l -> f x = g x) -> forallb f l = forallb g l.
Proof.
  induction l as [|a l IH]; intros H; [reflexivity|]. cbn.
  rewrite (H a (or_introl eq_refl)), IH; [reflexivity|]. intros x Hx. apply H. right. exact Hx.
Qed.

Lemma map_set_rel (m : amap) enf k v :
  (forall x, map_get String.eqb x m = lookup x enf) ->
  forall x, map_get String.eqb x (map_set String.eqb k v m) = lookup x (set_key k v enf).
Proof.
  intros H x. unfold map_set, set_key. cbn [map_get lookup].
  destruct (String.eqb x k) eqn:E; [reflexivity|].
  rewrite (map_get_del_other String.eqb string_eqb_spec') by exact E. rewrite H.
  rewrite <- map_del_remove_key. rewrite <- (map_get_lookup x (map_del String.eqb k enf)).
  rewrite (map_get_del_other String.eqb string_eqb_spec') by exact E. apply map_get_lookup.
Qed.

(* ---------- isValidTrustStoreType ---------- *)

Theorem C09_gen_store_types_pinned : truststore_Types = gen_store_types.
Proof. reflexivity. Qed.
Print Assumptions C09_gen_store_types_pinned.

Lemma isValidTrustStoreType_loop s l :
  gen_trustpolicy_isValidTrustStoreType_loop1 s l = mem_str s l.
Proof.
  unfold mem_str. induction l as [|p l IH]; [reflexivity|].
  cbn. destruct (String.eqb s p); [reflexivity|exact IH].
Qed.

Theorem C09_gen_isValidTrustStoreType_equiv :
  forall s, gen_trustpolicy_isValidTrustStoreType s = mem_str s gen_store_types.
Proof.
  intros s. unfold gen_trustpolicy_isValidTrustStoreType.
  rewrite isValidTrustStoreType_loop, C09_gen_store_types_pinned. reflexivity.
Qed.
Print Assumptions C09_gen_isValidTrustStoreType_equiv.

(* ---------- file.IsValidFileName ---------- *)

Theorem C09_gen_IsValidFileName_equiv :
  forall s, gen_file_IsValidFileName s = is_valid_file_name s.
Proof. intros s. reflexivity. Qed.
Print Assumptions C09_gen_IsValidFileName_equiv.

(* ---------- validateTrustStore ---------- *)

Theorem C09_gen_validateTrustStore_equiv :
  forall name stores,
    errc_of (gen_trustpolicy_validateTrustStore name stores) = validate_trust_store stores.
Proof.
  intros name stores. unfold gen_trustpolicy_validateTrustStore.
  induction stores as [|st rest IH]; [reflexivity|].
  cbn [validate_trust_store gen_trustpolicy_validateTrustStore_loop1]. rewrite str_cut_byte.
  destruct (cut_byte ":" st) as [[ty nm]|]; [|vm_compute; reflexivity].
  cbn [negb]. rewrite C09_gen_isValidTrustStoreType_equiv.
  destruct (mem_str ty gen_store_types); cbn [negb]; [|vm_compute; reflexivity].
  rewrite C09_gen_IsValidFileName_equiv.
  destruct (is_valid_file_name nm); cbn [negb]; [|vm_compute; reflexivity].
  exact IH.
Qed.
Print Assumptions C09_gen_validateTrustStore_equiv.

(* ---------- pkix.IsSubsetDN ---------- *)

Theorem C09_gen_IsSubsetDN_equiv :
  forall dn1 dn2, gen_pkix_IsSubsetDN dn1 dn2 = is_subset_dn dn1 dn2.
Proof.
  intros a b. unfold gen_pkix_IsSubsetDN, is_subset_dn.
  transitivity (forallb (fun kv => match map_get String.eqb (fst kv) a, map_get String.eqb (fst kv) b with
                                   | Some v, Some v' => String.eqb v v' | _, _ => false end) (map_entries String.eqb a)).
  - assert (H : forall l, (forall k v, In (k, v) l -> map_get String.eqb k a = Some v) ->
        gen_pkix_IsSubsetDN_loop1 b l
        = forallb (fun kv => match map_get String.eqb (fst kv) a, map_get String.eqb (fst kv) b with
                             | Some v, Some v' => String.eqb v v' | _, _ => false end) l).
    { induction l as [|[k v] l IH]; intros Hin; [reflexivity|].
      cbn [forallb fst snd gen_pkix_IsSubsetDN_loop1]. rewrite (Hin k v (or_introl eq_refl)).
      unfold map_get_ok. destruct (map_get String.eqb k b) as [v'|]; cbn [negb orb andb].
      - destruct (String.eqb v v'); cbn [negb]; [|reflexivity].
        apply IH. intros k0 v0 H0. apply Hin. right. exact H0.
      - reflexivity. }
    apply H. intros k v Hin. eapply map_entries_in; [apply string_eqb_spec'|exact Hin].
  - rewrite (forallb_map_entries String.eqb string_eqb_spec'
               (fun k o => match o, map_get String.eqb k b with Some v, Some v' => String.eqb v v' | _, _ => false end) a).
    apply forallb_ext_in. intros kv _. rewrite !map_get_lookup. reflexivity.
Qed.
Print Assumptions C09_gen_IsSubsetDN_equiv.

(* ---------- validateOverlappingDNs ---------- *)

Definition overlap_err : err :=
  Err "fmt" "trust policy statement %q has overlapping x509 trustedIdentities, %q overlaps with %q" [].

Lemma overlapping_inner (K : unit -> option err) i dn1 l : forall j0,
  gen_trustpolicy_validateOverlappingDNs_loop2 K (Z.of_nat i) dn1 l (Z.of_nat j0)
  = if existsb (fun jb => negb (Nat.eqb i (fst jb)) && is_subset_dn (parsedDN_ParsedMap dn1) (snd jb))
         (combine (seq j0 (List.length l)) (map parsedDN_ParsedMap l))
    then Some overlap_err else K tt.
Proof.
  induction l as [|d l IH]; intros j0; [reflexivity|].
  cbn [List.length seq map combine existsb fst snd gen_trustpolicy_validateOverlappingDNs_loop2].
  rewrite C09_gen_IsSubsetDN_equiv.
  replace (Z.eqb (Z.of_nat i) (Z.of_nat j0)) with (Nat.eqb i j0).
  2:{ destruct (Nat.eqb_spec i j0) as [->|N]; [symmetry; apply Z.eqb_refl|].
      symmetry. apply Z.eqb_neq. lia. }
  destruct (negb (Nat.eqb i j0) && is_subset_dn (parsedDN_ParsedMap dn1) (parsedDN_ParsedMap d)); [reflexivity|].
  cbn [orb]. replace (Z.of_nat j0 + 1)%Z with (Z.of_nat (S j0)) by lia. apply IH.
Qed.

Lemma overlapping_outer pds l : forall i0,
  gen_trustpolicy_validateOverlappingDNs_loop1 pds l (Z.of_nat i0)
  = if existsb (fun ia => existsb (fun jb => negb (Nat.eqb (fst ia) (fst jb)) && is_subset_dn (snd ia) (snd jb))
                            (combine (seq 0 (List.length pds)) (map parsedDN_ParsedMap pds)))
         (combine (seq i0 (List.length l)) (map parsedDN_ParsedMap l))
    then Some overlap_err else None.
Proof.
  induction l as [|d l IH]; intros i0; [reflexivity|].
  cbn [List.length seq map combine existsb fst snd gen_trustpolicy_validateOverlappingDNs_loop1].
  change 0%Z with (Z.of_nat 0). rewrite overlapping_inner.
  match goal with |- (if ?c then _ else _) = _ => destruct c end; [reflexivity|].
  cbn [orb]. replace (Z.of_nat i0 + 1)%Z with (Z.of_nat (S i0)) by lia. apply IH.
Qed.

Theorem C09_gen_validateOverlappingDNs_equiv :
  forall name pds,
    gen_trustpolicy_validateOverlappingDNs name pds
    = if overlapping (map parsedDN_ParsedMap pds) then Some overlap_err else None.
Proof.
  intros name pds. unfold gen_trustpolicy_validateOverlappingDNs, overlapping, indexed.
  rewrite map_length. change 0%Z with (Z.of_nat 0). apply overlapping_outer.
Qed.
Print Assumptions C09_gen_validateOverlappingDNs_equiv.

(* ---------- slices.Contains ---------- *)

Theorem C09_gen_Contains_equiv :
  forall l v, gen_slices_Contains_string l v = mem_str v l.
Proof.
  intros l v. unfold gen_slices_Contains_string, mem_str.
  induction l as [|x l IH]; [reflexivity|]. cbn. destruct (String.eqb v x); [reflexivity|exact IH].
Qed.
Print Assumptions C09_gen_Contains_equiv.

(* ---------- validateTrustedIdentities (oracle: pkix.ParseDistinguishedName) ---------- *)

(* the oracle answers like the model of ParseDistinguishedName (C04_DN): the
   parsed map on success, some error otherwise *)
Definition parse_agrees (parse : string -> list (string * string) * option err) : Prop :=
  forall v, match parse_distinguished_name v with
            | DOk m => parse v = (m, None)
            | DErr _ => exists dn e, parse v = (dn, Some e)
            end.

Lemma ids_loop_spec parse (Hp : parse_agrees parse) name ids : forall acc,
  errc_of (gen_trustpolicy_validateTrustedIdentities_loop1 parse name ids acc)
  = match ids_loop ids with
    | inl e => e
    | inr dns => if overlapping (map parsedDN_ParsedMap acc ++ dns) then EIdOverlap else EOk
    end.
Proof.
  induction ids as [|id rest IH]; intros acc.
  - cbn [gen_trustpolicy_validateTrustedIdentities_loop1 ids_loop]. rewrite C09_gen_validateOverlappingDNs_equiv, app_nil_r.
    destruct (overlapping (map parsedDN_ParsedMap acc)); [vm_compute; reflexivity|reflexivity].
  - cbn [gen_trustpolicy_validateTrustedIdentities_loop1 ids_loop].
    destruct (String.eqb id "") eqn:E0; [vm_compute; reflexivity|].
    unfold wildcard, x509_subject. destruct (String.eqb id "*") eqn:E1; cbn [negb]; [apply IH|].
    rewrite str_cut_byte. destruct (cut_byte ":" id) as [[p v]|]; [|vm_compute; reflexivity].
    cbn [negb]. destruct (String.eqb p "x509.subject") eqn:E2; [|apply IH].
    destruct (String.eqb v "") eqn:E3; [vm_compute; reflexivity|].
    pose proof (Hp v) as Hv. destruct (parse_distinguished_name v) as [m|e].
    + rewrite Hv. cbn [is_none negb]. rewrite IH, map_app. cbn [map parsedDN_ParsedMap].
      destruct (ids_loop rest) as [e|dns]; [reflexivity|].
      rewrite <- app_assoc. reflexivity.
    + destruct Hv as [dn [e' Hv]]. rewrite Hv. cbn [is_none negb]. vm_compute. reflexivity.
Qed.

Theorem C09_gen_validateTrustedIdentities_equiv :
  forall parse, parse_agrees parse ->
  forall name ids,
    errc_of (gen_trustpolicy_validateTrustedIdentities parse name ids) = validate_trusted_identities ids.
Proof.
  intros parse Hp name ids. unfold gen_trustpolicy_validateTrustedIdentities, validate_trusted_identities.
  rewrite list_len_gt1, C09_gen_Contains_equiv. unfold wildcard.
  destruct (Nat.ltb 1 (List.length ids) && mem_str "*" ids); [vm_compute; reflexivity|].
  rewrite (ids_loop_spec parse Hp). cbn [map app]. reflexivity.
Qed.
Print Assumptions C09_gen_validateTrustedIdentities_equiv.

(* ---------- GetVerificationLevel ---------- *)

Definition sv_lvl := SignatureVerification_VerificationLevel.
(* the override as the map it denotes: every key once, first binding *)
Definition sv_ov (sv : trustpolicy_SignatureVerification) : amap :=
  map_entries String.eqb (SignatureVerification_Override sv).

(* a returned level against the model's (name, enforcement): equal as maps *)
Definition level_rel (p : ptr trustpolicy_VerificationLevel) (name : string) (enf : amap) : Prop :=
  exists l, ptr_val p = Some l /\ VerificationLevel_Name l = name
            /\ forall k, map_get String.eqb k (VerificationLevel_Enforcement l) = lookup k enf.

Lemma search_loop3 K value l : forall d,
  gen_trustpolicy_SignatureVerification_GetVerificationLevel_loop3 K value l d
  = K (if existsb (fun a => String.eqb a value) l then value else d).
Proof.
  induction l as [|a l IH]; intros d; [reflexivity|].
  cbn [gen_trustpolicy_SignatureVerification_GetVerificationLevel_loop3 existsb].
  destruct (String.eqb a value) eqn:E; [apply String.eqb_eq in E; subst a; reflexivity|]. apply IH.
Qed.

Lemma search_loop4 K key l : forall d,
  gen_trustpolicy_SignatureVerification_GetVerificationLevel_loop4 K key l d
  = K (if existsb (fun a => String.eqb a key) l then key else d).
Proof.
  induction l as [|a l IH]; intros d; [reflexivity|].
  cbn [gen_trustpolicy_SignatureVerification_GetVerificationLevel_loop4 existsb].
  destruct (String.eqb a key) eqn:E; [apply String.eqb_eq in E; subst a; reflexivity|]. apply IH.
Qed.

Definition copy_entry (c : trustpolicy_VerificationLevel) (kv : string * string) : trustpolicy_VerificationLevel :=
  set_VerificationLevel_Enforcement (map_set String.eqb (fst kv) (snd kv) (VerificationLevel_Enforcement c)) c.

Lemma copy_loop5 K l : forall c,
  gen_trustpolicy_SignatureVerification_GetVerificationLevel_loop5 K l c = K (fold_left copy_entry l c).
Proof. induction l as [|kv l IH]; intros c; [reflexivity|]. cbn. apply IH. Qed.

(* the override loop, for a custom level equal (as a map) to the model's enforcement *)
Lemma override_loop2 K : forall es c enf,
  VerificationLevel_Name c = "custom" ->
  (forall k, map_get String.eqb k (VerificationLevel_Enforcement c) = lookup k enf) ->
  match apply_overrides enf es with
  | inl e => exists x, gen_trustpolicy_SignatureVerification_GetVerificationLevel_loop2 K es c = Some (PNil, Some x)
                       /\ lerr_ok x e
  | inr enf' => exists c', gen_trustpolicy_SignatureVerification_GetVerificationLevel_loop2 K es c = K c'
                           /\ VerificationLevel_Name c' = "custom"
                           /\ forall k, map_get String.eqb k (VerificationLevel_Enforcement c') = lookup k enf'
  end.
Proof.
  induction es as [|[key value] es IH]; intros c enf Hn Hm.
  - cbn. eexists; split; [reflexivity|]. split; assumption.
  - cbn [apply_overrides apply_override gen_trustpolicy_SignatureVerification_GetVerificationLevel_loop2 fst snd].
    rewrite search_loop4.
    unfold mem_str; cbn [gen_validation_types gen_validation_actions trustpolicy_ValidationTypes trustpolicy_ValidationActions existsb].
    case_const "integrity" key; [|case_const "authenticity" key; [|case_const "authenticTimestamp" key; [|case_const "expiry" key; [|case_const "revocation" key]]]];
      ground_eqb.
    6:{ use_neq. eexists; split; [reflexivity|split; vm_compute; reflexivity]. }
    all: rewrite search_loop3; cbn [existsb trustpolicy_ValidationActions].
    all: (case_const "enforce" value; [|case_const "log" value; [|case_const "skip" value]]; ground_eqb).
    all: use_neq.
    all: try (eexists; split; [reflexivity|split; vm_compute; reflexivity]).
    all: match goal with |- context [apply_overrides (set_key ?k ?v ?enf) ?es] =>
           specialize (IH (set_VerificationLevel_Enforcement (map_set String.eqb k v (VerificationLevel_Enforcement c)) c)
                          (set_key k v enf) Hn (map_set_rel _ _ k v Hm));
           destruct (apply_overrides (set_key k v enf) es); exact IH
         end.
Qed.

(* the table of levels the generated code searches is the table of Generated.v *)
Theorem C09_gen_levels_pinned :
  map (fun p => match ptr_val p with
                | Some l => (VerificationLevel_Name l, VerificationLevel_Enforcement l)
                | None => ("", [])
                end) trustpolicy_VerificationLevels = gen_levels.
Proof. reflexivity. Qed.
Print Assumptions C09_gen_levels_pinned.

Theorem C09_gen_GetVerificationLevel_equiv :
  forall sv,
    match get_level (sv_lvl sv) (sv_ov sv) with
    | inl e => exists x, gen_trustpolicy_SignatureVerification_GetVerificationLevel sv = Some (PNil, Some x)
                         /\ lerr_ok x e
    | inr (name, enf) => exists p, gen_trustpolicy_SignatureVerification_GetVerificationLevel sv = Some (p, None)
                                   /\ level_rel p name enf
    end.
Proof.
  intros [lvl ov ts]. unfold gen_trustpolicy_SignatureVerification_GetVerificationLevel, sv_lvl, sv_ov, get_level.
  cbn [SignatureVerification_VerificationLevel SignatureVerification_Override].
  destruct (String.eqb lvl "") eqn:E0.
  { eexists; split; [reflexivity|split; vm_compute; reflexivity]. }
  set (sv := mk_SignatureVerification lvl ov ts).
  assert (H1 : gen_trustpolicy_SignatureVerification_GetVerificationLevel_loop1 sv trustpolicy_VerificationLevels PNil
               = gen_trustpolicy_SignatureVerification_GetVerificationLevel_loop1 sv []
                   (if String.eqb "skip" lvl then trustpolicy_LevelSkip
                    else if String.eqb "audit" lvl then trustpolicy_LevelAudit
                    else if String.eqb "permissive" lvl then trustpolicy_LevelPermissive
                    else if String.eqb "strict" lvl then trustpolicy_LevelStrict else PNil)).
  { unfold trustpolicy_VerificationLevels.
    cbn [gen_trustpolicy_SignatureVerification_GetVerificationLevel_loop1 trustpolicy_LevelStrict trustpolicy_LevelPermissive
         trustpolicy_LevelAudit trustpolicy_LevelSkip ptr_val trustpolicy_LevelStrict_v trustpolicy_LevelPermissive_v
         trustpolicy_LevelAudit_v trustpolicy_LevelSkip_v VerificationLevel_Name sv SignatureVerification_VerificationLevel].
    destruct (String.eqb "strict" lvl), (String.eqb "permissive" lvl), (String.eqb "audit" lvl), (String.eqb "skip" lvl); reflexivity. }
  rewrite H1. clear H1.
  cbn [gen_trustpolicy_SignatureVerification_GetVerificationLevel_loop1].
  unfold map_len. subst sv. cbn [SignatureVerification_Override].
  remember (map_entries String.eqb ov) as es eqn:Ees. clear Ees ov.
  (* the base level: five cases *)
  case_const "skip" lvl; [|case_const "audit" lvl; [|case_const "permissive" lvl; [|case_const "strict" lvl]]].
  5:{ assert (F : find_level lvl gen_levels = None).
      { cbn [find_level gen_levels]. rewrite E, E1, E2, E3. reflexivity. }
      rewrite F. cbn [ptr_val]. eexists; split; [reflexivity|split; vm_compute; reflexivity]. }
  all: cbn [find_level gen_levels]; ground_eqb.
  all: cbn [ptr_val trustpolicy_LevelSkip trustpolicy_LevelAudit trustpolicy_LevelPermissive trustpolicy_LevelStrict].
  all: destruct es as [|kv es'];
    [ cbn [List.length Z.of_nat Z.eqb]; eexists; split; [reflexivity|];
      eexists; split; [reflexivity|]; split; [reflexivity|]; intros k; apply map_get_lookup
    | replace (Z.of_nat (List.length (kv :: es')) =? 0)%Z with false
        by (symmetry; apply Z.eqb_neq; cbn [List.length]; lia) ].
  all: cbn [ptr_eqb_glob]; ground_eqb.
  { (* skip cannot be customised *)
    eexists; split; [reflexivity|split; vm_compute; reflexivity]. }
  all: rewrite copy_loop5.
  all: match goal with |- context [fold_left copy_entry ?l ?c] =>
         let v := eval vm_compute in (fold_left copy_entry l c) in change (fold_left copy_entry l c) with v
       end.
  all: match goal with |- context [apply_overrides ?base ?es] =>
         match goal with |- context [gen_trustpolicy_SignatureVerification_GetVerificationLevel_loop2 ?K es ?c] =>
           pose proof (override_loop2 K es c base eq_refl) as H8
         end
       end.
  all: match type of H8 with ?A -> _ =>
         assert (Hm : A) by (intros k; cbn [VerificationLevel_Enforcement map_get lookup];
           repeat match goal with |- context [String.eqb k ?s] =>
             let E := fresh "E" in
             destruct (String.eqb k s) eqn:E; [apply String.eqb_eq in E; subst k; ground_eqb; try reflexivity|]
           end; reflexivity);
         specialize (H8 Hm); clear Hm
       end.
  all: match goal with |- context [apply_overrides ?base ?es] => destruct (apply_overrides base es) as [e|enf'] end.
  all: try (destruct H8 as [x [Hx1 Hx2]]; exists x; split; assumption).
  all: destruct H8 as [c' [Hc1 [Hc2 Hc3]]]; eexists; split; [exact Hc1|];
       exists c'; split; [reflexivity|split; assumption].
Qed.
Print Assumptions C09_gen_GetVerificationLevel_equiv.

(* ---------- validatePolicyCore ---------- *)

Lemma classify_not_ok t : (forall p, ~ In (p, EOk) t) -> forall f, classify t f <> EOk.
Proof.
  induction t as [|[p c] t IH]; intros H f; cbn; [discriminate|].
  destruct (str_contains p f).
  - intros ->. apply (H p). left. reflexivity.
  - apply IH. intros q Hq. apply (H q). right. exact Hq.
Qed.

Lemma class_table_no_ok : forall p, ~ In (p, EOk) class_table.
Proof.
  intros p H. unfold class_table in H. cbn [In] in H.
  repeat (destruct H as [H|H]; [discriminate H|]). exact H.
Qed.

(* no error value is classified as "no error" *)
Fixpoint errc_of_err_not_ok (e : err) : errc_of_err e <> EOk.
Proof.
  destruct e as [t f w]. cbn [errc_of_err].
  pose proof (classify_not_ok class_table class_table_no_ok f) as Hc.
  destruct (classify class_table f); try discriminate; try (exfalso; apply Hc; reflexivity).
  destruct w as [|y [|z w']]; try discriminate. apply errc_of_err_not_ok.
Qed.

Lemma errc_of_some_not_ok x : errc_of (Some x) <> EOk.
Proof. apply errc_of_err_not_ok. Qed.

(* the model's statement record of a generated SignatureVerification *)
Definition sigver_of (sv : trustpolicy_SignatureVerification) : sigver :=
  mk_sv (sv_lvl sv) (sv_ov sv) (SignatureVerification_VerifyTimestamp sv).

Lemma is_empty_len {A} (l : list A) : (list_len l =? 0)%Z = is_empty l.
Proof. rewrite list_len_zero. destruct l; reflexivity. Qed.

Lemma not_empty_len {A} (l : list A) : (list_len l >? 0)%Z = negb (is_empty l).
Proof. rewrite list_len_pos. destruct l; reflexivity. Qed.

Theorem C09_gen_validatePolicyCore_equiv :
  forall parse, parse_agrees parse ->
  forall name sv stores ids,
    exists r, gen_trustpolicy_validatePolicyCore parse name sv stores ids = Some r
              /\ errc_of r = validate_policy_core name (sigver_of sv) stores ids.
Proof.
  intros parse Hp name sv stores ids.
  unfold gen_trustpolicy_validatePolicyCore, validate_policy_core, sigver_of.
  cbn [C09_Model.sv_level C09_Model.sv_override C09_Model.sv_ts].
  destruct (String.eqb name "") eqn:En.
  { eexists; split; [reflexivity|vm_compute; reflexivity]. }
  pose proof (C09_gen_GetVerificationLevel_equiv sv) as HL.
  destruct (get_level (sv_lvl sv) (sv_ov sv)) as [e|[lname enf]].
  - destruct HL as [x [Hx [_ Hc]]]. rewrite Hx. cbn [is_none negb olist].
    eexists; split; [reflexivity|]. cbn [errc_of errc_of_err].
    replace (classify class_table "trust policy statement %q has invalid signatureVerification: %w") with EOther
      by (vm_compute; reflexivity).
    exact Hc.
  - destruct HL as [p [Hx [l [Hp1 [Hp2 Hp3]]]]]. rewrite Hx. cbn [is_none negb].
    unfold ts_ok, gen_option_always, gen_option_after_cert_expiry.
    set (ts := SignatureVerification_VerifyTimestamp sv).
    assert (Hts : (negb (String.eqb ts "") && (negb (String.eqb ts "always") && negb (String.eqb ts "afterCertExpiry")))%bool
                  = negb (String.eqb ts "" || String.eqb ts "always" || String.eqb ts "afterCertExpiry")).
    { destruct (String.eqb ts ""), (String.eqb ts "always"), (String.eqb ts "afterCertExpiry"); reflexivity. }
    rewrite Hts. clear Hts.
    destruct (negb (String.eqb ts "" || String.eqb ts "always" || String.eqb ts "afterCertExpiry")).
    { eexists; split; [reflexivity|vm_compute; reflexivity]. }
    rewrite Hp1, Hp2.
    destruct (String.eqb lname "skip") eqn:Es.
    all: rewrite ?not_empty_len, ?is_empty_len.
    all: try (destruct (negb (is_empty stores) || negb (is_empty ids));
              [eexists; split; [reflexivity|vm_compute; reflexivity]|eexists; split; reflexivity]).
    all: destruct (is_empty stores || is_empty ids); [eexists; split; [reflexivity|vm_compute; reflexivity]|].
    all: pose proof (C09_gen_validateTrustStore_equiv name stores) as HS;
         pose proof (C09_gen_validateTrustedIdentities_equiv parse Hp name ids) as HI.
    all: destruct (gen_trustpolicy_validateTrustStore name stores) as [es|]; cbn [is_none negb];
         [ eexists; split; [reflexivity|]; rewrite <- HS; unfold andthen;
           pose proof (errc_of_some_not_ok es) as N; destruct (errc_of (Some es)); try reflexivity; exfalso; apply N; reflexivity
         | rewrite <- HS; cbn [errc_of andthen] ].
    all: destruct (gen_trustpolicy_validateTrustedIdentities parse name ids) as [ei|]; cbn [is_none negb];
         eexists; (split; [reflexivity|]); exact HI.
Qed.
Print Assumptions C09_gen_validatePolicyCore_equiv.

(* ---------- corollaries: the model's input contract ---------- *)

(* for an override with unique keys (the model's input contract [wf]: it is a Go
   map) the entries are the list itself *)
Corollary C09_gen_override_entries_unique :
  forall sv, unique_keys (SignatureVerification_Override sv) = true ->
    sv_ov sv = SignatureVerification_Override sv.
Proof.
  intros sv H. unfold sv_ov. apply (map_entries_unique String.eqb).
  revert H. induction (SignatureVerification_Override sv) as [|[k v] m IH]; cbn; [reflexivity|].
  rewrite !andb_true_iff. intros [H1 H2]. split; [exact H1|apply IH; exact H2].
Qed.
Print Assumptions C09_gen_override_entries_unique.

(* ====================================================================== *)
(* The two Validate methods                                                *)
(* ====================================================================== *)

(* ---------- validateRegistryScopeFormat ---------- *)

Theorem C09_gen_validateRegistryScopeFormat_equiv :
  forall sc, errc_of (gen_trustpolicy_validateRegistryScopeFormat sc) = validate_scope_format sc.
Proof.
  intros sc. unfold gen_trustpolicy_validateRegistryScopeFormat, validate_scope_format.
  cbv zeta. rewrite str_len_gt1. change "*" with (String "*"%char EmptyString) at 1.
  rewrite str_contains_byte.
  destruct (Nat.ltb 1 (String.length sc) && contains_byte "*" sc); [vm_compute; reflexivity|].
  change "/" with (String "/"%char EmptyString) at 1. rewrite str_cut_byte.
  destruct (cut_byte "/" sc) as [[d r]|]; [|vm_compute; reflexivity].
  cbn [negb]. unfold re_match.
  change (matches _ d) with (matches gen_re_domain d).
  change (matches _ r) with (matches gen_re_repository r).
  destruct (String.eqb d "" || (String.eqb r "" || (negb (matches gen_re_domain d) || negb (matches gen_re_repository r)))) eqn:E.
  - replace (String.eqb d "" || String.eqb r "" || negb (matches gen_re_domain d) || negb (matches gen_re_repository r)) with true
      by (rewrite <- E; destruct (String.eqb d ""), (String.eqb r ""), (matches gen_re_domain d), (matches gen_re_repository r); reflexivity).
    vm_compute. reflexivity.
  - replace (String.eqb d "" || String.eqb r "" || negb (matches gen_re_domain d) || negb (matches gen_re_repository r)) with false
      by (rewrite <- E; destruct (String.eqb d ""), (String.eqb r ""), (matches gen_re_domain d), (matches gen_re_repository r); reflexivity).
    reflexivity.
Qed.
Print Assumptions C09_gen_validateRegistryScopeFormat_equiv.

(* ---------- validateRegistryScopes ---------- *)

Definition cnt (k : string) (l : list string) : nat := List.length (filter (String.eqb k) l).

(* the counting map of the Go code holds the number of occurrences seen so far *)
Definition counts (m : list (string * Z)) (seen : list string) : Prop :=
  forall k, map_get_or String.eqb 0%Z k m = Z.of_nat (cnt k seen).

Lemma cnt_app k a b : cnt k (a ++ b) = (cnt k a + cnt k b)%nat.
Proof. unfold cnt. rewrite filter_app, app_length. reflexivity. Qed.

Lemma cnt_mem k l : mem_str k l = Nat.ltb 0 (cnt k l).
Proof.
  unfold mem_str, cnt. induction l as [|x l IH]; [reflexivity|].
  cbn [existsb filter]. destruct (String.eqb k x); [reflexivity|exact IH].
Qed.

Lemma has_dup_cnt l : has_dup l = true <-> exists k, (2 <= cnt k l)%nat.
Proof.
  induction l as [|x r IH]; cbn [has_dup].
  - split; [discriminate|]. intros [k H]. cbn in H. lia.
  - rewrite orb_true_iff, IH. split.
    + intros [H|[k H]].
      * exists x. rewrite cnt_mem in H. apply Nat.ltb_lt in H. unfold cnt in *. cbn [filter].
        rewrite String.eqb_refl. cbn [List.length]. lia.
      * exists k. unfold cnt in *. cbn [filter]. destruct (String.eqb k x); cbn [List.length]; lia.
    + intros [k H]. unfold cnt in H. cbn [filter] in H. destruct (String.eqb k x) eqn:E.
      * apply String.eqb_eq in E. subst x. left. rewrite cnt_mem. apply Nat.ltb_lt. unfold cnt. cbn [List.length] in H. lia.
      * right. exists k. exact H.
Qed.

Lemma counts_add m seen sc :
  counts m seen ->
  counts (map_set String.eqb sc (map_get_or String.eqb 0%Z sc m + 1)%Z m) (seen ++ [sc]).
Proof.
  intros H k. unfold map_get_or. rewrite (map_get_set String.eqb string_eqb_spec').
  rewrite cnt_app. unfold cnt at 2. cbn [filter].
  destruct (String.eqb k sc) eqn:E.
  - apply String.eqb_eq in E. subst k. pose proof (H sc) as Hs. unfold map_get_or in Hs. rewrite Hs.
    cbn [List.length]. lia.
  - pose proof (H k) as Hk. unfold map_get_or in Hk. rewrite Hk. cbn [List.length]. lia.
Qed.

Definition dup_err : err :=
  Err "fmt" "registry scope %q is present in multiple oci trust policy statements, one registry scope value can only be associated with one statement" [].

Lemma dup_loop m : forall l,
  gen_trustpolicy_validateRegistryScopes_loop2 (fun _ => None) m l
  = if existsb (fun kv => (map_get_or String.eqb 0%Z (fst kv) m >? 1)%Z) l then Some dup_err else None.
Proof.
  induction l as [|kv l IH]; [reflexivity|].
  cbn [gen_trustpolicy_validateRegistryScopes_loop2 existsb].
  destruct (map_get_or String.eqb 0%Z (fst kv) m >? 1)%Z; [reflexivity|exact IH].
Qed.

Lemma map_get_in {V} (m : list (string * V)) k v : map_get String.eqb k m = Some v -> In (k, v) m.
Proof.
  induction m as [|[k' v'] m IH]; cbn; [discriminate|].
  destruct (String.eqb k k') eqn:E.
  - intros H. inversion H; subst. apply String.eqb_eq in E. subst. left. reflexivity.
  - intros H. right. apply IH. exact H.
Qed.

Lemma dup_check m seen :
  counts m seen ->
  existsb (fun kv => (map_get_or String.eqb 0%Z (fst kv) m >? 1)%Z) (map_entries String.eqb m) = has_dup seen.
Proof.
  intros H. apply eq_true_iff_eq. rewrite existsb_exists, has_dup_cnt. split.
  - intros [[k v] [_ Hk]]. cbn [fst] in Hk. exists k. rewrite H in Hk. apply Z.gtb_lt in Hk. lia.
  - intros [k Hk]. pose proof (H k) as Hm. unfold map_get_or in Hm.
    destruct (map_get String.eqb k m) as [v|] eqn:G; [|lia].
    exists (k, v). split.
    + apply map_get_in. rewrite (map_get_entries String.eqb string_eqb_spec'). exact G.
    + cbn [fst]. unfold map_get_or. rewrite G. apply Z.gtb_lt. lia.
Qed.

(* the scopes of one statement *)
Lemma scopes_inner_loop K scs : forall m seen,
  counts m seen ->
  (exists e, gen_trustpolicy_validateRegistryScopes_loop3 K scs m = Some e
             /\ errc_of (Some e) = scopes_inner scs /\ scopes_inner scs <> EOk)
  \/ (scopes_inner scs = EOk
      /\ exists m', gen_trustpolicy_validateRegistryScopes_loop3 K scs m = K m' /\ counts m' (seen ++ scs)).
Proof.
  induction scs as [|sc rest IH]; intros m seen Hc.
  - right. split; [reflexivity|]. exists m. split; [reflexivity|]. rewrite app_nil_r. exact Hc.
  - cbn [gen_trustpolicy_validateRegistryScopes_loop3 scopes_inner]. unfold wildcard.
    assert (Hnext : forall e0, e0 = EOk ->
      (exists e, gen_trustpolicy_validateRegistryScopes_loop3 K rest
                   (map_set String.eqb sc (map_get_or String.eqb 0%Z sc m + 1)%Z m) = Some e
                 /\ errc_of (Some e) = (e0 ;; scopes_inner rest) /\ (e0 ;; scopes_inner rest) <> EOk)
      \/ ((e0 ;; scopes_inner rest) = EOk
          /\ exists m', gen_trustpolicy_validateRegistryScopes_loop3 K rest
                          (map_set String.eqb sc (map_get_or String.eqb 0%Z sc m + 1)%Z m) = K m'
                        /\ counts m' (seen ++ sc :: rest))).
    { intros e0 ->. cbn [andthen].
      destruct (IH _ (seen ++ [sc]) (counts_add m seen sc Hc)) as [H|[H1 [m' [H2 H3]]]]; [left; exact H|].
      right. split; [exact H1|]. exists m'. split; [exact H2|]. rewrite <- app_assoc in H3. exact H3. }
    destruct (String.eqb sc "*"); cbn [negb]; [apply Hnext; reflexivity|].
    pose proof (C09_gen_validateRegistryScopeFormat_equiv sc) as Hf.
    destruct (gen_trustpolicy_validateRegistryScopeFormat sc) as [e|]; cbn [is_none negb].
    + left. exists e. rewrite <- Hf. pose proof (errc_of_some_not_ok e) as N.
      split; [reflexivity|]. unfold andthen. destruct (errc_of (Some e)); try (split; [reflexivity|discriminate]).
      exfalso. apply N. reflexivity.
    + apply Hnext. rewrite <- Hf. reflexivity.
Qed.

Lemma scopes_outer_loop : forall ss m seen,
  counts m seen ->
  errc_of (gen_trustpolicy_validateRegistryScopes_loop1 ss m)
  = (scopes_loop (map (fun s => mk_stmt "" (mk_sv "" [] "") [] [] (OCITrustPolicy_RegistryScopes s) false) ss)
     ;; (if has_dup (seen ++ flat_map OCITrustPolicy_RegistryScopes ss) then EScopeDup else EOk)).
Proof.
  induction ss as [|s rest IH]; intros m seen Hc.
  - cbn [gen_trustpolicy_validateRegistryScopes_loop1 map scopes_loop flat_map andthen].
    rewrite dup_loop, (dup_check m seen Hc), app_nil_r.
    destruct (has_dup seen); [vm_compute; reflexivity|reflexivity].
  - cbn [gen_trustpolicy_validateRegistryScopes_loop1 map scopes_loop flat_map C09_Model.s_scopes].
    rewrite is_empty_len, list_len_gt1, C09_gen_Contains_equiv. unfold wildcard.
    destruct (is_empty (OCITrustPolicy_RegistryScopes s)); [vm_compute; reflexivity|].
    destruct (Nat.ltb 1 (List.length (OCITrustPolicy_RegistryScopes s)) && mem_str "*" (OCITrustPolicy_RegistryScopes s));
      [vm_compute; reflexivity|].
    destruct (scopes_inner_loop (fun m0 => gen_trustpolicy_validateRegistryScopes_loop1 rest m0)
                (OCITrustPolicy_RegistryScopes s) m seen Hc) as [[e [H1 [H2 H3]]]|[H1 [m' [H2 H3]]]].
    + rewrite H1, H2. unfold andthen.
      destruct (scopes_inner (OCITrustPolicy_RegistryScopes s)); try reflexivity. exfalso. apply H3. reflexivity.
    + rewrite H2, H1. cbn [andthen]. rewrite (IH m' _ H3), <- app_assoc. reflexivity.
Qed.

(* the model's statement of a generated one *)
Definition stmt_of_oci (s : trustpolicy_OCITrustPolicy) : stmt :=
  mk_stmt (OCITrustPolicy_Name s) (sigver_of (OCITrustPolicy_SignatureVerification s))
          (OCITrustPolicy_TrustStores s) (OCITrustPolicy_TrustedIdentities s) (OCITrustPolicy_RegistryScopes s) false.

Definition stmt_of_blob (s : trustpolicy_BlobTrustPolicy) : stmt :=
  mk_stmt (BlobTrustPolicy_Name s) (sigver_of (BlobTrustPolicy_SignatureVerification s))
          (BlobTrustPolicy_TrustStores s) (BlobTrustPolicy_TrustedIdentities s) [] (BlobTrustPolicy_GlobalPolicy s).

Definition doc_of_oci (d : trustpolicy_OCIDocument) : doc :=
  mk_doc (OCIDocument_Version d) (map stmt_of_oci (OCIDocument_TrustPolicies d)).

Definition doc_of_blob (d : trustpolicy_BlobDocument) : doc :=
  mk_doc (BlobDocument_Version d) (map stmt_of_blob (BlobDocument_TrustPolicies d)).

Lemma scopes_loop_ext : forall (ss : list trustpolicy_OCITrustPolicy),
  scopes_loop (map (fun s => mk_stmt "" (mk_sv "" [] "") [] [] (OCITrustPolicy_RegistryScopes s) false) ss)
  = scopes_loop (map stmt_of_oci ss).
Proof. induction ss as [|s r IH]; [reflexivity|]. cbn. rewrite IH. reflexivity. Qed.

Theorem C09_gen_validateRegistryScopes_equiv :
  forall d, errc_of (gen_trustpolicy_validateRegistryScopes d) = validate_registry_scopes (d_stmts (doc_of_oci d)).
Proof.
  intros d. unfold gen_trustpolicy_validateRegistryScopes, validate_registry_scopes, doc_of_oci.
  cbn [d_stmts]. rewrite (scopes_outer_loop _ [] []); [|intros k; reflexivity].
  rewrite scopes_loop_ext. cbn [app].
  assert (F : forall ss, flat_map C09_Model.s_scopes (map stmt_of_oci ss) = flat_map OCITrustPolicy_RegistryScopes ss).
  { induction ss as [|s r IH]; [reflexivity|]. cbn. rewrite IH. reflexivity. }
  rewrite F. reflexivity.
Qed.
Print Assumptions C09_gen_validateRegistryScopes_equiv.

(* ---------- OCIDocument.Validate ---------- *)

Lemma set_contains_add (pset : list (string * unit)) s x :
  gen_container_Set_Contains_string (gen_container_Set_Add_string pset s) x
  = String.eqb x s || gen_container_Set_Contains_string pset x.
Proof.
  unfold gen_container_Set_Contains_string, gen_container_Set_Add_string, map_get_ok.
  rewrite (map_get_set String.eqb string_eqb_spec').
  destruct (String.eqb x s); reflexivity.
Qed.

Lemma wrapper_class x :
  errc_of (Some (Err "fmt" "oci trust policy: %w" [x])) = errc_of (Some x)
  /\ errc_of (Some (Err "fmt" "blob trust policy: %w" [x])) = errc_of (Some x).
Proof. split; reflexivity. Qed.

Lemma oci_loop_spec parse (Hp : parse_agrees parse) dv : forall ss pset names,
  (forall x, gen_container_Set_Contains_string pset x = mem_str x names) ->
  exists r, gen_trustpolicy_OCIDocument_Validate_loop1 parse dv ss pset = Some r
            /\ errc_of r = (oci_loop (map stmt_of_oci ss) names ;; validate_registry_scopes (d_stmts (doc_of_oci dv))).
Proof.
  induction ss as [|s rest IH]; intros pset names Hn.
  - cbn [gen_trustpolicy_OCIDocument_Validate_loop1 map oci_loop andthen].
    pose proof (C09_gen_validateRegistryScopes_equiv dv) as Hs.
    destruct (gen_trustpolicy_validateRegistryScopes dv) as [e|]; cbn [is_none negb];
      eexists; (split; [reflexivity|]); exact Hs.
  - cbn [gen_trustpolicy_OCIDocument_Validate_loop1 map oci_loop]. rewrite Hn.
    cbn [stmt_of_oci C09_Model.s_name]. destruct (mem_str (OCITrustPolicy_Name s) names); [eexists; split; [reflexivity|vm_compute; reflexivity]|].
    unfold core_of. cbn [stmt_of_oci C09_Model.s_name C09_Model.s_sv C09_Model.s_stores C09_Model.s_ids].
    destruct (C09_gen_validatePolicyCore_equiv parse Hp (OCITrustPolicy_Name s) (OCITrustPolicy_SignatureVerification s)
                (OCITrustPolicy_TrustStores s) (OCITrustPolicy_TrustedIdentities s)) as [r [Hr1 Hr2]].
    rewrite Hr1. rewrite <- Hr2. destruct r as [x|]; cbn [is_none negb olist].
    + eexists; split; [reflexivity|]. rewrite (proj1 (wrapper_class x)).
      pose proof (errc_of_some_not_ok x) as N. unfold andthen.
      destruct (errc_of (Some x)); try reflexivity. exfalso. apply N. reflexivity.
    + cbn [errc_of andthen]. apply IH. intros y. rewrite set_contains_add, Hn. reflexivity.
Qed.

Theorem C09_gen_OCIDocument_Validate_equiv :
  forall parse, parse_agrees parse ->
  forall p, exists r, gen_trustpolicy_OCIDocument_Validate parse p = Some r
                      /\ errc_of r = validate_ptr OCI (option_map doc_of_oci (ptr_val p)).
Proof.
  intros parse Hp p. unfold gen_trustpolicy_OCIDocument_Validate.
  destruct (ptr_val p) as [dv|]; cbn [option_map validate_ptr validate].
  2:{ eexists; split; [reflexivity|vm_compute; reflexivity]. }
  unfold validate_oci, doc_of_oci at 1 2 3. cbn [d_version d_stmts].
  destruct (String.eqb (OCIDocument_Version dv) ""); [eexists; split; [reflexivity|vm_compute; reflexivity]|].
  rewrite C09_gen_Contains_equiv. change trustpolicy_supportedOCIPolicyVersions with supported_versions.
  destruct (mem_str (OCIDocument_Version dv) supported_versions); cbn [negb];
    [|eexists; split; [reflexivity|vm_compute; reflexivity]].
  rewrite is_empty_len.
  assert (He : is_empty (map stmt_of_oci (OCIDocument_TrustPolicies dv)) = is_empty (OCIDocument_TrustPolicies dv))
    by (destruct (OCIDocument_TrustPolicies dv); reflexivity).
  rewrite He. destruct (is_empty (OCIDocument_TrustPolicies dv)); [eexists; split; [reflexivity|vm_compute; reflexivity]|].
  apply (oci_loop_spec parse Hp dv). intros x. reflexivity.
Qed.
Print Assumptions C09_gen_OCIDocument_Validate_equiv.

(* ---------- BlobDocument.Validate ---------- *)

Lemma blob_loop_spec parse (Hp : parse_agrees parse) : forall ss pset names fg,
  (forall x, gen_container_Set_Contains_string pset x = mem_str x names) ->
  exists r, gen_trustpolicy_BlobDocument_Validate_loop1 parse ss pset fg = Some r
            /\ errc_of r = blob_loop (map stmt_of_blob ss) names fg.
Proof.
  induction ss as [|s rest IH]; intros pset names fg Hn.
  - eexists; split; reflexivity.
  - cbn [gen_trustpolicy_BlobDocument_Validate_loop1 map blob_loop]. rewrite Hn.
    cbn [stmt_of_blob C09_Model.s_name C09_Model.s_global C09_Model.s_sv].
    destruct (mem_str (BlobTrustPolicy_Name s) names); [eexists; split; [reflexivity|vm_compute; reflexivity]|].
    unfold core_of. cbn [stmt_of_blob C09_Model.s_name C09_Model.s_sv C09_Model.s_stores C09_Model.s_ids].
    destruct (C09_gen_validatePolicyCore_equiv parse Hp (BlobTrustPolicy_Name s) (BlobTrustPolicy_SignatureVerification s)
                (BlobTrustPolicy_TrustStores s) (BlobTrustPolicy_TrustedIdentities s)) as [r [Hr1 Hr2]].
    rewrite Hr1. rewrite <- Hr2. destruct r as [x|]; cbn [is_none negb olist].
    + eexists; split; [reflexivity|]. rewrite (proj2 (wrapper_class x)).
      pose proof (errc_of_some_not_ok x) as N. unfold andthen.
      destruct (errc_of (Some x)); try reflexivity. exfalso. apply N. reflexivity.
    + cbn [errc_of andthen]. unfold sigver_of. cbn [C09_Model.sv_level].
      change (VerificationLevel_Name trustpolicy_LevelSkip_v) with "skip". unfold sv_lvl.
      assert (Hn' : forall y, gen_container_Set_Contains_string (gen_container_Set_Add_string pset (BlobTrustPolicy_Name s)) y
                              = mem_str y (BlobTrustPolicy_Name s :: names))
        by (intros y; rewrite set_contains_add, Hn; reflexivity).
      destruct (BlobTrustPolicy_GlobalPolicy s).
      * destruct fg; [eexists; split; [reflexivity|vm_compute; reflexivity]|].
        destruct (String.eqb (SignatureVerification_VerificationLevel (BlobTrustPolicy_SignatureVerification s)) "skip");
          [eexists; split; [reflexivity|vm_compute; reflexivity]|].
        apply IH. exact Hn'.
      * apply IH. exact Hn'.
Qed.

Theorem C09_gen_BlobDocument_Validate_equiv :
  forall parse, parse_agrees parse ->
  forall p, exists r, gen_trustpolicy_BlobDocument_Validate parse p = Some r
                      /\ errc_of r = validate_ptr Blob (option_map doc_of_blob (ptr_val p)).
Proof.
  intros parse Hp p. unfold gen_trustpolicy_BlobDocument_Validate.
  destruct (ptr_val p) as [dv|]; cbn [option_map validate_ptr validate].
  2:{ eexists; split; [reflexivity|vm_compute; reflexivity]. }
  unfold validate_blob, doc_of_blob. cbn [d_version d_stmts].
  destruct (String.eqb (BlobDocument_Version dv) ""); [eexists; split; [reflexivity|vm_compute; reflexivity]|].
  rewrite C09_gen_Contains_equiv. change trustpolicy_supportedBlobPolicyVersions with supported_versions.
  destruct (mem_str (BlobDocument_Version dv) supported_versions); cbn [negb];
    [|eexists; split; [reflexivity|vm_compute; reflexivity]].
  rewrite is_empty_len.
  assert (He : is_empty (map stmt_of_blob (BlobDocument_TrustPolicies dv)) = is_empty (BlobDocument_TrustPolicies dv))
    by (destruct (BlobDocument_TrustPolicies dv); reflexivity).
  rewrite He. destruct (is_empty (BlobDocument_TrustPolicies dv)); [eexists; split; [reflexivity|vm_compute; reflexivity]|].
  apply (blob_loop_spec parse Hp). intros x. reflexivity.
Qed.
Print Assumptions C09_gen_BlobDocument_Validate_equiv.

(* ---------- the property, transported onto the code as translated ---------- *)

(* Validate returns nil exactly for a non-nil document that obeys every rule
   (C09_ptr_iff of props/C09_Property.v), now a statement about the generated
   functions. The document is read through doc_of_oci / doc_of_blob (override
   maps as the maps they denote). *)
Corollary C09_gen_OCIDocument_Validate_accepts_iff :
  forall parse, parse_agrees parse ->
  forall p, gen_trustpolicy_OCIDocument_Validate parse p = Some None
            <-> exists dv, ptr_val p = Some dv /\ WellFormed OCI (doc_of_oci dv).
Proof.
  intros parse Hp p. destruct (C09_gen_OCIDocument_Validate_equiv parse Hp p) as [r [H1 H2]].
  rewrite H1. transitivity (validate_ptr OCI (option_map doc_of_oci (ptr_val p)) = EOk).
  - rewrite <- H2. destruct r as [x|]; split; intros H; try reflexivity; try discriminate.
    exfalso. exact (errc_of_some_not_ok x H).
  - rewrite ptr_iff. split.
    + intros [d [Hd Hw]]. destruct (ptr_val p) as [dv|]; [|discriminate]. exists dv. split; [reflexivity|].
      cbn in Hd. inversion Hd. subst d. exact Hw.
    + intros [dv [Hd Hw]]. rewrite Hd. exists (doc_of_oci dv). split; [reflexivity|exact Hw].
Qed.
Print Assumptions C09_gen_OCIDocument_Validate_accepts_iff.

Corollary C09_gen_BlobDocument_Validate_accepts_iff :
  forall parse, parse_agrees parse ->
  forall p, gen_trustpolicy_BlobDocument_Validate parse p = Some None
            <-> exists dv, ptr_val p = Some dv /\ WellFormed Blob (doc_of_blob dv).
Proof.
  intros parse Hp p. destruct (C09_gen_BlobDocument_Validate_equiv parse Hp p) as [r [H1 H2]].
  rewrite H1. transitivity (validate_ptr Blob (option_map doc_of_blob (ptr_val p)) = EOk).
  - rewrite <- H2. destruct r as [x|]; split; intros H; try reflexivity; try discriminate.
    exfalso. exact (errc_of_some_not_ok x H).
  - rewrite ptr_iff. split.
    + intros [d [Hd Hw]]. destruct (ptr_val p) as [dv|]; [|discriminate]. exists dv. split; [reflexivity|].
      cbn in Hd. inversion Hd. subst d. exact Hw.
    + intros [dv [Hd Hw]]. rewrite Hd. exists (doc_of_blob dv). split; [reflexivity|exact Hw].
Qed.
Print Assumptions C09_gen_BlobDocument_Validate_accepts_iff.
